"""Case families (generators) used by the engine-level checks; referenced by name from explore.py."""
from . import engine as E
from . import enginecheck as EC

# Stream A (seeded): claimed-clean domain of DESIGN §4.3 — fresh paths between drains, folder
# rename/move/delete bracketed by drains, acting side(s) id-stable, event filtering off
# (filtered flavours are explored by the deterministic Stream B only: soak found 11 genuine
# engine failures in 20 000 filtered clean-domain runs, none unfiltered).
CLEAN_FLAVOURS = [f for f in E.ALL_FLAVOURS if not f.filt]


def one_sided(rng):
    return EC.gen_one_sided(rng, CLEAN_FLAVOURS)


def disjoint(rng):
    return EC.gen_disjoint(rng, CLEAN_FLAVOURS)


def one_sided_filtered(rng):
    return EC.gen_one_sided(rng, [f for f in E.ALL_FLAVOURS if f.filt])


def conflicts(rng):
    """C01/C02/C05 family: same-file edit/edit and same-path create/create between drains (default
    resolver), mixed with non-conflicting fresh-path operations; both sides id-stable."""
    cands = [f for f in CLEAN_FLAVOURS if not f.oip[0] and not f.oip[1]]
    fl = rng.choice(cands)
    g = EC.Gen(rng, fl, [0, 1], 0)
    g.allow_empty = False       # contents are unique tokens, so survival of a version is decidable
    g.make_base(rng.randint(1, 5))
    g.sched.append(["drain"])
    for _ in range(rng.randint(1, 4)):
        r = rng.random()
        files = g.files()
        if r < 0.45 and files:
            rel = rng.choice(files)                      # edit / edit
            first = rng.choice([0, 1])
            same = rng.random() < 0.15
            c1 = g.content()
            c2 = c1 if same else g.content()
            g.sched.append(["user", first, ["write", g.abs(first, rel), c1]])
            g.engine_noise(0.4)
            g.sched.append(["user", 1 - first, ["write", g.abs(1 - first, rel), c2]])
        elif r < 0.8:
            d = rng.choice(g.dirs())                     # create / create at the same fresh path
            rel = d + "/" + g.fresh("F")
            first = rng.choice([0, 1])
            same = rng.random() < 0.2
            c1 = g.content()
            c2 = c1 if same else g.content()
            g.tree[rel] = "F"
            g.sched.append(["user", first, ["create", g.abs(first, rel), c1]])
            g.engine_noise(0.4)
            g.sched.append(["user", 1 - first, ["create", g.abs(1 - first, rel), c2]])
        else:
            side = rng.choice([0, 1])                    # an unrelated fresh creation
            g.one_op_simple(side)
        g.engine_noise(0.5)
        g.sched.append(["drain"])
    return dict(flavour=fl.key(), base=g.base, schedule=g.sched, hash_mult=rng.choice([1, 3, 7, 11, 2654435761]),
                mode=dict(origin=None, check_spec=False, no_conflicted=False, cov_every_step=True))


def edit_vs_delete(rng):
    """C02 family: a synchronised file is deleted (or renamed) on one side while the other side writes a newer
    version, in either order, with any engine steps in between; the newer version must survive (covered set).
    Both sides id-stable, one racing pair per drain, fresh names."""
    cands = [f for f in CLEAN_FLAVOURS if not f.oip[0] and not f.oip[1]]
    fl = rng.choice(cands)
    g = EC.Gen(rng, fl, [0, 1], 0)
    g.allow_empty = False
    for _ in range(rng.randint(2, 5)):
        rel = "/" + g.fresh("F")
        g.tree[rel] = "F"
        g.base.append(["create", g.abs(0, rel), g.content()])
    g.sched.append(["drain"])
    for _ in range(rng.randint(1, 3)):
        files = g.files()
        if not files:
            break
        rel = rng.choice(files)
        x = rng.choice([0, 1])                 # the side that deletes
        y = 1 - x
        dele = ["user", x, ["delete", g.abs(x, rel)]]
        edit = ["user", y, ["write", g.abs(y, rel), g.content()]]
        first, second = (dele, edit) if rng.random() < 0.5 else (edit, dele)
        g.sched.append(first)
        g.engine_noise(0.5)
        g.sched.append(second)
        # the engine learns of the two changes in any order, with sync steps in between
        for _ in range(rng.randint(0, 4)):
            g.sched.append(rng.choice([["intake", 0], ["intake", 1], ["sync"]]))
        if rng.random() < 0.3:
            g.one_op_simple(rng.choice([0, 1]))
        g.sched.append(["drain"])
        del g.tree[rel]        # whatever the outcome, the name is not used again
    return dict(flavour=fl.key(), base=g.base, schedule=g.sched, hash_mult=rng.choice([1, 3, 7, 11, 2654435761]),
                mode=dict(origin=None, check_spec=False, no_conflicted=False, cov_every_step=True))


def confinement(rng):
    """C12 family: one acting side (id-stable); objects inside the root, in other folders, in a prefix-sibling
    folder, at the account root; moves across the root boundary; roots by path or by oid; optionally a translate
    function that declines a sub-folder."""
    side = rng.choice([0, 1])
    base_fl = rng.choice([f for f in CLEAN_FLAVOURS if not f.oip[side]])
    cs = base_fl.cs
    mixed = rng.random() < 0.3
    if mixed:
        # providers of different case sensitivity; users act on the case-SENSITIVE side, where a folder whose name
        # differs from the root only by case ('/Remote' next to '/remote') is a different folder outside the root
        cs = (side == 0, side == 1)
    roots = base_fl.roots
    nested_names = (not mixed) and rng.random() < 0.25
    if nested_names:
        # the OTHER side's root path, read as a string, is an ancestor of everything on the acting side
        # ('/w/local' <-> '/w', or '/' as the other root): a path outside the acting side's root then still lies
        # "under" the other root's path string, which must not matter - each side is judged against its own root
        other_root = rng.choice(["/w", "/"])
        mine = "/w/local" if side == 0 else "/w/remote"
        roots = (mine, other_root) if side == 0 else (other_root, mine)
    fl = E.Flavour(base_fl.oip, cs, False, rng.choice(["path", "oid"]), roots)
    g = EC.Gen(rng, fl, [side], 0)
    g.allow_empty = False
    root = fl.roots[side]
    sib = root + "2"                       # '/local2' : shares only a name prefix with the root
    outs = ["/other", sib, root + "x"]
    if nested_names:
        outs.append("/w/elsewhere")
    if mixed:
        outs.append("/" + root.strip("/").capitalize())
    decline = rng.random() < 0.3
    base, base_other = [], []
    g.make_base(rng.randint(1, 4))         # inside objects, created on side 0 and synchronised
    base += g.base
    # outside objects live on the acting side only (they must never be copied anywhere)
    pre = []
    for d in outs:
        pre.append(["mkdir", d])
        pre.append(["create", d + "/" + g.fresh("F"), g.content()])
    pre.append(["create", "/" + g.fresh("F"), g.content()])
    (base if side == 0 else base_other).extend(pre)
    # the other side has unrelated outside content too
    other_pre = [["mkdir", "/elsewhere"], ["create", "/elsewhere/" + g.fresh("F"), g.content()]]
    (base_other if side == 0 else base).extend(other_pre)
    priv_files = []
    if decline:
        # the declined folder is not part of the generator's tree: nothing is moved across its boundary
        # (moving a synced file into a declined folder leaves the peer copy behind: finding E-12, Stream B)
        base.append(["mkdir", g.abs(0, "/private")])
    out_files = [a[1] for a in pre if a[0] == "create"]
    sched = g.sched
    sched.append(["drain"])
    for _ in range(rng.randint(2, 10)):
        r = rng.random()
        if r < 0.35:
            g.one_op(side)
        elif decline and r < 0.42:                        # operations inside the declined folder
            if priv_files and rng.random() < 0.5:
                p = rng.choice(priv_files)
                if rng.random() < 0.5:
                    sched.append(["user", side, ["write", p, g.content()]])
                else:
                    priv_files.remove(p)
                    sched.append(["user", side, ["delete", p]])
            else:
                p = g.abs(side, "/private/" + g.fresh("F"))
                priv_files.append(p)
                sched.append(["user", side, ["create", p, g.content()]])
        elif r < 0.5:                                     # operations entirely outside
            d = rng.choice(outs)
            k = rng.random()
            if k < 0.5:
                p = d + "/" + g.fresh("F")
                out_files.append(p)
                sched.append(["user", side, ["create", p, g.content()]])
            elif k < 0.75 and out_files:
                sched.append(["user", side, ["write", rng.choice(out_files), g.content()]])
            elif out_files:
                p = out_files.pop(rng.randrange(len(out_files)))
                q = rng.choice(outs) + "/" + g.fresh("F")
                out_files.append(q)
                sched.append(["user", side, ["rename", p, q]])
        elif r < 0.7 and g.files(side):                   # move a file out of the root
            rel = rng.choice(g.files(side))
            del g.tree[rel]
            q = rng.choice(outs + [""]) + "/" + g.fresh("F")
            out_files.append(q)
            sched.append(["user", side, ["rename", g.abs(side, rel), q]])
        elif r < 0.85 and out_files:                      # move a file into the root
            p = out_files.pop(rng.randrange(len(out_files)))
            d = rng.choice(g.dirs(side))
            rel = d + "/" + g.fresh("F")
            g.tree[rel] = "F"
            sched.append(["user", side, ["rename", p, g.abs(side, rel)]])
        elif r < 0.93:                                    # move a folder out of the root (bracketed)
            ds = [d for d in g.dirs(side) if d]
            if ds:
                src = rng.choice(ds)
                g.drain()
                for p in list(g.tree):
                    if p == src or p.startswith(src + "/"):
                        del g.tree[p]
                q = rng.choice(outs) + "/" + g.fresh("D")
                sched.append(["user", side, ["rename", g.abs(side, src), q]])
                g.drain()
        else:                                             # an EMPTY folder moved into the root (bracketed), then filled
            # (a non-empty folder moved in is not picked up with unfiltered events: known finding E-11, Stream B)
            q = rng.choice(outs) + "/" + g.fresh("D")
            f = g.fresh("F")
            sched.append(["user", side, ["mkdir", q]])
            rel = "/" + g.fresh("D")
            g.drain()
            g.tree[rel] = "D"
            sched.append(["user", side, ["rename", q, g.abs(side, rel)]])
            g.drain()
            g.tree[rel + "/" + f] = "F"
            sched.append(["user", side, ["create", g.abs(side, rel + "/" + f), g.content()]])
        g.engine_noise(0.5)
        if rng.random() < 0.15:
            g.drain()
    case = dict(flavour=fl.key(), base=base, base_other=base_other, schedule=sched,
                hash_mult=rng.choice([1, 3, 7, 11, 2654435761]),
                mode=dict(origin=side, check_spec=False, no_conflicted=True, cov_every_step=True))
    if decline:
        case["decline"] = "private"
        case["ignore_names"] = ["private"]
        case["mode"]["no_conflicted"] = False      # the ignore list doubles as the conflicted-name list
    return case


def boundary_races(rng):
    """C12 family (two-sided): side A moves a synchronised file (or a folder with files) across the root boundary
    - out of the root, or to a path the translate function declines - while side B concurrently writes, renames or
    deletes the SAME object (or a file inside the moved folder); the engine learns of the two changes in any order.
    Whatever it does, it must never address anything outside a root (guards CONFINED / OUTSIDE); the views must
    converge and no covered version may vanish.  Both sides id-stable or path-style (the fix bbf04b7 is id-agnostic).
    Not generated: the peer renaming the moved-out FOLDER itself (known engine defect: empty folder left behind)."""
    fl0 = rng.choice([f for f in CLEAN_FLAVOURS if f.cs == (True, True)])
    fl = E.Flavour(fl0.oip, fl0.cs, False, rng.choice(["path", "oid"]), fl0.roots)
    a = rng.choice([0, 1])
    b = 1 - a
    g = EC.Gen(rng, fl, [0, 1], 0)
    g.allow_empty = False
    base, base_other = [], []
    out = "/outside"
    (base if a == 0 else base_other).append(["mkdir", out])
    files, folders = [], []
    for i in range(rng.randint(2, 4)):
        rel = "/" + g.fresh("F")
        files.append(rel)
        base.append(["create", g.abs(0, rel), g.content()])
    for i in range(rng.randint(0, 2)):
        d = "/" + g.fresh("D")
        kids = []
        base.append(["mkdir", g.abs(0, d)])
        for _ in range(rng.randint(1, 2)):
            k = d + "/" + g.fresh("F")
            kids.append(k)
            base.append(["create", g.abs(0, k), g.content()])
        folders.append((d, kids))
    sched = g.sched
    sched.append(["drain"])
    for _ in range(rng.randint(1, 3)):
        if folders and rng.random() < 0.35:
            d, kids = folders.pop(rng.randrange(len(folders)))
            move = ["user", a, ["rename", g.abs(a, d), out + "/" + g.fresh("D")]]
            k = rng.choice(kids)
            r = rng.random()
            if r < 0.4:
                peer = ["user", b, ["write", g.abs(b, k), g.content()]]
            elif r < 0.7:
                peer = ["user", b, ["rename", g.abs(b, k), g.abs(b, d + "/" + g.fresh("F"))]]
            else:
                peer = ["user", b, ["delete", g.abs(b, k)]]
        elif files:
            f = files.pop(rng.randrange(len(files)))
            move = ["user", a, ["rename", g.abs(a, f), out + "/" + g.fresh("F")]]
            r = rng.random()
            if r < 0.4:
                peer = ["user", b, ["write", g.abs(b, f), g.content()]]
            elif r < 0.75:
                peer = ["user", b, ["rename", g.abs(b, f), g.abs(b, "/" + g.fresh("F"))]]
            else:
                peer = ["user", b, ["delete", g.abs(b, f)]]
        else:
            break
        first, second = (move, peer) if rng.random() < 0.5 else (peer, move)
        sched.append(first)
        g.engine_noise(0.4)
        sched.append(second)
        for _ in range(rng.randint(0, 4)):
            sched.append(rng.choice([["intake", 0], ["intake", 1], ["sync"]]))
        sched.append(["drain"])
    return dict(flavour=fl.key(), base=base, base_other=base_other, schedule=sched,
                hash_mult=rng.choice([1, 3, 7, 11, 2654435761]),
                mode=dict(origin=None, check_spec=False, no_conflicted=False, cov_every_step=False))


def declined_races(rng):
    """C12 family (two-sided, custom translate): side A renames a synchronised file to a path the application's
    translate function declines (inside the root) while side B writes, renames or deletes the peer copy; any order.
    Judged only by the guards on engine ACTIONS (CONFINED, OUTSIDE, DECLINED): a declined path is left alone whatever
    else happens.  (What the views look like afterwards is the open finding E-12 and is not judged here.)"""
    fl0 = rng.choice([f for f in CLEAN_FLAVOURS if f.cs == (True, True)])
    fl = E.Flavour(fl0.oip, fl0.cs, False, rng.choice(["path", "oid"]), fl0.roots)
    a = rng.choice([0, 1])
    b = 1 - a
    g = EC.Gen(rng, fl, [0, 1], 0)
    g.allow_empty = False
    base = [["mkdir", g.abs(0, "/private")], ["mkdir", g.abs(0, "/sub")]]
    files = []
    for i in range(rng.randint(1, 3)):
        rel = rng.choice(["", "/sub"]) + "/" + g.fresh("F")
        files.append(rel)
        base.append(["create", g.abs(0, rel), g.content()])
    sched = g.sched
    sched.append(["drain"])
    f = rng.choice(files)
    move = ["user", a, ["rename", g.abs(a, f), g.abs(a, "/private/" + g.fresh("F"))]]
    r = rng.random()
    if r < 0.5:
        peer = ["user", b, ["rename", g.abs(b, f), g.abs(b, rng.choice(["", "/sub"]) + "/" + g.fresh("F"))]]
    elif r < 0.8:
        peer = ["user", b, ["write", g.abs(b, f), g.content()]]
    else:
        peer = ["user", b, ["delete", g.abs(b, f)]]
    first, second = (move, peer) if rng.random() < 0.5 else (peer, move)
    sched.append(first)
    g.engine_noise(0.4)
    sched.append(second)
    for _ in range(rng.randint(0, 5)):
        sched.append(rng.choice([["intake", 0], ["intake", 1], ["sync"]]))
    sched.append(["drain"])
    return dict(flavour=fl.key(), base=base, base_other=[], schedule=sched, decline="private", ignore_names=["private"],
                only_guards=[2, 3, 15], hash_mult=rng.choice([1, 3, 7, 11, 2654435761]),
                mode=dict(origin=None, check_spec=False, no_conflicted=False, cov_every_step=False))


def run_confinement(case, monitor):
    hooks = {}
    if case.get("decline"):
        import cloudsync
        word = "/" + case["decline"]

        def translate(cs, side, path):
            if word in path:
                return None
            return cloudsync.CloudSync.translate(cs, side, path)
        hooks["translate"] = translate
    res = EC.run_case(case, monitor, hooks=hooks)
    if case.get("only_guards") and res.verdict != [] and res.verdict[1] not in case["only_guards"]:
        res.extra["ignored_guard"] = res.verdict[1]      # this family judges engine actions only
        res.verdict = []
    return res


def restarts(rng):
    """C06 family: a clean one-sided or disjoint history with the engine stopped at random step boundaries and a new
    engine started over the same storage file and accounts; operations while stopped; three modes."""
    two = rng.random() < 0.4
    if two:
        case = None
        fl = rng.choice([f for f in CLEAN_FLAVOURS if not f.oip[0] and not f.oip[1]])
        g = EC.Gen(rng, fl, [0, 1], 0, owner={})
        for i in range(rng.randint(2, 3)):
            rel = "/" + g.fresh("D")
            g.tree[rel] = "D"
            g.base.append(["mkdir", g.abs(0, rel)])
            g.owner[rel] = i % 2
            for _ in range(rng.randint(0, 2)):
                sub = rel + "/" + g.fresh("F")
                g.tree[sub] = "F"
                g.base.append(["create", g.abs(0, sub), g.content()])
        sides = [0, 1]
        origin = None
    else:
        side = rng.choice([0, 1])
        fl = rng.choice([f for f in CLEAN_FLAVOURS if not f.oip[side]])
        g = EC.Gen(rng, fl, [side], 0)
        g.make_base(rng.randint(0, 5))
        sides = [side]
        origin = side
    g.allow_empty = False
    n_restarts = 0
    for _ in range(rng.randint(2, 10)):
        g.one_op(rng.choice(sides))
        g.engine_noise()
        r = rng.random()
        if r < 0.3:
            mode = rng.choice(["intact", "intact", "cursor_removed", "cursor_rejected"])
            if mode != "intact":
                g.drain()          # fallback modes only promise creations/modifications (property text)
            g.sched.append(["stop"])
            for _ in range(rng.randint(0, 3)):
                g.offline_op(rng.choice(sides), creations_only=(mode != "intact"))
            g.sched.append(["start", mode])
            n_restarts += 1
            if mode != "intact":
                # the outage lasts until the engine has noticed the bad cursor (first intake of each side) and
                # finished the fallback walk: deletions made before that may be missed (property text)
                g.sched += [["intake", 0], ["intake", 1], ["sync"]]
                g.drain()
            g.engine_noise()
        elif r < 0.4:
            g.drain()
    if n_restarts == 0:
        g.sched.append(["stop"])
        g.sched.append(["start", "intact"])
    return dict(flavour=fl.key(), base=g.base, schedule=g.sched, hash_mult=rng.choice([1, 3, 7, 11, 2654435761]),
                mode=dict(origin=origin, check_spec=True, no_conflicted=True, cov_every_step=True))


def run_restarts(case, monitor):
    return EC.run_case(case, monitor, storage_factory="sqlite-file", oracles=("cursor", "index", "storage"))


# ------------------------------------------------------------------ Stream B (deterministic; see streamb_gen.py)
from . import streamb_gen as SB


def sb_one(i):
    return SB.wild_one(i)


def sb_two(i):
    return SB.wild_two(i)


sb_one.by_index = True
sb_two.by_index = True

# Stream B generator 2: the exhaustive tiny scope over a nested base tree (streamb_gen2.py, enumerated).
# sb_nest = every case (C01); sb_nest_one = the one-sided cases (C03); sb_nest_two = the two-sided disjoint cases (C04);
# in each enumeration every pair-history case precedes every triple-history case.
from . import streamb_gen2 as SB2


def sb_nest(i):
    return SB2.case(i)


def sb_nest_one(i):
    return SB2.one(i)


def sb_nest_two(i):
    return SB2.two(i)


sb_nest.by_index = True
sb_nest_one.by_index = True
sb_nest_two.by_index = True

# Stream B generator 3: path re-use on one side (streamb_gen3.py, enumerated): vacate a path and re-occupy it, with the
# 'uploaded, echo not yet taken in' schedules.  sb_reuse = every case (C01); sb_reuse_one = one-sided (C03);
# sb_reuse_two = two-sided disjoint (C04); pairs first, then the 'modify first' core triples, then the rest.
from . import streamb_gen3 as SB3


def sb_reuse(i):
    return SB3.case(i)


def sb_reuse_one(i):
    return SB3.one(i)


def sb_reuse_two(i):
    return SB3.two(i)


sb_reuse.by_index = True
sb_reuse_one.by_index = True
sb_reuse_two.by_index = True


def _mk_sb_runner(prop):
    def runner(case, monitor):
        from . import streamb
        return EC.run_case(streamb.apply_mode(prop, case), monitor)
    return runner


for _p in ("C01", "C02", "C03", "C04", "C12"):
    globals()["run_streamb_" + _p] = _mk_sb_runner(_p)


# ------------------------------------------------------------------ conflicts under transient provider faults (C02)
def conflicts_faulty(rng):
    """C02 family: the edit/edit and create/create conflicts of `conflicts`, with every engine provider call failing
    independently with a small probability (temporary / resource-modified / disconnected errors) while the conflict is
    being handled; the faults stop before each drain.  No covered version may vanish, whatever call fails."""
    from . import families_c10 as F10
    c = conflicts(rng)
    kinds = rng.choice([["temporary"], ["temporary", "resource_modified"], ["disconnected"], ["temporary", "disconnected"]])
    p = rng.choice([0.05, 0.1, 0.2, 0.3])
    plan = dict(rules=[dict(t="rate", seed=rng.randrange(1 << 30), p=p, kinds=kinds, max=rng.choice([1, 2, 5]))])
    sched = []
    first = True
    for a in c["schedule"]:
        if a[0] == "drain" and not first:
            sched += [["hook", "steps", rng.randint(1, 4)], ["faults_off"], ["drain"], ["faults", plan]]
        else:
            sched.append(a)
            if a[0] == "drain" and first:
                sched.append(["faults", plan])
                first = False
    sched += [["faults_off"]]
    c["schedule"] = sched
    c["c10"] = dict(family="conflict-rate", p=p, kinds=kinds)
    return F10.finish_case(c)


def run_conflicts_faulty(case, monitor):
    from . import families_c10 as F10
    return F10.run_c10(case, monitor)


# ------------------------------------------------------------------ file replaced by a folder while the peer edits it (C02)
def type_change_vs_edit(rng):
    """C02 family: on one side a synchronised file X is replaced by a FOLDER of the same name (delete X, mkdir X, a
    child created in it) while the other side writes a newer version of X; any order, any engine steps in between.
    What the trees look like afterwards is the known defect class E-1 (type change at a synced path) and is NOT judged
    here; judged is only that no covered version vanishes (guards COVERED_STEP / COVERED_QUIET): the newer version
    must survive somewhere (the unchanged engine parks it as X.conflicted)."""
    cands = [f for f in CLEAN_FLAVOURS if not f.oip[0] and not f.oip[1]]
    fl = rng.choice(cands)
    g = EC.Gen(rng, fl, [0, 1], 0)
    g.allow_empty = False
    names = []
    for _ in range(rng.randint(1, 3)):
        rel = "/" + g.fresh("F")
        names.append(rel)
        g.base.append(["create", g.abs(0, rel), g.content()])
    g.sched.append(["drain"])
    x = rng.choice(names)
    a = rng.choice([0, 1])
    b = 1 - a
    replace = [["user", a, ["delete", g.abs(a, x)]], ["user", a, ["mkdir", g.abs(a, x)]],
               ["user", a, ["create", g.abs(a, x + "/" + g.fresh("F")), g.content()]]]
    edit = ["user", b, ["write", g.abs(b, x), g.content()]]
    pos = rng.randint(0, 3)
    ops = replace[:pos] + [edit] + replace[pos:]
    for o in ops:
        g.sched.append(o)
        g.engine_noise(0.35)
    for _ in range(rng.randint(0, 5)):
        g.sched.append(rng.choice([["intake", 0], ["intake", 1], ["sync"]]))
    g.sched.append(["drain"])
    return dict(flavour=fl.key(), base=g.base, schedule=g.sched, only_guards=[6, 10],
                hash_mult=rng.choice([1, 3, 7, 11, 2654435761]),
                mode=dict(origin=None, check_spec=False, no_conflicted=False, cov_every_step=True))


def run_only_guards(case, monitor):
    res = EC.run_case(case, monitor)
    if case.get("only_guards") and res.verdict != [] and res.verdict[1] not in case["only_guards"]:
        res.extra["ignored_guard"] = res.verdict[1]
        res.verdict = []
    return res


# ------------------------------------------------------------------ restart while a transfer is pending after a fault (C06)
def restarts_after_fault(rng):
    """C06 family: a file is created / edited, the engine downloads it to its temp file but the write to the peer is
    refused (temporary error or out of space) once or twice, so the entry is punted with its temp file recorded in
    storage; THEN the engine is stopped (its temp directory goes away) and a new engine is started over the same
    storage; the refusals have stopped.  The pending transfer must be resumed: same outcome as without the stop."""
    side = rng.choice([0, 1])
    fl = rng.choice([f for f in CLEAN_FLAVOURS if not f.oip[side]])
    g = EC.Gen(rng, fl, [side], 0)
    g.allow_empty = False
    g.make_base(rng.randint(0, 3))
    g.sched.append(["drain"])
    for _ in range(rng.randint(1, 3)):
        if g.files(side) and rng.random() < 0.4:
            rel = rng.choice(g.files(side))
            g.sched.append(["user", side, ["write", g.abs(side, rel), g.content()]])
        else:
            g.one_op_simple(side)
    kind = rng.choice(["temporary", "out_of_space"])
    g.sched.append(["faults", dict(kind=kind, calls=["create", "upload"], side=1 - side, n=rng.choice([1, 2, 50]))])
    for _ in range(rng.randint(2, 6)):
        g.sched += [["intake", 0], ["intake", 1], ["sync"]]
    g.sched.append(["stop"])
    g.sched.append(["faults_off"])
    g.sched.append(["start", "intact"])
    g.engine_noise(0.5)
    g.sched.append(["drain"])
    return dict(flavour=fl.key(), base=g.base, schedule=g.sched, hash_mult=rng.choice([1, 3, 7, 11, 2654435761]),
                mode=dict(origin=side, check_spec=True, no_conflicted=True, cov_every_step=True))


def run_restarts_after_fault(case, monitor):
    import cloudsync.exceptions as ex

    def make_fault_plan(plan, H):
        left = [plan["n"]]
        cls = ex.CloudOutOfSpaceError if plan["kind"] == "out_of_space" else ex.CloudTemporaryError

        def fp(side, call, idx):
            if side == plan["side"] and call in plan["calls"] and left[0] > 0:
                left[0] -= 1
                return cls("injected " + plan["kind"])
            return None
        return fp
    case = dict(case)
    n_user = sum(1 for a in case["schedule"] if a[0] == "user")
    n_steps = sum(1 for a in case["schedule"] if a[0] in ("intake", "sync"))
    case["step_bound"] = 3 * (EC.STEP_BOUND_BASE + EC.STEP_BOUND_PER_OP * max(1, n_user)) + n_steps
    return EC.run_case(case, monitor, storage_factory="sqlite-file", hooks=dict(make_fault_plan=make_fault_plan),
                       oracles=("cursor", "index", "storage"))


# ------------------------------------------------------------------ folder emptied and removed vs peer change of a child (C01)
def tree_delete_vs_child_change(rng):
    """C01 family (two-sided, same objects): side A moves the file(s) of a synchronised folder into a NEW folder and
    removes the old folder, while side B overwrites (or renames inside the old folder) one of those files, which is
    still at its old place there; any order of the engine's steps.  Both versions of the truth are acceptable outcomes
    of the race as long as the two sides END EQUAL and the engine goes quiet (guards CONVERGE / BOUND / covered
    versions); fresh names, both sides id-stable."""
    cands = [f for f in CLEAN_FLAVOURS if not f.oip[0] and not f.oip[1]]
    fl = rng.choice(cands)
    g = EC.Gen(rng, fl, [0, 1], 0)
    g.allow_empty = False
    d = "/" + g.fresh("D")
    g.base.append(["mkdir", g.abs(0, d)])
    kids = []
    for _ in range(rng.randint(1, 2)):
        k = d + "/" + g.fresh("F")
        kids.append(k)
        g.base.append(["create", g.abs(0, k), g.content()])
    g.sched.append(["drain"])
    a = rng.choice([0, 1])
    b = 1 - a
    n = "/" + g.fresh("D")
    a_ops = [["user", a, ["mkdir", g.abs(a, n)]]]
    for k in kids:
        a_ops.append(["user", a, ["rename", g.abs(a, k), g.abs(a, n + "/" + g.fresh("F"))]])
    a_ops.append(["user", a, ["delete", g.abs(a, d)]])
    victim = rng.choice(kids)
    if rng.random() < 0.7:
        b_op = ["user", b, ["write", g.abs(b, victim), g.content()]]
    else:
        b_op = ["user", b, ["rename", g.abs(b, victim), g.abs(b, d + "/" + g.fresh("F"))]]
    pos = rng.randint(0, len(a_ops))
    ops = a_ops[:pos] + [b_op] + a_ops[pos:]
    for o in ops:
        g.sched.append(o)
        g.engine_noise(0.5)
    for _ in range(rng.randint(0, 6)):
        g.sched.append(rng.choice([["intake", 0], ["intake", 1], ["sync"]]))
    g.sched.append(["drain"])
    return dict(flavour=fl.key(), base=g.base, schedule=g.sched, hash_mult=rng.choice([1, 3, 7, 11, 2654435761]),
                mode=dict(origin=None, check_spec=False, no_conflicted=False, cov_every_step=False))


# ------------------------------------------------------------------ new file in a folder, then the folder renamed (C04)
def create_then_rename_folder(rng):
    """C04 family (two-sided, disjoint top-level folders, fresh names, both sides id-stable): one user creates a FILE
    inside an existing synchronised folder of theirs and then renames that folder before the new file has been
    synchronised, while the other user creates or edits files in their own folder; the engine's steps fall anywhere -
    in particular the other side's change may be the older pending entry when the first sync step runs.  The merged
    tree must be exact (spec), whatever the order."""
    cands = [f for f in CLEAN_FLAVOURS if not f.oip[0] and not f.oip[1]]
    fl = rng.choice(cands)
    g = EC.Gen(rng, fl, [0, 1], 0, owner={})
    a = rng.choice([0, 1])
    b = 1 - a
    A, B = "/" + g.fresh("D"), "/" + g.fresh("D")
    sub = A + "/" + g.fresh("D")
    for d, owner in ((A, a), (B, b)):
        g.tree[d] = "D"
        g.base.append(["mkdir", g.abs(0, d)])
        g.owner[d] = owner
    g.tree[sub] = "D"
    g.base.append(["mkdir", g.abs(0, sub)])
    for _ in range(rng.randint(0, 2)):
        k = sub + "/" + g.fresh("F")
        g.tree[k] = "F"
        g.base.append(["create", g.abs(0, k), g.content()])
    bfile = B + "/" + g.fresh("F")
    g.tree[bfile] = "F"
    g.base.append(["create", g.abs(0, bfile), g.content()])
    s = g.sched
    s.append(["drain"])
    if rng.random() < 0.7:
        s.append(["user", b, rng.choice([["create", g.abs(b, B + "/" + g.fresh("F")), g.content()],
                                          ["write", g.abs(b, bfile), g.content()]])])
        if rng.random() < 0.7:
            s.append(["intake", b])
    for _ in range(rng.randint(1, 2)):
        s.append(["user", a, ["create", g.abs(a, sub + "/" + g.fresh("F")), g.content()]])
    for _ in range(rng.randint(0, 3)):
        s.append(rng.choice([["intake", a], ["intake", a], ["sync"], ["intake", b]]))
    new = A + "/" + g.fresh("D")
    s.append(["user", a, ["rename", g.abs(a, sub), g.abs(a, new)]])
    if rng.random() < 0.4:
        s.append(["user", b, ["create", g.abs(b, B + "/" + g.fresh("F")), g.content()]])
    for _ in range(rng.randint(0, 4)):
        s.append(rng.choice([["intake", 0], ["intake", 1], ["sync"]]))
    s.append(["drain"])
    return dict(flavour=fl.key(), base=g.base, schedule=s, hash_mult=rng.choice([1, 3, 7, 11, 2654435761]),
                mode=dict(origin=None, check_spec=True, no_conflicted=True, cov_every_step=False))


# ------------------------------------------------------------------ renames that change only the letter case (C03)
def _recase(name, rng):
    """the same name with a different letter case (never the same string)"""
    alts = [name.upper(), name.capitalize(), name.swapcase(), name.title()]
    alts = [a for a in alts if a != name and a.lower() == name.lower()]
    return rng.choice(alts) if alts else None


def case_only_rename(rng):
    """C03 family (one-sided; at least one side is a case-insensitive, case-preserving provider; the acting side has stable
    ids): the user renames synchronised files and folders to names that differ from the old ones ONLY in letter case,
    possibly followed or preceded by ordinary changes to the same objects; each rename is bracketed by drains (clean
    domain), the engine's steps fall anywhere in between.  Names never
    clash case-insensitively, so the specification (a case-sensitive tree) applies as it stands: the mirror must show the
    new spelling."""
    side = rng.choice([0, 1])
    cands = [f for f in E.ALL_FLAVOURS if not f.oip[side] and not f.oip[1 - side] and (not f.cs[0] or not f.cs[1])]
    cands += [E.Flavour((False, False), cs, filt) for cs in [(True, False), (False, True)] for filt in (False, True)]
    fl = rng.choice(cands)
    g = EC.Gen(rng, fl, [side], 0)
    d = "/" + rng.choice(["docs", "album", "src"]) + str(rng.randint(1, 9))
    sub = d + "/" + rng.choice(["sub", "inner", "part"])
    files = [d + "/" + rng.choice(["report", "notes"]) + str(i) + rng.choice([".txt", "", ".md"]) for i in range(rng.randint(1, 3))]
    subfile = sub + "/" + rng.choice(["deep", "leaf"]) + ".dat"
    for p in (d, sub):
        g.tree[p] = "D"
        g.base.append(["mkdir", g.abs(0, p)])
    for p in files + [subfile]:
        g.tree[p] = "F"
        g.base.append(["create", g.abs(0, p), g.content()])
    s = g.sched
    s.append(["drain"])
    live = {p: p for p in [d, sub, subfile] + files}      # original -> current relative path

    def cur(p):
        return live[p]

    def rename_prefix(old, new):
        for k, v in list(live.items()):
            if v == old or v.startswith(old + "/"):
                live[k] = new + v[len(old):]
    for _ in range(rng.randint(1, 4)):
        r = rng.random()
        target = rng.choice([sub, d] + files + [subfile])
        c = cur(target)
        if r < 0.65:
            head, _, leaf = c.rpartition("/")
            nl = _recase(leaf, rng)
            if nl is None:
                continue
            # clean domain: a rename is bracketed by drains (races of un-drained renames are Stream B's business)
            s.append(["drain"])
            s.append(["user", side, ["rename", g.abs(side, c), g.abs(side, head + "/" + nl)]])
            rename_prefix(c, head + "/" + nl)
            for _ in range(rng.randint(0, 3)):
                s.append(rng.choice([["intake", side], ["sync"], ["intake", 1 - side]]))
            s.append(["drain"])
            continue
        elif r < 0.85 and target in files + [subfile]:
            s.append(["user", side, ["write", g.abs(side, c), g.content()]])
        else:
            parent = cur(rng.choice([d, sub]))
            s.append(["user", side, ["create", g.abs(side, parent + "/" + g.fresh("F")), g.content()]])
        for _ in range(rng.randint(0, 3)):
            s.append(rng.choice([["intake", side], ["sync"], ["intake", 1 - side], ["drain"]]))
    s.append(["drain"])
    return dict(flavour=fl.key(), base=g.base, schedule=s, hash_mult=rng.choice([1, 3, 7, 11, 2654435761]),
                mode=dict(origin=side, check_spec=True, no_conflicted=True, cov_every_step=False))


# ------------------------------------------------------------------ renames made while stopped, cursor lost (C06)
def restarts_fallback_rename(rng):
    """C06 family (one-sided; both sides id-stable, unfiltered): everything is synchronised, the engine is stopped, the
    user RENAMES synchronised files / folders while it is down (to a fresh name, into another folder, or - when that side
    is case-insensitive - to the same name in another letter case), optionally edits one, and the new engine starts with
    the stored cursor removed or rejected, so it falls back to the full walk.  With stable ids the walk sees the same
    object under its new path: the modification must reach the other side (same outcome as without the stop)."""
    side = rng.choice([0, 1])
    cands = [f for f in CLEAN_FLAVOURS if not f.oip[0] and not f.oip[1]]
    cands += [E.Flavour((False, False), cs, False) for cs in [(True, False), (False, True)]]
    fl = rng.choice(cands)
    g = EC.Gen(rng, fl, [side], 0)
    d1 = "/" + rng.choice(["docs", "album"]) + str(rng.randint(1, 9))
    d2 = "/" + rng.choice(["work", "misc"]) + str(rng.randint(1, 9))
    sub = d1 + "/" + rng.choice(["sub", "inner"])
    files = [rng.choice([d1, d2, sub]) + "/" + rng.choice(["report", "notes", "pic"]) + str(i) + rng.choice([".txt", "", ".md"])
             for i in range(rng.randint(2, 4))]
    for p in (d1, d2, sub):
        g.tree[p] = "D"
        g.base.append(["mkdir", g.abs(0, p)])
    for p in files:
        g.tree[p] = "F"
        g.base.append(["create", g.abs(0, p), g.content()])
    s = g.sched
    s.append(["drain"])
    if rng.random() < 0.3:
        s.append(["user", side, ["write", g.abs(side, rng.choice(files)), g.content()]])
        s.append(["drain"])
    s.append(["stop"])
    live = {p: p for p in [d1, d2, sub] + files}

    def rename_prefix(old, new):
        for k, v in list(live.items()):
            if v == old or v.startswith(old + "/"):
                live[k] = new + v[len(old):]
    for _ in range(rng.randint(1, 3)):
        target = rng.choice(files + files + [sub, d1])
        c = live[target]
        head, _, leaf = c.rpartition("/")
        r = rng.random()
        if r < 0.45 and not fl.cs[side]:
            nl = _recase(leaf, rng)
            if nl is None:
                continue
            new = head + "/" + nl
        elif r < 0.8 or target not in files:
            new = head + "/" + g.fresh("D" if target not in files else "F")
        else:
            new = live[rng.choice([d1, d2, sub])] + "/" + g.fresh("F")
        s.append(["user", side, ["rename", g.abs(side, c), g.abs(side, new)]])
        rename_prefix(c, new)
        if rng.random() < 0.25:
            s.append(["user", side, ["write", g.abs(side, live[rng.choice(files)]), g.content()]])
    s.append(["start", rng.choice(["cursor_removed", "cursor_rejected"])])
    s += [["intake", 0], ["intake", 1], ["sync"]]
    s.append(["drain"])
    if rng.random() < 0.4:
        s.append(["user", side, ["create", g.abs(side, live[rng.choice([d1, d2, sub])] + "/" + g.fresh("F")), g.content()]])
        g.engine_noise(0.5)
        s.append(["drain"])
    return dict(flavour=fl.key(), base=g.base, schedule=s, hash_mult=rng.choice([1, 3, 7, 11, 2654435761]),
                mode=dict(origin=side, check_spec=True, no_conflicted=True, cov_every_step=True))


def run_storage_oracle(case, monitor):
    """C08 at engine level: any history over a sqlite file, storage == memory checked after every engine step"""
    return EC.run_case(case, monitor, storage_factory="sqlite-file", oracles=("storage_strict",))
