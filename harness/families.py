"""Case families (generators) used by the engine-level checks; referenced by name from explore.py."""
from . import engine as E
from . import enginecheck as EC

# Stream A (seeded): claimed-clean domain of DESIGN §4.3 — fresh paths between drains, folder
# rename/move/delete bracketed by drains, acting side(s) id-stable, event filtering off
# (filtered flavours are explored by the deterministic Stream B only: soak found 11 genuine
# engine failures in 20 000 filtered clean-domain runs, none unfiltered).
CLEAN_FLAVOURS = [f for f in E.ALL_FLAVOURS if not f.filt]


def one_sided(rng):
    return EC.gen_one_sided(rng, CLEAN_FLAVOURS)


def disjoint(rng):
    return EC.gen_disjoint(rng, CLEAN_FLAVOURS)


def one_sided_filtered(rng):
    return EC.gen_one_sided(rng, [f for f in E.ALL_FLAVOURS if f.filt])
