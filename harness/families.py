"""Case families (generators) used by the engine-level checks; referenced by name from explore.py."""
from . import engine as E
from . import enginecheck as EC

# Stream A (seeded): claimed-clean domain of DESIGN §4.3 — fresh paths between drains, folder
# rename/move/delete bracketed by drains, acting side(s) id-stable, event filtering off
# (filtered flavours are explored by the deterministic Stream B only: soak found 11 genuine
# engine failures in 20 000 filtered clean-domain runs, none unfiltered).
CLEAN_FLAVOURS = [f for f in E.ALL_FLAVOURS if not f.filt]


def one_sided(rng):
    return EC.gen_one_sided(rng, CLEAN_FLAVOURS)


def disjoint(rng):
    return EC.gen_disjoint(rng, CLEAN_FLAVOURS)


def one_sided_filtered(rng):
    return EC.gen_one_sided(rng, [f for f in E.ALL_FLAVOURS if f.filt])


def conflicts(rng):
    """C01/C02/C05 family: same-file edit/edit and same-path create/create between drains (default
    resolver), mixed with non-conflicting fresh-path operations; both sides id-stable."""
    cands = [f for f in CLEAN_FLAVOURS if not f.oip[0] and not f.oip[1]]
    fl = rng.choice(cands)
    g = EC.Gen(rng, fl, [0, 1], 0)
    g.allow_empty = False       # contents are unique tokens, so survival of a version is decidable
    g.make_base(rng.randint(1, 5))
    g.sched.append(["drain"])
    for _ in range(rng.randint(1, 4)):
        r = rng.random()
        files = g.files()
        if r < 0.45 and files:
            rel = rng.choice(files)                      # edit / edit
            first = rng.choice([0, 1])
            same = rng.random() < 0.15
            c1 = g.content()
            c2 = c1 if same else g.content()
            g.sched.append(["user", first, ["write", g.abs(first, rel), c1]])
            g.engine_noise(0.4)
            g.sched.append(["user", 1 - first, ["write", g.abs(1 - first, rel), c2]])
        elif r < 0.8:
            d = rng.choice(g.dirs())                     # create / create at the same fresh path
            rel = d + "/" + g.fresh("F")
            first = rng.choice([0, 1])
            same = rng.random() < 0.2
            c1 = g.content()
            c2 = c1 if same else g.content()
            g.tree[rel] = "F"
            g.sched.append(["user", first, ["create", g.abs(first, rel), c1]])
            g.engine_noise(0.4)
            g.sched.append(["user", 1 - first, ["create", g.abs(1 - first, rel), c2]])
        else:
            side = rng.choice([0, 1])                    # an unrelated fresh creation
            g.one_op_simple(side)
        g.engine_noise(0.5)
        g.sched.append(["drain"])
    return dict(flavour=fl.key(), base=g.base, schedule=g.sched, hash_mult=rng.choice([1, 3, 7, 11, 2654435761]),
                mode=dict(origin=None, check_spec=False, no_conflicted=False, cov_every_step=True))
