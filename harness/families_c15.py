"""C15 — lock-discipline observer, case families and runners.

The observer records, on the REAL engine, the global order of
    Acq t | Rel t          the state lock (SyncState.lock, an RLock) — wrapper object installed on every SyncState
    Mut t key              a write to the guarded state
    Read t key             a read of the guarded index containers
in the vocabulary of coq/theories/ThreadModel.v; the extracted acceptors (coq/bin/thread: lock_errors,
violations) judge it.  Independently of the model every access carries what the real lock said at that moment
(RLock._is_owned() of the CURRENT thread); the two must agree (correspondence model lock == threading.RLock).

Choke points (class-level, no source change; `@strict` keeps the original setter in `_x_setter`):
  SyncState.updated                  every intercepted field write of an entry or a side      -> Mut "f:<key>"
  SideState / SyncEntry ._x_setter   direct writes of private fields (_changed, _last_gotten) -> Mut "p:<key>"
  SyncState._x_setter                rebinding of _oids/_paths/_changeset_storage/_dirtyset/requestset/excludeset
                                     (forget(), the _changeset setter)                         -> Mut "s:<name>"
  the containers themselves          dict/set subclasses substituted for the six containers (and for the per-path
                                     dictionaries inside _paths): mutating methods -> Mut "c:<name>", reading
                                     methods -> Read "c:<name>"
Guarded state = entries, the two indexes, pending set, dirty set (+ requestset/excludeset of SmartSyncState), as in
the property record.  `data_id` (cursor rows, written by each event thread for its own tags) is recorded in its
own class ("cursor") and never judged.

A Read is part of a read-modify-write when the operation (one do() of a manager, one public call of an
application thread) that performs it also performs a Mut; the reads of operations that mutate nothing (the
`busy` property, change_count, smart_info_*) are unsynchronised observations: Tau in the model.
"""
import itertools
import os
import random
import sys
import threading
import time as _rt

from . import engine as E
from . import enginecheck as EC
from . import framework as fw

ACQ, REL, MUT, READ, TAU = 0, 1, 2, 3, 4

WATCHED = ("_oids", "_paths", "_changeset_storage", "_dirtyset", "requestset", "excludeset", "_last_changed_time")
CURSOR_CLASS = ("data_id",)

# ------------------------------------------------------------------ key interning (stable across runs of a process)
_KEYS = {}
_KEY_LOCK = threading.Lock()


def key_code(name):
    c = _KEYS.get(name)
    if c is None:
        with _KEY_LOCK:
            c = _KEYS.setdefault(name, len(_KEYS) + 1)
    return c


def key_name(code):
    for k, v in _KEYS.items():
        if v == code:
            return k
    return "?"


# ------------------------------------------------------------------ recorder
class Recorder:
    """One observed run.  ev: list of [kind, thread index, key name, owned (real lock), op id, site]"""

    def __init__(self, yield_every=0, collapse=True):
        self.ev = []
        self.tids = {}
        self.tnames = {}
        self.ops = {0: "<no operation>"}
        self.local = threading.local()
        self.opserial = itertools.count(1)
        self.reg = threading.Lock()
        self.yield_every = yield_every
        self.counter = itertools.count(1)
        self.collapse = collapse
        self.collapsed = 0
        self.cursor_unowned = 0
        self.cursor_total = 0

    def tid(self):
        ident = threading.get_ident()
        t = self.tids.get(ident)
        if t is None:
            with self.reg:
                t = self.tids.get(ident)
                if t is None:
                    t = len(self.tids) + 1
                    self.tids[ident] = t
                    self.tnames[t] = threading.current_thread().name
        return t

    def begin_op(self, label):
        prev = getattr(self.local, "op", 0)
        oid = next(self.opserial)
        self.ops[oid] = label
        self.local.op = oid
        return prev

    def end_op(self, prev):
        self.local.op = prev

    def rec(self, kind, key, owned):
        t = self.tid()
        op = getattr(self.local, "op", 0)
        site = None
        if kind in (MUT, READ) and not owned:
            site = _site()
        if self.collapse and kind == READ and self.ev:
            last = self.ev[-1]
            if last[0] == READ and last[1] == t and last[2] == key and last[3] == owned and last[4] == op:
                self.collapsed += 1
                return
        self.ev.append((kind, t, key, owned, op, site))
        if self.yield_every and next(self.counter) % self.yield_every == 0:
            _rt.sleep(0)


CUR = None      # the active Recorder (None: observers are pass-through)


def _site():
    """innermost frames inside the cloudsync package: 'Class.function' names, innermost first"""
    out = []
    f = sys._getframe(2)
    while f is not None and len(out) < 4:
        fn = f.f_code.co_filename
        if "/cloudsync/" in fn and "/harness/" not in fn:
            out.append("%s:%s" % (os.path.basename(fn)[:-3], f.f_code.co_qualname))
        f = f.f_back
    return out


# ------------------------------------------------------------------ observing containers
def _owned(state):
    try:
        return bool(state.lock._is_owned())
    except Exception:
        return False


def _note(c, kind):
    r = CUR
    if r is None:
        return
    st = c._c15_state
    if st is None or st.__dict__.get("_x_frozen", 0):
        return          # no owner, or the owner is still inside its constructor (not shared yet)
    name = c._c15_name
    if name in CURSOR_CLASS:
        r.cursor_total += 1
        if not _owned(st):
            r.cursor_unowned += 1
        return
    r.rec(kind, "c:" + name, _owned(st))


class ObsDict(dict):
    _c15_state = None
    _c15_name = "?"
    _c15_kids = False

    def _child(self, v):
        if self._c15_kids and type(v) is dict:
            d = ObsDict(v)
            d._c15_state, d._c15_name = self._c15_state, self._c15_name
            return d
        return v

    def __setitem__(self, k, v):
        _note(self, MUT)
        dict.__setitem__(self, k, self._child(v))

    def __delitem__(self, k):
        _note(self, MUT)
        dict.__delitem__(self, k)

    def pop(self, *a):
        _note(self, MUT)
        return dict.pop(self, *a)

    def popitem(self):
        _note(self, MUT)
        return dict.popitem(self)

    def clear(self):
        _note(self, MUT)
        dict.clear(self)

    def update(self, *a, **kw):
        _note(self, MUT)
        dict.update(self, *a, **kw)

    def setdefault(self, k, d=None):
        _note(self, MUT)
        return dict.setdefault(self, k, self._child(d))

    def __getitem__(self, k):
        _note(self, READ)
        return dict.__getitem__(self, k)

    def get(self, *a):
        _note(self, READ)
        return dict.get(self, *a)

    def __contains__(self, k):
        _note(self, READ)
        return dict.__contains__(self, k)

    def __iter__(self):
        _note(self, READ)
        return dict.__iter__(self)

    def __len__(self):
        _note(self, READ)
        return dict.__len__(self)

    def keys(self):
        _note(self, READ)
        return dict.keys(self)

    def values(self):
        _note(self, READ)
        return dict.values(self)

    def items(self):
        _note(self, READ)
        return dict.items(self)

    def copy(self):
        _note(self, READ)
        return dict.copy(self)


class ObsSet(set):
    _c15_state = None
    _c15_name = "?"
    __hash__ = None


def _mk_set_methods():
    muts = ("add", "discard", "remove", "pop", "clear", "update", "difference_update", "intersection_update",
            "symmetric_difference_update", "__ior__", "__iand__", "__isub__", "__ixor__")
    reads = ("__contains__", "__iter__", "__len__", "copy", "intersection", "union", "difference", "issubset",
             "issuperset", "isdisjoint", "__and__", "__or__", "__sub__")
    for name in muts + reads:
        base = getattr(set, name)
        kind = MUT if name in muts else READ

        def mk(base, kind):
            def m(self, *a):
                _note(self, kind)
                return base(self, *a)
            return m
        setattr(ObsSet, name, mk(base, kind))


_mk_set_methods()


def _wrap_container(state, name, value):
    """observing copy of a container value assigned to state.<name>"""
    def one(v, kids):
        if type(v) is dict:
            d = ObsDict()
            d._c15_state, d._c15_name, d._c15_kids = state, name, kids
            for k, x in v.items():
                dict.__setitem__(d, k, d._child(x))
            return d
        if type(v) is set:
            s = ObsSet(v)
            s._c15_state, s._c15_name = state, name
            return s
        return v
    if isinstance(value, tuple):
        return tuple(one(v, name == "_paths") for v in value)
    return one(value, False)


class ObsLock:
    """stands where SyncState.lock stood; records Acq after the acquisition and Rel before the release"""

    def __init__(self, inner):
        self._inner = inner

    def acquire(self, blocking=True, timeout=-1):
        ok = self._inner.acquire(blocking, timeout)
        r = CUR
        if ok and r is not None:
            r.rec(ACQ, "lock", True)
        return ok

    def release(self):
        r = CUR
        if r is not None:
            r.rec(REL, "lock", bool(self._inner._is_owned()))
        self._inner.release()

    def __enter__(self):
        return self.acquire()

    def __exit__(self, *a):
        self.release()

    def _is_owned(self):
        return self._inner._is_owned()


# ------------------------------------------------------------------ installation (class level, once per process)
_installed = False


def _constructing(x):
    """x: SideState | SyncEntry | SyncState still inside an __init__ (not yet shared)"""
    try:
        while x is not None:
            if x.__dict__.get("_x_frozen", type(x)._x_frozen):
                return True
            x = x.__dict__.get("_parent")
    except Exception:
        return True
    return False


def _state_of(x):
    while x is not None:
        p = x.__dict__.get("_parent")
        if p is None:
            return x if hasattr(x, "lock") else None
        x = p
    return None


def install():
    global _installed
    E.install()
    if _installed:
        return
    import cloudsync.sync.state as st
    import cloudsync.sync.manager as mg
    import cloudsync.event as ev

    # ---- the state change hook named by the property record
    orig_updated = st.SyncState.updated

    def updated(self, ent, side, key, val):
        r = CUR
        if r is not None and not self._loading and not _constructing(ent):
            r.rec(MUT, "f:" + str(key), _owned(self))
        return orig_updated(self, ent, side, key, val)
    st.SyncState.updated = updated

    # ---- private field writes of sides and entries
    def wrap_setter(cls, tag):
        orig = cls._x_setter

        def setter(self, k, v):
            r = CUR
            if r is not None and k[0] == "_" and k not in ("_x_frozen", "_parent", "_vserial") and not _constructing(self):
                state = _state_of(self)
                if state is not None and not getattr(state, "_loading", False):
                    r.rec(MUT, "p:" + tag + k, _owned(state))
            return orig(self, k, v)
        cls._x_setter = setter
    wrap_setter(st.SideState, "side")
    wrap_setter(st.SyncEntry, "ent")

    # ---- rebinding of the containers, and substitution of observing containers
    import cloudsync.smartsync  # noqa: F401  (SmartSyncState must exist before its setter is looked for)

    def wrap_state_setter(cls):
        orig_state_setter = cls.__dict__["_x_setter"]

        def state_setter(self, k, v):
            if k in WATCHED or k in CURSOR_CLASS:
                if not self.__dict__.get("_x_frozen", 0) and "lock" in self.__dict__:
                    r = CUR
                    if r is not None:
                        if k in CURSOR_CLASS:
                            r.cursor_total += 1
                            if not _owned(self):
                                r.cursor_unowned += 1
                        else:
                            r.rec(MUT, "s:" + k, _owned(self))
                v = _wrap_container(self, k, v)
            return orig_state_setter(self, k, v)
        cls._x_setter = state_setter

    def all_subclasses(c):
        out = [c]
        for s in c.__subclasses__():
            out += all_subclasses(s)
        return out
    # pystrict gives every decorated subclass a setter of its own (SmartSyncState): wrap each
    for cls in all_subclasses(st.SyncState):
        if "_x_setter" in cls.__dict__:
            wrap_state_setter(cls)

    orig_init = st.SyncState.__init__

    def state_init(self, *a, **kw):
        orig_init(self, *a, **kw)
        instrument_state(self)
    state_init.__annotations__ = getattr(orig_init, "__annotations__", {})
    st.SyncState.__init__ = state_init

    # ---- operation labels for the engine's own threads
    def label(cls, name, fn):
        orig = getattr(cls, name)

        def do(self, *a, **kw):
            r = CUR
            if r is None:
                return orig(self, *a, **kw)
            prev = r.begin_op(fn(self))
            try:
                return orig(self, *a, **kw)
            finally:
                r.end_op(prev)
        setattr(cls, name, do)
    label(mg.SyncManager, "do", lambda self: "SyncManager.do")
    label(ev.EventManager, "do", lambda self: "EventManager.do")
    _installed = True


def instrument_state(state):
    d = state.__dict__
    if not isinstance(d.get("lock"), ObsLock):
        object.__setattr__(state, "lock", ObsLock(d["lock"]))
    for name in WATCHED + CURSOR_CLASS:
        if name in d and not isinstance(d[name], float):
            object.__setattr__(state, name, _wrap_container(state, name, d[name]))


# ------------------------------------------------------------------ judging a recorded run
_THREAD_PROC = None


def thread_model():
    global _THREAD_PROC
    if _THREAD_PROC is None:
        _THREAD_PROC = fw.ModelProc("thread")
    return _THREAD_PROC


MODEL_RETRIES = [0]


def model_call_events(model, op, mev):
    """model.call([op, mev]) with a direct serialiser (traces have 10^3..10^5 events).  A transport failure (answer
    missing or '!...') is retried once on a fresh model process and counted; a second failure is an error."""
    line = "(%d (%s))\n" % (op, " ".join("(%d %d %d)" % (a, b, c) for a, b, c in mev))
    for attempt in (0, 1):
        try:
            model.p.stdin.write(line)
            model.p.stdin.flush()
            out = model.p.stdout.readline()
        except (BrokenPipeError, OSError, ValueError):
            out = ""
        model.calls += 1
        if out and not out.startswith("!"):
            return fw.sx_load(out)
        try:
            open("/tmp/c15_badline.%d.%d.txt" % (os.getpid(), attempt), "w").write(repr(out) + "\n" + line)
        except Exception:
            pass
        if attempt == 0:
            MODEL_RETRIES[0] += 1
            try:
                model.p.kill()
            except Exception:
                pass
            fresh = fw.ModelProc(model.name)
            model.p = fresh.p
    raise RuntimeError("model thread failed twice: %r (request of %d bytes, %d events)" % (out[:200], len(line), len(mev)))


class Judgement:
    def __init__(self):
        self.events = 0
        self.kinds = [0, 0, 0, 0, 0]
        self.lock_errors = []
        self.violations = []          # indices into model_events
        self.final_lock = []
        self.mismatch = None          # model and the real RLock disagree
        self.unlocked = {}            # entry label -> dict(muts, reads, keys, sites)
        self.sections = 0
        self.max_depth = 0
        self.threads = 0
        self.model_events = []


def judge(rec, model=None):
    """classify reads, send the trace to the extracted acceptors, compare with the real lock's own answers"""
    model = model or thread_model()
    ev = rec.ev
    mutating_ops = set(e[4] for e in ev if e[0] == MUT and e[4] != 0)
    mev = []
    real_bad = []
    j = Judgement()
    depth = {}
    for i, (kind, t, key, owned, op, site) in enumerate(ev):
        k = kind
        if kind == READ and op not in mutating_ops:
            k = TAU
        mev.append([k, t, 0 if kind in (ACQ, REL) else key_code(key)])
        j.kinds[k] += 1
        if k in (MUT, READ) and not owned:
            real_bad.append(i)
        if kind == ACQ:
            depth[t] = depth.get(t, 0) + 1
            j.max_depth = max(j.max_depth, depth[t])
            if depth[t] == 1:
                j.sections += 1
        elif kind == REL:
            depth[t] = depth.get(t, 0) - 1
    j.events = len(mev)
    j.threads = len(rec.tids)
    j.model_events = mev
    ans = model_call_events(model, 0, mev)
    j.lock_errors, j.violations, j.final_lock = ans[0], ans[1], ans[2]
    if j.violations != real_bad and not j.lock_errors:
        j.mismatch = dict(model=j.violations[:10], real=real_bad[:10])
    for i in sorted(set(j.violations) | set(real_bad)):
        kind, t, key, owned, op, site = ev[i]
        entry = rec.ops.get(op, "?")
        u = j.unlocked.setdefault(entry, dict(muts=0, reads=0, keys={}, sites={}, inner=set(), thread=rec.tnames.get(t)))
        u["muts" if kind == MUT else "reads"] += 1
        u["inner"].add((site or ["?"])[0])
        u["keys"][key] = u["keys"].get(key, 0) + 1
        s = " < ".join(site or ["?"])
        if len(u["sites"]) < 12 or s in u["sites"]:
            u["sites"][s] = u["sites"].get(s, 0) + 1
    return j


def interleaved_unlocked(rec, j):
    """number of judged unowned accesses performed while ANOTHER thread was inside a critical section"""
    bad = set(j.violations)
    holder, depth, n = None, 0, 0
    for i, (kind, t, key, owned, op, site) in enumerate(rec.ev):
        if kind == ACQ:
            holder, depth = t, depth + 1
        elif kind == REL:
            depth -= 1
            if depth <= 0:
                holder, depth = None, 0
        elif i in bad and holder is not None and holder != t:
            n += 1
    return n


# ------------------------------------------------------------------ (i) sequential engine runs
SEQ_FAMILIES = {
    "one_sided": None, "disjoint": None, "conflicts": None,
    "restarts": "restarts_c15", "confinement": "run_confinement",
}


def restarts_c15(case, monitor):
    """families.run_restarts without the C11/C08 oracles (their reads of the index would be recorded as observations)"""
    return EC.run_case(case, monitor, storage_factory="sqlite-file", oracles=("cursor",))


def observed_sequential(fam, case, monitor):
    """one clean-domain case on the real engine, steps driven by emgrs[i].do() / smgr.do() as the real threads do"""
    global CUR
    from . import families as F
    install()
    runner = SEQ_FAMILIES[fam]
    CUR = rec = Recorder()
    try:
        if runner == "restarts_c15":
            res = restarts_c15(case, monitor)
        else:
            res = getattr(F, runner)(case, monitor) if runner else EC.run_case(case, monitor)
    finally:
        CUR = None
    return rec, res


# ------------------------------------------------------------------ (ii) production-style runs
def _atomic_events(provider):
    """MockProvider.events is a generator that advances the provider's cursor without holding the provider's own
    lock while it is iterated; the engine's event thread and an application thread polling `busy` iterate it at
    the same time.  Make each step of the iteration atomic (fixture concern, not engine)."""
    orig = provider.events
    mutex = threading.Lock()

    def events():
        gen = orig()
        while True:
            with mutex:
                try:
                    ev = next(gen)
                except StopIteration:
                    return
            yield ev
    provider.events = events


class Op:
    """context manager: label an application-thread operation"""

    def __init__(self, rec, label):
        self.rec, self.label = rec, label

    def __enter__(self):
        self.prev = self.rec.begin_op(self.label)

    def __exit__(self, *a):
        self.rec.end_op(self.prev)


def _wait_quiet(eng, rec, deadline, polls=4, pause=0.004, equal=False):
    """poll the public busy property until it has been false `polls` times in a row and no provider call was issued
    meanwhile; with equal=True also until both relative trees are equal.  `busy` alone is momentarily false while an
    event is between the provider's cursor and the pending set, so on a loaded machine it is not a reliable bracket for
    the folder operations of the clean domain; tree equality is the ground truth there.  False when the deadline passes."""
    calm = 0
    last = -1
    world = eng.world
    while _rt.time() < deadline:
        with Op(rec, entry_label(eng.cs, "busy")):
            try:
                b = bool(eng.cs.busy)
            except Exception:
                b = True
        n = eng.call_index
        same = True
        if equal and not b:
            try:
                same = views_agree([world.view(0), world.view(1)])
            except RuntimeError:          # the fixture's dictionaries changed under the snapshot
                same = False
        if not b and n == last and same:
            calm += 1
            if calm >= polls:
                return True
        else:
            calm = 0
        last = n
        _rt.sleep(pause)
    return False


def _public_call(eng, world, rec, rng, smart, stats):
    """one call of a public method from an application thread (results ignored, exceptions counted)"""
    cs = eng.cs
    fl = world.fl
    r = rng.random()

    def some_path(side):
        snap = world.view(side)
        files = sorted(p for p, n in snap.items() if n[0] == "F")
        if not files:
            return None
        return fl.roots[side].rstrip("/") + rng.choice(files)
    name = None
    try:
        if not smart or r < 0.35:
            # walk() turns a snapshot of the tree into queued events: called while users act it is event delay across the
            # brackets of the clean domain (finding E-10, C14).  Where convergence is judged it is called at quiet points
            # only (schedule action "walk"); concurrently only in the SmartCloudSync runs (lock discipline only).
            k = rng.choice(["busy", "change_count", "translate", "wake", "aging", "lock+busy"] + (["walk"] if smart else []))
            name = "lock+CloudSync.busy" if k == "lock+busy" else "CloudSync." + k
            with Op(rec, name):
                if k == "busy":
                    cs.busy
                elif k == "change_count":
                    cs.change_count()
                elif k == "translate":
                    cs.translate(rng.choice([0, 1]), fl.roots[rng.choice([0, 1])] + "/x")
                elif k == "walk":
                    cs.walk(rng.choice([0, 1]))
                elif k == "wake":
                    cs.smgr.wake()
                elif k == "aging":
                    cs.aging = 0
                else:
                    with cs.state.lock:        # an application may hold the lock itself (re-entrant)
                        with cs.state.lock:
                            cs.busy
        else:
            k = rng.choice(["smart_sync_path", "smart_sync_path", "smart_listdir_path", "smart_info_path",
                            "smart_unsync_path", "smart_sync_oid", "smart_unsync_oid", "smart_info_oid",
                            "lock+smart_sync_path"])
            name = "lock+SmartCloudSync.smart_sync_path" if k == "lock+smart_sync_path" else "SmartCloudSync." + k
            rp = some_path(1)
            with Op(rec, name):
                if k == "smart_listdir_path":
                    list(cs.smart_listdir_path(fl.roots[0]))
                elif rp is None:
                    pass
                elif k == "smart_sync_path":
                    cs.smart_sync_path(rp, 1)
                elif k == "lock+smart_sync_path":
                    with cs.state.lock:
                        cs.smart_sync_path(rp, 1)
                elif k == "smart_info_path":
                    cs.smart_info_path(cs.translate(0, rp))
                elif k == "smart_unsync_path":
                    cs.smart_unsync_path(rp, 1)
                else:
                    info = world.raw[1]["info_path"](rp)
                    if info is not None:
                        if k == "smart_sync_oid":
                            cs.smart_sync_oid(info.oid)
                        elif k == "smart_unsync_oid":
                            cs.smart_unsync_oid(info.oid)
                        else:
                            cs.smart_info_oid(info.oid)
        stats["calls"][name] = stats["calls"].get(name, 0) + 1
    except Exception as e:
        where = "?"
        tb = e.__traceback__
        while tb is not None:
            fn = tb.tb_frame.f_code.co_filename
            if "/cloudsync/" in fn:
                where = "%s:%s" % (os.path.basename(fn)[:-3], tb.tb_frame.f_code.co_qualname)
            tb = tb.tb_next
        key = "%s:%s@%s" % (name, type(e).__name__, where)
        stats["call_errors"][key] = stats["call_errors"].get(key, 0) + 1


class ThreadedFaults:
    """thread-safe rate injection for the production-style runs: every engine-issued provider call (mutators, download,
    info_*, listdir, hash/exists, events — wrappers on the provider instances) fails with probability p while `on`; nesting and the history thread's own provider use are tracked per thread.  The
    provider is not really disconnected (user operations go through the same objects)."""

    READERS = ("info_oid", "info_path", "listdir", "hash_oid", "exists_oid", "exists_path", "events")

    def __init__(self, spec):
        self.spec = spec
        self.on = False
        self.local = threading.local()
        self.counter = itertools.count()
        self.fired = {}
        self.n = 0

    def _exc(self, call):
        if not self.on or getattr(self.local, "depth", 0) or getattr(self.local, "suppress", 0):
            return None
        if self.n >= self.spec.get("max", 40):
            return None
        i = next(self.counter)
        rr = random.Random("%s/%d" % (self.spec["seed"], i))
        # the event poll is by far the most frequent call: a tenth of the rate there, so that the bounded number of
        # faults also reaches look-ups, downloads and mutations
        if rr.random() >= self.spec["p"] * (0.1 if call == "events" else 1.0):
            return None
        kind = rr.choice(self.spec["kinds"])
        if kind == "out_of_space" and call not in ("create", "upload"):
            kind = "temporary"
        if kind == "file_name" and call not in ("create", "upload", "rename", "mkdir"):
            kind = "temporary"
        self.n += 1
        key = "%s:%s" % (call, kind)
        self.fired[key] = self.fired.get(key, 0) + 1
        if kind == "plain":
            return Exception("injected plain exception")
        from . import families_c10 as C10
        return C10.make_exc(kind)

    def attach(self, eng, world):
        """one uniform wrapper on the provider instances (outside engine.py's observers): decide, then run the call with
        everything the provider does on itself marked as nested"""
        tf = self
        for side, p in enumerate(world.provs):
            for name in E.MUTATORS + ("download",) + self.READERS:
                inner = getattr(p, name)

                def mk(name, inner):
                    def call(*a, **kw):
                        exc = tf._exc(name)
                        if exc is not None:
                            raise exc
                        loc = tf.local
                        loc.depth = getattr(loc, "depth", 0) + 1
                        try:
                            return inner(*a, **kw)
                        finally:
                            loc.depth -= 1
                    return call
                setattr(p, name, mk(name, inner))
        raw_user = world.user

        def user(side, op):
            tf.local.suppress = getattr(tf.local, "suppress", 0) + 1
            try:
                return raw_user(side, op)
            finally:
                tf.local.suppress -= 1
        world.user = user


def run_threaded(case, budget_s=25.0):
    """CloudSync.start() with the real threads; the history is applied from an application thread, other application
    threads call public methods meanwhile.  Returns dict(judgement fields, quiet, views, ...)."""
    global CUR
    install()
    E.install(case.get("hash_mult", 1))
    E.reset_serials()
    fl = E.Flavour.from_key(case["flavour"])
    smart = bool(case.get("smart"))
    world = E.World(fl)
    for p in world.provs:
        _atomic_events(p)
    eng = E.Engine(world, smart=smart, cs_kwargs=dict(sleep=(0.002, 0.002)))
    tf = None
    if case.get("faults"):
        tf = ThreadedFaults(case["faults"])
        tf.attach(eng, world)
    rec = Recorder(yield_every=case.get("yield_every", 7))
    stats = dict(calls={}, call_errors={}, thread_errors={})
    out = dict(quiet=False, timeout=False, stop_timeout=False, stats=stats)
    old_switch = sys.getswitchinterval()
    stopflag = threading.Event()
    t_start = _rt.time()
    deadline = t_start + budget_s
    callers = []
    CUR = rec
    rec.errors = stats["thread_errors"]
    try:
        sys.setswitchinterval(case.get("switch", 1e-6))
        for op in case.get("base", []):
            world.user(0, op)
        for op in case.get("base_other", []):
            world.user(1, op)
        eng.cs.start()
        eq = not smart
        q0 = _wait_quiet(eng, rec, deadline, equal=eq)

        def caller(idx):
            rng = random.Random("%s/caller/%d" % (case.get("seed", 0), idx))
            while not stopflag.is_set():
                _public_call(eng, world, rec, rng, smart, stats)
                _rt.sleep(rng.choice([0, 0, 0.001, 0.003]))

        def waker():
            while not stopflag.is_set():
                eng.cs.smgr.wake()
                _rt.sleep(0.002)
        for i in range(case.get("callers", 2)):
            th = threading.Thread(target=caller, args=(i,), name="app-%d" % i, daemon=True)
            callers.append(th)
        callers.append(threading.Thread(target=waker, name="app-waker", daemon=True))
        for th in callers:
            th.start()
        if tf is not None:
            tf.on = True
        ok = q0
        for act in case["schedule"]:
            if _rt.time() > deadline or not ok:
                # a bracket that was not reached: what follows would leave the clean domain; stop here (inconclusive)
                ok = False
                break
            if act[0] == "user":
                world.user(act[1], act[2])
            elif act[0] == "drain":
                ok = _wait_quiet(eng, rec, deadline, equal=eq) and ok
            elif act[0] == "walk":
                try:
                    with Op(rec, entry_label(eng.cs, "walk")):
                        eng.cs.walk(act[1])
                except Exception as e:        # a provider fault surfaced through the public method
                    key = "CloudSync.walk:%s" % type(e).__name__
                    stats["call_errors"][key] = stats["call_errors"].get(key, 0) + 1
                stats["calls"]["CloudSync.walk"] = stats["calls"].get("CloudSync.walk", 0) + 1
            elif act[0] == "forget":
                with Op(rec, entry_label(eng.cs, "forget")):
                    eng.cs.forget()
                stats["calls"]["CloudSync.forget"] = stats["calls"].get("CloudSync.forget", 0) + 1
        if tf is not None:
            tf.on = False           # the faults stop; what follows is the recovery
            out["faults_fired"] = dict(tf.fired)
        ok = _wait_quiet(eng, rec, deadline, equal=eq) and ok
        stopflag.set()
        for th in callers[:-1]:
            th.join(10)
        # the callers may have queued work (walk, requests): let the engine finish it, the waker still running
        ok = _wait_quiet(eng, rec, max(deadline, _rt.time() + 3.0), equal=eq) and ok
        out["quiet"] = ok
        out["timeout"] = not ok
    finally:
        stopflag.set()
        try:
            eng.cs.stop(forever=False)
        except TimeoutError:
            out["stop_timeout"] = True
        except Exception as e:
            out["stop_error"] = repr(e)
        for th in callers:
            th.join(10)
        sys.setswitchinterval(old_switch)
    out["threaded_wall_s"] = round(_rt.time() - t_start, 2)
    out["views_at_stop"] = [world.view(0), world.view(1)]
    out["engine_threads_alive"] = [t.name for t in threading.enumerate()
                                   if t is not threading.current_thread() and not t.name.startswith("app-")
                                   and t.name != "MainThread" and t.is_alive()]
    # after the stop: finish whatever was left, step by step (same engine, same state), still observed
    try:
        with Op(rec, "sequential completion"):
            pass
        rounds = eng.drain(300)
        out["completion_rounds"] = rounds
    except Exception as e:
        out["completion_error"] = repr(e)
        out["completion_rounds"] = None
    CUR = None
    out["views_final"] = [world.view(0), world.view(1)]
    # no thread owns the lock now: the index invariant of C11 (every clause but the pending-set surplus) must hold
    try:
        from .state_oracle import index_violations
        out["index_violations"] = [b for b in index_violations(eng.cs.state) if not b.startswith("iv-extra")][:5]
    except Exception as e:
        out["index_violations"] = ["oracle failed: %r" % e]
    out["provider_calls"] = len(eng.trace)
    out["loop_errors"] = list(eng.loop_errors)
    out["rec"] = rec
    try:
        eng.stop()
    except Exception:
        pass
    return out


def views_agree(views):
    """C01 oracle on the final trees: equal relative trees, names containing '.conflicted' set aside"""
    a = {p: n for p, n in views[0].items() if ".conflicted" not in p}
    b = {p: n for p, n in views[1].items() if ".conflicted" not in p}
    return a == b


def has_conflicted(views):
    return any(".conflicted" in p for v in views for p in v)


# ------------------------------------------------------------------ (iii) the public surface, deterministically
def _in_app_thread(fn):
    """run fn() in a thread of its own (an application thread), wait for it; exceptions are returned"""
    box = {}

    def body():
        try:
            box["r"] = fn()
        except BaseException as e:      # noqa
            box["e"] = e
    th = threading.Thread(target=body, name="app-probe", daemon=True)
    th.start()
    th.join(30)
    if th.is_alive():
        box["e"] = TimeoutError("public call did not return")
    return box


def entry_label(cs, method):
    """'CloudSync.forget', 'SmartCloudSync.smart_sync_path': the class that defines the public method"""
    for klass in type(cs).__mro__:
        if method in klass.__dict__ and klass.__module__.startswith("cloudsync"):
            return "%s.%s" % (klass.__name__, method)
    return "%s.%s" % (type(cs).__name__, method)


def run_script(script):
    """A witness script: dict(smart=bool, oip=[bool, bool], steps=[...]) with steps
         ["user", side, op] | ["drain"] | ["intake", side] | ["sync"]
         ["call", method, [args...]]            a public method (or property) of the engine object, called from an
                                                application thread of its own; args may be {"roid": path} / {"loid": path}
                                                (object id on the remote / local side at call time), {"suffix": s}
                                                (a predicate on paths), {"lock": true} as LAST arg = the application
                                                holds the state lock around the call
       Engine steps between the calls are driven as in the sequential runs.  Deterministic.
       Returns (recorder, [(label, outcome)], views)."""
    global CUR
    install()
    E.install(1)
    E.reset_serials()
    smart = bool(script.get("smart"))
    fl = E.Flavour(oip=tuple(script.get("oip", (False, False))), cs=(True, True), filt=False)
    world = E.World(fl)
    eng = E.Engine(world, smart=smart)
    cs = eng.cs
    rec = Recorder()
    calls = []
    inj = None
    if any(st[0] == "fault" for st in script["steps"]):
        # ["fault", {"side": s, "call": name, "kind": K, "n": 1}]: the next n engine API calls `name` on that side fail;
        # every engine step then goes through the real Runnable.run loop body (families_c10.Injector.real_step)
        inj = fault_injector_class()(script)
        inj.attach(eng, world)
        inj.set_plan({"rules": []})

    def resolve(a):
        if isinstance(a, dict):
            if "roid" in a:
                i = world.raw[1]["info_path"](a["roid"])
                return i.oid if i else None
            if "loid" in a:
                i = world.raw[0]["info_path"](a["loid"])
                return i.oid if i else None
            if "suffix" in a:
                suf = a["suffix"]
                return lambda p: p.endswith(suf)
        return a

    def busy():
        with Op(rec, entry_label(cs, "busy")):
            try:
                return bool(cs.busy)
            except Exception:
                return True

    def drain():
        for _ in range(200):
            if not busy():
                return
            eng.round()

    def call(method, args):
        hold = bool(args) and isinstance(args[-1], dict) and args[-1].get("lock")
        if hold:
            args = args[:-1]
        label = ("lock+" if hold else "") + entry_label(cs, method)

        def run():
            with Op(rec, label):
                vals = [resolve(a) for a in args]
                attr = getattr(type(cs), method, None)

                def doit():
                    if isinstance(attr, property):
                        if vals:
                            return setattr(cs, method, vals[0])
                        r = getattr(cs, method)
                        # CloudSync.change_count is a property that hands out SyncManager.change_count
                        return r() if callable(r) else r
                    r = getattr(cs, method)(*vals)
                    if hasattr(r, "__next__"):
                        r = list(r)
                    return r
                if hold:
                    with cs.state.lock:
                        return doit()
                return doit()
        box = _in_app_thread(run)
        calls.append((label, "ok" if "e" not in box else type(box["e"]).__name__))
    CUR = rec
    try:
        for st in script["steps"]:
            k = st[0]
            if k == "user":
                op = EC.unjson_case(st[2])
                world.user(st[1], op)
            elif k == "drain":
                drain()
            elif k == "intake":
                eng.intake(st[1])
            elif k == "sync":
                eng.sync()
            elif k == "call":
                call(st[1], list(st[2]) if len(st) > 2 else [])
            elif k == "fault":
                inj.plan["rules"].append(dict(st[1], t="next", left=st[1].get("n", 1)))
            else:
                raise ValueError(k)
    finally:
        CUR = None
        if inj is not None:
            rec.faults = dict(injected=len(inj.injected), kinds=sorted(set(f["kind"] for f in inj.injected)),
                              punts=sum(st.get("punts", 0) or 0 for st in inj.steps),
                              reconnects=sum(1 for st in inj.steps if st.get("reconnect")),
                              reauths=sum(1 for st in inj.steps if st.get("reauth")),
                              cursor_resets=sum(1 for st in inj.steps if st.get("tag_deleted")))
        views = [world.view(0), world.view(1)]
        try:
            eng.stop()
        except Exception:
            pass
    return rec, calls, views


# ------------------------------------------------------------------ reference semantics (Python mirror of ThreadModel)
def ref_judge(trace):
    """trace: [[kind, thread, key], ...] -> (lock error positions, undisciplined access positions, final lock)"""
    owner, depth = None, 0
    lock_err, viol = [], []
    for i, (k, t, x) in enumerate(trace):
        if k in (MUT, READ) and owner != t:
            viol.append(i)
        if k == ACQ:
            if owner is None:
                owner, depth = t, 1
            elif owner == t:
                depth += 1
            else:
                lock_err.append(i)
        elif k == REL:
            if owner == t:
                depth -= 1
                if depth == 0:
                    owner = None
            else:
                lock_err.append(i)
    return lock_err, viol, ([] if owner is None else [owner, depth])


def ref_serial_ok(orig, ser):
    """ser is serial, well locked, disciplined, has the per-thread projections and the access order of orig"""
    le, vi, _ = ref_judge(ser)
    if le or vi:
        return "serialised trace is not well locked / disciplined"
    owner, depth = None, 0
    for k, t, x in ser:
        if owner is not None and t != owner:
            return "serialised trace interleaves a critical section"
        if k == ACQ:
            owner, depth = t, depth + 1
        elif k == REL:
            depth -= 1
            if depth == 0:
                owner = None
    threads = set(e[1] for e in orig) | set(e[1] for e in ser)
    for t in threads:
        if [e for e in orig if e[1] == t] != [e for e in ser if e[1] == t]:
            return "per-thread projection of thread %d differs" % t
    if [e for e in orig if e[0] in (MUT, READ)] != [e for e in ser if e[0] in (MUT, READ)]:
        return "order of accesses differs"
    return None


def gen_trace(rng, valid=True):
    """a random interleaving of up to 5 threads over one re-entrant lock; valid=False injects foreign releases,
    acquisitions while held, and accesses without the lock"""
    nthreads = rng.randint(1, 5)
    owner, depth = None, 0
    out = []
    for _ in range(rng.randint(0, 60)):
        t = rng.randint(1, nthreads)
        r = rng.random()
        if not valid and r < 0.08:
            k = rng.choice([ACQ, REL, MUT, READ])
            out.append([k, t, 0 if k in (ACQ, REL) else rng.randint(0, 6)])
            # keep the generator's idea of the lock in step with the model's total semantics
            k = out[-1][0]
            if k == ACQ and (owner is None or owner == t):
                owner, depth = t, depth + 1
            elif k == REL and owner == t:
                depth -= 1
                if depth == 0:
                    owner = None
            continue
        if owner is None:
            if r < 0.45:
                out.append([ACQ, t, 0])
                owner, depth = t, 1
            else:
                out.append([TAU, t, rng.randint(0, 6)])
        elif owner == t:
            if r < 0.2 and depth < 4:
                out.append([ACQ, t, 0])
                depth += 1
            elif r < 0.5:
                out.append([REL, t, 0])
                depth -= 1
                if depth == 0:
                    owner = None
            elif r < 0.8:
                out.append([MUT, t, rng.randint(0, 6)])
            else:
                out.append([READ, t, rng.randint(0, 6)])
        else:
            out.append([TAU, t, rng.randint(0, 6)])
    return out


def real_rlock_run(seed, nthreads=4, steps=40):
    """Python threads over a REAL threading.RLock (behind ObsLock), random acquire / release / access scripts with
    yields: the recorded trace must be well locked for the model and the model's idea of ownership must be the
    RLock's own.  Independent of the engine."""
    global CUR

    class Holder:
        pass
    h = Holder()
    h.lock = ObsLock(threading.RLock())
    rec = Recorder(yield_every=2)
    old = sys.getswitchinterval()

    def body(i):
        rng = random.Random("%s/rl/%d" % (seed, i))
        d = 0
        prev = rec.begin_op("thread %d" % i)
        for _ in range(steps):
            r = rng.random()
            if r < 0.3 and d < 3:
                h.lock.acquire()
                d += 1
            elif r < 0.55 and d > 0:
                h.lock.release()
                d -= 1
            elif r < 0.8:
                rec.rec(MUT, "f:x%d" % rng.randint(0, 3), bool(h.lock._is_owned()))
            else:
                rec.rec(READ, "c:y", bool(h.lock._is_owned()))
            if rng.random() < 0.3:
                _rt.sleep(0)
        while d > 0:
            h.lock.release()
            d -= 1
        rec.end_op(prev)
    CUR = rec
    try:
        sys.setswitchinterval(1e-6)
        ths = [threading.Thread(target=body, args=(i,), name="rl-%d" % i) for i in range(nthreads)]
        for t in ths:
            t.start()
        for t in ths:
            t.join(30)
    finally:
        sys.setswitchinterval(old)
        CUR = None
    return rec


# ------------------------------------------------------------------ threaded case generators
def _small(gen, rng, max_user=8):
    from . import families as F
    for _ in range(50):
        case = gen(rng)
        if sum(1 for a in case["schedule"] if a[0] == "user") <= max_user:
            return case
    return case


def thr_plain(rng):
    """clean-domain history (one-sided or disjoint), CloudSync, 2 application threads calling public methods"""
    from . import families as F
    case = _small(F.one_sided if rng.random() < 0.5 else F.disjoint, rng)
    sched = []
    for a in case["schedule"]:
        sched.append(a)
        if a[0] == "drain" and rng.random() < 0.3:
            sched += [["walk", rng.choice([0, 1, None])], ["drain"]]
    case.update(schedule=sched, smart=False, callers=2, yield_every=rng.choice([3, 5, 7, 11]), switch=rng.choice([1e-6, 1e-5, 1e-4]),
                seed=rng.randint(0, 10 ** 9), kind="thr_plain")
    return case


def thr_forget(rng):
    """as thr_plain, with CloudSync.forget() called at quiet points (it triggers a walk that re-discovers everything)"""
    case = thr_plain(rng)
    sched = []
    for a in case["schedule"]:
        sched.append(a)
        if a[0] == "drain" and rng.random() < 0.5:
            sched += [["forget"], ["drain"]]
    sched += [["drain"], ["forget"], ["drain"]]
    case.update(schedule=sched, kind="thr_forget")
    return case


def thr_smart(rng):
    """SmartCloudSync: remote-side history; application threads request / un-request / list / query concurrently"""
    fl = rng.choice([f for f in E.ALL_FLAVOURS if not f.filt and not f.oip[0] and not f.oip[1]])
    g = EC.Gen(rng, fl, [1], 0)
    g.allow_empty = False
    base_other = []
    for _ in range(rng.randint(2, 5)):
        d = rng.choice(g.dirs())
        if rng.random() < 0.3 and d.count("/") < 2:
            rel = d + "/" + g.fresh("D")
            g.tree[rel] = "D"
            base_other.append(["mkdir", g.abs(1, rel)])
        else:
            rel = d + "/" + g.fresh("F")
            g.tree[rel] = "F"
            base_other.append(["create", g.abs(1, rel), g.content()])
    for _ in range(rng.randint(1, 5)):
        r = rng.random()
        if r < 0.5 or not g.files(1):
            g.one_op_simple(1)
        else:
            rel = rng.choice(g.files(1))
            g.sched.append(["user", 1, ["write", g.abs(1, rel), g.content()]])
        if rng.random() < 0.4:
            g.sched.append(["drain"])
    return dict(flavour=fl.key(), base=[], base_other=base_other, schedule=g.sched, smart=True, callers=2,
                yield_every=rng.choice([3, 5, 7, 11]), switch=rng.choice([1e-6, 1e-5, 1e-4]), seed=rng.randint(0, 10 ** 9),
                hash_mult=rng.choice([1, 3, 7, 11]), kind="thr_smart")


def thr_faults(rng):
    """as thr_plain while 5-20 % of the engine's provider calls fail (temporary, disconnected, token, out of space, invalid
    name, plain exceptions): the managers' failure handling (punt, commit, backoff) runs on the real threads.  The
    bracketing drains of the history are waited for with the faults still on (bounded number of faults)."""
    case = thr_plain(rng)
    case.update(kind="thr_faults",
                faults=dict(seed=rng.randrange(1 << 30), p=rng.choice([0.05, 0.1, 0.2]), max=rng.choice([10, 25, 40]),
                            kinds=rng.choice([["temporary"], ["temporary", "out_of_space", "plain"], ["plain"],
                                              ["temporary", "disconnected", "token", "out_of_space", "file_name", "plain"]])))
    return case


def thr_smart_faults(rng):
    case = thr_smart(rng)
    case.update(kind="thr_smart_faults",
                faults=dict(seed=rng.randrange(1 << 30), p=rng.choice([0.05, 0.1, 0.2]), max=rng.choice([10, 25]),
                            kinds=rng.choice([["temporary"], ["temporary", "out_of_space", "plain"], ["plain"]])))
    return case


THR_FAMILIES = {"thr_plain": thr_plain, "thr_forget": thr_forget, "thr_smart": thr_smart, "thr_faults": thr_faults,
                "thr_smart_faults": thr_smart_faults}


# ====================================================================== (iv) provider faults: the error paths
# The failure handling of the managers (punt of the picked entry, commit, backoff; reconnect / re-authentication /
# cursor reset of the event managers) only runs when a provider call fails.  harness/families_c10.py has the injection
# layer (every engine-issued API call is a fault point: mutators, download, info_*, listdir, hash/exists, events and
# "between two events") and runs each step through the REAL Runnable.run loop body; it is reused here with two more
# kinds (a plain Exception, a rejected cursor) and a rule that addresses "the next call named X on side S".
FAULT_KINDS = ("temporary", "disconnected", "token", "token_expired", "out_of_space", "file_name", "plain", "cursor")
_FAULTY = {}


def fault_injector_class():
    """subclass of families_c10.Injector (built lazily: that module imports cloudsync)"""
    if "cls" in _FAULTY:
        return _FAULTY["cls"]
    from . import families_c10 as C10
    C10.EXPECT_NOTE.setdefault("plain", None)
    C10.EXPECT_NOTE.setdefault("cursor", None)

    Base = C10.Injector          # run_faulty swaps the module attribute: keep the real base class

    class FaultInjector(Base):
        calls_when_lifted = None

        @property
        def plan(self):
            return self.__dict__.get("_plan")

        @plan.setter
        def plan(self, v):
            if v is None and self.__dict__.get("_plan") is not None:
                self.calls_when_lifted = sum(self.calls.values())     # run_c10's faults_off sets plan = None
            self.__dict__["_plan"] = v

        def decide(self, side, call, index, args):
            if self.plan is not None and not self.suppress:
                for r in self.plan["rules"]:
                    if r["t"] == "next" and r.get("left", r.get("n", 1)) > 0 and r["call"] == call and r["side"] in (side, None):
                        if applies(r["kind"], call):
                            r["left"] = r.get("left", r.get("n", 1)) - 1
                            return r["kind"]
            k = Base.decide(self, side, call, index, args)
            if k is not None and not applies(k, call):
                return None
            return k

        def fire(self, side, call, index, args):
            self.calls[call] = self.calls.get(call, 0) + 1
            kind = self.decide(side, call, index, args)
            if kind is None:
                return None
            p = self.world.provs[side]
            if kind in ("disconnected", "token_expired"):
                p.disconnect()
            if kind == "token_expired":
                self.expired[side] = True
            rec = dict(index=index - self.plan_base, side=side, call=call, kind=kind,
                       step=len(self.steps) if self.step is not None else None, in_walk=bool(self.in_walk))
            self.injected.append(rec)
            if self.step is not None:
                self.step["injected"].append(rec)
            return make_fault(kind)

    def applies(kind, call):
        if kind == "cursor":
            return call in ("events", "events_next")
        if kind == "plain":
            return True
        return C10.kind_applies(kind, call)

    def make_fault(kind):
        if kind == "plain":
            return Exception("injected plain exception")
        if kind == "cursor":
            import cloudsync.exceptions as ex
            return ex.CloudCursorError("injected rejected cursor")
        return C10.make_exc(kind)
    _FAULTY["cls"] = FaultInjector
    return FaultInjector


def run_faulty(case, monitor):
    """families_c10.run_c10 with the extended injector; returns the RunResult (the injector is in res.extra['c10'])"""
    from . import families_c10 as C10
    cls = fault_injector_class()
    old = C10.Injector
    C10.Injector = cls
    try:
        return C10.run_c10(case, monitor)
    finally:
        C10.Injector = old


def flt_rate(rng):
    """clean history; every engine API call fails with probability 2-20 % (mixed kinds incl. plain exceptions and invalid
    names), faults lifted before every drain"""
    from . import families_c10 as C10
    c = C10.with_rate_faults(rng)
    if rng.random() < 0.5:
        extra = rng.choice([["plain"], ["file_name"], ["plain", "file_name"], ["cursor"], ["plain", "cursor"]])
        for a in c["schedule"]:
            if a[0] == "faults":
                for r in a[1]["rules"]:
                    if r["t"] == "rate":
                        r["kinds"] = list(r["kinds"]) + [k for k in extra if k not in r["kinds"]]
    return c


def flt_path(rng):
    from . import families_c10 as C10
    return C10.permanent_path(rng)


def flt_walk(rng):
    from . import families_c10 as C10
    return C10.walk_faults(rng)


def single_fault_base():
    """the fixed history of the exhaustive single-fault sweep: creations on both sides, an edit, a rename into a folder,
    a delete, engine steps in between (so that events, look-ups, downloads, creates, uploads, renames and deletes are
    all fault points)"""
    fl = E.Flavour(oip=(False, False), cs=(True, True), filt=False)
    L, R = fl.roots
    sched = [["user", 0, ["create", L + "/f1.txt", b"one"]], ["intake", 0], ["sync"],
             ["user", 0, ["write", L + "/d/a.txt", b"edited"]], ["user", 1, ["create", R + "/g1.txt", b"remote"]],
             ["intake", 0], ["intake", 1], ["sync"], ["sync"],
             ["user", 0, ["rename", L + "/f1.txt", L + "/d/f2.txt"]], ["user", 0, ["delete", L + "/b.txt"]],
             ["hook", "steps", 5]]
    return dict(flavour=fl.key(), base=[["mkdir", L + "/d"], ["create", L + "/d/a.txt", b"alpha"], ["create", L + "/b.txt", b"beta"]],
                schedule=sched, hash_mult=1,
                mode=dict(origin=None, check_spec=False, no_conflicted=False, cov_every_step=True))


def single_fault_case(i):
    """case number i of the sweep: call index i // len(FAULT_KINDS), kind FAULT_KINDS[i % len]"""
    from . import families_c10 as C10
    k, kind = divmod(i, len(FAULT_KINDS))
    base = single_fault_base()
    c = dict(base)
    c["schedule"] = [["faults", dict(rules=[dict(t="at", index=k, kind=FAULT_KINDS[kind])])]] + list(base["schedule"])
    c["c10"] = dict(family="single", index=k, kind=FAULT_KINDS[kind])
    return C10.finish_case(c)


def single_fault_calls(monitor):
    """number of engine API calls (fault points) of the fault-free base run"""
    from . import families_c10 as C10
    base = single_fault_base()
    c = dict(base)
    c["schedule"] = [["faults", dict(rules=[])]] + list(base["schedule"]) + [["faults_off"]]
    res = run_faulty(C10.finish_case(c), monitor)
    inj = res.extra["c10"]
    return inj.calls_when_lifted


FAULT_FAMILIES = {"flt_rate": flt_rate, "flt_path": flt_path, "flt_walk": flt_walk}


def observed_faulty(case, monitor):
    global CUR
    install()
    CUR = rec = Recorder()
    try:
        res = run_faulty(case, monitor)
    finally:
        CUR = None
    return rec, res
