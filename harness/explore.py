"""Parallel exploration of engine-level case families with the Coq monitor as oracle."""
import json
import multiprocessing as mp
import os
import random

from . import enginecheck as EC
from . import framework as fw

_W = {}


def _worker_init():
    from . import engine as E
    E.install()
    _W["monitor"] = fw.ModelProc("monitor")


def _gen_by_name(name):
    from . import families
    return getattr(families, name)


def _run_chunk(args):
    """args = (family name, seed, start, count, runner name) -> (n, stats, failures[list of (case, verdict, descr)])"""
    fam, seed, start, count, runner = args
    if "monitor" not in _W:
        _worker_init()
    from . import families
    gen = getattr(families, fam)
    run = getattr(families, runner) if runner else None
    out = []
    stats = dict(runs=0, user_ops=0, engine_calls=0, obs=0, rounds=0, flavours={}, opkinds={}, distinct=set(), samples=[])
    for i in range(start, start + count):
        if getattr(gen, "by_index", False):
            case = gen(i)            # Stream B: deterministic, independent of the seed
        else:
            rng = random.Random("%s/%s/%d" % (seed, fam, i))
            case = gen(rng)
        case["_id"] = [fam, i]
        if run is not None:
            res = run(case, _W["monitor"])
        else:
            res = EC.run_case(case, _W["monitor"])
        stats["runs"] += 1
        nu = 0
        for a in case["schedule"]:
            if a[0] == "user":
                nu += 1
                stats["opkinds"][a[2][0]] = stats["opkinds"].get(a[2][0], 0) + 1
            else:
                stats["opkinds"][a[0]] = stats["opkinds"].get(a[0], 0) + 1
        stats["user_ops"] += nu
        stats["engine_calls"] += res.engine_calls
        stats["obs"] += len(res.events)
        stats["rounds"] += sum(res.rounds)
        fk = json.dumps(case["flavour"])
        stats["flavours"][fk] = stats["flavours"].get(fk, 0) + 1
        if nu >= 1 and res.engine_calls >= 1:
            stats["distinct"].add(fw.case_id(EC.jsonable_case(dict(f=case["flavour"], s=case["schedule"], b=case.get("base"))))[:16])
        if len(stats["samples"]) < 1:
            stats["samples"].append(dict(flavour=case["flavour"], base=[a[:2] for a in case.get("base", [])],
                                         schedule=[(a if a[0] != "user" else ["user", a[1], [x if not isinstance(x, bytes) else "<%d bytes>" % len(x) for x in a[2]]]) for a in case["schedule"]],
                                         verdict="accepted" if res.verdict == [] else EC.describe(res),
                                         observations=len(res.events)))
        if res.verdict != []:
            out.append((EC.jsonable_case(case), res.verdict, EC.describe(res), [repr(e)[:200] for e in res.events[-12:]]))
    stats["distinct"] = list(stats["distinct"])
    return stats, out


def explore(ctx, fam, n, runner=None, procs=16, seed=None):
    """Runs n cases of family `fam` (a function name in harness.families). Returns (stats, failures)."""
    seed = ctx.seed if seed is None else seed
    chunk = max(20, min(250, n // (procs * 2) or 1))
    jobs = [(fam, seed, s, min(chunk, n - s), runner) for s in range(0, n, chunk)]
    tot = dict(runs=0, user_ops=0, engine_calls=0, obs=0, rounds=0, flavours={}, opkinds={}, distinct=set(), samples=[])
    fails = []
    if procs <= 1 or len(jobs) == 1:
        results = [_run_chunk(j) for j in jobs]
    else:
        with mp.get_context("fork").Pool(procs, initializer=_worker_init) as pool:
            results = pool.map(_run_chunk, jobs, chunksize=1)
    for st, out in results:
        for k in ("runs", "user_ops", "engine_calls", "obs", "rounds"):
            tot[k] += st[k]
        for k in ("flavours", "opkinds"):
            for a, b in st[k].items():
                tot[k][a] = tot[k].get(a, 0) + b
        tot["distinct"].update(st["distinct"])
        if len(tot["samples"]) < 3:
            tot["samples"] += st["samples"]
        fails += out
    tot["distinct"] = len(tot["distinct"])
    return tot, fails


def shrink_case(case, runner, monitor, code):
    """delta-debug the schedule (then the base) keeping the same failing guard"""
    def fails_with(sched, base):
        c = dict(case, schedule=sched, base=base)
        r = runner(c, monitor)
        return r.verdict != [] and r.verdict[1] == code
    sched = fw.shrink_list(case["schedule"], lambda s: fails_with(s, case.get("base", [])), max_rounds=150)
    base = case.get("base", [])
    if base:
        b2 = fw.shrink_list(base, lambda b: fails_with(sched, b), max_rounds=60)
        if fails_with(sched, b2):
            base = b2
    return dict(case, schedule=sched, base=base)


def report_failures(ctx, fails, runner=None, what="", relevant=None, max_reports=3):
    """Turns monitor rejections into VIOLATION / KNOWN-FINDING verdicts (shrinking the first few)."""
    from . import engine as E
    runner = runner or EC.run_case
    n = 0
    mon = None
    for case, verdict, descr, tail in fails:
        code = verdict[1]
        if relevant is not None and code not in relevant:
            continue
        n += 1
        if n > max_reports:
            continue
        if mon is None:
            E.install()
            mon = fw.ModelProc("monitor")
        c = EC.unjson_case(case)
        small = c
        try:
            small = shrink_case(c, runner, mon, code)
            r = runner(small, mon)
            descr2 = EC.describe(r)
        except Exception as e:  # shrinking must never hide the original failure
            descr2 = descr + " (shrink failed: %r)" % e
            small = c
        ctx.violation("%s: %s" % (what, descr2),
                      dict(kind="engine-run", family=case.get("_id"), guard=EC.GUARDS.get(code, code),
                           case=EC.jsonable_case({k: v for k, v in small.items() if k != "_id"}),
                           original=case, trace_tail=tail))
    if mon is not None:
        mon.close()
    return n
