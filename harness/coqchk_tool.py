"""Coordinator tool (never run by a check): coqchk -o over the compiled property files; writes notes/coqchk.txt.
usage: python harness/coqchk_tool.py [PropC13 ...]   (default: every Prop*.v that has a .vo)"""
import glob, os, subprocess, sys, time
VERIF = os.path.dirname(os.path.dirname(os.path.abspath(__file__)))
COQ = os.path.join(VERIF, "coq")


def main():
    names = sys.argv[1:] or sorted(os.path.splitext(os.path.basename(f))[0] for f in glob.glob(os.path.join(COQ, "theories", "Prop*.vo")))
    out = []
    for n in names:
        t0 = time.time()
        p = subprocess.run(["timeout", "1800", "coqchk", "-silent", "-o", "-Q", "theories", "CS", "CS." + n], cwd=COQ,
                           stdout=subprocess.PIPE, stderr=subprocess.STDOUT, text=True)
        txt = p.stdout
        i = txt.find("CONTEXT SUMMARY")
        summary = txt[i:] if i >= 0 else txt[-3000:]
        out.append("===== coqchk -o CS.%s   rc=%d   %.0f s\n%s\n" % (n, p.returncode, time.time() - t0, summary.strip()))
        print(out[-1][:400])
        sys.stdout.flush()
    with open(os.path.join(VERIF, "notes", "coqchk.txt"), "w") as f:
        f.write("coqchk (Coq 8.16.1) over the compiled property files and everything they depend on; -o prints the axioms.\n\n" + "\n".join(out))


if __name__ == "__main__":
    main()
