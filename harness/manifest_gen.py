"""Regenerates MANIFEST.json from the per-property table below (kept in one place so it stays valid)."""
import json
import os

VERIF = os.path.dirname(os.path.dirname(os.path.abspath(__file__)))

CHECKS = {}      # id -> dict(level_text, level_note, technique, design_ref)
NOT_APPLICABLE = {}  # id -> reason


def claim(pid, text, note, technique, ref):
    CHECKS[pid] = dict(text=text, note=note, technique=technique, ref=ref)


claim("C13",
      "Coq proof: the path-helper laws are theorems about PathModel.v (executable Gallina model of "
      "provider.py's join/split/normalize/is_subpath/replace_path/paths_match and CloudSync.translate) for all strings and "
      "conventions; the model is tied to the working tree on every run by differential execution of the extracted model "
      "against the real helpers (exhaustive small strings, random long paths) and by evaluating the laws on the real code.",
      "Trusted: Coq kernel, extraction (ExtrOcamlBasic) + OCaml driver, the Python correspondence harness, CPython str "
      "semantics; per-character case-fold hypotheses (checked on the generator alphabet).",
      "machine-checked proof (Coq) over a hand-written model + differential correspondence check", "DESIGN.md §6 C13")

ALL = ["C%02d" % i for i in range(1, 21)]


def main():
    checks = []
    for pid in ALL:
        if pid not in CHECKS:
            continue
        c = CHECKS[pid]
        checks.append(dict(
            property_id=pid,
            quick_cmd="./check %s --tier quick" % pid,
            thorough_cmd="./check %s --tier thorough" % pid,
            evidence_file="evidence/%s.json" % pid,
            replay_cmd_template="./check %s --replay {path}" % pid,
            engine="coq-model+correspondence",
            level_claimed=dict(category="proof", text=c["text"], design_ref=c["ref"]),
            level_note=c["note"],
            technique=c["technique"]))
    na = [dict(property_id=pid, reason=NOT_APPLICABLE.get(pid, "check not built yet in this round (planned in DESIGN.md §6); not claimed"))
          for pid in ALL if pid not in CHECKS]
    m = dict(
        version=1,
        setup_cmd="/venv/bin/python harness/build.py all",
        hooks=dict(guard="CLOUDSYNC_VERIF", enable="no source hooks: all instrumentation wraps bound methods in-process (harness/envfix.py, harness/engine.py); ./check exports CLOUDSYNC_VERIF=1 for uniformity",
                   baseline_off_cmd="cd /repo && /venv/bin/python -m pytest -ra -q -p no:cacheprovider --timeout=900 --continue-on-collection-errors",
                   source_commits=[], add_only=True),
        engines=[dict(name="coq-model+correspondence", path="coq/ harness/",
                      serves_properties=[c["property_id"] for c in checks],
                      kind_free_text="Coq 8.16.1 theorems about executable Gallina models; models extracted to OCaml and run against the real Python code")],
        checks=checks,
        notes="See DESIGN.md.  known_findings.json lists genuine defects recorded rather than repaired and the fix: commits.",
        not_applicable=na)
    with open(os.path.join(VERIF, "MANIFEST.json"), "w") as f:
        json.dump(m, f, indent=1)
    print("MANIFEST.json: %d checks, %d not claimed" % (len(checks), len(na)))


if __name__ == "__main__":
    main()
