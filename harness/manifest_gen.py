"""Regenerates MANIFEST.json from the per-property table below (kept in one place so it stays valid)."""
import json
import os

VERIF = os.path.dirname(os.path.dirname(os.path.abspath(__file__)))

CHECKS = {}      # id -> dict(level_text, level_note, technique, design_ref)
NOT_APPLICABLE = {}  # id -> reason


def claim(pid, text, note, technique, ref):
    CHECKS[pid] = dict(text=text, note=note, technique=technique, ref=ref)


claim("C13",
      "Coq proof: the path-helper laws are theorems about PathModel.v (executable Gallina model of "
      "provider.py's join/split/normalize/is_subpath/replace_path/paths_match and CloudSync.translate) for all strings and "
      "conventions; the model is tied to the working tree on every run by differential execution of the extracted model "
      "against the real helpers (exhaustive small strings, random long paths) and by evaluating the laws on the real code.",
      "Trusted: Coq kernel, extraction (ExtrOcamlBasic) + OCaml driver, the Python correspondence harness, CPython str "
      "semantics; per-character case-fold hypotheses (checked on the generator alphabet).",
      "machine-checked proof (Coq) over a hand-written model + differential correspondence check", "DESIGN.md §6 C13")

ENGINE_NOTE = ("Trusted: Coq kernel; extraction (ExtrOcamlBasic) + OCaml driver; the observation harness (in-process wrappers, virtual clock, "
               "serial ids); MockProvider as the file tree (tied to TreeModel.apply_op after every user operation). The engine's own algorithm "
               "is NOT modelled: theorems are about the acceptor and the tree specification for all traces; the tie to the code is that every "
               "explored real run must be accepted. Unexplored runs are not covered. Seeded exploration is confined to the claimed-clean "
               "domain of DESIGN §4.3 (fresh paths between drains, bracketed folder operations, id-stable acting sides, unfiltered events).")
ENGINE_TECH = "machine-checked proof (Coq) of a trace acceptor and tree specification + trace acceptance of real engine runs"

claim("C01",
      "Coq proof (all traces): a trace accepted by Monitor.accept has equal views modulo '.conflicted' names at every quiet report and "
      "never more than step_bound engine steps after the last user operation without a quiet report. Tie: every explored run of the real "
      "engine (one-sided, disjoint two-sided and same-file conflict histories, random interleavings of user ops, per-side intake and sync "
      "steps, all unfiltered flavours with id-stable acting sides, permuted set orders) is recorded and must be accepted by the extracted acceptor.",
      ENGINE_NOTE, ENGINE_TECH, "DESIGN.md §3.2, §6 C01")
claim("C02",
      "Coq proof (all traces): in an accepted trace every content version written by a user and not since overwritten/deleted by a user "
      "(cov, characterised by C02_covered_meaning) is the content of a live file after every engine action and at every quiet report. Tie: "
      "edit/edit and create/create conflict histories plus disjoint histories on the real engine, unique content tokens, judged by the extracted acceptor.",
      ENGINE_NOTE, ENGINE_TECH, "DESIGN.md §3.2, §6 C02")
claim("C03",
      "Coq proof (all traces): in an accepted one-sided trace both views at every quiet report equal the synchronised base tree with the "
      "user's operations applied (TreeModel.apply_ops), no engine action changes the origin side's view, no provider write follows a quiet "
      "report, and no '.conflicted' name exists. Tie: one-sided histories in both directions on the real engine judged by the extracted acceptor.",
      ENGINE_NOTE, ENGINE_TECH, "DESIGN.md §3.2, §6 C03")
claim("C04",
      "Coq proof (all traces): in an accepted trace both views at every quiet report equal the base tree with BOTH sides' operations applied; "
      "TreeProofs shows this tree does not depend on the interleaving for disjoint operation lists (commutation of independent operations). "
      "Tie: disjoint two-sided histories on the real engine judged by the extracted acceptor.",
      ENGINE_NOTE, ENGINE_TECH, "DESIGN.md §3.2, §6 C04")

claim("C12",
      "Coq proof (all traces): every engine-issued provider mutation of an accepted trace addresses only paths inside the root of its side, "
      "and the part of each provider tree outside the root is identical before and after it (C12_engine_confined); translation into/out of "
      "the roots: C13's translate theorems. Tie: histories mixing objects inside the roots, in other folders, in prefix-sibling folders "
      "(/local2, /localx), at the account root, file/folder moves across the boundary, roots given by path or by oid, and a translate "
      "function declining a sub-folder, on the real engine; 'move out = delete, move in = create' is checked as convergence of the views.",
      ENGINE_NOTE, ENGINE_TECH, "DESIGN.md §3.2, §6 C12")

claim("C05",
      "Coq proof: the contract is an executable specification (ResolverSpec.outcome: resolver calls, bytes it must see, both quiet-state "
      "views) whose clauses are theorems for all contents/names/answers (called once with the true bytes iff contents differ; pick => both "
      "sides that content and the loser kept as '.conflicted' on the losing side iff keep; merged+nokeep => both merged; None/exception/"
      "garbage => remote wins, local kept). The spec has no schedule argument; the tie is exhaustive: every product case of contents x "
      "10 resolver behaviours x shapes x 4 flavours x all schedules of <= 4 engine steps runs on the real engine and must be accepted.",
      "Trusted: Coq kernel; extraction + driver; harness observers. The engine's conflict path is not modelled; merged+keep, temporary "
      "errors from the resolver and path-style ids are outside the explored product.",
      "machine-checked proof (Coq) of an executable outcome specification + exhaustive product of real engine runs accepted by it", "DESIGN.md §6 C05")

ALL = ["C%02d" % i for i in range(1, 21)]


def main():
    checks = []
    for pid in ALL:
        if pid not in CHECKS:
            continue
        c = CHECKS[pid]
        checks.append(dict(
            property_id=pid,
            quick_cmd="./check %s --tier quick" % pid,
            thorough_cmd="./check %s --tier thorough" % pid,
            evidence_file="evidence/%s.json" % pid,
            replay_cmd_template="./check %s --replay {path}" % pid,
            engine="coq-model+correspondence",
            level_claimed=dict(category="proof", text=c["text"], design_ref=c["ref"]),
            level_note=c["note"],
            technique=c["technique"]))
    na = [dict(property_id=pid, reason=NOT_APPLICABLE.get(pid, "check not built yet in this round (planned in DESIGN.md §6); not claimed"))
          for pid in ALL if pid not in CHECKS]
    m = dict(
        version=1,
        setup_cmd="/venv/bin/python harness/build.py all",
        hooks=dict(guard="CLOUDSYNC_VERIF", enable="no source hooks: all instrumentation wraps bound methods in-process (harness/envfix.py, harness/engine.py); ./check exports CLOUDSYNC_VERIF=1 for uniformity",
                   baseline_off_cmd="cd /repo && /venv/bin/python -m pytest -ra -q -p no:cacheprovider --timeout=900 --continue-on-collection-errors",
                   source_commits=[], add_only=True),
        engines=[dict(name="coq-model+correspondence", path="coq/ harness/",
                      serves_properties=[c["property_id"] for c in checks],
                      kind_free_text="Coq 8.16.1 theorems about executable Gallina models; models extracted to OCaml and run against the real Python code")],
        checks=checks,
        notes="See DESIGN.md.  known_findings.json lists genuine defects recorded rather than repaired and the fix: commits.",
        not_applicable=na)
    with open(os.path.join(VERIF, "MANIFEST.json"), "w") as f:
        json.dump(m, f, indent=1)
    print("MANIFEST.json: %d checks, %d not claimed" % (len(checks), len(na)))


if __name__ == "__main__":
    main()
