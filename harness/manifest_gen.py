"""Regenerates MANIFEST.json from the per-property table below (kept in one place so it stays valid)."""
import json
import os

VERIF = os.path.dirname(os.path.dirname(os.path.abspath(__file__)))

CHECKS = {}      # id -> dict(level_text, level_note, technique, design_ref)
NOT_APPLICABLE = {}  # id -> reason


def claim(pid, text, note, technique, ref):
    CHECKS[pid] = dict(text=text, note=note, technique=technique, ref=ref)


claim("C13",
      "Coq proof (38 theorems, no axioms): every law of the property is a theorem about PathModel.v (executable Gallina model of "
      "provider.py's join/split/normalize/is_subpath/replace_path/paths_match and CloudSync.translate) for all strings and all "
      "conventions, under explicit hypotheses on the per-character case fold. Two ties on every run: differential execution of the "
      "extracted model against the real helpers (exhaustive small strings, random long paths, laws evaluated on the real code with the "
      "theorems' guards) and a fail-closed ast translator regenerating nps/split/is_subpath/replace_path from the source, proved equal to the model.",
      "Trusted: Coq kernel, extraction (ExtrOcamlBasic) + OCaml driver, the Python correspondence harness, CPython str "
      "semantics; per-character case-fold hypotheses (checked on the generator alphabet).",
      "machine-checked proof (Coq) over a hand-written model + differential correspondence check", "DESIGN.md §6 C13")

ENGINE_NOTE = ("Trusted: Coq kernel; extraction (ExtrOcamlBasic) + OCaml driver; the observation harness (in-process wrappers, virtual clock, "
               "serial ids); MockProvider as the file tree (tied to TreeModel.apply_op after every user operation). The engine's own algorithm "
               "is NOT modelled: theorems are about the acceptor and the tree specification for all traces; the tie to the code is that every "
               "explored real run must be accepted. Unexplored runs are not covered. Seeded exploration is confined to the claimed-clean "
               "domain of DESIGN §4.3 (fresh paths between drains, bracketed folder operations, id-stable acting sides, unfiltered events).")
ENGINE_TECH = "machine-checked proof (Coq) of a trace acceptor and tree specification + trace acceptance of real engine runs"

claim("C01",
      "Coq proof (all traces): a trace accepted by Monitor.accept has equal views modulo '.conflicted' names at every quiet report and "
      "never more than step_bound engine steps after the last user operation without a quiet report. Tie: every explored run of the real "
      "engine (one-sided, disjoint two-sided and same-file conflict histories, random interleavings of user ops, per-side intake and sync "
      "steps, all unfiltered flavours with id-stable acting sides, permuted set orders) is recorded and must be accepted by the extracted acceptor.",
      ENGINE_NOTE, ENGINE_TECH, "DESIGN.md §3.2, §6 C01")
claim("C02",
      "Coq proof (all traces): in an accepted trace every content version written by a user and not since overwritten/deleted by a user "
      "(cov, characterised by C02_covered_meaning) is the content of a live file after every engine action and at every quiet report. Tie: "
      "edit/edit and create/create conflict histories plus disjoint histories on the real engine, unique content tokens, judged by the extracted acceptor.",
      ENGINE_NOTE, ENGINE_TECH, "DESIGN.md §3.2, §6 C02")
claim("C03",
      "Coq proof (all traces): in an accepted one-sided trace both views at every quiet report equal the synchronised base tree with the "
      "user's operations applied (TreeModel.apply_ops), no engine action changes the origin side's view, no provider write follows a quiet "
      "report, and no '.conflicted' name exists. Tie: one-sided histories in both directions on the real engine judged by the extracted acceptor.",
      ENGINE_NOTE, ENGINE_TECH, "DESIGN.md §3.2, §6 C03")
claim("C04",
      "Coq proof (all traces): in an accepted trace both views at every quiet report equal the base tree with BOTH sides' operations applied; "
      "TreeProofs shows this tree does not depend on the interleaving for disjoint operation lists (commutation of independent operations). "
      "Tie: disjoint two-sided histories on the real engine judged by the extracted acceptor.",
      ENGINE_NOTE, ENGINE_TECH, "DESIGN.md §3.2, §6 C04")

claim("C12",
      "Coq proof (all traces): every engine-issued provider mutation of an accepted trace addresses only paths inside the root of its side, "
      "and the part of each provider tree outside the root is identical before and after it (C12_engine_confined); translation into/out of "
      "the roots: C13's translate theorems. Tie: histories mixing objects inside the roots, in other folders, in prefix-sibling folders "
      "(/local2, /localx), at the account root, file/folder moves across the boundary, roots given by path or by oid, and a translate "
      "function declining a sub-folder, on the real engine; 'move out = delete, move in = create' is checked as convergence of the views.",
      ENGINE_NOTE, ENGINE_TECH, "DESIGN.md §3.2, §6 C12")

claim("C05",
      "Coq proof: the contract is an executable specification (ResolverSpec.outcome: resolver calls, bytes it must see, both quiet-state "
      "views) whose clauses are theorems for all contents/names/answers (called once with the true bytes iff contents differ; pick => both "
      "sides that content and the loser kept as '.conflicted' on the losing side iff keep; merged+nokeep => both merged; None/exception/"
      "garbage => remote wins, local kept). The spec has no schedule argument; the tie is exhaustive: every product case of contents x "
      "10 resolver behaviours x shapes x 4 flavours x all schedules of <= 4 engine steps runs on the real engine and must be accepted.",
      "Trusted: Coq kernel; extraction + driver; harness observers. The engine's conflict path is not modelled; merged+keep, temporary "
      "errors from the resolver and path-style ids are outside the explored product.",
      "machine-checked proof (Coq) of an executable outcome specification + exhaustive product of real engine runs accepted by it", "DESIGN.md §6 C05")


claim("C06",
      "Coq proof (no axioms): CursorModel.v — an acceptor for the cursor-relevant actions of an event manager (event applied, cursor stored, "
      "walk finished, restart, cursor lost, cursor reset) keeps, for every action sequence with any number of restarts, the invariant that the "
      "stored cursor is never ahead of the applied events unless storage itself records that a full walk is due; hence after any restart no "
      "event is both unreflected and skipped (C06_restart_never_skips). Outcome: restarts are invisible in the observation trace, so Monitor "
      "acceptance with the spec check is 'continues as if it had never stopped' (C06_restart_transparent) and no provider write after quiet is "
      "'no re-transfer'. Tie: clean histories with stops at random step boundaries, operations while stopped, SqliteStorage on a file, three "
      "modes (intact / cursor removed / cursor rejected); the real cursor actions of both sides are judged by the extracted CursorModel, the "
      "trace by the extracted Monitor, and the C11 index clauses and C08 storage==memory oracles run after every step.",
      ENGINE_NOTE + " In the two fallback modes only creations/modifications are required to arrive (property text): operations made "
      "between the stop and the end of the fallback walk are restricted to those.", ENGINE_TECH, "DESIGN.md §6 C06")

PURE_TECH = "machine-checked proof (Coq) over a hand-written executable model + differential correspondence check against the real code"

claim("C09",
      "Coq proof (no axioms): executable Gallina models of SqliteStorage (table, rowid = 1 + max over all tags, WHERE id AND tag) and of the "
      "MockStorage fixture refine a finite map (tag, id) -> bytes for every call sequence incl. close/reopen; fresh ids, read-last-write, "
      "update-missing error, idempotent delete, exact read_all, tag isolation with coinciding ids, reopen identity are corollaries; any "
      "interleaving of whole calls by n threads is a legal map history with no write lost (atomicity of a call assumed). Tie on every run: "
      "generated call sequences on SQLite file (with reopen), :memory: and MockStorage vs the extracted model, the laws evaluated on the real "
      "answers, a threaded stress and a two-thread read-race probe. MockStorage deviations (second instance re-issues id 0; read of a missing "
      "id raises) are Coq refutations + open known findings.",
      "Trusted: Coq kernel, extraction + driver, harness; SQLite's durability and the runtime's per-call atomicity are assumed and only tested (partial).",
      PURE_TECH, "DESIGN.md §6 C09")
claim("C18",
      "Coq proof (no axioms) about an executable model of runnable.py / notification.py: exact backoff arithmetic over Q (formula, bounds, reset, "
      "no-op, survival of every outcome incl. BaseException) and a two-thread small-step machine with one atomic step per racy private-attribute "
      "access, whose stop/restart/cleanup theorems hold for every interleaving by invariant. The statements that were false of the original code "
      "(lost cleanup, un-finalising stop(False), AttributeError from wake()) are kept as refutations of the legacy variant; the code was repaired "
      "(aef1d0a) and the theorems hold for the repaired variant, which the check auto-detects. Tie: exact-Fraction differential runs of the "
      "sequential loop, access-by-access schedule replay on real threads, NotificationManager runs with failing handlers.",
      "Trusted: Coq kernel, extraction + driver, harness (attribute interception on a subclass, Event/Thread proxies). OS scheduling, real time, several concurrent callers are outside the model.",
      PURE_TECH, "DESIGN.md §6 C18")
claim("C17",
      "Coq proof (no axioms): the scheduling laws are theorems about SchedModel.v (change(), mark_changed, punt, finished, priorities) for all tables, "
      "all set iteration orders, all operation histories and clock readings, under stated hypotheses on float rounding that ideal arithmetic satisfies. "
      "Two ties on every run: differential execution of the extracted model against a real SyncState under a virtual clock (exact rationals), and a "
      "fail-closed ast translator that regenerates the eligibility test, the sort key and 'now' from the current source of SyncState.change and re-proves "
      "them equal to the model. 'Last notification on either side' is refuted for the code (open known finding).",
      "Trusted: Coq kernel, extraction + driver, translator, harness. IEEE doubles satisfying the rounding hypotheses is not proved; where SyncManager decides to punt/finish is not modelled.",
      PURE_TECH + " + source-regenerated definitions (ast translator)", "DESIGN.md §6 C17")
claim("C19",
      "Coq proof (no axioms) about an executable model of HierarchicalCache's public API (tree + derived id index + ghost ids): the invariant (unique "
      "names per folder, files are leaves, no id on two nodes) holds in every reachable state for every operation sequence; for regular operations the "
      "path->id and id->path views are inverses, delete/replace forgets the subtree, rename moves the identical subtree, lookups equal the plain "
      "dictionary (commuting diagrams). Full-strength coherence is refuted with witnesses for two open defect classes (ancestor id; insertion at '/'). "
      "Tie: extracted model vs the real cache on corpus, exhaustive short sequences and seeded random sequences, all getters compared after every op.",
      "Trusted: Coq kernel, extraction + driver, harness, CPython dict order/refcounting; path-string parsing is C13's; weak parent pointers/GC not modelled.",
      PURE_TECH, "DESIGN.md §6 C19")
claim("C08",
      "Coq proof (no axioms): the msgpack codec of SyncEntry/SideState is characterised completely (which entries survive, what changes: list->tuple, "
      "priority/force_sync/_last_gotten reset; all listed fields preserved for well-formed shapes; legacy rows load); the dirty-set/storage_commit "
      "mechanism over a row store with SQLite's id re-use is proved exact after every commit and independent of the dirty-set iteration order for the "
      "variant that clears storage_id on delete (the code since fix 39c80a7; the legacy variant is refuted by the P-9 witness); reload yields the same "
      "lookups and pending set. Tie: differential runs against SyncEntry.serialize/load and real state-level histories with controlled dirty-set orders "
      "on both back ends; a behavioural probe selects the model variant. Engine level: storage == memory is compared after every step of the C06/C07 runs.",
      "Trusted: Coq kernel, extraction + driver, harness, msgpack/sqlite themselves. The live index maintenance is C11's.",
      PURE_TECH, "DESIGN.md §6 C08")
claim("C16",
      "Coq proof (no axioms) about ProvModel.v, a faithful executable model of MockProvider/MockFS in its four flavours: for all call sequences oid "
      "stability (id-style) / oid = path (path-style), append-only event log and cursor semantics, agreement of info/exists/hash/download/listdir, the "
      "error class of each failing precondition, the hash law for an arbitrary hash, event completeness per mutation, the connect identity check. Tree "
      "well-formedness is refuted at full strength (two witnesses = open findings F4, F5) and proved for clean sequences of <= 3 calls (bound in the "
      "statement), beyond that monitored on every explored state. Tie: every return value, exception class, event and tree vs the real MockProvider "
      "(4 flavours) and FileSystemProvider on a temp directory (synchronous API; inotify stream not compared).",
      "Trusted: Coq kernel (vm_compute for the bounded wf theorem), extraction + driver, harness. rename_moves_subtree not proved; filesystem events partial.",
      PURE_TECH, "DESIGN.md §6 C16")
claim("C11",
      "Coq proof (no axioms) about StateModel.v (entry table, per-side id and (path,id) indexes, change set, every intercepted write as an explicit "
      "setter with fuel): id assignment (all of _change_oid), changed, priority, ignored, mark_changed, finished, discard, non-folder path assignment and "
      "any sequence of these preserve clauses (i)-(iii) from every state satisfying the invariant. Clause (iv) at full strength and termination of the "
      "folder-path setter are false of the faithful model (witnesses replayed on the real code: open findings F1, F4). Tie: after EVERY operation of "
      "random event/assignment/split/finished/discard sequences for both id styles the real indexes and entries equal the model's; the four clauses are "
      "also evaluated on every state of the C06/C07 engine runs (harness/state_oracle.py).",
      "Trusted: Coq kernel, extraction + driver, harness. Folder path assignment, update, update_entry, split, move-a-side: correspondence + oracle only, no preservation proof.",
      PURE_TECH, "DESIGN.md §6 C11")


# ---- from notes/C12_claim.py
# Proposed replacement of the claim("C12", ...) call in harness/manifest_gen.py (do not edit that file here).
# What is new: "move out = delete, move in = create" and "declined paths are left alone" are theorems about
# every accepted trace (MonitorBoundary.v, PropC12.v), no longer only convergence of the views.
claim("C12",
      "Coq proof (all traces, any length, any trees): every engine-issued provider mutation of an accepted trace addresses only paths "
      "inside the root of its side, the part of each provider tree outside the root is identical before and after it "
      "(C12_engine_confined), and no addressed path has a component the application's translate function declines "
      "(C12_declined_left_alone; guard DECLINED, the declined names are part of the run's configuration). "
      "For accepted one-sided runs (users act on one side s0; initial tree of s0 well-formed = unique paths, every parent a stored folder): "
      "the entries strictly below a root and all the others determine the tree (C12_view_and_outside_determine_tree), hence no engine "
      "action changes the acting side at all and after every observation its tree equals the initial tree with the user's ABSOLUTE "
      "operations applied, renames with one end outside the root included (C12_origin_tree_is_history, C12_origin_tree_observed); "
      "at every quiet report of a run that demands the absence of conflicted names the peer's view equals the root view of that tree "
      "(C12_boundary_moves_mirror). Spelled out for an applicable rename that is the last user operation before a quiet report "
      "(applicability = TreeProofs.rename_ok of the tree itself; C12_rename_applicable: source exists, not an ancestor of the target, "
      "target free, target's parent a folder): source strictly inside the root and target not => the peer's view has nothing at or "
      "below the source's relative path and is the previous root view everywhere else (C12_move_out_is_delete); source not strictly "
      "inside and target strictly inside => the peer's view has at the target's relative path and below exactly what the acting side "
      "had at the source and below, and is the previous root view everywhere else (C12_move_in_is_create). Non-vacuity: a concrete "
      "accepted one-sided trace with a file moved out and a folder with content moved in, both corollaries instantiated on it, and "
      "rejected variants (peer copy left behind: CONVERGE; declined path addressed: DECLINED; outside write: CONFINED). "
      "Translation into/out of the roots by the default translate: C13's theorems; nothing about an arbitrary translate function is "
      "proved beyond 'declined names are never addressed'. "
      "Tie: histories mixing objects inside the roots, in other folders, in prefix-sibling folders (/local2, /localx), at the account "
      "root, file/folder moves across the boundary, roots given by path or by oid, and a translate function declining a sub-folder, each "
      "run on the real engine as a one-sided run with origin = the acting side and (except the declining variant, whose ignore list "
      "doubles as the conflicted list) no_conflicted = true, i.e. exactly the hypotheses of the boundary theorems; every explored run "
      "must be accepted by the extracted acceptor. Not proved / not checked at run time: well-formedness of the initial tree is a "
      "hypothesis (true of every MockProvider tree; TreeProofs.wfb decides it); two-sided runs get confinement and DECLINED only; "
      "a boundary move whose effect is still in flight at the end of a run (no quiet report after it) is constrained only by "
      "confinement.",
      ENGINE_NOTE, ENGINE_TECH, "DESIGN.md §3.2, §6 C12")


# ---- from notes/C20_claim.py
# paste into harness/manifest_gen.py (after the other engine-level claims; ENGINE_NOTE / ENGINE_TECH are defined there)
claim("C20",
      "Coq proof (37 theorems, no axioms), every statement for an ARBITRARY auto-sync predicate. (a) Gate — an executable model of the "
      "mechanism in cloudsync/smartsync.py over arbitrary entry tables, request / exclude sets and local provider contents: an entry that "
      "is a remote-only file, not requested and not matched never reaches the sync step (it is not offered, or it is finished at "
      "pre_sync) and the filter does not request it; folders, requested entries and entries with a live local file always pass; a pending "
      "folder / requested entry / fresh local change is always offered; request registers the entry, un-excludes it, marks the remote side "
      "changed, forgets a stale local side and processes changed ancestors first (and raises, after registering, when the remote path is "
      "unknown: finding S-1); un-request issues only a push of the entry and a delete of the LOCAL object and leaves an entry that cannot be "
      "read as a local deletion; the merged listing of one folder. (b) smart_spec — big-step outcomes over (remote tree, local tree, "
      "requested, un-requested, locally born) for ALL sequences of remote create/mkdir/edit/delete, local create/mkdir/edit, request, "
      "un-request and edit-then-un-request: an invariant of every reachable state gives folders_always_mirrored, local_tree_uploaded / "
      "local_creations_uploaded, never_download_unrequested (+ trace form: a file is local only if the sequence contains its request, its "
      "matched remote creation or its local creation), requested_kept_in_sync (+ persistence, both directions), unrequest_keeps_remote "
      "(remote tree identical; with a pending local edit: identical except that file's content) and removes only the local copy, "
      "unrequested_stays_remote (predicate or not), listing_law. (c) Monitor — for every observation trace accepted by mon_accept: a file "
      "that appears locally while its remote file exists was requested, or is matched and not un-requested; after a successful un-request "
      "no engine action brings the file back until it is requested again; a remote file disappears through an engine action only outside "
      "any un-request call and only if a user deleted the local copy (never, when no user deletes locally); inside an un-request call only "
      "the content of that file's remote copy and the presence of its local copy change. "
      "Tie on every run: (1) the gate model step by step against the real SmartSyncState._changeset, SmartSyncManager.pre_sync, "
      "SmartCloudSync.smart_sync_* / smart_unsync_* / smart_listdir_path on random real entry tables; (2) seeded sequences on the real "
      "SmartCloudSync over two MockProviders (drained after every action, or interleaved with intake/sync steps; three predicates; by local "
      "path, remote path, id): extracted monitor on every observation, extracted smart_spec on both trees and the merged listing of every "
      "folder at every quiescent point; (3) a deterministic set (corpus, exhaustive product of 9 boundary scenarios x predicate x request "
      "flavour x engine-step slots, fixed-seed sample without the domain restrictions) whose failures are the listed findings S-1, S-2.",
      ENGINE_NOTE + " C20 specifics: between quiescent points only the monitor guard judges (trees are compared at quiescent points only); "
      "the sync step itself (manager.sync / embrace_change) is not modelled, only the gate in front of it; local deletes, renames and "
      "edit/edit conflicts are outside the property's alphabet and are not generated; request / un-request of FOLDERS and requests by id of "
      "an object the engine knows without a path are generated only in the deterministic set (findings S-2, S-1); for a request call that "
      "raised something other than not-found, whether a request was left behind is read from the real request set.",
      ENGINE_TECH + " + stepwise correspondence of a mechanism model on real entry tables", "DESIGN.md §6 C20")


# ---- from notes/C15_claim.py
# to be pasted into harness/manifest_gen.py (after the other engine-level claims)
claim("C15",
      "Coq proof (11 theorems, no axioms), for ALL traces over any number of threads and one re-entrant lock (owner + depth), any state type, "
      "any transformer semantics of a write and any observation function of a read: a well-locked trace in which every access of the guarded "
      "state is made by the thread that owns the lock (disciplined) is equivalent — same per-thread event sequences, same final state from "
      "every initial state, same value seen by every read — to a serial trace in which the critical sections run one after another "
      "(C15_disciplined_serialisable; the witness is the extracted serialise, C15_serialise_correct; it is a sequence of single-thread atomic "
      "steps whose effects fold to the run's effect, C15_serial_atomic_steps); every invariant preserved by each atomic step holds at every "
      "point of the interleaved run where no thread owns the lock (C15_invariant_at_lock_free_points); the executable acceptors violations / "
      "lock_errors decide exactly disciplined / well_locked (reflection, 5 theorems); without the discipline the statement is false "
      "(C15_undisciplined_refuted: a locked and an unlocked increment lose an update, no serial trace reaches that state). "
      "Tie on every run: a class-level observer (SyncState.updated, the attribute setters of SideState/SyncEntry/SyncState, observing dict/set "
      "containers for both indexes, pending set, dirty set, requestset/excludeset, a recording wrapper around SyncState.lock) records the real "
      "engine's lock operations and state accesses in the model's vocabulary; the extracted acceptors judge every trace and must agree with "
      "RLock._is_owned() read at each access. Explored per run: all sequential clean-domain engine runs (five families, every access must be "
      "lock-owned), production-style runs with the real threads (CloudSync.start(): sync thread, two event threads, notification thread) plus "
      "application threads calling the public methods under switch intervals down to 1e-6 s and injected yields (lock ownership of every access; "
      "both trees equal after stop for CloudSync; C11 index invariant at the end), scripted calls of every public method of CloudSync and "
      "SmartCloudSync from an application thread, synthetic traces against a Python mirror, Python threads over a real RLock. "
      "Open findings P-6/P-6d/P-6e: SmartCloudSync.smart_unsync_path/_oid, smart_delete_path, the pre-lock part of smart_sync_path/_oid, the "
      "pending-set getter reached from `busy`, and CloudSync.forget touch the state without the lock (deterministic witnesses in corpus/C15).",
      "Trusted: Coq kernel; extraction (ExtrOcamlBasic) + OCaml driver; the observer and its completeness for the writes that go through "
      "__setattr__ of the three state classes and through the six containers (reads of entry fields are not observed; a container read counts "
      "as part of a read-modify-write when the same do()/public call also writes); threading.RLock._is_owned as ground truth; list.append "
      "under the GIL as the global event order; the virtual clock of harness/engine.py (kept in threaded runs); MockProvider with its events() "
      "iteration made atomic. Not modelled: WHICH accesses the engine performs (observed on explored runs only), C-level atomicity of dict/set "
      "operations, the OS scheduler (interleavings are sampled; a run that does not get quiet within its budget is counted inconclusive). "
      "The cursor rows (data_id) are outside the guarded state by the property's own list.",
      "machine-checked proof (Coq) of serialisability for lock-disciplined traces + reflected trace acceptors run on the observed lock/access "
      "traces of real sequential and threaded engine runs", "DESIGN.md §6 C15")


# ---- from notes/C14_claim.py
# text for harness/manifest_gen.py (the coordinator pastes this call; ENGINE_NOTE / PURE_TECH are defined there)
claim("C14",
      "Coq proof (19 theorems, no axioms) about EventModel.v (EventManager._process_event, SyncEntry.get_latest / unconditionally_get_latest, "
      "_last_gotten) on top of StateModel.v (SyncState.update, C11), for EVERY state satisfying the C11 index invariant, every provider "
      "environment and every event payload: id-less events are dropped and id-less folder deletions resolved by path; a walk event whose hash and "
      "path equal the stored entry changes nothing; one non-folder event of an id-stable provider changes exactly one entry (exact entry-level "
      "spec); the same event twice = once (up to the numeric change stamps) except TRASHED+exists, where the difference is removed by the re-read; "
      "events for different ids commute; after the re-read of the truth by id the state does not depend on which events for an id were delivered, "
      "how often, in which order or with which payload (priority excepted); a vanished object reads TRASHED whatever was delivered; the deletion "
      "of an id never seen yields nothing delete_synced could delete; every event (folders included) stamps its side newer than all earlier "
      "stamps and leaves the entry due for a re-read on both sides when no _last_gotten is ahead of the clock. Six full-strength statements are "
      "FALSE of the faithful model and kept as _refuted with witnesses replayed on the real code (duplicate creation event after a deletion; "
      "folder events vs stale child events; priority reset by a stale path; hash_conflict() of a vanished object reads the event's hash; a "
      "priority punt pushes _last_gotten ahead of the clock so the next event is not re-read; path-style ids: a late copy of a rename event "
      "re-files the entry of a file re-created at the old path). Ties on every run: (i) after EVERY operation of random event sequences "
      "(duplicates, late re-deliveries, id-less events, folder deletions by path, walk replays, root events, prior_oid renames, vanished ids, "
      "get_latest with stubbed provider answers, engine-like state writes; both id styles) the real EventManager/SyncState state incl. "
      "_last_gotten equals the extracted model's, and the statements are evaluated on the real behaviour; (ii) every clean-domain history is run "
      "twice on the real engine - prompt in-order delivery and mangled delivery (1-3 copies, late copies, single-event batches, finite delay and "
      "permutation between drains for id-stable sides, full walks through EventManager.need_walk, dropped path fields, id-less folder deletions) "
      "- and must give Monitor-accepted runs, equal final trees, equal tree-changing engine calls when the trees are still while the engine works "
      "(otherwise: no version transferred twice, no more calls of a kind than user operations), and a walk of a quiet engine must leave it quiet.",
      "Trusted: Coq kernel; extraction (ExtrOcamlBasic) + OCaml driver; StateModel/StateProofs (C11) and PathModel (C13); the harness (C11 clock and "
      "set-order recording, stubbed provider answers as model inputs, the event mangler installed on provider instances and its flush rule, the "
      "pairing of two engine runs, Monitor acceptor). NOT proved: the sync manager's decisions after the re-read (only that their inputs are "
      "equal), folder events beyond idempotence/stamps (children re-filing: correspondence only), path-style ids (refuted; correspondence + engine "
      "pairs with adjacent copies only), events delayed ACROSS a quiet point (open finding E-10: the mangler flushes at drains), event filtering, "
      "provider exceptions during intake. Open findings listed in known_findings.json: E-10, E-17.",
      "machine-checked proof (Coq) over a hand-written executable model + stepwise differential correspondence + paired real engine runs judged by the Coq monitor",
      "DESIGN.md §6 C14")


# ---- from notes/C10_claim.py
# claim() entry for harness/manifest_gen.py (the coordinator pastes it there; this file is not imported)
claim("C10",
      "Coq proof (41 theorems, no axioms) over executable models: (a) the class order of exceptions.py (15 classes + any class derived "
      "from them by single inheritance) and notify_from_exception as an isinstance chain — every subclass of disconnected / out-of-space / "
      "file-name / namespace / root-missing / temporary maps to its kind, out-of-space is not shadowed by temporary, no branch is dead; "
      "(b) the except clauses of SyncManager._sync_one_entry / _validate_provider_roots / EventManager.do as handler tables inside C18's loop "
      "model — for EVERY exception class and every finite sequence of step results: each step ends in one of LoopModel's outcome classes, "
      "do() is called once per step (no fault ends a loop), what is notified / punted / committed / need_auth / reconnect / re-authenticate, "
      "k faulty steps wait min(max, min*mult^(k-1)), the first step that does something resets the backoff; (c) C17's scheduler with "
      "permanently failing entries — for every table, failing set and clock sequence a good entry that stays eligible is picked within "
      "budget+1 calls of change() (<= |change set| with default priorities), a punted entry is eligible again after its punt delay; "
      "(d) Monitor: a failed provider call is a stutter, so an accepted run with faults is converged, has lost no covered version and (one-sided/"
      "disjoint) equals the history at every quiet report. Full-strength statements false of the code stay as refutations: a fault inside "
      "SyncState.change() is not notified (finding E-15), root-missing/file-name are not reported by the event loop, an idle sync loop keeps "
      "its backoff. Ties on every run: fail-closed ast translator regenerating class order, chain and handler tables (GenNotify.v = model by "
      "reflexivity; do() and _reconnect_if_needed by ast equality); exhaustive class-order/chain differential; scripted steps over all 67 "
      "classes on the REAL managers through the REAL Runnable.run loop body vs the extracted machines; real SyncState change/punt/finished vs "
      "sched_run incl. the bound; engine runs on two MockProviders with faults injected into every engine-issued provider call (mutations, "
      "download, info_oid, info_path, listdir, hash/exists, events and between two events): every single call index x 6 kinds exhaustively per "
      "base run, random subsets 2-20 %, disconnect()/reconnect, expired tokens with re-authentication, out-of-space, permanent per-path "
      "failures (locked / invalid name) lifted later, faults during a start-up walk; oracles: nothing leaves Runnable.run, matching "
      "notification in the step of every reportable injected fault, healthy files in sync while the failing one is set aside, invalid name "
      "set aside (engine quiet), Monitor acceptance after the faults stop, stepwise machine correspondence on every recorded step.",
      "Trusted: Coq kernel; extraction (ExtrOcamlBasic) + OCaml driver; the translator's whitelist and Python try/except + isinstance "
      "semantics built into FaultModel.dispatch/isinst (single inheritance); the observation harness (in-process wrappers on provider / "
      "storage / manager instances, class-level observer on SyncEntry.punt, virtual clock, serial ids, debug_sig replacement); MockProvider "
      "incl. its connection state. NOT modelled: the sync algorithm itself (part (d) is about the acceptor; every explored run must be "
      "accepted, unexplored runs are not covered); OS timing of backoff sleeps; threads. Seeded fault domain excludes the provider calls "
      "SyncState makes on its own (change() fill-in, _update_kids) — findings E-15, E-8, E-14, replayed from corpus/C10 on every run.",
      "machine-checked proof (Coq) over hand-written models (reusing LoopModel, SchedModel, Monitor) + translator + differential "
      "correspondence + fault-injection runs of the real engine judged by the extracted acceptor",
      "DESIGN.md §6 C10")


# ---- from notes/C20_claim.py (after the repairs fc0a567, 2277c0d)
# paste into harness/manifest_gen.py (after the other engine-level claims; ENGINE_NOTE / ENGINE_TECH are defined there)
claim("C20",
      "Coq proof (43 theorems, no axioms), every statement for an ARBITRARY auto-sync predicate. (a) Gate — an executable model of the "
      "mechanism in cloudsync/smartsync.py over arbitrary entry tables, request / exclude sets and local provider contents: an entry that "
      "is a remote-only file, not requested and not matched never reaches the sync step (it is not offered, or it is finished at "
      "pre_sync) and the filter does not request it; folders, requested entries and entries with a live local file always pass; a pending "
      "folder / requested entry / fresh local change is always offered; request of a file registers the entry, un-excludes it, marks the remote "
      "side changed, forgets a stale local side and processes changed ancestors first; request of a folder registers nothing; a request by id "
      "first fills an unknown remote path in and never raises for an object the remote provider has (the code before the repairs fc0a567 / 2277c0d "
      "is kept as g_request_legacy with four refutation / witness theorems); un-request issues only a push of the entry and a delete of the "
      "LOCAL object and leaves an entry that cannot be read as a local deletion; the merged listing of one folder. (b) smart_spec — big-step outcomes over (remote tree, local tree, "
      "requested, un-requested, locally born) for ALL sequences of remote create/mkdir/edit/delete, local create/mkdir/edit, request, "
      "un-request and edit-then-un-request: an invariant of every reachable state gives folders_always_mirrored, local_tree_uploaded / "
      "local_creations_uploaded, never_download_unrequested (+ trace form: a file is local only if the sequence contains its request, its "
      "matched remote creation or its local creation), requested_kept_in_sync (+ persistence, both directions), unrequest_keeps_remote "
      "(remote tree identical; with a pending local edit: identical except that file's content) and removes only the local copy, "
      "unrequested_stays_remote (predicate or not), listing_law. (c) Monitor — for every observation trace accepted by mon_accept: a file "
      "that appears locally while its remote file exists was requested, or is matched and not un-requested; after a successful un-request "
      "no engine action brings the file back until it is requested again; a remote file disappears through an engine action only outside "
      "any un-request call and only if a user deleted the local copy (never, when no user deletes locally); inside an un-request call only "
      "the content of that file's remote copy and the presence of its local copy change. "
      "Tie on every run: (1) the gate model step by step against the real SmartSyncState._changeset, SmartSyncManager.pre_sync, "
      "SmartCloudSync.smart_sync_* / smart_unsync_* / smart_listdir_path on random real entry tables; (2) seeded sequences on the real "
      "SmartCloudSync over two MockProviders (drained after every action, or interleaved with intake/sync steps; three predicates; by local "
      "path, remote path, id): extracted monitor on every observation, extracted smart_spec on both trees and the merged listing of every "
      "folder at every quiescent point; (3) a deterministic set (corpus incl. the regression cases of the repaired findings S-1, S-2, exhaustive "
      "product of 9 boundary scenarios x predicate x request flavour x engine-step slots, fixed-seed sample of the generator) that must pass entirely.",
      ENGINE_NOTE + " C20 specifics: between quiescent points only the monitor guard judges (trees are compared at quiescent points only); "
      "the sync step itself (manager.sync / embrace_change) is not modelled, only the gate in front of it; local deletes, renames and "
      "edit/edit conflicts are outside the property's alphabet and are not generated; for a request call that raised something other than "
      "not-found (still possible: path unknown and the remote object gone), whether a request was left behind is read from the real request set.",
      ENGINE_TECH + " + stepwise correspondence of a mechanism model on real entry tables", "DESIGN.md §6 C20")


# ---- from notes/C16_claim.py
# claim text for harness/manifest_gen.py (replaces the existing claim("C16", ...) call)
claim("C16",
      "Coq proof (no axioms, by induction over call sequences of any length) about ProvModel.v, a faithful executable model of "
      "MockProvider/MockFS in its four flavours.  For all call sequences: oid stability (id-style) / oid = path (path-style), append-only event "
      "log and cursor semantics, agreement of info/exists/hash/download/listdir, the error class of each failing precondition, the hash law for an "
      "arbitrary hash, event completeness per mutation, the connect identity check, and the structure of the object table (S_inv: no repeated key, "
      "a path key leads to a cell with that normalised path, id keys = cell numbers) in the three flavours other than path-style+case-insensitive.  "
      "Tree well-formedness (root is a live folder; every live object is filed under its own path and oid, has a live FOLDER as parent, is listed "
      "once) is proved for EVERY state reachable by a call sequence that satisfies the explicit decidable guard guard_op in those three flavours "
      "(C16_wf_reachable_guarded; invariant INV, one preservation lemma per call).  The guard excludes exactly: the path-style+case-insensitive "
      "flavour (finding C16-F4), a rename whose target lies strictly inside the renamed object's own subtree (C16-F5), removal of the root folder "
      "(delete of the root, '/' as rename target; new finding C16-F7); each part is shown necessary by a refutation with a witness replayed on the "
      "real mock.  Keys are unrestricted (a path string used as oid, C16-F6, is covered).  C16_rename_moves_subtree: after a successful guarded "
      "rename of o from old to p, for every relative path rel the object that was at old++rel is the object at p++rel (same cell, kind, contents; "
      "same oid for id-style, oid = new path for path-style), the old paths are free (unless only the case changed), every other live object "
      "except an empty folder that was at p is unchanged, and nothing else appears.  C16_listdir_exact_wf: listdir of a live folder = exactly the "
      "live objects whose parent path is the folder, each once.  The earlier bounded theorem (clean sequences of <= 3 calls, vm_compute) is kept "
      "as a special case.  Tie: every return value, exception class, event and tree vs the real MockProvider (4 flavours) and FileSystemProvider "
      "on a temp directory (synchronous API; inotify stream not compared); wf, listing and rename_moves_subtree predicates evaluated on the real "
      "MockProvider's own object table on every clean explored sequence.",
      "Trusted: Coq kernel (vm_compute only for refutation witnesses, the bounded theorem and non-vacuity Examples), extraction + driver, harness "
      "(reads MockFS._objects and MockProvider._events).  Not proved: that the guard is also sufficient for the path-style+case-insensitive "
      "flavour (it is not: C16-F4); nothing about FileSystemProvider beyond the differential; filesystem events partial.  The move loop of "
      "MockProvider.rename runs over a Python set: the model answers EUnspecified where the result would depend on the order, and the theorems "
      "are about the calls that succeed.",
      PURE_TECH, "DESIGN.md §6 C16")


# ---- from notes/C11_claim.py
# replaces the claim("C11", ...) call of harness/manifest_gen.py (the coordinator pastes it; that file is not edited here)
claim("C11",
      "Coq proof (no axioms) about StateModel.v (entry table, per-side id and (path,id) indexes, change set, every intercepted write as an explicit "
      "setter with fuel, event application, split, move-a-side): clauses (i)-(iii) (IdxJ: every entry carrying an id is found under it and under "
      "(path,id); every slot leads to an entry carrying that id/path; one owner per id and side) are PRESERVED, from EVERY state satisfying them and "
      "for ALL arguments, tapes and fuel, by: id assignment (all of _change_oid), changed, priority, ignored, mark_changed, finished, discard, path "
      "assignment of ANY entry incl. folders with the recursion of _update_kids through the children's setters (C11_set_path_folder_preserves), "
      "SyncState.update_entry, SyncState.update (one provider event, all branches: prior_oid re-use / rename detection / merge by side move / stale "
      "path lookups / new entry), SyncState.split, SyncEntry.__setitem__ (both announcement orders); headline C11_idx_reachable: after EVERY "
      "operation of EVERY sequence over the whole modelled alphabet from the empty state in which each operation satisfies its guard (guardedb), "
      "(i)-(iii) hold. Hypotheses, all explicit: env_ok (the code as it is; the providers' per-character case fold satisfies PathLaws.fold_ok - true "
      "of the model's fold); result constructor Ok (assertion failures, RecursionError = out of fuel and unfitting tapes are explicit Err results); "
      "the guards, boolean functions of the state BEFORE the operation (decidable, C11_below_decidable): (a) a folder is not placed strictly below "
      "its own previous path (class of open finding F4, for which termination is refuted: kept), (b) for a side move onto a folder entry that "
      "already has a path, and for the merge branch of update: additionally the side is not oid_is_path when an id comes along (needed: "
      "C11_setitem_refuted, new open finding F5, witness replayed on the real SyncState), (c) not forget_oid (C11_forget_refuted; no caller in the "
      "engine). Measured in the quick run: 99.4% of 147 999 generated steps and 95.8% of 20 000 sequences satisfy the guards (bits printed by the "
      "extracted guard model, C11_guard_trace_decides); 0 claimed-clause failures inside the guarded domain. Clause (iv) at full strength stays "
      "refuted (F1). Tie: after EVERY operation of random event/assignment/split/finished/discard/move/update_entry sequences for both id styles the "
      "real indexes and entries equal the model's (now incl. moves of an id-less side with a path: catches seeded C11b); the four clauses are also "
      "evaluated on every state of the C06/C07 engine runs (harness/state_oracle.py).",
      "Trusted: Coq kernel, extraction + driver, harness, PathModel/PathLaws (C13) for is_subpath/join as component lists. The theorems quantify over "
      "ALL entries of the model's entry table (also ones no slot leads to); the Python oracle only over entries reachable through an id slot. Not "
      "proved: termination (refuted in general), clause (iv), anything about runs outside the guards; key-uniqueness of the association lists is not "
      "part of the invariant (hence the event guard also ranges over the entries the stale path lookup returns). Not modelled: CORRUPT/_saved_exists, "
      "size, mtime, storage, non-default prioritize, state after an exception.",
      PURE_TECH, "DESIGN.md §6 C11")


# ---- from notes/C07_claim.py
# claim entry for harness/manifest_gen.py (paste after the C06 claim; ENGINE_NOTE / ENGINE_TECH are defined there)
claim("C07",
      "Coq proof (16 theorems, no axioms) about CrashModel.v, the commit discipline as a machine of individual writes (durable: storage rows "
      "with both sides' oid/path/hash/sync_path/sync_hash/exists/changed, stored cursors; volatile: in-memory entries, dirty marks, cursor "
      "position; two providers with the whole history of every object; engine steps decomposed, in the order of the code, into provider "
      "write / memory update / row commit / cursor store, each with its guard; crash = volatile part dropped, memory reloaded from the rows). "
      "(a) for EVERY sequence of guarded micro operations, user operations and crashes, hence at every write boundary: every stored sync mark "
      "is reflected by its own object and by the peer unless a user changed the object since, and every object whose events the stored cursor "
      "covers is accounted for by a stored row (C07_durable_never_ahead, by induction over the sequence); the model's plans never issue an "
      "operation whose guard fails and have the write order provider writes -> row commits / row commits -> cursor last. (b) from every state "
      "of every plan-driven run — all step sequences, all crash points ECrash m k — in which no user acts between a crash and the next quiet "
      "state, the recovery (restart, intake from the stored cursors, sync with adoption of an equal-content peer at the translated path) ends "
      "settled with equal views, no '.conflicted' name, one peer per object, origins untouched (C07_half_recorded_recoverable_partial); full "
      "strength (users acting during the recovery) and the recovery without the adoption rule are refuted with witnesses. (c) rows that fail to "
      "load are exactly the dropped ones, loading is total. Outcome: a crash is invisible in the observation trace, Monitor acceptance gives "
      "convergence to the spec tree, covered versions live, no '.conflicted', origin untouched. Tie on every run: each base run of a seeded "
      "clean-domain family (one-sided / disjoint, SqliteStorage on a file) is re-run once per storage write (death before it) and per "
      "engine-issued provider write (death after it); oracles: Monitor + C11 index + C08 storage==memory during recovery; the extracted "
      "na_row/na_obj (the functions of theorem (a)) on the decoded rows at every write boundary and, on the re-opened file, at the crash "
      "instant; the extracted shape_ok on the write order of every engine step; the model's recovery of the abstracted crash state vs the real "
      "recovery (provider writes per object, final views); an undecodable row injected at crash instants must be dropped by the restart.",
      ENGINE_NOTE + " C07 additionally trusts the abstraction of real rows/providers to the model's vocabulary (msgpack decoding, oid lookup, "
      "interning, object histories recorded by scanning the mock file system, a folder event counted as an event of its descendants, slots "
      "assembled from which side's user made an object). Not modelled: torn writes inside SQLite, process death inside a provider call, path "
      "collisions and parent-first ordering, users acting between the process death and the end of the recovery (refuted for the model; "
      "witnesses W1/W2 replayed with pinned outcome). The seeded domain is tightened by two classes found by this check and listed as known "
      "findings with deterministic witnesses: F-C07-1 (crash between the row commits after a folder rename, then an operation on a child; "
      "resumed runs exclude folder renames) and F-C07-2 (peer created at a path the origin has already left; a drain precedes the rename or "
      "delete of an object made since the last quiet point).",
      "machine-checked proof (Coq) of an executable model of the commit discipline (invariant over all write sequences and crash points) and of a "
      "trace acceptor + exhaustive crash-point enumeration of real engine runs judged by the extracted predicates",
      "DESIGN.md §3.2, §6 C07")


# ---- additions that apply on top of the claims above
ENTRYPRED = (" Second tie for the decision predicates the engine's algorithm rests on (SideState.needs_sync, SyncEntry.hash_conflict / "
             "is_creation / is_deletion / is_rename / is_path_change / is_discarded / is_latest ... 19 predicates, and Runnable's backoff "
             "step): a fail-closed ast translator regenerates GenEntryPred.v / GenBackoff.v from the current source on every run, "
             "PropEntryPred.v (70 theorems, no axioms) proves generated = hand model and the laws the engine relies on (with the false "
             "full-strength readings kept as refutations), and a truth table on real SideState / SyncEntry objects is compared with the "
             "extracted model.")
for _pid in ("C03", "C04"):
    CHECKS[_pid]["text"] += ENTRYPRED
SB2 = (" Deterministic Stream B additionally enumerates an exhaustive tiny scope of nested-folder histories (streamB-v2-nest: all ordered "
       "pairs/triples of 12 operations x 8 flavours x both acting sides x 4 systematic schedules); the cases that fail on the unchanged "
       "tree are listed by case id and guard.")
for _pid in ("C01", "C03", "C04"):
    CHECKS[_pid]["text"] += SB2

# ---- algorithm layer (from notes/ALGO_claim.py): folded into the C01 and C03 claims
_ALGO = {}


def _algo_claim(pid, text, note, technique, ref):
    _ALGO.update(text=text, note=note)


_claim_saved = claim
claim = _algo_claim
exec(open(os.path.join(VERIF, "notes", "ALGO_claim.py")).read())      # the builder keeps that file current

claim = _claim_saved
for _pid in ("C01", "C03"):
    CHECKS[_pid]["text"] += " ALGORITHM LAYER (re-checked and tied on every run of this check): " + _ALGO["text"]
    CHECKS[_pid]["note"] += " Algorithm layer: " + _ALGO["note"]
    CHECKS[_pid]["technique"] = ("machine-checked proof (Coq) of a trace acceptor and tree specification + trace acceptance of real engine runs "
                                 "+ executable Gallina model of the engine's own step function with invariant proofs and stepwise "
                                 "correspondence against the real engine")

# ---- families added in round 2 (seeded-change rounds, DESIGN section 9)
CHECKS["C01"]["text"] += (" Further seeded families: edit_vs_delete (a delete racing a newer edit of the same file) and "
                          "tree_delete_vs_child_change (a folder emptied into a new folder and removed while the peer changes a child); "
                          "Stream B also enumerates the path re-use scope streamB-v3-reuse.")
CHECKS["C02"]["text"] += (" Further seeded families: edit_vs_delete, conflicts_faulty (the conflict histories with transient provider "
                          "faults while the conflict is handled) and type_change_vs_edit (a file replaced by a folder while the peer edits it; "
                          "judged by the covered-version guards only).")
CHECKS["C03"]["text"] += " Stream B also enumerates the path re-use scope streamB-v3-reuse."
CHECKS["C04"]["text"] += " Stream B also enumerates the path re-use scope streamB-v3-reuse (two-sided variants)."
CHECKS["C05"]["text"] += (" Also run on every pass: a deterministic family in which the conflict is preceded by an interrupted sync of the "
                          "same file (a superseded temp file exists when the resolver is called), and a probe of the unspecified answer "
                          "(merged data, keep=True), on which the engine never goes quiet (open finding E-7).")
CHECKS["C06"]["text"] += (" Every restarted engine talks to the providers through a new session (feed position at 'latest'); family "
                          "restarts_after_fault stops the engine while a refused transfer is pending with its temp file recorded.")
CHECKS["C12"]["text"] += (" The confinement family also draws provider pairs of different case sensitivity with a case-variant sibling of the "
                          "root and root names where one root's path is a prefix of the other side's outside paths; two-sided families "
                          "boundary_races and declined_races (a move across the boundary / to a declined path racing a peer change of the "
                          "same object) are judged by the guards on engine actions.")

CHECKS["C04"]["text"] += " Further seeded family: create_then_rename_folder (a new file in a synchronised folder, the folder renamed before the file is synchronised, the other side busy in its own folder)."
CHECKS["C05"]["text"] += " A further deterministic family uses providers whose content hashes are of different types (identical content must still merge without a resolver call)."
CHECKS["C18"]["text"] += (" Deterministic restart schedules of the notification service (stop without finality while idle / while a handler runs, "
                          "then start again, notifications raised before, while stopped and after) are checked against the delivery law.")

# ---- families added in seeded-change round 7
CHECKS["C03"]["text"] += (" Further seeded family: case_only_rename (renames that change only the letter case, at least one side a "
                          "case-insensitive, case-preserving provider; the mirror must show the new spelling).")
CHECKS["C05"]["text"] += (" Family path_style: providers whose object ids are paths on one side or both, with long systematic schedules in "
                          "which the sync step runs repeatedly before the losing side's own rename event is taken in.")
CHECKS["C06"]["text"] += (" Family restarts_fallback_rename: synchronised objects renamed (fresh name, other folder, letter case only) while the "
                          "engine is down and the cursor lost; with stable ids the fallback walk must carry the rename to the other side.")

CHECKS["C08"]["text"] += (" Engine stream: the real engine over a sqlite file (clean one-sided and restart histories); after every intake and "
                          "sync step every live entry, dirty or not, must equal its stored row (strict storage oracle).")

ALL = ["C%02d" % i for i in range(1, 21)]


def main():
    checks = []
    for pid in ALL:
        if pid not in CHECKS:
            continue
        c = CHECKS[pid]
        checks.append(dict(
            property_id=pid,
            quick_cmd="./check %s --tier quick" % pid,
            thorough_cmd="./check %s --tier thorough" % pid,
            evidence_file="evidence/%s.json" % pid,
            replay_cmd_template="./check %s --replay {path}" % pid,
            engine="coq-model+correspondence",
            level_claimed=dict(category="proof", text=c["text"], design_ref=c["ref"]),
            level_note=c["note"],
            technique=c["technique"]))
    na = [dict(property_id=pid, reason=NOT_APPLICABLE.get(pid, "check not built yet in this round (planned in DESIGN.md §6); not claimed"))
          for pid in ALL if pid not in CHECKS]
    m = dict(
        version=1,
        setup_cmd="/venv/bin/python harness/build.py all",
        hooks=dict(guard="CLOUDSYNC_VERIF", enable="no source hooks: all instrumentation wraps bound methods in-process (harness/envfix.py, harness/engine.py); ./check exports CLOUDSYNC_VERIF=1 for uniformity",
                   baseline_off_cmd="cd /repo && /venv/bin/python -m pytest -ra -q -p no:cacheprovider --timeout=900 --continue-on-collection-errors",
                   source_commits=[], add_only=True),
        engines=[dict(name="coq-model+correspondence", path="coq/ harness/",
                      serves_properties=[c["property_id"] for c in checks],
                      kind_free_text="Coq 8.16.1 theorems about executable Gallina models; models extracted to OCaml and run against the real Python code")],
        checks=checks,
        notes="See DESIGN.md.  known_findings.json lists genuine defects recorded rather than repaired and the fix: commits.",
        not_applicable=na)
    with open(os.path.join(VERIF, "MANIFEST.json"), "w") as f:
        json.dump(m, f, indent=1)
    print("MANIFEST.json: %d checks, %d not claimed" % (len(checks), len(na)))


if __name__ == "__main__":
    main()
