"""./check <property> [--tier quick|thorough] [--replay file]"""
import argparse
import importlib
import os
import sys
import traceback

from . import framework


def main():
    ap = argparse.ArgumentParser()
    ap.add_argument("prop")
    ap.add_argument("--tier", default=os.environ.get("VERIF_TIER", "quick"), choices=["quick", "thorough"])
    ap.add_argument("--replay", default=None)
    a = ap.parse_args()
    try:
        seed = int(os.environ.get("VERIF_SEED", "20260923"))
    except ValueError:
        seed = 20260923
    prop = a.prop.upper()
    ctx = framework.Ctx(prop, a.tier, seed, a.replay)
    try:
        mod = importlib.import_module("harness.checks." + prop.lower())
    except ImportError:
        print("no check for " + prop)
        traceback.print_exc()
        sys.exit(2)
    # watchdog: a check never hangs - if the machinery (a worker pool, a model process, a thread of the code under test)
    # gets stuck, the run ends with a VIOLATION (machinery failure, no-failing-input-found) instead of blocking its caller
    import signal

    class CheckTimeout(Exception):
        pass

    def _on_alarm(signum, frame):
        raise CheckTimeout("check did not finish within its time limit")
    try:
        limit = int(os.environ.get("VERIF_TIMEOUT", "0")) or (2400 if a.tier == "quick" else 6 * 3600)
        signal.signal(signal.SIGALRM, _on_alarm)
        signal.alarm(limit)
    except (ValueError, OSError):
        pass
    try:
        rc = mod.run(ctx)
    except Exception:
        # an internal failure of the machinery is never a pass
        tb = traceback.format_exc()
        print(tb)
        ctx.violation("check machinery failed: " + tb.strip().split("\n")[-1],
                      dict(kind="harness-exception", traceback=tb), no_input=True,
                      theorem="harness (correspondence could not be run)")
        rc = ctx.finish(["(run aborted)"])
    try:
        signal.alarm(0)
    except Exception:
        pass
    sys.stdout.flush()
    os._exit(rc)      # do not wait for stuck worker processes / threads of the code under test


if __name__ == "__main__":
    main()
