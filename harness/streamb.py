"""Stream B — the deterministic case set (independent of VERIF_SEED), DESIGN §4.3.

(1) corpus/engine/*.json : minimised witnesses of known findings and regressions (run first);
(2) the frozen generator harness/streamb_gen.py (all flavours, full alphabet, re-used names), indices 0..N-1;
(3) the frozen ENUMERATED generator harness/streamb_gen2.py (families sb_nest*): the exhaustive tiny scope — every ordered
    pair / triple of a 12-operation alphabet over a nested base tree x 8 flavours (all id-style combinations) x acting
    side x 4 systematic schedules, one-sided and two-sided-disjoint; quick = every pair case, thorough = everything.
(4) the frozen ENUMERATED generator harness/streamb_gen3.py (families sb_reuse*): path re-use on one side — every ordered
    pair / triple of an 8-operation alphabet that vacates a path and re-occupies it, one-sided and with one operation of
    the other side in between, x 8 flavours x acting side x 6-8 systematic schedules (S0-S4 and 'carried to the peer, echo
    not yet taken in'); quick = every pair + the 'modify first' triples (core), thorough = everything.
A rejected case whose id is listed (status open) in known_findings.json prints KNOWN-FINDING; any other
rejected case is a VIOLATION.  The list is never written at run time (harness/tools_known.py builds it).
"""
import glob
import json
import os

from . import enginecheck as EC
from . import explore as X
from . import framework as fw

from . import streamb_gen2 as _G2
from . import streamb_gen3 as _G3

# generator (version) behind each family
FAMILY_VERSION = {"sb_nest": _G2.VERSION, "sb_nest_one": _G2.VERSION, "sb_nest_two": _G2.VERSION,
                  "sb_reuse": _G3.VERSION, "sb_reuse_one": _G3.VERSION, "sb_reuse_two": _G3.VERSION}


def family_version(fam):
    from . import streamb_gen
    return FAMILY_VERSION.get(fam, streamb_gen.VERSION)


# per property: the monitor mode under which the Stream B cases are judged, the generator families and sizes
# (family, n_quick, n_thorough): the first n indices of the family's enumeration.  sb_nest*: quick = every pair-history
# case (N_PAIRS*), thorough = the whole enumeration (pairs + triples).  sb_reuse*: quick = the core blocks (every pair case +
# the triples that start with 'write x': N_CORE_*), thorough = the whole enumeration.
PLAN = {
    "C01": dict(mode=dict(origin=None, check_spec=False, no_conflicted=False, cov_every_step=False),
                families=[("sb_one", 2000, 30000), ("sb_two", 2000, 30000), ("sb_nest", _G2.N_PAIRS, _G2.N_ALL),
                          ("sb_reuse", _G3.N_CORE_ALL, _G3.N_ALL)], ignore={10}),
    "C02": dict(mode=dict(origin=None, check_spec=False, no_conflicted=False, cov_every_step=False),
                families=[("sb_two", 3000, 30000)], only={6, 10}),
    "C03": dict(mode="own", families=[("sb_one", 3000, 30000), ("sb_nest_one", _G2.N_PAIRS_ONE, _G2.N_ONE),
                                      ("sb_reuse_one", _G3.N_CORE_ONE, _G3.N_ONE)], ignore={10}),
    "C04": dict(mode="own", families=[("sb_nest_two", _G2.N_PAIRS_TWO, _G2.N_TWO), ("sb_reuse_two", _G3.N_CORE_TWO, _G3.N_TWO)], ignore={10}),
    "C06": dict(mode=None, families=[]),
    "C07": dict(mode=None, families=[]),
    "C10": dict(mode=None, families=[]),
    "C14": dict(mode=None, families=[]),
    "C12": dict(mode=dict(origin=None, check_spec=False, no_conflicted=False, cov_every_step=False),
                families=[("sb_one", 1500, 20000), ("sb_two", 1500, 20000)], only={2, 3}),
}


def case_key(prop, case):
    c = {k: v for k, v in case.items() if k not in ("_id",)}
    return fw.case_id(dict(property=prop, case=EC.jsonable_case(c)))


def apply_mode(prop, case):
    plan = PLAN[prop]
    if plan["mode"] not in (None, "own"):
        case = dict(case, mode=dict(plan["mode"]))
    return case


def relevant(prop, code):
    plan = PLAN[prop]
    if "only" in plan:
        return code in plan["only"]
    return code not in plan.get("ignore", set())


def run_family(ctx_seed_unused, prop, fam, n, procs=16):
    """-> (stats, [(case(with mode), verdict, descr, tail)]) for the relevant rejections"""
    class _C:
        seed = 0
    st, fails = X.explore(_C, fam, n, runner="run_streamb_" + prop, procs=procs)
    return st, [f for f in fails if relevant(prop, f[1][1])]


def corpus_cases(prop):
    out = []
    d = os.path.join(fw.VERIF, "corpus", "engine")
    for f in sorted(glob.glob(os.path.join(d, "*.json"))):
        j = json.load(open(f))
        if prop in j.get("properties", []):
            out.append((os.path.basename(f), j))
    return out


def run(ctx, prop, streams, what):
    from . import engine as E
    from . import families as F
    plan = PLAN.get(prop)
    known_ids = {}      # case id -> [finding, ...]; a finding may name the guard it fails with (auto entries do)
    for k in ctx.known:
        if k.get("status", "open") == "open":
            for cid in k.get("case_ids", []):
                known_ids.setdefault(cid, []).append(k)

    def known_for(cid, code):
        """the listed finding for this failing case AND this guard (a listed case that now fails with a different
        guard is a different violation and is reported)"""
        g = EC.GUARDS.get(code, str(code))
        for k in known_ids.get(cid, []):
            kg = k.get("guard") or (k["id"].rsplit("-", 1)[-1] if k.get("auto") else None)
            if kg is None or kg == g:
                return k
        return None
    info = dict(corpus=0, generated=0, rejected=0, known=0, version=None, families={})
    # ---- (1) corpus
    E.install()
    mon = fw.ModelProc("monitor")
    for name, j in corpus_cases(prop):
        case = EC.unjson_case(j["case"])
        runner = getattr(F, j.get("runner") or "", None) or EC.run_case
        res = runner(case, mon)
        info["corpus"] += 1
        if res.verdict != []:
            info["rejected"] += 1
            cid = fw.case_id(dict(corpus=name))
            kf = known_for(cid, res.verdict[1])
            if kf is not None:
                info["known"] += 1
                ctx.known_finding_seen(kf)
            else:
                ctx.violation("%s [corpus %s]: %s" % (what, name, EC.describe(res)),
                              dict(kind="engine-run", corpus=name, case=j["case"], guard=EC.GUARDS.get(res.verdict[1])))
    mon.close()
    # ---- (2) frozen generator
    if plan and plan["families"]:
        import time
        versions = []
        for fam, nq, nt in plan["families"]:
            n = nq if ctx.quick else nt
            t0 = time.time()
            st, fails = run_family(None, prop, fam, n)
            info["generated"] += st["runs"]
            fi = dict(version=family_version(fam), runs=st["runs"], user_ops=st["user_ops"], engine_provider_calls=st["engine_calls"],
                      observations=st["obs"], flavours=st["flavours"], rejected=0, known=0)
            if fi["version"] not in versions:
                versions.append(fi["version"])
            unknown = []
            for case, verdict, descr, tail in fails:
                info["rejected"] += 1
                fi["rejected"] += 1
                cid = case_key(prop, EC.unjson_case(case))
                kf = known_for(cid, verdict[1])
                if kf is not None:
                    info["known"] += 1
                    fi["known"] += 1
                    ctx.known_finding_seen(kf)
                else:
                    unknown.append((case, verdict, descr, tail))
            fi["wall_s"] = round(time.time() - t0, 1)
            info["families"][fam] = fi
            runner = getattr(F, "run_streamb_" + prop)
            X.report_failures(ctx, unknown, runner=runner, what=what + " [Stream B %s]" % fam)
        info["version"] = "+".join(versions)
    streams["stream_b"] = info
    ctx.coverage["evaluations_stream_b"] = info["corpus"] + info["generated"]
