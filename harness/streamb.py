"""Stream B — the deterministic case set (independent of VERIF_SEED), DESIGN §4.3.  Placeholder until built:
records that it did not run."""


def run(ctx, prop, streams, what):
    streams["stream_b"] = dict(runs=0, note="deterministic unrestricted set not built yet")
