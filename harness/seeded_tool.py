"""Coordinator tool (never run by a check): confirm a seeded change and run the checks against it.

  python -m harness.seeded_tool verify <dir-with-patch.diff+demo.py+meta.json>
      -> fresh scratch worktree of /repo under /tmp/seedver, demo on the clean tree (must pass), patch applied,
         demo again (must fail), the 150 baseline tests (must still pass); prints a JSON summary.
  python -m harness.seeded_tool run <seeded/<id>> [Cxx ...] [--tier quick|thorough]
      -> applies seeded/<id>/patch.diff to a scratch worktree and runs the named checks (default: the property in
         meta.json) with CLOUDSYNC_REPO pointing at it; prints which checks raised a VIOLATION; evidence files
         are restored afterwards (evidence must only ever come from runs against /repo itself).
The scratch worktree is removed afterwards.  /repo itself is never modified by this tool.
"""
import json
import os
import shutil
import subprocess
import sys
import time

VERIF = os.path.dirname(os.path.dirname(os.path.abspath(__file__)))
SCRATCH = "/tmp/seedver"
PY = "/venv/bin/python"


def sh(cmd, cwd=None, env=None, timeout=3600):
    p = subprocess.run(cmd, cwd=cwd, env=env, stdout=subprocess.PIPE, stderr=subprocess.STDOUT, text=True, timeout=timeout)
    return p.returncode, p.stdout


def fresh_worktree(name):
    wt = os.path.join(SCRATCH, name)
    os.makedirs(SCRATCH, exist_ok=True)
    if os.path.exists(wt):
        sh(["git", "-C", "/repo", "worktree", "remove", "--force", wt])
        shutil.rmtree(wt, ignore_errors=True)
    rc, out = sh(["git", "-C", "/repo", "worktree", "add", "--detach", wt, "HEAD"])
    if rc:
        raise SystemExit(out)
    return wt


def drop_worktree(wt):
    sh(["git", "-C", "/repo", "worktree", "remove", "--force", wt])
    shutil.rmtree(wt, ignore_errors=True)
    sh(["git", "-C", "/repo", "worktree", "prune"])


def run_demo(wt, d):
    env = dict(os.environ, PYTHONPATH=wt, PYTHONHASHSEED="0", PYTHONDONTWRITEBYTECODE="1")
    demo_dir = wt        # the demonstrations were written in (and check that cloudsync is imported from) the worktree root
    for f in os.listdir(d):
        if f.endswith(".py"):
            shutil.copy(os.path.join(d, f), demo_dir)
    demo = "demo.py" if os.path.exists(os.path.join(demo_dir, "demo.py")) else sorted(f for f in os.listdir(demo_dir) if f.startswith("demo") or f.startswith("test_"))[0]
    if demo.startswith("test_"):
        cmd = [PY, "-m", "pytest", "-q", "-p", "no:cacheprovider", os.path.join(demo_dir, demo)]
    else:
        cmd = [PY, os.path.join(demo_dir, demo)]
    rc, out = sh(cmd, cwd=wt, env=env, timeout=900)
    return rc, out[-1500:]


def stable_tests(wt):
    rc, out = sh([PY, "/work/mut/run_stable.py", wt], timeout=1800) if os.path.exists("/work/mut/run_stable.py") else (2, "run_stable.py missing")
    return rc, out[-600:]


def verify(d, skip_tests=False):
    d = os.path.abspath(d)
    name = os.path.basename(d.rstrip("/"))
    wt = fresh_worktree(name)
    res = dict(dir=d)
    try:
        rc0, out0 = run_demo(wt, d)
        res["demo_clean_rc"] = rc0
        rc, out = sh(["git", "-C", wt, "apply", os.path.join(d, "patch.diff")])
        res["apply_rc"] = rc
        if rc:
            res["apply_out"] = out
            return res
        rc1, out1 = run_demo(wt, d)
        res["demo_patched_rc"] = rc1
        res["demo_patched_tail"] = out1[-400:]
        if rc0:
            res["demo_clean_tail"] = out0[-400:]
        if not skip_tests:
            rct, outt = stable_tests(wt)
            res["stable_rc"] = rct
            res["stable_out"] = outt.strip().split("\n")[-3:]
        res["confirmed"] = (rc0 == 0 and rc1 != 0 and (skip_tests or res["stable_rc"] == 0))
        conf = os.path.join(d, "confirmation.json")
        old = json.load(open(conf)) if os.path.exists(conf) else {}
        old.update({k: v for k, v in res.items() if k not in ("dir",)})
        old["repo_head"] = sh(["git", "-C", "/repo", "rev-parse", "--short", "HEAD"])[1].strip()
        old["how"] = ("scratch worktree of /repo HEAD: demo on the clean tree (rc 0 expected), git apply patch.diff, demo again "
                      "(non-zero expected), /work/mut/run_stable.py = the repository's whole pytest suite, all 150 baseline-passing tests must pass")
        with open(conf, "w") as f:
            json.dump(old, f, indent=1, sort_keys=True)
        return res
    finally:
        drop_worktree(wt)


def run_checks(d, props, tier="quick"):
    d = os.path.abspath(d)
    name = os.path.basename(d.rstrip("/"))
    meta = json.load(open(os.path.join(d, "meta.json")))
    props = props or [meta["property"]]
    wt = fresh_worktree("run-" + name)
    out = {}
    try:
        rc, o = sh(["git", "-C", wt, "apply", os.path.join(d, "patch.diff")])
        if rc:
            raise SystemExit("patch does not apply: " + o)
        for p in props:
            env = dict(os.environ, CLOUDSYNC_REPO=wt)
            t0 = time.time()
            rc, o = sh([os.path.join(VERIF, "check"), p, "--tier", tier], cwd=VERIF, env=env, timeout=7200)
            viol = [l for l in o.split("\n") if l.startswith("VIOLATION")]
            notes = [l for l in o.split("\n") if l.startswith("# ")]
            out[p] = dict(rc=rc, violations=len(viol), first=(notes[0][:300] if notes else ""), first_line=(viol[0] if viol else ""),
                          wall_s=round(time.time() - t0, 1))
        det = os.path.join(d, "detection.json")
        old = json.load(open(det)) if os.path.exists(det) else {}
        head = sh(["git", "-C", VERIF, "rev-parse", "--short", "HEAD"])[1].strip()
        for p, v in out.items():
            old[p + ":" + tier] = dict(v, verif_commit=head)
        with open(det, "w") as f:
            json.dump(old, f, indent=1, sort_keys=True)
        return out
    finally:
        drop_worktree(wt)
        sh(["git", "-C", VERIF, "checkout", "--", "evidence"])


def table():
    """markdown table of seeded/<id>: property, what it needs, confirmation, which checks were run and what they said"""
    rows = []
    root = os.path.join(VERIF, "seeded")
    for name in sorted(os.listdir(root)):
        d = os.path.join(root, name)
        if not os.path.exists(os.path.join(d, "meta.json")):
            continue
        m = json.load(open(os.path.join(d, "meta.json")))
        conf = json.load(open(os.path.join(d, "confirmation.json"))) if os.path.exists(os.path.join(d, "confirmation.json")) else {}
        det = json.load(open(os.path.join(d, "detection.json"))) if os.path.exists(os.path.join(d, "detection.json")) else {}
        dets = []
        for k, v in sorted(det.items()):
            what = (v.get("first") or "").lstrip("# ").split(": ", 1)[-1][:110].replace("|", "/")
            dets.append("%s **%s**%s" % (k, "caught" if v["violations"] else "MISSED", (" (" + what + ")") if v["violations"] else ""))
        needs = (m.get("needs") or "")[:260].replace("\n", " ").replace("|", "/")
        summ = (m.get("summary") or "")[:260].replace("\n", " ").replace("|", "/")
        rows.append("| `%s` | %s | %s | %s | %s | %s |" % (name, m.get("property"), summ, needs,
                    "yes" if conf.get("confirmed") else ("demo only" if conf.get("demo_patched_rc") else "—"), "; ".join(dets) or "—"))
    head = ("| seeded change | breaks | what the change is | what it needs to manifest | confirmed (demo fails with / passes without; 150 baseline tests pass) | checks run against it |\n"
            "|---|---|---|---|---|---|\n")
    return head + "\n".join(rows) + "\n"


if __name__ == "__main__":
    a = sys.argv[1:]
    if a[0] == "table":
        print(table())
    elif a[0] == "design":      # refresh the table between the markers of DESIGN.md section 9
        import re
        dp = os.path.join(VERIF, "DESIGN.md")
        txt = open(dp).read()
        txt = re.sub(r"<!-- seeded-table-begin -->.*?<!-- seeded-table-end -->",
                     lambda m: "<!-- seeded-table-begin -->\n" + table().strip() + "\n<!-- seeded-table-end -->", txt, flags=re.S)
        open(dp, "w").write(txt)
    elif a[0] == "verify":
        print(json.dumps(verify(a[1], skip_tests="--skip-tests" in a), indent=1))
    elif a[0] == "run":
        tier = "quick"
        if "--tier" in a:
            i = a.index("--tier")
            tier = a[i + 1]
            a = a[:i] + a[i + 2:]
        print(json.dumps(run_checks(a[1], [x.upper() for x in a[2:]], tier), indent=1))
