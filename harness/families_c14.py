"""C14 — case families and the event-stream mangler.

A C14 case is an engine case (harness/enginecheck.py) plus
  mangle : dict(seed, dup, batch, delay, perm, drop_path, late_dup)   per-run mangling plan
  walks  : the schedule may contain ["hook", "walk", side] (a full walk of that side's root is requested
           from the real EventManager: need_walk = True, the next intake replays the whole tree as walk events)
Every case is executed twice on the real engine from the same history: once with prompt in-order delivery
(the reference run: no mangler, walk requests ignored) and once mangled.

The mangler replaces `provider.events` on the provider *instance* (World.raw[side]["events"] is the unwrapped
generator function).  It never invents, alters (other than dropping the path field) or loses an event:
  dup        every event is delivered 1-3 times;
  late_dup   (id-stable sides only) the extra copies are queued independently, so a copy can arrive after
             later events; otherwise copies are adjacent;
  batch      at most one event is handed out per call of events() (any split of a batch into single deliveries);
  delay      (id-stable sides only) an event may be held back for 1-3 further calls of events();
  perm       (id-stable sides only) the deliverable events of one call are handed out in a random order;
  drop_path  the path field of a copy is removed (only path-style providers and filtered streams carry one);
  idless_dir_delete  folder deletions are delivered without id, with their path (MockProvider's dropbox switch).
  long_hold  (id-stable sides only) an event may be held for 3-12 further SYNC STEPS of the engine even when nothing else
             is pending on its side - but only while the sync manager still has pending work of its own (change set not
             empty); the moment the engine would otherwise go quiet every held event is released.  hold_dirs: the long
             hold is applied to the creation events of folders (the child's event overtakes the parent's).
Flush rule (DESIGN §7 E-10): the mangler never answers "no events" while it still holds one - if nothing is
due, the oldest held event is released.  The engine therefore cannot go quiet with undelivered events, so no
event is delayed across a drain; delays and permutations stay inside the window between two drains.
"""
import dataclasses
import random

from . import engine as E
from . import enginecheck as EC
from . import families as F


class Mangler:
    def __init__(self, side, raw_events, oip, plan, seed):
        self.side = side
        self.raw = raw_events
        self.oip = oip
        self.plan = plan
        self.rng = random.Random("%s/%d" % (seed, side))
        self.buf = []            # [event, hold (calls of events()), fresh, release_at (sync-step count) | None]
        self.pending = lambda: False     # the sync manager has work of its own (set by run_one)
        self.syncs = lambda: 0           # number of sync steps so far (set by run_one)
        self.stats = dict(events=0, copies=0, dropped_paths=0, held=0, forced=0, calls=0, permuted=0, late=0, long_held=0,
                          long_released_by_quiet=0, max_sync_steps_held=0)

    def _pull(self):
        pl, rng = self.plan, self.rng
        stable = not self.oip
        script = pl.get("script", {}).get(str(self.side))
        if script is not None:
            # witnesses only: the raw events of this side, by index, in the given order (an index may repeat)
            self.raw_seen = getattr(self, "raw_seen", []) + list(self.raw())
            if not getattr(self, "script_done", False) and len(self.raw_seen) > max(script):
                for i in script:
                    self.buf.append([dataclasses.replace(self.raw_seen[i]), 0, True, None, 0])
                    self.stats["copies"] += 1
                self.stats["events"] += len(self.raw_seen)
                self.raw_seen = self.raw_seen[max(script) + 1:]
                self.script_done = True
            elif getattr(self, "script_done", False):
                for ev in self.raw_seen:
                    self.buf.append([dataclasses.replace(ev), 0, True, None, 0])
                    self.stats["events"] += 1
                    self.stats["copies"] += 1
                self.raw_seen = []
            return
        for ev in self.raw():
            self.stats["events"] += 1
            n = 1
            if pl.get("dup"):
                n = rng.choice([1, 1, 2, 2, 3])
            for k in range(n):
                c = dataclasses.replace(ev)
                if pl.get("drop_path") and c.path is not None and rng.random() < 0.5:
                    c.path = None
                    self.stats["dropped_paths"] += 1
                hold = 0
                if stable and pl.get("delay") and rng.random() < 0.5:
                    # across_drain (outside the claimed domain, DESIGN §7 E-10): long holds and no flush rule
                    hold = rng.randint(4, 14) if pl.get("across_drain") else rng.randint(1, 3)
                    self.stats["held"] += 1
                if k > 0 and stable and pl.get("late_dup") and rng.random() < 0.6:
                    hold += rng.randint(1, 3)
                    self.stats["late"] += 1
                release = None
                if stable and pl.get("long_hold") and k == 0:
                    from cloudsync.types import DIRECTORY
                    if pl.get("hold_dirs"):
                        want = c.otype == DIRECTORY and c.exists is not False
                    else:
                        want = rng.random() < 0.35
                    if want:
                        lo, hi = pl.get("long_range", [3, 12])
                        release = self.syncs() + rng.randint(lo, hi)
                        self.stats["long_held"] += 1
                self.buf.append([c, hold, True, release, self.syncs()])
                self.stats["copies"] += 1

    def events(self):
        """generator function installed as provider.events"""
        self.stats["calls"] += 1
        self._pull()
        for item in self.buf:
            if item[2]:
                item[2] = False          # fresh in this call: the hold counts further calls
            else:
                item[1] -= 1
        longs = [it for it in self.buf if it[3] is not None]
        if longs:
            # long holds last only while the sync manager has pending work of its own: never across a quiet point
            other_due = any(it[3] is None and it[1] <= 0 for it in self.buf)
            if not self.pending() and not other_due:
                # (events handed out in this very call will give the sync manager work: the hold goes on)
                for it in longs:
                    it[3] = None
                    it[1] = 0
                    self.stats["long_released_by_quiet"] += 1
            else:
                now = self.syncs()
                for it in longs:
                    if now >= it[3]:
                        it[3] = None
                        it[1] = min(it[1], 0)
        due = [it for it in self.buf if it[1] <= 0 and it[3] is None]
        short = [it for it in self.buf if it[3] is None]
        if not due and short and not self.plan.get("across_drain"):
            due = [short[0]]             # flush rule
            self.stats["forced"] += 1
        if (not self.oip) and self.plan.get("perm") and len(due) > 1:
            self.rng.shuffle(due)
            self.stats["permuted"] += 1
        if self.plan.get("batch"):
            due = due[:1]
        for it in due:
            self.buf.remove(it)
            self.stats["max_sync_steps_held"] = max(self.stats["max_sync_steps_held"], self.syncs() - it[4])
            yield it[0]


PLANS = [
    ("dup", dict(dup=True)),
    ("batch", dict(batch=True)),
    ("dup+batch", dict(dup=True, batch=True)),
    ("drop_path", dict(drop_path=True, dup=True)),
    ("walks", dict()),
    ("idless_dir_delete", dict(idless_dir_delete=True, dup=True)),
    ("walks+dup", dict(dup=True)),
    ("delay", dict(delay=True)),
    ("perm", dict(perm=True)),
    ("delay+perm+dup", dict(delay=True, perm=True, dup=True, late_dup=True)),
    ("long_hold", dict(long_hold=True)),
    ("long_hold+perm+dup", dict(long_hold=True, perm=True, dup=True, delay=True)),
    ("all", dict(delay=True, perm=True, dup=True, late_dup=True, batch=True, drop_path=True)),
]


def _add_walks(rng, sched, p=0.25):
    out = []
    for a in sched:
        out.append(a)
        if a[0] in ("user", "sync", "intake") and rng.random() < p:
            out.append(["hook", "walk", rng.choice([0, 1])])
        elif a[0] == "drain" and rng.random() < 0.5:
            out.append(["hook", "walk_quiet", rng.choice([0, 1])])
    out.append(["drain"])
    out.append(["hook", "walk_quiet", rng.choice([0, 1])])
    return out


def _window_form(rng, case):
    """user operations in bursts; the engine only runs between bursts and every burst ends with a drain:
    while the engine works the trees do not change, so WHAT it has to transfer does not depend on WHEN an
    event arrives"""
    sched = []
    pending = False
    for a in case["schedule"]:
        if a[0] == "user":
            if pending and rng.random() < 0.5:
                sched.append(["drain"])
                pending = False
            sched.append(a)
            pending = True
        elif a[0] == "drain":
            # engine noise first, then the drain
            n = rng.randint(0, 4)
            for _ in range(n):
                sched.append(rng.choice([["intake", 0], ["intake", 1], ["sync"]]))
            sched.append(["drain"])
            pending = False
    if pending:
        for _ in range(rng.randint(0, 5)):
            sched.append(rng.choice([["intake", 0], ["intake", 1], ["sync"]]))
        sched.append(["drain"])
    return dict(case, schedule=sched)


def mangled(rng):
    """Stream A: clean-domain history (one-sided or disjoint; acting sides id-stable; unfiltered events) +
    a mangling plan.  Half of the cases are put in window form (strict comparison of effects)."""
    base = F.one_sided(rng) if rng.random() < 0.6 else F.disjoint(rng)
    name, plan = rng.choice(PLANS)
    case = dict(base)
    form = "free"
    if rng.random() < 0.6:
        case = _window_form(rng, case)
        form = "window"
    if name.startswith("walks") or (name == "all" and rng.random() < 0.5):
        case["schedule"] = _add_walks(rng, case["schedule"])
    case["mangle"] = dict(plan, name=name, seed=rng.randrange(1 << 30), form=form)
    return case


def reuse_folder(rng):
    """Stream A, folder NAME re-use across a drain (inside the clean domain: a path may be occupied again after a quiet
    point): a folder is created (sometimes used), emptied, deleted - each bracketed by drains - and a NEW folder of the
    same name is created with content in it; the events of the new folder are held long, so its children's events arrive
    first and the engine meets a child whose parent it only knows as the tombstone of the earlier folder."""
    side = rng.choice([0, 1])
    fl = rng.choice([f for f in F.CLEAN_FLAVOURS if not f.oip[side]])
    g = EC.Gen(rng, fl, [side], 0)
    g.make_base(rng.randint(0, 3))
    parent = rng.choice([d for d in g.dirs(side) if d.count("/") < 2])
    name = parent + "/" + g.fresh("D")
    sched = g.sched
    if rng.random() < 0.5:
        g.base.append(["mkdir", g.abs(0, name)])          # the first folder of that name is part of the synchronised base
    else:
        sched.append(["user", side, ["mkdir", g.abs(side, name)]])
        g.engine_noise(0.5)
    sched.append(["drain"])
    if rng.random() < 0.5:                                # the first folder is used and emptied again
        f = name + "/" + g.fresh("F")
        sched.append(["user", side, ["create", g.abs(side, f), g.content()]])
        g.engine_noise(0.5)
        sched.append(["drain"])
        sched.append(["user", side, ["delete", g.abs(side, f)]])
        sched.append(["drain"])
    sched.append(["user", side, ["delete", g.abs(side, name)]])
    sched.append(["drain"])
    # the same name again: a new object
    sched.append(["user", side, ["mkdir", g.abs(side, name)]])
    g.tree[name] = "D"
    for _ in range(rng.randint(1, 3)):
        r = rng.random()
        if r < 0.7:
            rel = name + "/" + g.fresh("F")
            g.tree[rel] = "F"
            sched.append(["user", side, ["create", g.abs(side, rel), g.content()]])
        elif r < 0.85:
            rel = name + "/" + g.fresh("D")
            g.tree[rel] = "D"
            sched.append(["user", side, ["mkdir", g.abs(side, rel)]])
        else:
            g.one_op_simple(side)
    n = rng.randint(0, 30)
    for _ in range(n):
        sched.append(rng.choice([["intake", 0], ["intake", 1], ["sync"], ["sync"]]))
    sched.append(["drain"])
    plan = dict(long_hold=True, hold_dirs=rng.random() < 0.7, long_range=[6, 12])
    if rng.random() < 0.3:
        plan["dup"] = True
    return dict(flavour=fl.key(), base=g.base, schedule=sched, hash_mult=rng.choice([1, 3, 7, 11, 2654435761]),
                mode=dict(origin=side, check_spec=True, no_conflicted=True, cov_every_step=False),
                mangle=dict(plan, name="reuse_folder+long_hold", seed=rng.randrange(1 << 30), form="window"))


# ------------------------------------------------------------------ running one case twice
def _strip_hooks(sched):
    return [a for a in sched if a[0] != "hook"]


def run_one(case, monitor, mangle):
    """-> (RunResult, effects, noops, mangler stats).  effects = canonical list of the engine-issued provider
    mutations that changed a tree; noops = those that did not (errors or no visible change)."""
    fl = E.Flavour.from_key(case["flavour"])
    mg = {}
    hooks = {}

    def after_base(eng, world):
        ps = case["mangle"].get("punt_secs")
        if ps:
            # SyncState._punt_secs = provider.default_sleep / 10: 0.001 s for MockProvider, 1.0 s / 1.5 s for the box and
            # dropbox providers; set on the state instance for both runs of the pair
            eng.cs.state._punt_secs = (ps, ps)
        if not mangle:
            return
        if case["mangle"].get("idless_dir_delete"):
            # dropbox style: folder deletions arrive without id (MockProvider's own switch); EventManager resolves them by path
            for side in (0, 1):
                world.provs[side]._oidless_folder_trash_events = True
        counter = {"n": 0}
        orig_sync = eng.sync

        def counted_sync():
            counter["n"] += 1
            return orig_sync()
        eng.sync = counted_sync
        for side in (0, 1):
            m = Mangler(side, world.raw[side]["events"], fl.oip[side], case["mangle"], case["mangle"]["seed"])
            m.pending = lambda: eng.cs.state.changeset_len > 0
            m.syncs = lambda: counter["n"]
            world.provs[side].events = m.events
            mg[side] = m
    hooks["after_base"] = after_base

    def walk(eng, world, args):
        if mangle:
            em = eng.cs.emgrs[args[0]]
            em.need_walk = True
            mg.setdefault("walks", 0)
            mg["walks"] += 1
    hooks["walk"] = walk

    def walk_quiet(eng, world, args):
        """a full walk of a side while the engine is quiet must leave it quiet: every walk event equals the stored entry"""
        if not mangle or eng.busy():
            return
        side = args[0]
        em = eng.cs.emgrs[side]
        em.need_walk = True
        eng.intake(side)
        mg["quiet_walks"] = mg.get("quiet_walks", 0) + 1
        n = eng.cs.smgr.changeset_len
        if n:
            pend = []
            for e in list(eng.cs.state.changes)[:3]:
                pend.append((e[0].path, e[1].path))
            mg.setdefault("walk_woke", []).append((side, n, pend))
    hooks["walk_quiet"] = walk_quiet
    c = dict(case)
    if not mangle:
        c["schedule"] = _strip_hooks(case["schedule"])
    res = EC.run_case(c, monitor, hooks=hooks, keep_engine=True)
    eng = res.extra.pop("engine", None)
    world = res.extra.pop("world", None)
    effects, noops = [], []
    try:
        if mangle and case["mangle"].get("across_drain") and eng is not None and not res.stuck:
            # events may still be held back: deliver everything, let the engine finish, and look at the trees then
            for m in mg.values():
                if isinstance(m, Mangler):
                    for it in m.buf:
                        it[1] = 0
            r = eng.drain(400)
            res.extra["late_stuck"] = r is None
            res.final_views = [world.view(0), world.view(1)]
        if eng is not None and res.request is not None:
            obs = res.request[4]
            eobs = [o for o in obs if o[0][0] == 1]
            trace = list(eng.trace)
            if len(eobs) == len(trace):
                for o, rec in zip(eobs, trace):
                    changed = (o[1] != 0) or (o[2] != 0)
                    key = canon_effect(world, rec)
                    (effects if changed else noops).append(key)
            else:
                res.extra["effects_unaligned"] = (len(eobs), len(trace))
    finally:
        if eng is not None:
            try:
                eng.stop()
            except Exception:
                pass
    stats = {k: (v.stats if isinstance(v, Mangler) else v) for k, v in mg.items()}
    return res, effects, noops, stats


def canon_effect(world, rec):
    side = rec["side"]
    p = world.provs[side]
    root = world.fl.roots[side]

    def rel(path):
        r = p.is_subpath(root, path)
        return r if r else ("!" + path)
    tg = [rel(t) for t in rec.get("targets", [])]
    call = rec["call"]
    data = None
    if call in ("create", "upload"):
        a = rec["args"][-1] if call == "upload" else rec["args"][1]
        data = a if isinstance(a, (bytes, bytearray)) else None
        if call == "upload":
            # keyed by content only: the object may carry another name at the time of the upload
            tg = []
    return (side, call, tuple(tg), bytes(data) if data is not None else None, "error" if "error" in rec else "ok")


def run_pair(case, monitor):
    """the reference run and the mangled run -> dict(verdicts, problems [...], stats)"""
    ref, ref_eff, ref_noop, _ = run_one(case, monitor, False)
    man, man_eff, man_noop, mstats = run_one(case, monitor, True)
    problems = []
    if case["mangle"].get("across_drain"):
        # outside the claimed domain (events held back across quiet points): the engine is quiet while it has not been
        # told everything, so the monitor's "quiet => trees equal" does not apply; judged on the final outcome only
        if ref.verdict != []:
            problems.append(("reference", EC.describe(ref)))
        elif man.stuck or man.extra.get("late_stuck"):
            problems.append(("stuck", "after every held event was delivered the engine does not become quiet"))
        elif ref.final_views != man.final_views or man.final_views[0] != man.final_views[1]:
            problems.append(("views", "after every held event was delivered and the engine went quiet the trees differ "
                                      "(from the reference run: %s; from each other: %s)"
                             % (ref.final_views != man.final_views, man.final_views[0] != man.final_views[1])))
        return dict(ref=ref, man=man, problems=problems, extra_effects=0, missing_effects=0, noop_ref=len(ref_noop),
                    noop_man=len(man_noop), n_eff_ref=len(ref_eff), n_eff_man=len(man_eff), mangler=mstats, strict=False)
    if ref.verdict != []:
        problems.append(("reference", EC.describe(ref)))
    if man.verdict != []:
        problems.append(("monitor", EC.describe(man)))
    if ref.verdict == [] and man.verdict == [] and ref.final_views != man.final_views:
        problems.append(("views", "final trees of the mangled run differ from the reference run"))
    if mstats.get("walk_woke"):
        problems.append(("walk", "a full walk of a synchronised tree made entries pending again: %r" % (mstats["walk_woke"][:2],)))
    extra = multiset_minus(man_eff, ref_eff)
    missing = multiset_minus(ref_eff, man_eff)
    # window form: the trees do not change while the engine works, so the set of tree-changing calls must be
    # the same whatever the delivery; free form: duplicates, walks and delays re-stamp entries and so change
    # WHICH pending entry a scheduled sync step picks, hence which intermediate user version gets transferred -
    # there the oracle is semantic (monitor, same final trees, no version transferred twice, no more effects of
    # a kind than user operations of that kind)
    strict = case["mangle"].get("form") == "window"
    if ref.verdict == [] and man.verdict == []:
        if strict and (extra or missing):
            problems.append(("effects", "tree-changing engine calls differ: extra in mangled run %r, missing %r" % (extra[:4], missing[:4])))
        elif not strict:
            rep = repeated_transfers(man_eff)
            if rep:
                problems.append(("retransfer", "the mangled run transfers the same version twice: %r" % (rep[:3],)))
            over = over_budget(case, man_eff)
            if over:
                problems.append(("budget", "more tree-changing engine calls of a kind than user operations of that kind: %r" % (over,)))
    return dict(ref=ref, man=man, problems=problems, extra_effects=len(extra), missing_effects=len(missing),
                noop_ref=len(ref_noop), noop_man=len(man_noop), n_eff_ref=len(ref_eff), n_eff_man=len(man_eff),
                mangler=mstats, strict=strict)


def multiset_minus(a, b):
    from collections import Counter
    ca, cb = Counter(a), Counter(b)
    out = []
    for k, n in ca.items():
        out += [k] * max(0, n - cb.get(k, 0))
    return out


def over_budget(case, effects):
    """every user operation needs at most one tree-changing engine call of its kind on the other side"""
    from collections import Counter
    user = Counter()
    for a in case["schedule"]:
        if a[0] == "user":
            k = a[2][0]
            user[{"create": "content", "write": "content", "mkdir": "mkdir", "rename": "rename", "delete": "delete"}[k]] += 1
    eng = Counter()
    for e in effects:
        eng[{"create": "content", "upload": "content", "mkdir": "mkdir", "rename": "rename", "delete": "delete"}[e[1]]] += 1
    return {k: (n, user.get(k, 0)) for k, n in eng.items() if n > user.get(k, 0)}


def repeated_transfers(effects):
    """content-carrying effects that occur more than once (contents are unique tokens per user write, except
    the empty file)"""
    from collections import Counter
    c = Counter((e[0], e[3]) for e in effects if e[1] in ("create", "upload") and e[3])
    return [k for k, n in c.items() if n > 1]
