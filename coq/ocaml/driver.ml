(* Generic line-protocol driver.  Compiled once per model against the extracted
   module [Model] (which must export [run : sx -> sx]).  One S-expression of
   naturals per input line, one per output line.  int <-> N conversion is done
   here only (binary digits, no Obj.magic). *)
open Model

let rec pos_of_int i =
  if i = 1 then XH
  else if i land 1 = 1 then XI (pos_of_int (i lsr 1))
  else XO (pos_of_int (i lsr 1))
let n_of_int i = if i = 0 then N0 else Npos (pos_of_int i)
let rec int_of_pos = function
  | XH -> 1
  | XO p -> 2 * int_of_pos p
  | XI p -> 2 * int_of_pos p + 1
let int_of_n = function N0 -> 0 | Npos p -> int_of_pos p

exception Parse of string

let parse (s : string) : sx =
  let n = String.length s in
  let pos = ref 0 in
  let rec skip () = if !pos < n && (s.[!pos] = ' ' || s.[!pos] = '\t' || s.[!pos] = '\r') then (incr pos; skip ()) in
  let rec term () =
    skip ();
    if !pos >= n then raise (Parse "eof")
    else if s.[!pos] = '(' then begin
      incr pos;
      let items = ref [] in
      let rec loop () =
        skip ();
        if !pos >= n then raise (Parse "unclosed")
        else if s.[!pos] = ')' then incr pos
        else (items := term () :: !items; loop ()) in
      loop ();
      L (List.rev !items)
    end else begin
      let st = !pos in
      while !pos < n && s.[!pos] >= '0' && s.[!pos] <= '9' do incr pos done;
      if !pos = st then raise (Parse "token");
      A (n_of_int (int_of_string (String.sub s st (!pos - st))))
    end in
  let t = term () in
  skip ();
  if !pos <> n then raise (Parse "trailing");
  t

let rec print (b : Buffer.t) (x : sx) : unit =
  match x with
  | A k -> Buffer.add_string b (string_of_int (int_of_n k))
  | L l ->
    Buffer.add_char b '(';
    List.iteri (fun i y -> if i > 0 then Buffer.add_char b ' '; print b y) l;
    Buffer.add_char b ')'

let () =
  let b = Buffer.create 65536 in
  (try
    while true do
      let line = input_line stdin in
      Buffer.clear b;
      (try print b (run (parse line))
       with Parse m -> (Buffer.clear b; Buffer.add_string b ("!parse " ^ m))
          | Stack_overflow -> (Buffer.clear b; Buffer.add_string b "!stack"));
      Buffer.add_char b '\n';
      print_string (Buffer.contents b);
      flush stdout
    done
  with End_of_file -> ())
