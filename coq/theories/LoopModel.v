(* LoopModel.v — executable model of cloudsync/runnable.py (property C18).
   (a) backoff arithmetic over Q exactly as Runnable.__increment_backoff and Runnable.run compute it,
       and the sequential loop (one thread, `until` fires when the outcome list is used up);
   (b) a small-step two-thread machine: the loop thread's program counter over the statements of
       Runnable.run, the caller thread's over start/stop/wake/wait; every racy shared-attribute access is
       one atomic step, in source order.
   Definitions only; proofs are in LoopProofs.v. *)
From Coq Require Import QArith List Bool NArith ZArith.
From CS Require Import Sx.
Import ListNotations.
Open Scope Q_scope.

(* ------------------------------------------------------------------ (a) backoff arithmetic *)
(* Python's  min(a, b) = b if b < a else a ;  max(a, b) = b if b > a else a *)
Definition Qltb (a b : Q) : bool := negb (Qle_bool b a).
Definition py_min (a b : Q) : Q := if Qltb b a then b else a.
Definition py_max (a b : Q) : Q := if Qltb a b then b else a.

Record params := { p_min : Q; p_max : Q; p_mult : Q; p_sleep : Q }.

(* self.in_backoff = min(self.max_backoff, max(self.in_backoff * self.mult_backoff, self.min_backoff)) *)
Definition increment (p : params) (b : Q) : Q :=
  py_min (p_max p) (py_max (b * p_mult p) (p_min p)).

(* what do() did, as seen by run() *)
Inductive outcome :=
| ODid        (* returned; __clear_on_success still True *)
| ONoop       (* called nothing_happened() and returned *)
| OBackoff    (* raised _BackoffError (Runnable.backoff()) *)
| OExc        (* raised some other Exception *)
| OBaseExc.   (* raised a BaseException that is not an Exception (KeyboardInterrupt, SystemExit, ...) *)

Definition is_failure (o : outcome) : bool :=
  match o with ODid | ONoop => false | _ => true end.

(* in_backoff after the try/except around do() *)
Definition after_do (p : params) (b : Q) (o : outcome) : Q :=
  match o with
  | ODid => if Qltb 0 b then 0 else b       (* if clear_on_success and in_backoff > 0: in_backoff = 0 *)
  | ONoop => b
  | OBackoff | OExc | OBaseExc => increment p b
  end.

(* the argument of interruptable_sleep at the bottom of the loop *)
Definition sleep_of (p : params) (b : Q) : Q := if Qltb 0 b then b else p_sleep p.

(* events of the loop thread *)
Inductive ev := EDo | ESleep (d : Q) | EDone.

(* what one do() call of the sequential loop does: a plain outcome, or (NotificationManager.do on the None
   marker) a call of self.stop(forever) from inside do(), which then returns normally *)
Inductive sact := Plain (o : outcome) | StopSelf (forever : bool).

(* The sequential loop: run(until = "the outcome list is used up").  No other thread: the flags are false
   until a StopSelf.  Result: the event list and the final in_backoff. *)
Fixpoint seq_loop (p : params) (b : Q) (os : list sact) : list ev * Q :=
  match os with
  | [] => ([], b)
  | Plain o :: r =>
    let b' := after_do p b o in
    match r with
    | [] => ([EDo], b')                                  (* until() is true: break before the sleep *)
    | _ => let '(es, bf) := seq_loop p b' r in (EDo :: ESleep (sleep_of p b') :: es, bf)
    end
  | StopSelf f :: _ =>
    let b' := after_do p b ODid in
    (EDo :: (if f then [EDone] else []), b')             (* flags set: break; finally: done() iff forever *)
  end.

(* in_backoff after a list of outcomes (no stop) *)
Definition backoff_after (p : params) (b : Q) (os : list outcome) : Q := fold_left (after_do p) os b.

Fixpoint qpow (q : Q) (n : nat) : Q := match n with O => 1 | S m => q * qpow q m end.

(* ------------------------------------------------------------------ (b) two-thread machine *)
(* variant of stop()/wake(): faithful = all false
   v_swap   : __shutdown is assigned before __stopping (proposed fix of the lost-cleanup race)
   v_sticky : `if forever: self.__shutdown = True` instead of `self.__shutdown = forever`
   v_wake1  : wake() reads __interrupt once into a local instead of twice *)
Record variant := { v_swap : bool; v_sticky : bool; v_wake1 : bool }.
Definition faithful : variant := {| v_swap := false; v_sticky := false; v_wake1 := false |}.
Definition swapped : variant := {| v_swap := true; v_sticky := false; v_wake1 := false |}.
Definition repaired : variant := {| v_swap := true; v_sticky := true; v_wake1 := true |}.

(* loop thread: program counter over Runnable.run *)
Inductive lpc :=
| LNone    (* no thread was ever started *)
| LR1      (* self.__interrupt = threading.Event() *)
| LR2      (* self.__stopped = False *)
| LH1      (* loop head: read __stopping *)
| LH2      (* loop head: read __shutdown *)
| LDo      (* call do() *)
| LDoRet   (* do() returns/raises; except clauses; clear/increment backoff *)
| LC1      (* after do: read __stopping *)
| LC2      (* after do: read __shutdown *)
| LC3      (* after do: until() *)
| LSl      (* interruptable_sleep: Event.wait(secs) *)
| LClr     (* interruptable_sleep: Event.clear() *)
| LF1      (* finally: self.__stopping = False *)
| LF2      (* finally: self.__stopped = True *)
| LF3      (* finally: self.__interrupt = None *)
| LF4      (* finally: read __shutdown *)
| LF5      (* finally: done() *)
| LDead.   (* run() returned, thread finished *)

Definition alive (l : lpc) : bool := match l with LNone | LDead => false | _ => true end.
(* the thread exists and has not yet executed the `if self.__shutdown` of the finally block *)
Definition pre_f4 (l : lpc) : bool := match l with LNone | LDead | LF5 => false | _ => true end.

(* caller thread *)
Inductive cop := CStart | CStop (f w : bool) | CWake | CWait (timed : bool).
Inductive cret :=
| RNone | RStartOk | RStartRefused | RStartBusy
| RStopped (f joined : bool) | RStopRaised (f : bool)
| RWoke | RWakeIgnored | RWakeRaised
| RWaited (joined : bool) | RWaitTimeout.
Inductive sstage := SSg | SWk1 | SWk2 | SSd.
Inductive jctx := JStop (f : bool) | JWait (timed : bool).
Inductive cpc :=
| CIdle (r : cret)
| CStartAlive1 | CStartJoin | CStartAlive2 | CStartSg | CStartT | CStartGo
| CStopS (stg : sstage) (f w : bool)      (* next statement of stop(f, w) *)
| CWake2
| CJoinS (k : jctx) | CAliveS (k : jctx).

Record st := {
  lp : lpc; cp : cpc;
  sg : bool;              (* __stopping *)
  sd : bool;              (* __shutdown *)
  sp : bool;              (* __stopped *)
  intr : option bool;     (* __interrupt: None, or an Event with its flag *)
  tset : bool;            (* __thread is not None *)
  bk : Q;                 (* in_backoff *)
  log : list ev;          (* newest first *)
  g_live : bool;          (* ghost: a stop(forever=True) call began while pre_f4 (lp) *)
  g_unfin : bool          (* ghost: __shutdown was overwritten True -> False *)
}.

Definition init : st :=
  {| lp := LNone; cp := CIdle RNone; sg := false; sd := false; sp := false; intr := None; tset := false;
     bk := 0; log := []; g_live := false; g_unfin := false |}.

Definition set_lp (s : st) (l : lpc) : st :=
  {| lp := l; cp := cp s; sg := sg s; sd := sd s; sp := sp s; intr := intr s; tset := tset s; bk := bk s;
     log := log s; g_live := g_live s; g_unfin := g_unfin s |}.
Definition set_cp (s : st) (c : cpc) : st :=
  {| lp := lp s; cp := c; sg := sg s; sd := sd s; sp := sp s; intr := intr s; tset := tset s; bk := bk s;
     log := log s; g_live := g_live s; g_unfin := g_unfin s |}.
Definition set_sg (s : st) (b : bool) : st :=
  {| lp := lp s; cp := cp s; sg := b; sd := sd s; sp := sp s; intr := intr s; tset := tset s; bk := bk s;
     log := log s; g_live := g_live s; g_unfin := g_unfin s |}.
Definition set_sd (s : st) (b : bool) : st :=
  {| lp := lp s; cp := cp s; sg := sg s; sd := b; sp := sp s; intr := intr s; tset := tset s; bk := bk s;
     log := log s; g_live := g_live s; g_unfin := g_unfin s || (sd s && negb b) |}.
Definition set_sp (s : st) (b : bool) : st :=
  {| lp := lp s; cp := cp s; sg := sg s; sd := sd s; sp := b; intr := intr s; tset := tset s; bk := bk s;
     log := log s; g_live := g_live s; g_unfin := g_unfin s |}.
Definition set_intr (s : st) (i : option bool) : st :=
  {| lp := lp s; cp := cp s; sg := sg s; sd := sd s; sp := sp s; intr := i; tset := tset s; bk := bk s;
     log := log s; g_live := g_live s; g_unfin := g_unfin s |}.
Definition set_tset (s : st) (b : bool) : st :=
  {| lp := lp s; cp := cp s; sg := sg s; sd := sd s; sp := sp s; intr := intr s; tset := b; bk := bk s;
     log := log s; g_live := g_live s; g_unfin := g_unfin s |}.
Definition set_bk (s : st) (q : Q) : st :=
  {| lp := lp s; cp := cp s; sg := sg s; sd := sd s; sp := sp s; intr := intr s; tset := tset s; bk := q;
     log := log s; g_live := g_live s; g_unfin := g_unfin s |}.
Definition add_log (s : st) (e : ev) : st :=
  {| lp := lp s; cp := cp s; sg := sg s; sd := sd s; sp := sp s; intr := intr s; tset := tset s; bk := bk s;
     log := e :: log s; g_live := g_live s; g_unfin := g_unfin s |}.
Definition mark_live (s : st) (b : bool) : st :=
  {| lp := lp s; cp := cp s; sg := sg s; sd := sd s; sp := sp s; intr := intr s; tset := tset s; bk := bk s;
     log := log s; g_live := g_live s || b; g_unfin := g_unfin s |}.

(* one step of the loop thread; o = outcome of do() (used at LDoRet), u = result of until() (used at LC3) *)
Definition lstep (p : params) (s : st) (o : outcome) (u : bool) : st :=
  match lp s with
  | LNone | LDead => s
  | LR1 => set_lp (set_intr s (Some false)) LR2
  | LR2 => set_lp (set_sp s false) LH1
  | LH1 => set_lp s (if sg s then LF1 else LH2)
  | LH2 => set_lp s (if sd s then LF1 else LDo)
  | LDo => set_lp (add_log s EDo) LDoRet
  | LDoRet => set_lp (set_bk s (after_do p (bk s) o)) LC1
  | LC1 => set_lp s (if sg s then LF1 else LC2)
  | LC2 => set_lp s (if sd s then LF1 else LC3)
  | LC3 => set_lp s (if u then LF1 else LSl)
  | LSl => set_lp (add_log s (ESleep (sleep_of p (bk s))))
                  (match intr s with Some true => LClr | _ => LH1 end)
  | LClr => set_lp (set_intr s (match intr s with Some _ => Some false | None => None end)) LH1
  | LF1 => set_lp (set_sg s false) LF2
  | LF2 => set_lp (set_sp s true) LF3
  | LF3 => set_lp (set_intr s None) LF4
  | LF4 => set_lp s (if sd s then LF5 else LDead)
  | LF5 => set_lp (add_log s EDone) LDead
  end.

(* order of the statements of stop(f, w) *)
(* does stop(f, _) assign __shutdown at all? *)
Definition has_sd (v : variant) (f : bool) : bool := negb (v_sticky v) || f.
Definition first_stage (v : variant) (f : bool) : sstage := if v_swap v && has_sd v f then SSd else SSg.
(* after wake(): the assignment of __shutdown if it comes last, else the racy statements are finished *)
Definition after_wake (v : variant) (f : bool) : option sstage :=
  if negb (v_swap v) && has_sd v f then Some SSd else None.
(* the stage after stg (None = the racy statements are finished); wake_done: wake() has returned *)
Definition next_stage (v : variant) (stg : sstage) (wake_done : bool) (f : bool) : option sstage :=
  match stg with
  | SSg => Some SWk1
  | SWk1 => if wake_done then after_wake v f else Some SWk2
  | SWk2 => after_wake v f
  | SSd => if v_swap v then Some SSg else None
  end.

(* after the last racy statement of stop(): thread = self.__thread; if thread: ... if wait: self.wait() *)
Definition stop_tail (s : st) (f w : bool) : st :=
  set_cp s (if w && tset s then CJoinS (JStop f) else CIdle (RStopped f false)).

Definition goto_stage (v : variant) (s : st) (stg : sstage) (wake_done : bool) (f w : bool) : st :=
  match next_stage v stg wake_done f with
  | Some n => set_cp s (CStopS n f w)
  | None => stop_tail s f w
  end.

(* execute statement stg of stop(f, w) *)
Definition stop_stage (v : variant) (s : st) (stg : sstage) (f w : bool) : st :=
  match stg with
  | SSg => goto_stage v (set_sg s true) SSg false f w
  | SWk1 => match intr s with
            | None => goto_stage v s SWk1 true f w          (* "not running, wake ignored" *)
            | Some _ => if v_wake1 v then goto_stage v (set_intr s (Some true)) SWk1 true f w
                        else goto_stage v s SWk1 false f w
            end
  | SWk2 => match intr s with
            | None => set_cp s (CIdle (RStopRaised f))      (* None.set(): AttributeError leaves stop() *)
            | Some _ => goto_stage v (set_intr s (Some true)) SWk2 true f w
            end
  | SSd => goto_stage v (set_sd s (if v_sticky v then true else f)) SSd false f w
  end.

(* the caller begins a call (only when idle); the first racy statement is executed in the same step *)
Definition ccall (v : variant) (s : st) (op : cop) : st :=
  match op with
  | CStart =>
    if sd s then set_cp s (CIdle RStartRefused)             (* RuntimeError("Service was stopped ...") *)
    else set_cp s (if tset s then CStartAlive1 else CStartSg)
  | CStop f w => stop_stage v (mark_live s (f && pre_f4 (lp s))) (first_stage v f) f w
  | CWake => match intr s with
             | None => set_cp s (CIdle RWakeIgnored)
             | Some _ => if v_wake1 v then set_cp (set_intr s (Some true)) (CIdle RWoke) else set_cp s CWake2
             end
  | CWait timed => set_cp s (if tset s then CJoinS (JWait timed) else CIdle (RWaited false))
  end.

Definition join_blocks (s : st) (k : jctx) : bool :=
  match k with
  | JStop _ | JWait false => alive (lp s)
  | JWait true => false
  end.

(* the caller continues its current call *)
Definition ccont (v : variant) (s : st) : st :=
  match cp s with
  | CIdle _ => s
  | CStartAlive1 => set_cp s (if alive (lp s) then CStartJoin else CStartAlive2)
  | CStartJoin => set_cp s CStartAlive2                     (* join(timeout=1) returns *)
  | CStartAlive2 => set_cp s (if alive (lp s) then CIdle RStartBusy else CStartSg)
  | CStartSg => set_cp (set_sg s false) CStartT
  | CStartT => set_cp (set_tset s true) CStartGo
  | CStartGo => set_cp (set_lp s LR1) (CIdle RStartOk)
  | CStopS stg f w => stop_stage v s stg f w
  | CWake2 => match intr s with
              | None => set_cp s (CIdle RWakeRaised)
              | Some _ => set_cp (set_intr s (Some true)) (CIdle RWoke)
              end
  | CJoinS k => if join_blocks s k then s else set_cp s (CAliveS k)
  | CAliveS k =>
    set_cp s (CIdle (if alive (lp s) then RWaitTimeout
                     else match k with JStop f => RStopped f true | JWait _ => RWaited true end))
  end.

Inductive label := LLoop (o : outcome) (u : bool) | LCall (op : cop) | LCont.

Definition is_idle (c : cpc) : bool := match c with CIdle _ => true | _ => false end.

Definition enabled (s : st) (l : label) : bool :=
  match l with
  | LLoop _ _ => alive (lp s)
  | LCall _ => is_idle (cp s)
  | LCont => match cp s with CIdle _ => false | CJoinS k => negb (join_blocks s k) | _ => true end
  end.

(* a label that is not enabled leaves the state unchanged *)
Definition step (v : variant) (p : params) (s : st) (l : label) : st :=
  if enabled s l then
    match l with
    | LLoop o u => lstep p s o u
    | LCall op => ccall v s op
    | LCont => ccont v s
    end
  else s.

Definition exec (v : variant) (p : params) (s : st) (ls : list label) : st := fold_left (step v p) ls s.

Definition count_do (l : list ev) : nat := length (filter (fun e => match e with EDo => true | _ => false end) l).
Definition count_done (l : list ev) : nat := length (filter (fun e => match e with EDone => true | _ => false end) l).

(* ------------------------------------------------------------------ wire protocol *)
(* big naturals as little-endian base-2^30 limbs (the driver converts atoms through OCaml ints) *)
Definition limb_bits : N := 30%N.
Fixpoint limbs (fuel : nat) (n : N) : list sx :=
  match fuel with
  | O => []
  | S f => if N.eqb n 0 then [] else A (N.land n (N.ones limb_bits)) :: limbs f (N.shiftr n limb_bits)
  end.
Definition sx_big (n : N) : sx := L (limbs (S (N.size_nat n)) n).
Fixpoint un_limbs (l : list sx) : option N :=
  match l with
  | [] => Some 0%N
  | A d :: r => match un_limbs r with Some m => Some (d + N.shiftl m limb_bits)%N | None => None end
  | _ => None
  end.
Definition un_big (x : sx) : option N := match x with L l => un_limbs l | A _ => None end.

(* fractions: (neg num den), printed reduced *)
Definition sx_q (q : Q) : sx :=
  let r := Qred q in
  L [sx_bool (Z.ltb (Qnum r) 0); sx_big (Z.abs_N (Qnum r)); sx_big (Npos (Qden r))].
Definition un_q (x : sx) : option Q :=
  match x with
  | L [sgn; n; d] =>
    match un_bool sgn, un_big n, un_big d with
    | Some s, Some n, Some (Npos d) => Some (Qmake (if s then Z.opp (Z.of_N n) else Z.of_N n) d)
    | _, _, _ => None
    end
  | _ => None
  end.

Definition un_params (x : sx) : option params :=
  match x with
  | L [a; b; c; d] =>
    match un_q a, un_q b, un_q c, un_q d with
    | Some a, Some b, Some c, Some d => Some {| p_min := a; p_max := b; p_mult := c; p_sleep := d |}
    | _, _, _, _ => None
    end
  | _ => None
  end.

Definition un_outcome (x : sx) : option outcome :=
  match x with
  | A 0%N => Some ODid | A 1%N => Some ONoop | A 2%N => Some OBackoff | A 3%N => Some OExc | A 4%N => Some OBaseExc
  | _ => None
  end.
Definition un_sact (x : sx) : option sact :=
  match x with
  | L [A 5%N; f] => match un_bool f with Some f => Some (StopSelf f) | None => None end
  | _ => match un_outcome x with Some o => Some (Plain o) | None => None end
  end.

Definition sx_ev (e : ev) : sx :=
  match e with EDo => L [A 0%N] | ESleep d => L [A 1%N; sx_q d] | EDone => L [A 2%N] end.

Definition un_variant (x : sx) : option variant :=
  match x with
  | L [a; b; c] => match un_bool a, un_bool b, un_bool c with
                   | Some a, Some b, Some c => Some {| v_swap := a; v_sticky := b; v_wake1 := c |}
                   | _, _, _ => None end
  | _ => None
  end.

Definition un_cop (x : sx) : option cop :=
  match x with
  | L [A 0%N] => Some CStart
  | L [A 1%N; f; w] => match un_bool f, un_bool w with Some f, Some w => Some (CStop f w) | _, _ => None end
  | L [A 2%N] => Some CWake
  | L [A 3%N; t] => match un_bool t with Some t => Some (CWait t) | None => None end
  | _ => None
  end.

Definition un_label (x : sx) : option label :=
  match x with
  | L [A 0%N; o; u] => match un_outcome o, un_bool u with Some o, Some u => Some (LLoop o u) | _, _ => None end
  | L [A 1%N; op] => match un_cop op with Some op => Some (LCall op) | None => None end
  | L [A 2%N] => Some LCont
  | _ => None
  end.

Definition lpc_code (l : lpc) : N :=
  match l with
  | LNone => 0 | LR1 => 1 | LR2 => 2 | LH1 => 3 | LH2 => 4 | LDo => 5 | LDoRet => 6 | LC1 => 7 | LC2 => 8
  | LC3 => 9 | LSl => 10 | LClr => 11 | LF1 => 12 | LF2 => 13 | LF3 => 14 | LF4 => 15 | LF5 => 16 | LDead => 17
  end%N.

Definition sx_cret (r : cret) : sx :=
  match r with
  | RNone => L [A 0] | RStartOk => L [A 1] | RStartRefused => L [A 2] | RStartBusy => L [A 3]
  | RStopped f j => L [A 4; sx_bool f; sx_bool j] | RStopRaised f => L [A 5; sx_bool f]
  | RWoke => L [A 6] | RWakeIgnored => L [A 7] | RWakeRaised => L [A 8]
  | RWaited j => L [A 9; sx_bool j] | RWaitTimeout => L [A 10]
  end%N.

Definition stage_code (s : sstage) : N := match s with SSg => 0 | SWk1 => 1 | SWk2 => 2 | SSd => 3 end%N.
Definition sx_jctx (k : jctx) : sx :=
  match k with JStop f => L [A 0%N; sx_bool f] | JWait t => L [A 1%N; sx_bool t] end.
Definition sx_cpc (c : cpc) : sx :=
  match c with
  | CIdle r => L [A 0; sx_cret r]
  | CStartAlive1 => L [A 1] | CStartJoin => L [A 2] | CStartAlive2 => L [A 3]
  | CStartSg => L [A 4] | CStartT => L [A 5] | CStartGo => L [A 6]
  | CStopS stg f w => L [A 7; A (stage_code stg); sx_bool f; sx_bool w]
  | CWake2 => L [A 8]
  | CJoinS k => L [A 9; sx_jctx k] | CAliveS k => L [A 10; sx_jctx k]
  end%N.

Definition sx_intr (i : option bool) : sx := sx_opt sx_bool i.

Definition sx_state (s : st) : sx :=
  L [A (lpc_code (lp s)); sx_cpc (cp s); sx_bool (sg s); sx_bool (sd s); sx_bool (sp s); sx_intr (intr s);
     sx_bool (tset s); sx_q (bk s); sx_bool (g_live s); sx_bool (g_unfin s)].

(* replay trace: for every label [enabled; lpc before; cpc before] so the harness can compare the pending
   access of the real thread with the model's program counter *)
Fixpoint trace (v : variant) (p : params) (s : st) (ls : list label) : list sx * st :=
  match ls with
  | [] => ([], s)
  | l :: r =>
    let e := enabled s l in
    let s' := step v p s l in
    let '(t, sf) := trace v p s' r in
    (L [sx_bool e; A (lpc_code (lp s)); sx_cpc (cp s)] :: t, sf)
  end.

Definition run (x : sx) : sx :=
  match x with
  | L [A 0%N; ps; b0; os] =>                     (* sequential loop *)
    match un_params ps, un_q b0, un_list un_sact os with
    | Some p, Some b, Some os =>
      let '(es, bf) := seq_loop p b os in L [sx_list sx_ev es; sx_q bf]
    | _, _, _ => sx_malformed
    end
  | L [A 1%N; vv; ps; ls] =>                     (* two-thread machine under a schedule *)
    match un_variant vv, un_params ps, un_list un_label ls with
    | Some v, Some p, Some ls =>
      let '(t, sf) := trace v p init ls in
      L [L t; sx_state sf; sx_list sx_ev (rev (log sf))]
    | _, _, _ => sx_malformed
    end
  | L [A 2%N; ps; b; os] =>                      (* in_backoff after a list of outcomes *)
    match un_params ps, un_q b, un_list un_outcome os with
    | Some p, Some b, Some os => sx_q (backoff_after p b os)
    | _, _, _ => sx_malformed
    end
  | _ => sx_malformed
  end.
