(* Extraction of the C17 model.  ExtrOcamlBasic only: Q, Z, N, positive, nat stay the extracted
   inductive types. *)
From Coq Require Import ExtrOcamlBasic.
From CS Require Import Sx SchedModel.
Definition run := SchedModel.run.
Extraction "extract/sched/model.ml" run.
