(* LoopInv.v — invariants of the two-thread machine of LoopModel.v over ALL schedules (property C18). *)
From Coq Require Import QArith List Bool NArith ZArith Lia.
From CS Require Import Sx LoopModel.
Import ListNotations.

Definition reach (v : variant) (p : params) (s : st) : Prop := exists ls, s = exec v p init ls.

Lemma exec_snoc : forall v p s ls l, exec v p s (ls ++ [l]) = step v p (exec v p s ls) l.
Proof. intros. unfold exec. rewrite fold_left_app. reflexivity. Qed.

Lemma exec_app : forall v p s l1 l2, exec v p s (l1 ++ l2) = exec v p (exec v p s l1) l2.
Proof. intros. unfold exec. rewrite fold_left_app. reflexivity. Qed.

Lemma reach_ind_inv : forall v p (P : st -> Prop),
  P init -> (forall s l, reach v p s -> P s -> P (step v p s l)) -> forall s, reach v p s -> P s.
Proof.
  intros v p P H0 Hs s [ls E]. subst s. induction ls as [|l ls IH] using rev_ind; [exact H0|].
  rewrite exec_snoc. apply Hs; [exists ls; reflexivity | exact IH].
Qed.

Lemma reach_step : forall v p s l, reach v p s -> reach v p (step v p s l).
Proof. intros v p s l [ls E]. exists (ls ++ [l]). rewrite exec_snoc, E. reflexivity. Qed.

Lemma reach_exec : forall v p s ls, reach v p s -> reach v p (exec v p s ls).
Proof. intros v p s ls [l0 E]. exists (l0 ++ ls). rewrite exec_app, E. reflexivity. Qed.

Definition startish (c : cpc) : bool :=
  match c with CStartAlive1 | CStartJoin | CStartAlive2 | CStartSg | CStartT | CStartGo => true | _ => false end.

Ltac bool_cases :=
  repeat match goal with
         | |- context [if ?b then _ else _] => destruct b eqn:?
         | |- context [match ?x with Some _ => _ | None => _ end] => destruct x eqn:?
         end.

Ltac bool_hyps :=
  repeat match goal with
         | H : _ || _ = false |- _ => apply orb_false_iff in H; destruct H
         | H : _ && _ = true |- _ => apply andb_true_iff in H; destruct H
         | H : negb _ = true |- _ => apply negb_true_iff in H
         | H : negb _ = false |- _ => apply negb_false_iff in H
         end.

Ltac fin :=
  unfold count_done in *; cbn in *; bool_cases; cbn in *; intros;
  rewrite ?orb_true_r, ?orb_false_r, ?andb_true_r, ?andb_false_r in *; bool_hyps;
  repeat match goal with
         | |- _ /\ _ => split
         | H : _ /\ _ |- _ => destruct H
         end; intros; subst;
  try discriminate; try congruence; try lia; auto;
  try solve [intuition (try discriminate; try congruence; try lia)].

Ltac open_st s := destruct s as [lp0 cp0 sg0 sd0 sp0 intr0 tset0 bk0 log0 gl0 gu0].

(* case analysis of one step: loop thread by its pc; caller by its pc, the operation, the variant *)
Ltac d_lpc := match goal with x : lpc |- _ => destruct x end.
Ltac d_cpc := match goal with x : cpc |- _ => destruct x end.
Ltac d_cop := match goal with x : cop |- _ => destruct x as [ | [|] ww | | tt ] end.
Ltac step_cases v s l :=
  open_st s;
  destruct l as [o u | op | ]; unfold step, enabled; cbn [LoopModel.lp LoopModel.cp];
  [ d_lpc; cbn [alive]; cbv iota; [ | unfold lstep; cbn [LoopModel.lp] .. | ]
  | destruct v as [[|] [|] w1]; d_cpc; cbn [is_idle]; cbv iota; d_cop;
    unfold ccall, stop_stage, goto_stage, next_stage, after_wake, stop_tail, first_stage, has_sd
  | destruct v as [[|] [|] w1]; d_cpc; cbv iota;
    unfold ccont, stop_stage, goto_stage, next_stage, after_wake, stop_tail, has_sd, join_blocks;
    cbn [LoopModel.cp] ].

(* ---- I1: a waiting stop() / wait() returns only when the loop thread is dead *)
Definition joined_ret (c : cpc) : bool :=
  match c with CIdle (RStopped _ true) | CIdle (RWaited true) => true | _ => false end.
Definition I1 (s : st) : Prop := joined_ret (cp s) = true -> alive (lp s) = false.

Lemma I1_step : forall v p s l, I1 s -> I1 (step v p s l).
Proof.
  intros v p s l H. unfold I1 in *. step_cases v s l; try solve [fin].
  all: try solve [destruct stg, f; fin].
  all: try solve [destruct k as [f|[|]]; d_lpc; fin].
Qed.

(* ---- I2: after stop(forever=True) has assigned __shutdown it stays True until the call returns *)
Definition sd_written (v : variant) (c : cpc) : bool :=
  match c with
  | CJoinS (JStop true) | CAliveS (JStop true) | CIdle (RStopped true _) => true
  | CStopS SSd true _ => false
  | CStopS _ true _ => v_swap v
  | _ => false
  end.
Definition I2 (v : variant) (s : st) : Prop := sd_written v (cp s) = true -> sd s = true.

Lemma I2_step : forall v p s l, I2 v s -> I2 v (step v p s l).
Proof.
  intros v p s l H. unfold I2 in *. step_cases v s l; try solve [fin].
  all: try solve [destruct stg, f; fin].
  all: try solve [destruct k as [f|[|]]; d_lpc; fin].
Qed.

(* ---- I5: inside start(), after its test of __shutdown, __shutdown is False (single caller) *)
Definition I5 (s : st) : Prop := startish (cp s) = true -> sd s = false.

Lemma I5_step : forall v p s l, I5 s -> I5 (step v p s l).
Proof.
  intros v p s l H. unfold I5 in *. step_cases v s l; try solve [fin].
  all: try solve [destruct stg, f; fin].
  all: try solve [destruct k as [f|[|]]; d_lpc; fin].
Qed.

(* ---- I3: done() pending or executed implies __shutdown, unless it was reset *)
Definition I3 (s : st) : Prop :=
  (1 <= count_done (log s))%nat \/ lp s = LF5 -> sd s = true \/ g_unfin s = true.

Lemma I3_step : forall v p s l, I3 s -> I3 (step v p s l).
Proof.
  intros v p s l H. unfold I3 in *. step_cases v s l; try solve [fin].
  all: try solve [destruct sd0, gu0; fin].
  all: try solve [destruct stg, f, sd0, gu0; fin].
  all: try solve [destruct k as [f|[|]]; d_lpc; fin].
Qed.

Lemma g_unfin_mono : forall v p s l, g_unfin (step v p s l) = false -> g_unfin s = false.
Proof.
  intros v p s l. step_cases v s l; try solve [fin].
  all: try solve [destruct sd0, gu0; fin].
  all: try solve [destruct stg, f, sd0, gu0; fin].
  all: try solve [destruct k as [f|[|]]; d_lpc; fin].
Qed.

(* ---- K: cleanup at most once while __shutdown was never reset *)
Definition K (s : st) : Prop :=
  g_unfin s = false ->
  (lp s = LF5 -> count_done (log s) = 0%nat) /\ (count_done (log s) <= 1)%nat /\
  (count_done (log s) = 1%nat -> alive (lp s) = false).

Lemma K_step : forall v p s l, I3 s -> I5 s -> K s -> K (step v p s l).
Proof.
  intros v p s l H3 H5 H. unfold K, I3, I5 in *. step_cases v s l; try solve [fin].
  all: try solve [destruct sd0, gu0; fin].
  all: try solve [destruct stg, f, sd0, gu0; fin].
  all: try solve [destruct k as [f|[|]]; d_lpc; fin].
Qed.
