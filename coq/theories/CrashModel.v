(* CrashModel.v — C07: the commit discipline of the sync engine as a machine of individual writes.

   State = a DURABLE part (storage: one row per entry with the two sides' oid / path / hash / sync_path /
   sync_hash / exists / changed as stored, and the stored event cursor of each side), a VOLATILE part (the
   in-memory entry, the dirty mark, the in-memory cursor position) and the two PROVIDERS (objects with their
   whole history of states and the number of their latest event).  The state is organised in "slots": a slot
   is one user-visible object on its origin side (the side users act on for that object) together with the
   objects the engine made for it on the other side, its in-memory entry and its storage row.  The claimed
   clean domain (fresh paths, DESIGN 4.3) is what makes slots independent; path collisions between different
   objects, folder containment and parent-first ordering are not modelled.

   Engine steps are decomposed into their individual writes, in the order the code performs them:
     event intake  (event.py:237-249, 311-314): per event  SMark (memory) ; SRow (storage_commit) ...
                   then MAdv (all delivered events applied) ; MCursor (storage write of the cursor)
     sync of one entry (manager.py:180-203): SRefresh (get_latest) ; provider write(s) ; SLink / SDiscard
                   (memory: sync marks, link to the peer oid) ; SRow (storage_commit)
   [crash] keeps the durable part and the providers only; the restart loads memory from the rows.
   Every micro operation has a GUARD = the discipline (e.g. a link can be recorded in memory only when the
   provider already shows the peer with that path and content; the cursor can move past an event only when a
   committed row carries its change mark).  CrashProofs.v proves: every sequence of guarded operations, user
   operations and crashes keeps "durable never ahead"; the engine's plans only issue operations whose guards
   hold; from every crash state of a calm run the recovery plan reaches a settled, converged state.
   Executable definitions only. *)
From Coq Require Import NArith List Bool Arith.
From CS Require Import Sx.
Import ListNotations.

Definition pth := N.      (* a root-relative path, interned; translation between the sides is the identity *)
Definition cnt := N.      (* a content version, interned; the hash of a file is its content's identity *)

Inductive kind := KFile (c : cnt) | KDir.
Definition hash_of (k : kind) : option cnt := match k with KFile c => Some c | KDir => None end.
Definition kind_eqb (a b : kind) : bool :=
  match a, b with KFile x, KFile y => N.eqb x y | KDir, KDir => true | _, _ => false end.
Definition opt_eqb (a b : option N) : bool :=
  match a, b with Some x, Some y => N.eqb x y | None, None => true | _, _ => false end.

(* one state of a provider object; os_conf: its name carries ".conflicted" *)
Record ost := { os_path : pth; os_kind : kind; os_live : bool; os_conf : bool }.
(* a provider object: its current state, every earlier state, the number of its latest event (events of a
   side are numbered 1, 2, ...) *)
Record obj := { o_now : ost; o_past : list ost; o_ev : nat }.
Definition states (o : obj) : list ost := o_now o :: o_past o.
Definition had_hash (o : obj) (h : cnt) : bool :=
  existsb (fun s => match os_kind s with KFile c => N.eqb c h | KDir => false end) (states o).
Definition had_path (o : obj) (p : pth) : bool := existsb (fun s => N.eqb (os_path s) p) (states o).

(* one side of an entry, as it is in memory and as it is stored *)
Record sside := {
  s_has : bool;                 (* the side has an oid *)
  s_path : option pth; s_hash : option cnt; s_live : bool;       (* path / hash / exists at the provider, as known *)
  s_spath : option pth; s_shash : option cnt;                    (* sync_path / sync_hash: "this was transferred" *)
  s_changed : bool }.
Definition no_side : sside :=
  {| s_has := false; s_path := None; s_hash := None; s_live := false; s_spath := None; s_shash := None; s_changed := false |}.

(* ------------------------------------------------------------------ durable never ahead: the predicates
   These two functions are what the harness evaluates on the decoded rows of the real storage at every crash
   instant (extracted, called through the model process), and what durable_never_ahead is stated with. *)

(* NA1, per row and side x (y = the other side of the same row, ox / oy = the provider objects the two oids
   name, disc = the row is marked discarded): a sync mark on x is reflected by x's own object and by the
   peer object (now or at some earlier time: a user may have changed the object since) *)
(* the predicate of the property: a mark on x must be reflected by the peer "unless a user changed the object since":
   when x's own object no longer has the marked content / path, the mark claims nothing about the peer any more (the
   real engine records the hash it last KNEW for the side it read from, which a user write may already have outdated) *)
Definition now_hash (o : obj) (h : cnt) : bool :=
  match os_kind (o_now o) with KFile c => N.eqb c h | KDir => false end.
Definition na_side (x y : sside) (ox oy : option obj) (disc : bool) : bool :=
  if negb (s_has x) then true else
  match ox with
  | None => match s_shash x, s_spath x with None, None => true | _, _ => false end
  | Some o =>
    match s_shash x with
    | None => true
    | Some h => had_hash o h &&
                (if s_has y then negb (now_hash o h) || match oy with Some o' => had_hash o' h | None => false end else disc)
    end &&
    match s_spath x with
    | None => true
    | Some p => had_path o p &&
                (if s_has y then negb (N.eqb (os_path (o_now o)) p) || match oy with Some o' => had_path o' p | None => false end
                 else true)
    end
  end.
Definition na_row (x y : sside) (ox oy : option obj) (disc : bool) : bool :=
  na_side x y ox oy disc && na_side y x oy ox disc.

(* the strict form (no "unless"): what the model's own discipline maintains, and what implies the predicate above *)
Definition na_side_s (x y : sside) (ox oy : option obj) (disc : bool) : bool :=
  if negb (s_has x) then true else
  match ox with
  | None => match s_shash x, s_spath x with None, None => true | _, _ => false end
  | Some o =>
    match s_shash x with
    | None => true
    | Some h => had_hash o h &&
                (if s_has y then match oy with Some o' => had_hash o' h | None => false end else disc)
    end &&
    match s_spath x with
    | None => true
    | Some p => had_path o p &&
                (if s_has y then match oy with Some o' => had_path o' p | None => false end else true)
    end
  end.
Definition na_row_s (x y : sside) (ox oy : option obj) (disc : bool) : bool :=
  na_side_s x y ox oy disc && na_side_s y x oy ox disc.

(* NA2, per provider object: an object whose latest event the stored cursor already covers is accounted for
   by a stored row: the row carries the change mark, or describes the object as it is now.
   pend = the latest event of the object is beyond the stored cursor (or a full walk is due);
   refs = this side of every stored row that names the object *)
Definition pending_ev (cur : option nat) (walked : bool) (ev : nat) : bool :=
  match cur with None => true | Some c => negb walked || Nat.ltb c ev end.
Definition uptodate (x : sside) (s : ost) : bool :=
  Bool.eqb (s_live x) (os_live s) &&
  (negb (os_live s) || (opt_eqb (s_path x) (Some (os_path s)) && opt_eqb (s_hash x) (hash_of (os_kind s)))).
Definition na_obj (pend : bool) (o : obj) (refs : list sside) : bool :=
  pend || match refs with
          | [] => negb (os_live (o_now o))
          | _ => existsb (fun x => s_changed x || uptodate x (o_now o)) refs
          end.

(* ------------------------------------------------------------------ slots and the machine *)
Record ent := { e_org : sside; e_peer : sside; e_ref : nat; e_disc : bool }.
Record slot := {
  sl_side : bool;               (* the origin side of this object (false = side 0) *)
  sl_org : obj;                 (* the object users act on *)
  sl_peers : list obj;          (* objects the engine made for it on the other side (normally at most one) *)
  sl_mem : option ent;          (* volatile *)
  sl_row : option ent;          (* durable *)
  sl_dirty : bool }.            (* volatile: memory differs from the row *)

Definition sel {T} (s : bool) (p : T * T) : T := if s then snd p else fst p.
Definition upd {T} (s : bool) (v : T) (p : T * T) : T * T := if s then (fst p, v) else (v, snd p).

Record st := {
  slots : list slot;
  nev : nat * nat;              (* events that exist, per side *)
  mcur : nat * nat;             (* volatile: events of the side up to here are applied and committed *)
  dcur : nat * nat }.           (* durable: the stored cursor *)

Definition init : st := {| slots := []; nev := (0, 0); mcur := (0, 0); dcur := (0, 0) |}.

Fixpoint set_nth {T} (n : nat) (x : T) (l : list T) : list T :=
  match l, n with
  | [], _ => []
  | _ :: r, O => x :: r
  | y :: r, S m => y :: set_nth m x r
  end.

Definition push (o : obj) (s : ost) (ev : nat) : obj :=
  {| o_now := s; o_past := o_now o :: o_past o; o_ev := ev |}.
Definition with_org (sl : slot) (o : obj) : slot :=
  {| sl_side := sl_side sl; sl_org := o; sl_peers := sl_peers sl; sl_mem := sl_mem sl; sl_row := sl_row sl; sl_dirty := sl_dirty sl |}.
Definition with_peers (sl : slot) (ps : list obj) : slot :=
  {| sl_side := sl_side sl; sl_org := sl_org sl; sl_peers := ps; sl_mem := sl_mem sl; sl_row := sl_row sl; sl_dirty := sl_dirty sl |}.
Definition with_mem (sl : slot) (e : ent) : slot :=
  {| sl_side := sl_side sl; sl_org := sl_org sl; sl_peers := sl_peers sl; sl_mem := Some e; sl_row := sl_row sl; sl_dirty := true |}.

(* user operations: a new object on side s, or a change of the origin object of slot i *)
Inductive uop :=
| UNew (s : bool) (p : pth) (k : kind)
| UWrite (i : nat) (c : cnt)
| URename (i : nat) (p : pth)
| UDelete (i : nat).

Definition user_change (o : obj) (u : uop) : option ost :=
  let s := o_now o in
  if negb (os_live s) then None else
  match u with
  | UWrite _ c => match os_kind s with
                  | KFile _ => Some {| os_path := os_path s; os_kind := KFile c; os_live := true; os_conf := os_conf s |}
                  | KDir => None
                  end
  | URename _ p => Some {| os_path := p; os_kind := os_kind s; os_live := true; os_conf := os_conf s |}
  | UDelete _ => Some {| os_path := os_path s; os_kind := os_kind s; os_live := false; os_conf := os_conf s |}
  | UNew _ _ _ => None
  end.
Definition uop_slot (u : uop) : option nat :=
  match u with UNew _ _ _ => None | UWrite i _ | URename i _ | UDelete i => Some i end.

Definition user (x : st) (u : uop) : st :=
  match u with
  | UNew s p k =>
    let n := S (sel s (nev x)) in
    let o := {| o_now := {| os_path := p; os_kind := k; os_live := true; os_conf := false |}; o_past := []; o_ev := n |} in
    {| slots := slots x ++ [{| sl_side := s; sl_org := o; sl_peers := []; sl_mem := None; sl_row := None; sl_dirty := false |}];
       nev := upd s n (nev x); mcur := mcur x; dcur := dcur x |}
  | _ =>
    match uop_slot u with
    | None => x
    | Some i =>
      match nth_error (slots x) i with
      | None => x
      | Some sl =>
        match user_change (sl_org sl) u with
        | None => x
        | Some s' =>
          let n := S (sel (sl_side sl) (nev x)) in
          {| slots := set_nth i (with_org sl (push (sl_org sl) s' n)) (slots x);
             nev := upd (sl_side sl) n (nev x); mcur := mcur x; dcur := dcur x |}
        end
      end
    end
  end.

(* slot-level micro operations *)
Inductive sop :=
| SMark               (* intake: the event about the origin object is applied to the in-memory entry *)
| SRefresh            (* sync: get_latest on the origin side *)
| SPCreate            (* provider write: create / mkdir of the peer at the translated path *)
| SPUpload (k : nat)  (* provider write: upload of the origin's content to peer k *)
| SPRename (k : nat)  (* provider write: rename of peer k to the translated path *)
| SPDelete (k : nat)  (* provider write: delete of peer k *)
| SPConflict (k : nat)(* provider write: rename of peer k to a ".conflicted" name *)
| SLink (k : nat)     (* memory: link to peer k, sync marks := the common state, change mark cleared *)
| SDiscard            (* memory: the deletion is propagated, entry discarded *)
| SRow.               (* storage write: the row := the in-memory entry (create / update) *)

Inductive mop :=
| MSlot (i : nat) (o : sop)
| MAdv (s : bool)     (* volatile: every delivered event of side s is applied and committed *)
| MCursor (s : bool). (* storage write: the stored cursor of side s := the in-memory position *)

Definition is_provider_write (o : sop) : bool :=
  match o with SPCreate | SPUpload _ | SPRename _ | SPDelete _ | SPConflict _ => true | _ => false end.
Definition is_storage_write (m : mop) : bool :=
  match m with MSlot _ SRow | MCursor _ => true | _ => false end.

(* the in-memory origin side agrees with the provider (nothing happened to the object since get_latest) *)
Definition fresh (e : ent) (o : obj) : bool :=
  let s := o_now o in
  s_has (e_org e) && opt_eqb (s_path (e_org e)) (Some (os_path s)) &&
  opt_eqb (s_hash (e_org e)) (hash_of (os_kind s)) && Bool.eqb (s_live (e_org e)) (os_live s).

Definition refreshed (x : sside) (s : ost) : sside :=
  {| s_has := true; s_path := Some (os_path s); s_hash := hash_of (os_kind s); s_live := os_live s;
     s_spath := s_spath x; s_shash := s_shash x; s_changed := s_changed x |}.
Definition marked (x : sside) (s : ost) : sside :=
  {| s_has := true; s_path := s_path x; s_hash := s_hash x; s_live := os_live s;
     s_spath := s_spath x; s_shash := s_shash x; s_changed := true |}.
Definition synced_side (s : ost) : sside :=
  {| s_has := true; s_path := Some (os_path s); s_hash := hash_of (os_kind s); s_live := true;
     s_spath := Some (os_path s); s_shash := hash_of (os_kind s); s_changed := false |}.
Definition unchanged (x : sside) (live : bool) : sside :=
  {| s_has := s_has x; s_path := s_path x; s_hash := s_hash x; s_live := live;
     s_spath := s_spath x; s_shash := s_shash x; s_changed := false |}.

(* peer k reflects the origin object: same path, same content, live, not a conflict copy *)
Definition reflects (p : ost) (s : ost) : bool :=
  N.eqb (os_path p) (os_path s) && kind_eqb (os_kind p) (os_kind s) && os_live p && negb (os_conf p).
Definition live_at (p : pth) (o : obj) : bool :=
  os_live (o_now o) && negb (os_conf (o_now o)) && N.eqb (os_path (o_now o)) p.
Definition any_live (ps : list obj) : bool := existsb (fun o => os_live (o_now o)) ps.

(* one micro operation on a slot; np = number of events of the peer side so far (a provider write makes event
   np + 1).  None = the guard fails. *)
Definition sexec (np : nat) (o : sop) (sl : slot) : option slot :=
  let org := sl_org sl in
  let now := o_now org in
  match o with
  | SMark =>
    let e := match sl_mem sl with
             | None => {| e_org := marked no_side now; e_peer := no_side; e_ref := 0; e_disc := false |}
             | Some e => {| e_org := marked (e_org e) now; e_peer := e_peer e; e_ref := e_ref e; e_disc := e_disc e |}
             end in
    Some (with_mem sl e)
  | SRefresh =>
    match sl_mem sl with
    | None => None
    | Some e => Some (with_mem sl {| e_org := refreshed (e_org e) now; e_peer := e_peer e; e_ref := e_ref e; e_disc := e_disc e |})
    end
  | SPCreate =>
    match sl_mem sl with
    | None => None
    | Some e =>
      (* is_creation: the entry has no live peer; the provider refuses a create over a live object *)
      if fresh e org && os_live now && negb (s_has (e_peer e) && s_live (e_peer e)) &&
         negb (existsb (live_at (os_path now)) (sl_peers sl))
      then Some (with_peers sl (sl_peers sl ++
                  [{| o_now := {| os_path := os_path now; os_kind := os_kind now; os_live := true; os_conf := false |};
                      o_past := []; o_ev := S np |}]))
      else None
    end
  | SPUpload k =>
    match sl_mem sl, nth_error (sl_peers sl) k with
    | Some e, Some p =>
      if fresh e org && os_live now && os_live (o_now p) &&
         match os_kind now, os_kind (o_now p) with KFile _, KFile _ => true | _, _ => false end
      then Some (with_peers sl (set_nth k (push p {| os_path := os_path (o_now p); os_kind := os_kind now;
                                                    os_live := true; os_conf := os_conf (o_now p) |} (S np)) (sl_peers sl)))
      else None
    | _, _ => None
    end
  | SPRename k =>
    match sl_mem sl, nth_error (sl_peers sl) k with
    | Some e, Some p =>
      if fresh e org && os_live now && os_live (o_now p)
      then Some (with_peers sl (set_nth k (push p {| os_path := os_path now; os_kind := os_kind (o_now p);
                                                    os_live := true; os_conf := false |} (S np)) (sl_peers sl)))
      else None
    | _, _ => None
    end
  | SPDelete k =>
    match sl_mem sl, nth_error (sl_peers sl) k with
    | Some e, Some p =>
      if fresh e org && negb (os_live now) && os_live (o_now p)
      then Some (with_peers sl (set_nth k (push p {| os_path := os_path (o_now p); os_kind := os_kind (o_now p);
                                                    os_live := false; os_conf := os_conf (o_now p) |} (S np)) (sl_peers sl)))
      else None
    | _, _ => None
    end
  | SPConflict k =>
    match sl_mem sl, nth_error (sl_peers sl) k with
    | Some e, Some p =>
      (* only something the entry is not linked to is moved out of the way *)
      if os_live (o_now p) && negb (s_has (e_peer e))
      then Some (with_peers sl (set_nth k (push p {| os_path := os_path (o_now p); os_kind := os_kind (o_now p);
                                                    os_live := true; os_conf := true |} (S np)) (sl_peers sl)))
      else None
    | _, _ => None
    end
  | SLink k =>
    match sl_mem sl, nth_error (sl_peers sl) k with
    | Some e, Some p =>
      (* the provider write precedes the memory update: the link is recorded only when the provider shows it *)
      if fresh e org && os_live now && reflects (o_now p) now && negb (e_disc e)
      then Some (with_mem sl {| e_org := synced_side now; e_peer := synced_side (o_now p); e_ref := k; e_disc := false |})
      else None
    | _, _ => None
    end
  | SDiscard =>
    match sl_mem sl with
    | None => None
    | Some e =>
      if (e_disc e || fresh e org) && negb (os_live now) && negb (any_live (sl_peers sl))
      then Some (with_mem sl {| e_org := unchanged (e_org e) false; e_peer := unchanged (e_peer e) false;
                                e_ref := e_ref e; e_disc := true |})
      else None
    end
  | SRow =>
    match sl_mem sl with
    | None => None
    | Some e => Some {| sl_side := sl_side sl; sl_org := sl_org sl; sl_peers := sl_peers sl; sl_mem := Some e;
                        sl_row := Some e; sl_dirty := false |}
    end
  end.

(* a committed row of the slot carries the change mark of every delivered event *)
Definition row_marked (sl : slot) : bool :=
  match sl_row sl with Some r => s_changed (e_org r) && negb (sl_dirty sl) | None => false end.

Definition mstep (x : st) (m : mop) : option st :=
  match m with
  | MSlot i o =>
    match nth_error (slots x) i with
    | None => None
    | Some sl =>
      let ps := negb (sl_side sl) in
      match sexec (sel ps (nev x)) o sl with
      | None => None
      | Some sl' =>
        Some {| slots := set_nth i sl' (slots x);
                nev := if is_provider_write o then upd ps (S (sel ps (nev x))) (nev x) else nev x;
                mcur := mcur x; dcur := dcur x |}
      end
    end
  | MAdv s =>
    (* the cursor moves past an event only when a committed row carries its mark *)
    if forallb (fun sl => negb (Bool.eqb (sl_side sl) s) || Nat.leb (o_ev (sl_org sl)) (sel s (mcur x)) || row_marked sl)
               (slots x)
    then Some {| slots := slots x; nev := nev x; mcur := upd s (sel s (nev x)) (mcur x); dcur := dcur x |}
    else None
  | MCursor s =>
    Some {| slots := slots x; nev := nev x; mcur := mcur x; dcur := upd s (sel s (mcur x)) (dcur x) |}
  end.

(* process death: the volatile part is gone; the new process loads its memory from the rows and resumes
   event delivery after the stored cursor *)
Definition crash_slot (sl : slot) : slot :=
  {| sl_side := sl_side sl; sl_org := sl_org sl; sl_peers := sl_peers sl; sl_mem := sl_row sl; sl_row := sl_row sl;
     sl_dirty := false |}.
Definition crash (x : st) : st :=
  {| slots := map crash_slot (slots x); nev := nev x; mcur := dcur x; dcur := dcur x |}.

(* ------------------------------------------------------------------ runs: any interleaving *)
Inductive label := LUser (u : uop) | LOp (m : mop) | LCrash.

Definition lstep (x : st) (l : label) : option st :=
  match l with
  | LUser u => Some (user x u)
  | LOp m => mstep x m
  | LCrash => Some (crash x)
  end.

Fixpoint lrun (x : st) (ls : list label) : option st :=
  match ls with
  | [] => Some x
  | l :: r => match lstep x l with Some y => lrun y r | None => None end
  end.

(* calm: no user touches an object while the engine has made something for it that storage does not know yet
   (an unrecorded peer).  In the explored runs user operations come between engine steps and, after a crash,
   only after the recovery has become quiet; this is that, per object. *)
Definition recorded (sl : slot) : bool :=
  match sl_row sl with
  | Some r => if s_has (e_peer r) then true else negb (any_live (sl_peers sl))
  | None => negb (any_live (sl_peers sl))
  end && negb (sl_dirty sl).
Definition calm_label (x : st) (l : label) : bool :=
  match l with
  | LUser u => match uop_slot u with
               | None => true
               | Some i => match nth_error (slots x) i with Some sl => recorded sl | None => true end
               end
  | _ => true
  end.
Fixpoint calm_run (x : st) (ls : list label) : bool :=
  match ls with
  | [] => true
  | l :: r => calm_label x l && match lstep x l with Some y => calm_run y r | None => true end
  end.

(* ------------------------------------------------------------------ the engine's plans *)
Definition first_live_at (p : pth) (ps : list obj) : option nat :=
  (fix go (l : list obj) (k : nat) : option nat :=
     match l with [] => None | o :: r => if live_at p o then Some k else go r (S k) end) ps 0.

(* sync of the entry of slot i (SyncManager.sync / embrace_change): deletion -> delete_synced; no live peer
   recorded -> creation: a live object already at the translated path with the same content is ADOPTED
   (manager.py:706-715 "use existing", 1139-1179 / 1634-1649 "same hash as remote ... merge"), one with other
   content is renamed to ".conflicted"; otherwise rename and/or upload as the sync marks require.
   know = the peer's latest event has been delivered (the entry knows the peer's present hash): a half-recorded
   upload then shows as "both sides changed, same content" and is merged without a provider write
   (hash_conflict -> handle_split_conflict, manager.py:1634-1649); otherwise the content is uploaded again *)
Definition plan_sync_slot (adopt know : bool) (sl : slot) : list sop :=
  match sl_mem sl with
  | None => []
  | Some e =>
    if e_disc e then [SDiscard; SRow] else     (* pre_sync: a discarded entry is just marked finished *)
    let now := o_now (sl_org sl) in
    if negb (os_live now) then
      (* delete_synced: the recorded peer is deleted (if it is still there), then the entry is discarded *)
      SRefresh ::
      (if s_has (e_peer e) then
         match nth_error (sl_peers sl) (e_ref e) with
         | Some p => if os_live (o_now p) then [SPDelete (e_ref e)] else []
         | None => []
         end
       else []) ++ [SDiscard; SRow]
    else if negb (s_has (e_peer e) && s_live (e_peer e)) then
      match first_live_at (os_path now) (sl_peers sl) with
      | None => [SRefresh; SPCreate; SLink (length (sl_peers sl)); SRow]
      | Some k =>
        match nth_error (sl_peers sl) k with
        | None => []
        | Some p =>
          if adopt && kind_eqb (os_kind (o_now p)) (os_kind now)
          then [SRefresh; SLink k; SRow]
          else [SRefresh; SPConflict k; SPCreate; SLink (length (sl_peers sl)); SRow]
        end
      end
    else
      let k := e_ref e in
      match nth_error (sl_peers sl) k with
      | None => []
      | Some p =>
        SRefresh ::
        (if opt_eqb (s_spath (e_org e)) (Some (os_path now)) then [] else [SPRename k]) ++
        (if opt_eqb (s_shash (e_org e)) (hash_of (os_kind now)) then []
         else if know && kind_eqb (os_kind (o_now p)) (os_kind now) then []
         else match os_kind now with KFile _ => [SPUpload k] | KDir => [] end) ++
        [SLink k; SRow]
      end
  end.
Definition knows_peers (x : st) (sl : slot) : bool :=
  forallb (fun p => Nat.leb (o_ev p) (sel (negb (sl_side sl)) (mcur x))) (sl_peers sl).
Definition plan_sync (adopt : bool) (x : st) (i : nat) : list mop :=
  match nth_error (slots x) i with
  | None => []
  | Some sl => map (MSlot i) (plan_sync_slot adopt (knows_peers x sl) sl)
  end.

(* event intake of side s (EventManager._do_unsafe): every event beyond the in-memory position is applied and
   committed, one by one; the cursor is stored last *)
Fixpoint plan_marks (s : bool) (c : nat) (l : list slot) (i : nat) : list mop :=
  match l with
  | [] => []
  | sl :: r =>
    (if Bool.eqb (sl_side sl) s && Nat.ltb c (o_ev (sl_org sl)) then [MSlot i SMark; MSlot i SRow] else [])
    ++ plan_marks s c r (S i)
  end.
Definition plan_intake (s : bool) (x : st) : list mop :=
  plan_marks s (sel s (mcur x)) (slots x) 0 ++ [MAdv s; MCursor s].

Fixpoint run_ops (x : st) (ms : list mop) : option st :=
  match ms with
  | [] => Some x
  | m :: r => match mstep x m with Some y => run_ops y r | None => None end
  end.
Definition do_plan (x : st) (ms : list mop) : st := match run_ops x ms with Some y => y | None => x end.
Definition do_intake (s : bool) (x : st) : st := do_plan x (plan_intake s x).
Definition do_sync (adopt : bool) (x : st) (i : nat) : st := do_plan x (plan_sync adopt x i).
Fixpoint do_syncs (adopt : bool) (x : st) (n : nat) : st :=
  match n with O => x | S m => do_sync adopt (do_syncs adopt x m) m end.

(* recovery after a crash: restart, deliver the events beyond the stored cursors, sync every entry, deliver
   the events the recovery itself caused *)
Definition recover_with (adopt : bool) (x : st) : st :=
  let a := do_intake true (do_intake false (crash x)) in
  let b := do_syncs adopt a (length (slots a)) in
  do_intake true (do_intake false b).
Definition recover : st -> st := recover_with true.

(* ------------------------------------------------------------------ runs driven by the engine's plans
   An engine step is one of: the intake of one event (KMark i: apply, commit), the end of an intake (KEnd s:
   all delivered events are applied, store the cursor; it does nothing when some delivered event is not yet
   committed), the sync of one entry (KSync i).  The real intake of side s is KMark for every pending object of
   that side followed by KEnd s, so every write boundary of a real intake is a boundary here.
   ECrash m k: the process dies after the first k micro operations of step m (k = 0: before its first write).
   c_rec: a crash happened and the engine has not been quiet since; with [guard] no user acts then. *)
Inductive macro := KMark (i : nat) | KEnd (s : bool) | KSync (i : nat).
Definition plan_of (adopt : bool) (x : st) (m : macro) : list mop :=
  match m with
  | KMark i => [MSlot i SMark; MSlot i SRow]
  | KEnd s => [MAdv s; MCursor s]
  | KSync i => plan_sync adopt x i
  end.
Inductive elabel := EUser (u : uop) | EStep (m : macro) | ECrash (m : macro) (k : nat).
Record cfg := { c_st : st; c_rec : bool }.

(* ------------------------------------------------------------------ what is claimed of states *)
(* durable never ahead, on the durable part and the providers only *)
Definition slot_never_ahead (x : st) (sl : slot) : bool :=
  match sl_row sl with
  | Some r => na_row (e_org r) (e_peer r) (Some (sl_org sl))
                     (if s_has (e_peer r) then nth_error (sl_peers sl) (e_ref r) else None) (e_disc r)
  | None => true
  end &&
  na_obj (pending_ev (Some (sel (sl_side sl) (dcur x))) true (o_ev (sl_org sl))) (sl_org sl)
         (match sl_row sl with Some r => [e_org r] | None => [] end).
Definition never_ahead (x : st) : bool := forallb (slot_never_ahead x) (slots x).

(* views: the live objects of each side as (path, kind, conflicted-name) *)
Definition view_of (o : obj) : list (pth * kind * bool) :=
  if os_live (o_now o) then [(os_path (o_now o), os_kind (o_now o), os_conf (o_now o))] else [].
Definition slot_view (s : bool) (sl : slot) : list (pth * kind * bool) :=
  if Bool.eqb (sl_side sl) s then view_of (sl_org sl) else flat_map view_of (sl_peers sl).
Definition view (s : bool) (x : st) : list (pth * kind * bool) := flat_map (slot_view s) (slots x).

Definition slot_settled (x : st) (sl : slot) : bool :=
  negb (sl_dirty sl) && Nat.leb (o_ev (sl_org sl)) (sel (sl_side sl) (dcur x)) &&
  match sl_row sl with Some r => negb (s_changed (e_org r)) | None => false end.
Definition settled (x : st) : bool :=
  forallb (slot_settled x) (slots x) &&
  Nat.eqb (fst (dcur x)) (fst (nev x)) && Nat.eqb (snd (dcur x)) (snd (nev x)) &&
  Nat.eqb (fst (mcur x)) (fst (nev x)) && Nat.eqb (snd (mcur x)) (snd (nev x)).

Definition has_conflicted (x : st) : bool :=
  existsb (fun sl => existsb (fun o => os_live (o_now o) && os_conf (o_now o)) (sl_org sl :: sl_peers sl)) (slots x).
Definition live_count (ps : list obj) : nat := length (filter (fun o => os_live (o_now o)) ps).
Definition no_duplicate (x : st) : bool := forallb (fun sl => Nat.leb (live_count (sl_peers sl)) 1) (slots x).
(* no user content lost: the engine never changed an origin object *)
Definition origins (x : st) : list obj := map sl_org (slots x).

Definition estep (guard : bool) (c : cfg) (l : elabel) : option cfg :=
  match l with
  | EUser u => if guard && c_rec c then None else Some {| c_st := user (c_st c) u; c_rec := c_rec c |}
  | EStep m => let y := do_plan (c_st c) (plan_of true (c_st c) m) in
               Some {| c_st := y; c_rec := c_rec c && negb (settled y) |}
  | ECrash m k => Some {| c_st := crash (do_plan (c_st c) (firstn k (plan_of true (c_st c) m))); c_rec := true |}
  end.
Fixpoint erun (guard : bool) (c : cfg) (ls : list elabel) : option cfg :=
  match ls with
  | [] => Some c
  | l :: r => match estep guard c l with Some d => erun guard d r | None => None end
  end.
Definition cfg0 : cfg := {| c_st := init; c_rec := false |}.

(* ------------------------------------------------------------------ write order of one engine step, as observed
   0 = provider write, 1 = storage write of an entry row, 2 = storage write of the cursor of the side taken in,
   3 = storage write of the walk marker, 4 = any other storage write *)
Inductive wk := WProv | WRow | WCursor | WWalk | WOther.
Definition wk_of (m : mop) : option wk :=
  match m with
  | MSlot _ o => if is_provider_write o then Some WProv else match o with SRow => Some WRow | _ => None end
  | MCursor _ => Some WCursor
  | MAdv _ => None
  end.
Fixpoint writes_of (ms : list mop) : list wk :=
  match ms with
  | [] => []
  | m :: r => match wk_of m with Some w => w :: writes_of r | None => writes_of r end
  end.
(* sync step: provider writes, then row writes, nothing else.
   intake step: row writes (and walk marker), then at most one cursor write, last; no provider write *)
Fixpoint all_rows (l : list wk) : bool :=
  match l with [] => true | WRow :: r => all_rows r | _ => false end.
Fixpoint shape_sync (l : list wk) : bool :=
  match l with
  | WProv :: r => shape_sync r
  | _ => all_rows l
  end.
Fixpoint shape_intake (l : list wk) : bool :=
  match l with
  | [] => true
  | [WCursor] => true
  | WRow :: r => shape_intake r
  | WWalk :: r => shape_intake r
  | WCursor :: WRow :: r => false
  | _ => false
  end.
Definition shape_ok (sync : bool) (l : list wk) : bool := if sync then shape_sync l else shape_intake l.

(* ------------------------------------------------------------------ wire format *)
Definition un_kind (x : sx) : option kind :=
  match x with L [] => Some KDir | L [A c] => Some (KFile c) | _ => None end.
Definition un_ost (x : sx) : option ost :=
  match x with
  | L [A p; k; l; c] => match un_kind k, un_bool l, un_bool c with
                        | Some k, Some l, Some c => Some {| os_path := p; os_kind := k; os_live := l; os_conf := c |}
                        | _, _, _ => None
                        end
  | _ => None
  end.
Definition un_obj (x : sx) : option obj :=
  match x with
  | L [n; L past; A ev] => match un_ost n, un_all un_ost past with
                           | Some n, Some past => Some {| o_now := n; o_past := past; o_ev := N.to_nat ev |}
                           | _, _ => None
                           end
  | _ => None
  end.
Definition un_side (x : sx) : option sside :=
  match x with
  | L [h; p; hs; l; sp; sh; c] =>
    match un_bool h, un_opt un_atom p, un_opt un_atom hs, un_bool l, un_opt un_atom sp, un_opt un_atom sh, un_bool c with
    | Some h, Some p, Some hs, Some l, Some sp, Some sh, Some c =>
      Some {| s_has := h; s_path := p; s_hash := hs; s_live := l; s_spath := sp; s_shash := sh; s_changed := c |}
    | _, _, _, _, _, _, _ => None
    end
  | _ => None
  end.
Definition un_ent (x : sx) : option ent :=
  match x with
  | L [a; b; A k; d] => match un_side a, un_side b, un_bool d with
                        | Some a, Some b, Some d => Some {| e_org := a; e_peer := b; e_ref := N.to_nat k; e_disc := d |}
                        | _, _, _ => None
                        end
  | _ => None
  end.
Definition un_slot (x : sx) : option slot :=
  match x with
  | L [s; o; L ps; r] =>
    match un_bool s, un_obj o, un_all un_obj ps, un_opt un_ent r with
    | Some s, Some o, Some ps, Some r =>
      Some {| sl_side := s; sl_org := o; sl_peers := ps; sl_mem := None; sl_row := r; sl_dirty := false |}
    | _, _, _, _ => None
    end
  | _ => None
  end.
Definition un_wk (x : sx) : option wk :=
  match x with
  | A 0%N => Some WProv | A 1%N => Some WRow | A 2%N => Some WCursor | A 3%N => Some WWalk | A 4%N => Some WOther
  | _ => None
  end.
Definition un_uop (x : sx) : option uop :=
  match x with
  | L [A 0%N; s; A p; k] => match un_bool s, un_kind k with Some s, Some k => Some (UNew s p k) | _, _ => None end
  | L [A 1%N; A i; A c] => Some (UWrite (N.to_nat i) c)
  | L [A 2%N; A i; A p] => Some (URename (N.to_nat i) p)
  | L [A 3%N; A i] => Some (UDelete (N.to_nat i))
  | _ => None
  end.
Definition un_sop (x : sx) : option sop :=
  match x with
  | L [A 0%N] => Some SMark | L [A 1%N] => Some SRefresh | L [A 2%N] => Some SPCreate
  | L [A 3%N; A k] => Some (SPUpload (N.to_nat k)) | L [A 4%N; A k] => Some (SPRename (N.to_nat k))
  | L [A 5%N; A k] => Some (SPDelete (N.to_nat k)) | L [A 6%N; A k] => Some (SPConflict (N.to_nat k))
  | L [A 7%N; A k] => Some (SLink (N.to_nat k)) | L [A 8%N] => Some SDiscard | L [A 9%N] => Some SRow
  | _ => None
  end.
Definition un_label (x : sx) : option label :=
  match x with
  | L [A 0%N; u] => option_map LUser (un_uop u)
  | L [A 1%N; A i; o] => option_map (fun o => LOp (MSlot (N.to_nat i) o)) (un_sop o)
  | L [A 2%N; s] => option_map (fun s => LOp (MAdv s)) (un_bool s)
  | L [A 3%N; s] => option_map (fun s => LOp (MCursor s)) (un_bool s)
  | L [A 4%N] => Some LCrash
  | _ => None
  end.

Definition un_macro (x : sx) : option macro :=
  match x with
  | L [A 0%N; A i] => Some (KMark (N.to_nat i))
  | L [A 1%N; s] => option_map KEnd (un_bool s)
  | L [A 2%N; A i] => Some (KSync (N.to_nat i))
  | _ => None
  end.
Definition un_elabel (x : sx) : option elabel :=
  match x with
  | L [A 0%N; u] => option_map EUser (un_uop u)
  | L [A 1%N; m] => option_map EStep (un_macro m)
  | L [A 2%N; m; A k] => option_map (fun m => ECrash m (N.to_nat k)) (un_macro m)
  | _ => None
  end.

Definition sx_kind (k : kind) : sx := match k with KDir => L [] | KFile c => L [A c] end.
Definition sx_view (v : list (pth * kind * bool)) : sx :=
  L (map (fun t => L [A (fst (fst t)); sx_kind (snd (fst t)); sx_bool (snd t)]) v).
Definition sx_sop (o : sop) : sx :=
  match o with
  | SMark => L [A 0%N] | SRefresh => L [A 1%N] | SPCreate => L [A 2%N]
  | SPUpload k => L [A 3%N; sx_nat k] | SPRename k => L [A 4%N; sx_nat k] | SPDelete k => L [A 5%N; sx_nat k]
  | SPConflict k => L [A 6%N; sx_nat k] | SLink k => L [A 7%N; sx_nat k] | SDiscard => L [A 8%N] | SRow => L [A 9%N]
  end.

(* what the recovery of a crash state does: per slot the provider writes of its sync plan, and the outcome *)
(* a rename to the path the peer already has (half-recorded rename) is issued again by the engine and changes
   nothing at the provider: only writes that change a provider are compared with the real recovery *)
Definition effective (sl : slot) (o : sop) : bool :=
  is_provider_write o &&
  match o with
  | SPRename k => match nth_error (sl_peers sl) k with
                  | Some p => negb (N.eqb (os_path (o_now p)) (os_path (o_now (sl_org sl))))
                  | None => true
                  end
  | _ => true
  end.
Definition recovery_writes (adopt : bool) (x : st) : list sx :=
  let a := do_intake true (do_intake false (crash x)) in
  map (fun sl => L (map sx_sop (filter (effective sl) (plan_sync_slot adopt (knows_peers a sl) sl)))) (slots a).

Definition mk_state (sls : list slot) (n0 n1 c0 c1 : N) : st :=
  {| slots := sls; nev := (N.to_nat n0, N.to_nat n1); mcur := (N.to_nat c0, N.to_nat c1);
     dcur := (N.to_nat c0, N.to_nat c1) |}.

Definition sx_outcome (y : st) : sx :=
  L [sx_bool (settled y); sx_view (view false y); sx_view (view true y);
     sx_bool (has_conflicted y); sx_bool (no_duplicate y); sx_bool (never_ahead y)].

(* requests
   (0 sideX sideY (objX?) (objY?) disc)             -> na_row                     (NA1 on one decoded row)
   (1 (cursor?) walked obj (sides...))              -> na_obj                     (NA2 on one provider object)
   (2 sync? (wk ...))                               -> shape_ok                   (write order of one step)
   (3 adopt (slots) n0 n1 c0 c1)                    -> recovery of a crash state: (writes per slot) outcome
   (4 adopt (labels))                               -> free run from init: () guard failed | outcome calm? recover-outcome
   (5 guard adopt (elabels))                        -> plan-driven run: () user during recovery | outcome rec? recover-outcome *)
Definition run (x : sx) : sx :=
  match x with
  | L [A 0%N; a; b; oa; ob; d] =>
    match un_side a, un_side b, un_opt un_obj oa, un_opt un_obj ob, un_bool d with
    | Some a, Some b, Some oa, Some ob, Some d => sx_bool (na_row a b oa ob d)
    | _, _, _, _, _ => sx_malformed
    end
  | L [A 1%N; c; w; o; L rs] =>
    match un_opt un_atom c, un_bool w, un_obj o, un_all un_side rs with
    | Some c, Some w, Some o, Some rs =>
      sx_bool (na_obj (pending_ev (option_map N.to_nat c) w (o_ev o)) o rs)
    | _, _, _, _ => sx_malformed
    end
  | L [A 2%N; s; L ws] =>
    match un_bool s, un_all un_wk ws with
    | Some s, Some ws => sx_bool (shape_ok s ws)
    | _, _ => sx_malformed
    end
  | L [A 3%N; ad; L sls; A n0; A n1; A c0; A c1] =>
    match un_bool ad, un_all un_slot sls with
    | Some ad, Some sls =>
      let x0 := mk_state sls n0 n1 c0 c1 in
      L [sx_bool (never_ahead x0); L (recovery_writes ad x0); sx_outcome (recover_with ad x0)]
    | _, _ => sx_malformed
    end
  | L [A 4%N; ad; L ls] =>
    match un_bool ad, un_all un_label ls with
    | Some ad, Some ls =>
      match lrun init ls with
      | None => L []
      | Some y => L [sx_outcome y; sx_bool (calm_run init ls); sx_outcome (recover_with ad y)]
      end
    | _, _ => sx_malformed
    end
  | L [A 5%N; g; ad; L ls] =>
    match un_bool g, un_bool ad, un_all un_elabel ls with
    | Some g, Some ad, Some ls =>
      match erun g cfg0 ls with
      | None => L []
      | Some c => L [sx_outcome (c_st c); sx_bool (c_rec c); sx_outcome (recover_with ad (c_st c))]
      end
    | _, _, _ => sx_malformed
    end
  | _ => sx_malformed
  end.
