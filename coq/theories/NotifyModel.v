(* NotifyModel.v — executable model of cloudsync/notification.py NotificationManager (property C18):
   a FIFO queue whose items are notifications or the None stop marker; do() takes the head item,
   calls the handler (which may raise) or, on the marker, calls Runnable.stop(forever=False) on itself.
   Built on the sequential loop of LoopModel.  Definitions only. *)
From Coq Require Import QArith List Bool NArith.
From CS Require Import Sx LoopModel.
Import ListNotations.

(* what the application's handler does with one notification *)
Inductive hres :=
| HOk          (* returns *)
| HRaise       (* raises an Exception: caught and logged inside do() *)
| HRaiseBase.  (* raises a BaseException that is not an Exception: leaves do(), caught by Runnable.run *)

(* queue item: Some (notification id, handler behaviour on it) or None = stop marker *)
Definition item := option (N * hres).

Inductive nev := NDeliver (n : N) | NSleep (d : Q) | NStop.

(* what Runnable.run sees of NotificationManager.do() for a delivered notification *)
Definition outcome_of (h : hres) : outcome := match h with HRaiseBase => OBaseExc | _ => ODid end.

Record nres := { n_evs : list nev; n_bk : Q; n_rest : list item; n_blocked : bool }.

(* one NotificationManager.run() (no `until`: queue.get() blocks) on the queue content q.
   n_blocked = the queue ran empty without a marker: the real get() would block for the next put. *)
Fixpoint nm_run (p : params) (b : Q) (q : list item) : nres :=
  match q with
  | [] => {| n_evs := []; n_bk := b; n_rest := []; n_blocked := true |}
  | None :: r => {| n_evs := [NStop]; n_bk := after_do p b ODid; n_rest := r; n_blocked := false |}
  | Some (n, h) :: r =>
    let b' := after_do p b (outcome_of h) in
    let x := nm_run p b' r in
    {| n_evs := NDeliver n :: NSleep (sleep_of p b') :: n_evs x; n_bk := n_bk x; n_rest := n_rest x;
       n_blocked := n_blocked x |}
  end.

Definition delivered (es : list nev) : list N :=
  flat_map (fun e => match e with NDeliver n => [n] | _ => [] end) es.

(* the notifications raised before the first stop marker, in the order raised *)
Fixpoint before_marker (q : list item) : list N :=
  match q with
  | [] => []
  | None :: _ => []
  | Some (n, _) :: r => n :: before_marker r
  end.
Fixpoint after_marker (q : list item) : list item :=
  match q with
  | [] => []
  | None :: r => r
  | Some _ :: r => after_marker r
  end.
Definition ids (q : list item) : list (option N) := map (option_map fst) q.

(* ------------------------------------------------------------------ wire protocol *)
Definition un_hres (x : sx) : option hres :=
  match x with A 0%N => Some HOk | A 1%N => Some HRaise | A 2%N => Some HRaiseBase | _ => None end.
Definition un_item (x : sx) : option item :=
  match x with
  | L [] => Some None
  | L [A n; h] => match un_hres h with Some h => Some (Some (n, h)) | None => None end
  | _ => None
  end.
Definition sx_nev (e : nev) : sx :=
  match e with NDeliver n => L [A 0%N; A n] | NSleep d => L [A 1%N; sx_q d] | NStop => L [A 2%N] end.

(* [0, params, in_backoff, queue] -> [events, final in_backoff, length of the remaining queue, blocked] *)
Definition run (x : sx) : sx :=
  match x with
  | L [A 0%N; ps; b; q] =>
    match un_params ps, un_q b, un_list un_item q with
    | Some p, Some b, Some q =>
      let r := nm_run p b q in
      L [sx_list sx_nev (n_evs r); sx_q (n_bk r); sx_nat (length (n_rest r)); sx_bool (n_blocked r)]
    | _, _, _ => sx_malformed
    end
  | _ => sx_malformed
  end.
