(* AlgoQuiet.v — invariant + no pending event + empty change set  =>  the two root-relative trees are equal. *)
From Coq Require Import NArith List Bool Arith Lia.
From CS Require Import Sx Str PathModel StateModel StateProofs ProvModel ProvProofs AlgoModel AlgoCheck AlgoState AlgoProv AlgoInv.
Import ListNotations.

(* ------------------------------------------------------------------ tree_view = the live objects *)
Definition live_at (p : prov) (q : path) (kd : okind) (d : N) : Prop :=
  exists k o, nth_error (p_heap p) k = Some o /\ o_exists o = true /\ o_path o = q /\ o_kind o = kd /\ o_data o = d.

Lemma In_insert_entry e x l : In x (insert_entry e l) <-> x = e \/ In x l.
Proof.
  induction l as [|a l IH]; simpl; [intuition|].
  destruct (path_leb (fst e) (fst a)); simpl; [intuition|]. rewrite IH. intuition.
Qed.
Lemma In_sort_entries x l : In x (sort_entries l) <-> In x l.
Proof.
  unfold sort_entries. induction l as [|a l IH]; simpl; [reflexivity|]. rewrite In_insert_entry, IH. intuition.
Qed.
Lemma In_dedup x l : In x (dedup l) <-> In x l.
Proof.
  induction l as [|a l IH]; simpl; [reflexivity|].
  destruct (existsb (Nat.eqb a) l) eqn:E.
  - rewrite IH. split; [auto|]. intros [->|H]; [|exact H]. apply existsb_exists in E as (y & Hy & Ey). apply Nat.eqb_eq in Ey. subst. exact Hy.
  - simpl. rewrite IH. reflexivity.
Qed.
Lemma dget_In k r d : dget k d = Some r -> In (k, r) d.
Proof.
  induction d as [|[a b] d IH]; simpl; [discriminate|].
  destruct (key_eqb k a) eqn:E; [apply key_eqb_eq in E; subst; intros H; injection H as ->; left; reflexivity|].
  intros H. right. apply IH. exact H.
Qed.

Lemma tree_view_live p q kd d : PWF p -> (In (q, (kd, d)) (tree_view p) <-> live_at p q kd d).
Proof.
  intros W. unfold tree_view. rewrite In_sort_entries, in_flat_map. split.
  - intros (r & _ & H). destruct (nth_error (p_heap p) r) as [x|] eqn:Ex; [|contradiction].
    destruct (o_exists x) eqn:El; [|contradiction]. destruct H as [H|[]]. injection H as <- <- <-.
    exists r, x. auto.
  - intros (k & o & Hn & Hl & Hp & Hk & Hd). exists k. split.
    + apply In_dedup. unfold fs_refs. apply in_flat_map. exists (KPath (o_path o), k). split; [|left; reflexivity].
      apply dget_In. apply (pw_live_path p W k o Hn Hl).
    + rewrite Hn, Hl. left. subst. reflexivity.
Qed.

Lemma rel_view_live w sd rel kd d : PWF (prov_of w sd) ->
  (In (rel, (kd, d)) (rel_view w sd) <->
   exists q, is_under (p_cfg (prov_of w sd)) (root_of (w_cfg w) sd) q = true /\ rel = skipn (length (root_of (w_cfg w) sd)) q /\
             live_at (prov_of w sd) q kd d).
Proof.
  intros W. unfold rel_view. rewrite in_flat_map. split.
  - intros ([q [kd' d']] & Hin & H). simpl in H.
    destruct (is_under (p_cfg (prov_of w sd)) (root_of (w_cfg w) sd) q) eqn:Eu; [|contradiction].
    destruct H as [H|[]]. injection H as <- <- <-. exists q. split; [exact Eu|]. split; [reflexivity|].
    apply (tree_view_live _ _ _ _ W). exact Hin.
  - intros (q & Hu & -> & Hl). exists (q, (kd, d)). split; [apply (tree_view_live _ _ _ _ W); exact Hl|].
    simpl. rewrite Hu. left. reflexivity.
Qed.

(* ------------------------------------------------------------------ quiescence *)
Lemma quiescent_spec w : quiescent w = true ->
  (forall sd, real_evl w sd = []) /\ cset (w_st w) = [].
Proof.
  unfold quiescent, no_events, real_evl. intros H. apply andb_prop in H as [H Hc]. apply andb_prop in H as [HL HR].
  split.
  - intros [|]; [destruct (events_from (prov_of w true)); [reflexivity|discriminate]|destruct (events_from (prov_of w false)); [reflexivity|discriminate]].
  - destruct (cset (w_st w)); [reflexivity|discriminate].
Qed.

Lemma is_under_root c (r n : name) q : c_cs c = true ->
  is_under c [r] q = true -> exists a rest, q = a :: rest /\ rest <> [] /\ a = r.
Proof.
  intros Hcs H. unfold is_under in H. apply andb_prop in H as [Hl Hp]. unfold np in Hp. rewrite Hcs in Hp.
  destruct q as [|a rest]; [discriminate|]. cbn [length firstn] in Hp. apply path_eqb_eq in Hp. injection Hp as ->.
  exists r, rest. split; [reflexivity|]. split; [|reflexivity]. destruct rest; [simpl in Hl; discriminate|discriminate].
Qed.

(* one direction: whatever is live below the root of side sd is live, with the same content, below the other root *)
Lemma quiescent_transfer g w sd rel kd d :
  Inv g w -> quiescent w = true -> In (rel, (kd, d)) (rel_view w sd) -> In (rel, (kd, d)) (rel_view w (negb sd)).
Proof.
  intros I Hq Hin. destruct (quiescent_spec w Hq) as [Hev Hcs].
  pose proof (i_pwf _ _ _ I sd) as W. pose proof (i_pwf _ _ _ I (negb sd)) as W'.
  apply (rel_view_live w sd rel kd d W) in Hin as (q & Hu & -> & (k & ob & Hn & Hl & Hp & Hk & Hd)).
  apply (rel_view_live w (negb sd) _ kd d W').
  rewrite (i_cfg _ _ _ I) in *.
  assert (Hroot: forall s, root_of (cfg_std 1) s = [root_name s]) by (intros [|]; reflexivity).
  rewrite Hroot in *.
  (* the object is a file directly in the root *)
  destruct (is_under_root _ _ (root_name sd) q (pw_cs _ W) Hu) as (a & rest & -> & Hrest & ->).
  assert (Hk2: (2 <= k)%nat).
  { destruct k as [|[|k]]; [| |lia].
    - destruct (sh_root0 _ _ (i_shape _ _ _ I sd)) as (r0 & H0 & _ & Hp0 & _). unfold obj_at in H0. rewrite Hn in H0. injection H0 as <-. rewrite Hp in Hp0. discriminate.
    - destruct (sh_root1 _ _ (i_shape _ _ _ I sd)) as (r1 & H1 & _ & Hp1 & _). unfold obj_at in H1. rewrite Hn in H1. injection H1 as <-. rewrite Hp in Hp1.
      injection Hp1 as ->. contradiction. }
  destruct (sh_files _ _ (i_shape _ _ _ I sd) k ob Hk2 Hn) as (Hkf & n & Hpn & Hnok).
  rewrite Hp in Hpn. injection Hpn as ->.
  (* it has an entry *)
  assert (Hlen: (k < length (p_heap (prov_of w sd)))%nat) by (apply nth_error_Some; congruence).
  destruct (i_cov _ _ _ I sd k Hk2 Hlen) as [(e & en & He & Ho)|Hpd].
  2:{ unfold pd in Hpd. rewrite Hev in Hpd. discriminate. }
  assert (He2: (2 <= e)%nat).
  { destruct (i_roots _ _ _ I) as (e0 & e1 & H0 & H1 & _ & _ & _ & _ & Ho0L & Ho0R & _ & Ho1L & Ho1R & _).
    destruct e as [|[|e]]; [| |lia].
    - rewrite H0 in He. injection He as <-. assert (E1: ostr_k 1 = ostr_k k) by (destruct sd; simpl in Ho; congruence). apply ostr_k_inj in E1. lia.
    - rewrite H1 in He. injection He as <-. destruct sd; simpl in Ho; [rewrite Ho1R in Ho|rewrite Ho1L in Ho]; discriminate. }
  pose proof (i_ents _ _ _ I e en He2 He) as EO.
  (* no side of the entry is flagged *)
  assert (Hnf: forall s k0, s_oid (gs en s) <> None -> ~ flagP (real_evl w) en s k0).
  { intros s k0 Hoid [Hc|Hpd0].
    - pose proof (i_csc _ _ _ I e en He) as Hc2. rewrite Hcs in Hc2.
      assert (flagged en = true).
      { unfold flagged. destruct (s_oid (gs en s)) as [o|] eqn:Eo; [|congruence].
        destruct (so_full _ _ _ _ _ _ (eo_side _ _ _ _ _ EO s) o Eo) as (k1 & ob1 & -> & _).
        destruct s; simpl in *; rewrite Hc, Eo; simpl; [apply orb_true_r|reflexivity]. }
      specialize (Hc2 H). discriminate.
    - unfold pd in Hpd0. rewrite Hev in Hpd0. discriminate. }
  destruct (so_full _ _ _ _ _ _ (eo_side _ _ _ _ _ EO sd) _ Ho) as (k1 & ob1 & Hk1 & Hob1 & _ & FO).
  apply ostr_k_inj in Hk1. subst k1. unfold obj_at in Hob1. rewrite Hn in Hob1. injection Hob1 as <-.
  assert (Hnd: is_discarded (e_ign en) = false).
  { destruct (is_discarded (e_ign en)) eqn:Ed; [|reflexivity]. rewrite (fo_disc _ _ _ _ _ _ _ _ FO Ed) in Hl. discriminate. }
  assert (Hoid_sd: s_oid (gs en sd) <> None) by congruence.
  (* the entry is paired *)
  destruct (s_oid (gs en (negb sd))) as [o'|] eqn:Eo'.
  2:{ exfalso. apply (Hnf sd k Hoid_sd). apply (fo_c1 _ _ _ _ _ _ _ _ FO Hnd Eo'). }
  destruct (so_full _ _ _ _ _ _ (eo_side _ _ _ _ _ EO (negb sd)) _ Eo') as (k' & ob' & -> & Hob' & Hk2' & FO').
  assert (Hoid_t: s_oid (gs en (negb sd)) <> None) by congruence.
  assert (Hnn: negb (negb sd) = sd) by (destruct sd; reflexivity).
  (* unflagged sides agree with their sync markers *)
  destruct (fo_c2 _ _ _ _ _ _ _ _ FO Hnd Hoid_t) as [Hf|(_ & Hsp & Hsh)]; [exfalso; apply (Hnf sd k Hoid_sd Hf)|].
  assert (Hoid_sd': s_oid (gs en (negb (negb sd))) <> None) by (rewrite Hnn; exact Hoid_sd).
  destruct (fo_c2 _ _ _ _ _ _ _ _ FO' Hnd Hoid_sd') as [Hf|(Hl' & Hsp' & Hsh')]; [exfalso; apply (Hnf (negb sd) k' Hoid_t Hf)|].
  (* owner / mirror *)
  assert (Hgoal: leaf (o_path ob') = n /\ o_data ob' = o_data ob).
  { destruct (g_get k (g_of g sd)) as [cs|] eqn:Eg.
    - (* sd is the owner side *)
      destruct (fo_owner _ _ _ _ _ _ _ _ FO Hnd cs Eg) as (_ & _ & _ & _ & Hp2). destruct (Hp2 Hoid_t) as (_ & _ & HJ & Hpeer).
      assert (Eg': g_get k' (g_of g (negb sd)) = None) by (apply Hpeer; exact Eo').
      destruct (fo_mirror _ _ _ _ _ _ _ _ FO' Hnd Eg') as (_ & _ & Hsh2 & _ & _ & _ & (k2 & ob2 & Ho2 & Hob2 & Hleaf & _)).
      rewrite Hnn in Ho2, Hob2. assert (E2: ostr_k k = ostr_k k2) by congruence. apply ostr_k_inj in E2. subst k2.
      unfold obj_at in Hob2. rewrite Hn in Hob2. injection Hob2 as <-.
      split; [rewrite Hleaf, Hp; reflexivity|].
      destruct HJ as [HJ|(HJ & _)]; [|congruence]. rewrite Hsh2 in HJ. injection HJ as HJ. exact HJ.
    - (* sd is the mirror side *)
      destruct (fo_mirror _ _ _ _ _ _ _ _ FO Hnd Eg) as (_ & _ & Hsh2 & _ & _ & _ & (k2 & ob2 & Ho2 & Hob2 & Hleaf & Hg2)).
      assert (E2: ostr_k k' = ostr_k k2) by congruence. apply ostr_k_inj in E2. subst k2.
      rewrite Hob' in Hob2. injection Hob2 as <-.
      split; [rewrite <- Hleaf, Hp; reflexivity|].
      destruct (g_get k' (g_of g (negb sd))) as [cs'|] eqn:Eg'; [|congruence].
      destruct (fo_owner _ _ _ _ _ _ _ _ FO' Hnd cs' Eg') as (_ & _ & _ & _ & Hp2). destruct (Hp2 Hoid_sd') as (_ & _ & HJ & _).
      rewrite Hnn in HJ. destruct HJ as [HJ|(HJ & _)]; [|congruence]. rewrite Hsh in HJ. injection HJ as HJ. symmetry. exact HJ. }
  destruct Hgoal as [Hleaf Hdata].
  unfold obj_at in Hob'.
  destruct (sh_files _ _ (i_shape _ _ _ I (negb sd)) k' ob' Hk2' Hob') as (Hkf' & n' & Hpn' & _).
  rewrite Hpn' in Hleaf. change (leaf [root_name (negb sd); n']) with n' in Hleaf. subst n'.
  exists [root_name (negb sd); n]. split.
  - unfold is_under. cbn [length firstn Nat.ltb Nat.leb andb]. unfold np. rewrite (pw_cs _ W'). apply path_eqb_eq. reflexivity.
  - split; [rewrite Hroot; reflexivity|]. exists k', ob'. repeat split; auto; congruence.
Qed.

Theorem inv_quiescent_equal g w : Inv g w -> quiescent w = true ->
  forall rel kd d, In (rel, (kd, d)) (rel_view w false) <-> In (rel, (kd, d)) (rel_view w true).
Proof.
  intros I Hq rel kd d. split; intros H.
  - apply (quiescent_transfer g w false rel kd d I Hq H).
  - apply (quiescent_transfer g w true rel kd d I Hq H).
Qed.
