(* PropC01.v — C01: two-way convergence at quiet, in a bounded number of engine steps. *)
From Coq Require Import NArith List Bool.
From CS Require Import Sx TreeModel Monitor MonitorProofs MonitorExamples.
Import ListNotations.

Theorem C01_quiet_converged : forall cfg l r tr m',
  accept cfg l r tr = inl m' ->
  forall pre x post, tr = pre ++ x :: post -> o_ev x = EQuiet ->
    same_tree (strip_conflicted cfg (view (rootL cfg) (o_L x))) (strip_conflicted cfg (view (rootR cfg) (o_R x))) = true.
Proof. exact quiet_converged. Qed.
Print Assumptions C01_quiet_converged.

Theorem C01_steps_bounded : forall cfg l r tr m',
  accept cfg l r tr = inl m' ->
  forall pre x post, tr = pre ++ x :: post -> o_ev x = EStep ->
    exists ma, run_of cfg (init_state cfg l r) pre ma /\ (quiet ma = false -> S (steps ma) <= step_bound cfg).
Proof. exact steps_bounded. Qed.
Print Assumptions C01_steps_bounded.

Theorem C01_steps_counter_meaning : forall cfg m tr m',
  run_of cfg m tr m' -> steps m' = steps_since_user tr (steps m).
Proof. exact steps_counts. Qed.
Print Assumptions C01_steps_counter_meaning.

Theorem C01_example_rejected_when_views_differ :
  accept (ex_cfg None) ex_l0 ex_r0
    [ {| o_ev := EUser false (Create [1; 3] 7)%N; o_L := ex_l1; o_R := ex_r0 |};
      {| o_ev := EQuiet; o_L := ex_l1; o_R := ex_r0 |} ] = inr (1%nat, G_CONVERGE).
Proof. exact ex_rejected_converge. Qed.
Print Assumptions C01_example_rejected_when_views_differ.
