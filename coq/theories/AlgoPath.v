(* AlgoPath.v — the path strings of the fragment: a provider path [a; n] (root folder, file name) as the string
   "/a/n"; normal form, components, translation between the two roots.  Built on PathLaws. *)
From Coq Require Import NArith List Bool Arith Lia.
From CS Require Import Sx Str StrLemmas PathModel PathLaws StateModel ProvModel AlgoModel.
Import ListNotations.

Lemma mk_conv_std cs : mk_conv cs = cv_std cs false. Proof. reflexivity. Qed.
Lemma mk_conv_ok cs : conv_ok (mk_conv cs). Proof. apply cv_std_ok. Qed.

Lemma name_ok_gcomp cs n : name_ok n = true -> gcomp (mk_conv cs) n.
Proof.
  unfold name_ok. intros H. apply andb_prop in H as [Hne Hall]. rewrite forallb_forall in Hall.
  split; [split|].
  - destruct n; [discriminate|discriminate].
  - intros Hin. specialize (Hall _ Hin). simpl in Hall. discriminate.
  - intros a Ha _ Hin. simpl in Ha. injection Ha as <-. specialize (Hall _ Hin).
    apply andb_prop in Hall as [_ H2]. simpl in H2. discriminate.
Qed.

Lemma pstr_render cs (p : ProvModel.path) : Forall (fun n => name_ok n = true) p -> pstr p = render (mk_conv cs) p.
Proof.
  intros H. destruct p as [|a r]; [reflexivity|]. unfold render, pstr.
  assert (Hi: forall l : list str, l <> [] -> flat_map (fun n => SEP :: n) l = SEP :: intercalate 47 l).
  { induction l as [|x l IH]; [congruence|]. intros _. destruct l as [|y l'].
    - simpl. rewrite app_nil_r. reflexivity.
    - change (flat_map (fun n => SEP :: n) (x :: y :: l')) with ((SEP :: x) ++ flat_map (fun n => SEP :: n) (y :: l')).
      rewrite IH by discriminate. rewrite (intercalate_cons 47 x (y :: l')). reflexivity. }
  rewrite Hi by discriminate.
  assert (Hj: exists x j', intercalate 47 (a :: r) = x :: j' /\ x <> 47%N).
  { inversion H as [|a' r' Ha Hr]; subst. pose proof (name_ok_gcomp cs a Ha) as [[Hne Hns] _].
    destruct a as [|x a']; [contradiction|]. exists x. destruct r as [|y r']; simpl; eexists; (split; [reflexivity|]);
      intros ->; apply Hns; left; reflexivity. }
  destruct Hj as (x & j' & Ej & Hx). change (cv_sep (mk_conv cs)) with 47%N. rewrite Ej. unfold fin, dl. cbn [cv_win mk_conv]. unfold add_sep. cbn [cv_sep mk_conv].
  destruct (N.eqb_spec x 47); [contradiction|]. reflexivity.
Qed.

Lemma Forall_gcomp cs p : Forall (fun n => name_ok n = true) p -> Forall (gcomp (mk_conv cs)) p.
Proof. induction 1; constructor; auto. apply name_ok_gcomp. assumption. Qed.

Lemma nps_pstr cs p : Forall (fun n => name_ok n = true) p -> nps (mk_conv cs) (pstr p) = pstr p.
Proof. intros H. rewrite (pstr_render cs p H). apply nps_render. apply Forall_gcomp. exact H. Qed.

Lemma spath_pstr p : Forall (fun n => name_ok n = true) p -> spath (pstr p) = p.
Proof.
  intros H. unfold spath. rewrite split_runs_comps.
  rewrite (pstr_render true p H). pose proof (pc_render (mk_conv true) p (Forall_gcomp true p H)) as Hpc.
  rewrite pc_noalt in Hpc by (apply noalt_render; apply Forall_gcomp; exact H). exact Hpc.
Qed.

Lemma tstr_pstr p : tstr (Some (pstr p)) = true.
Proof. destruct p as [|a r]; [reflexivity|]. reflexivity. Qed.

Lemma root_name_ok sd : name_ok (root_name sd) = true. Proof. destruct sd; reflexivity. Qed.

Lemma pstr_two a n : pstr [a; n] = pstr [a] ++ SEP :: n.
Proof. unfold pstr. simpl. rewrite !app_nil_r. reflexivity. Qed.

(* CloudSync.translate of "/root_from/n" is "/root_to/n" *)
Lemma translate_file (synced : bool) n : name_ok n = true ->
  AlgoModel.translate (cfg_std 1) synced (Some (pstr [root_name (negb synced); n])) = Some (pstr [root_name synced; n]).
Proof.
  intros Hn. unfold AlgoModel.translate.
  assert (Hne: exists x r, pstr [root_name (negb synced); n] = x :: r) by (destruct synced; eexists; eexists; reflexivity).
  destruct Hne as (x & r & Hxr). rewrite Hxr, <- Hxr.
  set (cv := mk_conv true).
  change (cv_of (cfg_std 1) false) with cv. change (cv_of (cfg_std 1) true) with cv.
  change (pstr (c_rootL (cfg_std 1))) with (pstr [root_name false]). change (pstr (c_rootR (cfg_std 1))) with (pstr [root_name true]).
  pose proof (root_name_ok (negb synced)) as Hrf. pose proof (root_name_ok synced) as Hrt.
  assert (Hgn: gcomp cv n) by (apply name_ok_gcomp; exact Hn).
  assert (Hrel: relpart cv (SEP :: n)).
  { exists n. split; [reflexivity|]. destruct Hgn as [[Hne Hns] Hna]. split; [exact Hne|]. split.
    - apply noalt_cons; [apply noalt_sep|exact Hna].
    - change (SEP :: n) with ([SEP] ++ n). rewrite rstrip_app_keep; [rewrite rstrip_no by exact Hns; reflexivity|].
      rewrite rstrip_no by exact Hns. exact Hne. }
  assert (Hnr: forall s, nps cv (pstr [root_name s]) = pstr [root_name s]).
  { intros s. apply nps_pstr. constructor; [apply root_name_ok|constructor]. }
  assert (Hsub: is_subpath cv (pstr [root_name (negb synced)]) (pstr [root_name (negb synced); n]) false = Rel (SEP :: n)).
  { rewrite pstr_two. rewrite <- (Hnr (negb synced)) at 2. apply is_subpath_under.
    - apply mk_conv_ok.
    - destruct synced; discriminate.
    - rewrite Hnr. destruct synced; discriminate.
    - exact Hrel. }
  pose proof (translate_inside cv cv (pstr [root_name false]) (pstr [root_name true]) synced (pstr [root_name (negb synced); n]) (SEP :: n)) as Ht.
  unfold PathLaws.cv_of, PathLaws.root_of in Ht.
  assert (Hr1: (if negb synced then pstr [root_name true] else pstr [root_name false]) = pstr [root_name (negb synced)]) by (destruct synced; reflexivity).
  assert (Hr2: (if synced then pstr [root_name true] else pstr [root_name false]) = pstr [root_name synced]) by (destruct synced; reflexivity).
  assert (Hc: forall b : bool, (if b then cv else cv) = cv) by (intros []; reflexivity).
  rewrite Hr1, Hr2, !Hc in Ht. rewrite (Ht Hsub). f_equal.
  (* the join *)
  destruct Hgn as [[Hne Hns] Hna].
  assert (Hstrip: strip (cv_sep cv) (nps cv (SEP :: n)) = n).
  { assert (Hnn: nps cv (SEP :: n) = SEP :: n).
    { apply nps_fix; [destruct Hrel as (? & _ & _ & H & _); exact H|right; destruct Hrel as (? & _ & _ & _ & H); exact H]. }
    rewrite Hnn. unfold strip. change (cv_sep cv) with SEP. cbn [lstrip]. rewrite N.eqb_refl.
    assert (Hl: lstrip SEP n = n) by (apply lstrip_no; intros y Hy ->; apply Hns; exact Hy).
    rewrite Hl. apply rstrip_no. exact Hns. }
  rewrite (join_two cv (pstr [root_name synced]) (SEP :: n) (pstr [root_name synced]) n (Hnr synced)); [| |exact Hstrip|exact Hne].
  2:{ destruct synced; discriminate. }
  assert (Hrs: rstrip (cv_sep cv) (pstr [root_name synced]) = pstr [root_name synced]) by (destruct synced; reflexivity).
  rewrite Hrs. rewrite pstr_two.
  assert (Hp: exists y, pstr [root_name synced] = SEP :: y) by (destruct synced; eexists; reflexivity).
  destruct Hp as (y & Hy). rewrite Hy. cbn [app]. apply fin_sep.
Qed.

Lemma paths_match_refl cv a : paths_match cv a a true = true.
Proof. apply match_refl. Qed.
