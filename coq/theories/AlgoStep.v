(* AlgoStep.v — assembly: SyncManager.sync / pre_sync / SyncState.change / SyncManager.do on fragment F1 keep
   the coupling invariant (from the leaf theorems of AlgoSyncEntry.v). *)
From Coq Require Import NArith List Bool Arith Lia.
From CS Require SchedModel SchedProofs.
From CS Require Import Sx Str PathModel PathLaws StateModel StateProofs ProvModel ProvProofs
     AlgoModel AlgoCheck AlgoState AlgoProv AlgoPath AlgoInv AlgoIntake AlgoSync AlgoLatest AlgoFinish AlgoSyncEntry.
Import ListNotations.
Local Open Scope N_scope.

(* what finished(side) asks of its caller *)
Definition Just (g : ghost) (w : world) (en : StateModel.entry) (s : bool) : Prop :=
  forall k ob cs, s_oid (gs en s) = Some (ostr_k k) -> obj_at w s k = Some ob -> pd (real_evl w) s k = false ->
    freshP (gs en s) ob -> is_discarded (e_ign en) = false -> g_get k (g_of g s) = Some cs ->
    s_oid (gs en (negb s)) <> None /\ ProvModel.o_exists ob = true /\ s_hash (gs en s) = s_shash (gs en s).

Lemma tstr_some o : tstr o = true -> exists x, o = Some x.
Proof. destruct o; [eauto|discriminate]. Qed.

Section One.
Variables (g : ghost) (w : world) (e : nat) (en : StateModel.entry).
Hypothesis SC : SCtx g w e en.
Hypothesis Hign : e_ign en = INone.

Let I := sc_inv _ _ _ _ SC.
Let He := sc_e _ _ _ _ SC.
Let Hn := sc_en _ _ _ _ SC.
Let EO : EntOk (real_evl w) g w e en := i_ents _ _ _ (sc_inv _ _ _ _ SC) e en (sc_e _ _ _ _ SC) (sc_en _ _ _ _ SC).

Lemma nd : is_discarded (e_ign en) = false.
Proof. rewrite Hign. reflexivity. Qed.

Lemma side_obj s o : s_oid (gs en s) = Some o ->
  exists k ob n, o = ostr_k k /\ obj_at w s k = Some ob /\ (2 <= k)%nat /\ FullOk (real_evl w) g w e en s k ob /\
    ProvModel.o_kind ob = ProvModel.KFile /\ ProvModel.o_path ob = [root_name s; n] /\ name_ok n = true.
Proof.
  intros Ho. destruct (so_full _ _ _ _ _ _ (eo_side _ _ _ _ _ EO s) _ Ho) as (k & ob & Hk & Hob & Hk2 & FO).
  destruct (sh_files _ _ (i_shape _ _ _ I s) k ob Hk2 Hob) as (Hkf & n & Hp & Hnok).
  exists k, ob, n. auto 10.
Qed.

Lemma needs_sync_parts s : needs_sync (cfg_std 1) s (gs en s) = true ->
  tchg (s_chg (gs en s)) = true /\ exists o, s_oid (gs en s) = Some o.
Proof.
  intros H. rewrite (needs_sync_eq (real_evl w) g w e en EO) in H.
  apply andb_prop in H as [H _]. apply andb_prop in H as [H1 H2]. split; [exact H1|apply tstr_some; exact H2].
Qed.

(* both markers and the path agree once a sync path is set: no path change in F1 *)
Lemma side_paths s q : s_spath (gs en s) = Some q -> s_path (gs en s) = Some q.
Proof.
  intros Hq. destruct (s_oid (gs en s)) as [o|] eqn:Eo.
  - destruct (side_obj s o Eo) as (k & ob & n & -> & Hob & Hk2 & FO & _).
    assert (Hqq: q = pstr (ProvModel.o_path ob)).
    { destruct (fo_spath _ _ _ _ _ _ _ _ FO) as [X|X]; congruence. }
    assert (Hp: s_path (gs en s) <> None).
    { destruct (opt_dec (g_get k (g_of g s))) as [(cs & Eg)|Eg].
      - destruct (fo_owner2 _ _ _ _ _ _ _ _ FO nd cs Eg) as (_ & X). apply X. congruence.
      - destruct (fo_mirror _ _ _ _ _ _ _ _ FO nd Eg) as (_ & _ & _ & _ & _ & X & _). congruence. }
    destruct (fo_path _ _ _ _ _ _ _ _ FO) as [X|X]; [contradiction|congruence].
  - destruct (so_empty _ _ _ _ _ _ (eo_side _ _ _ _ _ EO s) Eo) as (_ & _ & _ & X & _). congruence.
Qed.

Lemma no_path_change s : is_path_change (cfg_std 1) en s = false.
Proof.
  unfold is_path_change. destruct (s_spath (gs en s)) as [q|] eqn:Eq; [|reflexivity].
  rewrite (paths_differ_same s (gs en s) q Eq (side_paths s q Eq)). apply andb_false_r.
Qed.

(* a mirror side never needs sync *)
Lemma mirror_no_sync s k ob : s_oid (gs en s) = Some (ostr_k k) -> obj_at w s k = Some ob ->
  FullOk (real_evl w) g w e en s k ob -> g_get k (g_of g s) = None -> needs_sync (cfg_std 1) s (gs en s) = false.
Proof.
  intros Ho Hob FO Eg. destruct (fo_mirror _ _ _ _ _ _ _ _ FO nd Eg) as (M1 & M2 & M3 & M4 & M5 & M6 & _).
  rewrite (needs_sync_eq (real_evl w) g w e en EO). rewrite M3, M4, M2, (paths_differ_same s (gs en s) _ M5 M6).
  assert (X: oN_eqb (Some (ProvModel.o_data ob)) (Some (ProvModel.o_data ob)) = true) by (apply oN_eqb_eq; reflexivity).
  rewrite X. cbn [negb orb]. apply andb_false_r.
Qed.

(* a creation: the other side is empty and this side's object is a user's *)
Lemma creation_owner s k ob : is_creation (cfg_std 1) en s = true ->
  s_oid (gs en s) = Some (ostr_k k) -> obj_at w s k = Some ob -> FullOk (real_evl w) g w e en s k ob ->
  s_oid (gs en (negb s)) = None /\ exists cs, g_get k (g_of g s) = Some cs.
Proof.
  intros Hc Ho Hob FO. unfold is_creation in Hc.
  apply andb_prop in Hc as [Hc Hy]. apply andb_prop in Hc as [Hc Hns]. 
  assert (Hown: forall (Hyn: s_oid (gs en (negb s)) = None), exists cs, g_get k (g_of g s) = Some cs).
  { intros Hyn. destruct (opt_dec (g_get k (g_of g s))) as [(cs & Eg)|Eg]; [eauto|].
    destruct (fo_mirror _ _ _ _ _ _ _ _ FO nd Eg) as (_ & _ & _ & _ & _ & _ & (k' & ob' & X & _)). congruence. }
  destruct (s_oid (gs en (negb s))) as [o'|] eqn:Eo'; [exfalso|split; [reflexivity|apply Hown; reflexivity]].
  destruct (side_obj (negb s) o' Eo') as (k' & ob' & n' & -> & Hob' & Hk2' & FO' & _).
  rewrite tstr_ostr in Hy. cbn [negb orb] in Hy.
  destruct (opt_dec (g_get k' (g_of g (negb s)))) as [(cs' & Eg')|Eg'].
  - destruct (opt_dec (g_get k (g_of g s))) as [(cs & Eg)|Eg].
    + destruct (fo_owner _ _ _ _ _ _ _ _ FO nd cs Eg) as (_ & _ & _ & _ & P5).
      assert (Hne: s_oid (gs en (negb s)) <> None) by congruence.
      destruct (P5 Hne) as (_ & _ & _ & Q4). rewrite (Q4 k' Eo') in Eg'. discriminate.
    + rewrite (mirror_no_sync s k ob Ho Hob FO Eg) in Hns. discriminate.
  - destruct (fo_mirror _ _ _ _ _ _ _ _ FO' nd Eg') as (_ & M2 & _). rewrite M2 in Hy. discriminate.
Qed.

(* hash differs from sync hash: the object is a user's *)
Lemma hashdiff_owner s k ob : s_hash (gs en s) <> s_shash (gs en s) ->
  s_oid (gs en s) = Some (ostr_k k) -> FullOk (real_evl w) g w e en s k ob -> exists cs, g_get k (g_of g s) = Some cs.
Proof.
  intros Hd Ho FO. destruct (opt_dec (g_get k (g_of g s))) as [(cs & Eg)|Eg]; [eauto|].
  destruct (fo_mirror _ _ _ _ _ _ _ _ FO nd Eg) as (_ & _ & M3 & M4 & _). congruence.
Qed.

End One.

Definition notmp (w : world) (e : nat) : Prop := forall sd, x_tfile (getx w e sd) = None.

(* objects made by users are never touched by the engine *)
Definition OwnFrame (g : ghost) (w w' : world) : Prop :=
  forall sd k cs, g_get k (g_of g sd) = Some cs -> obj_at w' sd k = obj_at w sd k.
Lemma OwnFrame_refl g w : OwnFrame g w w. Proof. intros sd k cs _. reflexivity. Qed.
Lemma OwnFrame_trans g w w1 w2 : OwnFrame g w w1 -> OwnFrame g w1 w2 -> OwnFrame g w w2.
Proof. intros A B sd k cs H. rewrite (B sd k cs H). apply (A sd k cs H). Qed.
Lemma OwnFrame_prov g w w' : (forall sd, prov_of w' sd = prov_of w sd) -> OwnFrame g w w'.
Proof. intros H sd k cs _. unfold obj_at. rewrite H. reflexivity. Qed.

Lemma finished_prov g w e en side w' : Inv g w -> (2 <= e)%nat -> nth_error (ents (w_st w)) e = Some en ->
  AlgoModel.finished w e side = ROk w' -> forall sd, prov_of w' sd = prov_of w sd.
Proof.
  intros I He Hn H. pose proof (i_ents _ _ _ I e en He Hn) as EO.
  destruct (finished_w w e side en (i_cfg _ _ _ I) (i_tape _ _ _ I) Hn (i_csb _ _ _ I)
              (ent_chg_oid (real_evl w) g w e en EO (negb side)) (ent_force (real_evl w) g w e en EO false) (ent_force (real_evl w) g w e en EO true))
    as (w2 & en' & H2 & _ & Hprov & _).
  rewrite H2 in H. injection H as <-. exact Hprov.
Qed.

Lemma punt_prov g w e en w' : Inv g w -> nth_error (ents (w_st w)) e = Some en -> punt w e = ROk w' ->
  forall sd, prov_of w' sd = prov_of w sd.
Proof.
  intros I Hn H. unfold punt, get_e, lift, get_ent in H. rewrite Hn in H. cbn [rbind] in H.
  destruct (set_priority_w w (i_cfg _ _ _ I) (i_tape _ _ _ I) e (e_prio en + PRIO_ONE) en Hn) as (w2 & H2 & W2).
  rewrite H2 in H. injection H as <-. intros sd. apply (weff_prov _ _ _ _ _ sd W2).
Qed.

Lemma missing_own g w e en s p w2 m en' : x_tfile (getx w e s) = None -> weff (tname_world w e s en p) w2 e en' m -> OwnFrame g w w2.
Proof.
  intros Ht We. destruct (tname_world_facts w e s en p Ht) as (_ & _ & TC & _).
  apply OwnFrame_prov. intros sd. rewrite (weff_prov _ _ _ _ _ sd We). apply TC.
Qed.

Lemma other_side sd s : sd <> s -> sd = negb s.
Proof. destruct sd, s; intros H; try reflexivity; contradiction. Qed.

(* ------------------------------------------------------------------ handle_hash_diff *)
Lemma hash_diff_pres g w e en s w1 cs rs :
  SCtx g w e en -> e_ign en = INone -> needs_sync (cfg_std 1) s (gs en s) = true ->
  notmp w e -> ex_in_gone (s_ex (gs en s)) = false -> s_hash (gs en s) <> s_shash (gs en s) ->
  maxchg en <= now (w_st w) ->
  handle_hash_diff w e s = ROk (w1, cs, rs) ->
  exists en1, SCtx g w1 e en1 /\ (forall x sd0, x <> e -> getx w1 x sd0 = getx w x sd0) /\ OwnFrame g w w1 /\
    match rs with
    | Finished => Just g w1 en1 s
    | Punt => maxchg en1 <= now (w_st w1) /\ notmp w1 e
    | Requeue => False
    end.
Proof.
  intros SC Hign Hns Htmp Hex Hdiff Hmax H.
  pose proof (sc_inv _ _ _ _ SC) as I. pose proof (sc_en _ _ _ _ SC) as Hn.
  destruct (needs_sync_parts g w e en SC s Hns) as (Hc & o & Ho).
  destruct (side_obj g w e en SC s o Ho) as (k & ob & n & -> & Hob & Hk2 & FO & Hkf & Hp & Hnok).
  unfold handle_hash_diff in H. unfold get_e, lift, get_ent in H. rewrite Hn in H. cbn [rbind] in H.
  destruct (fo_path _ _ _ _ _ _ _ _ FO) as [Hpn|Hps].
  - rewrite Hpn in H. injection H as <- <- <-. exists en. split; [exact SC|]. split; [auto|]. split; [apply OwnFrame_refl|].
    intros k0 ob0 cs0 Ho0 Hob0 Hpd Hfr Hd Hg0. exfalso.
    assert (k0 = k) by (apply ostr_k_inj; congruence). subst k0. assert (ob0 = ob) by congruence. subst ob0.
    unfold freshP in Hfr. destruct (ProvModel.o_exists ob); [destruct Hfr as (_ & _ & X); congruence|congruence].
  - rewrite Hps in H.
    destruct (ex_in_gone (s_ex (gs en (negb s))) || negb (tstr (s_oid (gs en (negb s)))))%bool eqn:Eg; [discriminate|].
    apply orb_false_elim in Eg as [Eg1 Eg2]. apply negb_false_iff in Eg2. destruct (tstr_some _ Eg2) as (o' & Ho').
    destruct (side_obj g w e en SC (negb s) o' Ho') as (k' & ob' & n' & -> & Hob' & Hk2' & FO' & _).
    destruct (hashdiff_owner g w e en Hign s k ob Hdiff Ho FO) as (csg & Hg).
    rewrite Hp in Hps.
    destruct (ProvModel.o_exists ob) eqn:El.
    + rewrite (download_live w e s en _ k ob (i_cfg _ _ _ I) (i_pwf _ _ _ I s) (Htmp s) Hn Hps Ho Hob El Hkf) in H.
      cbn [rbind negb] in H.
      match type of H with context [upload_synced ?W e s] => destruct (upload_synced W e s) as [[[w2 cs2] up]|c] eqn:Eu; [|discriminate] end.
      cbn [rbind] in H.
      destruct (upload_pres g w e en s k ob csg k' ob' n w2 cs2 up SC Hign Ho Hob El Hg Ho' Hob' Hp Hps Hc (Htmp s) Eu)
        as (Hup & en3 & SC3 & Ho3 & Hpeer3 & Hh3 & Hi3 & Hprov3 & Hgx3 & _ & Hown3).
      subst up. injection H as <- <- <-. exists en3. split; [exact SC3|]. split; [exact Hgx3|]. split; [exact Hown3|].
      intros k0 ob0 cs0 Ho0 Hob0 _ _ _ _.
      assert (k0 = k) by (apply ostr_k_inj; congruence). subst k0.
      unfold obj_at in Hob0. rewrite Hprov3 in Hob0. assert (ob0 = ob) by (unfold obj_at in Hob; congruence). subst ob0.
      split; [exact Hpeer3|split; [exact El|exact Hh3]].
    + destruct (download_dead w e s en _ k ob (i_cfg _ _ _ I) (i_tape _ _ _ I) (i_pwf _ _ _ I s) (Htmp s) Hn Hps Ho Hob El Hkf) as (w2 & Ed & We).
      rewrite Ed in H. cbn [rbind negb] in H. injection H as <- <- <-.
      destruct (missing_pres g w e en s k ob _ w2 SC Ho Hob El (Htmp s) We) as (SC2 & Hm2 & Hnow2 & Hgx2 & Ht2 & Hgo2).
      eexists. split; [exact SC2|]. split; [exact Hgx2|]. split; [apply (missing_own g w e en s _ w2 _ _ (Htmp s) We)|]. split; [rewrite Hm2; lia|].
      intros sd. destruct (Bool.bool_dec sd s) as [->|Hne]; [exact Ht2|]. rewrite (other_side _ _ Hne), Hgo2. apply Htmp.
Qed.

(* ------------------------------------------------------------------ handle_path_change_or_creation: a creation *)
Lemma creation_pres g w e en s w1 cs rs :
  SCtx g w e en -> e_ign en = INone -> needs_sync (cfg_std 1) s (gs en s) = true ->
  notmp w e -> is_creation (cfg_std 1) en s = true -> maxchg en <= now (w_st w) ->
  handle_path_change_or_creation w e s = ROk (w1, cs, rs) ->
  exists en1, SCtx g w1 e en1 /\ (forall x sd0, x <> e -> getx w1 x sd0 = getx w x sd0) /\ OwnFrame g w w1 /\
    match rs with
    | Finished => Just g w1 en1 s /\ e_ign en1 = INone /\ s_hash (gs en1 s) = s_shash (gs en1 s)
    | Punt => maxchg en1 <= now (w_st w1) /\ notmp w1 e
    | Requeue => False
    end.
Proof.
  intros SC Hign Hns Htmp Hcr Hmax H.
  pose proof (sc_inv _ _ _ _ SC) as I. pose proof (sc_en _ _ _ _ SC) as Hn. pose proof (sc_e _ _ _ _ SC) as He.
  pose proof (i_ents _ _ _ I e en He Hn) as EO.
  destruct (needs_sync_parts g w e en SC s Hns) as (Hc & o & Ho).
  destruct (side_obj g w e en SC s o Ho) as (k & ob & n & -> & Hob & Hk2 & FO & Hkf & Hp & Hnok).
  destruct (creation_owner g w e en SC Hign s k ob Hcr Ho Hob FO) as (Hyn & csg & Hg).
  assert (Hexy: s_ex (gs en (negb s)) = ExUnknown).
  { apply (so_empty_ex _ _ _ _ _ _ (eo_side _ _ _ _ _ EO (negb s)) Hyn). rewrite Hign. reflexivity. }
  pose proof Hcr as Hcr'. unfold is_creation in Hcr'. apply andb_prop in Hcr' as [Hcr' _]. apply andb_prop in Hcr' as [Hcr' _].
  apply andb_prop in Hcr' as [Hpt Hexx].
  assert (Hps: s_path (gs en s) = Some (pstr [root_name s; n])).
  { destruct (fo_path _ _ _ _ _ _ _ _ FO) as [X|X]; [rewrite X in Hpt; discriminate|rewrite X, Hp; reflexivity]. }
  unfold handle_path_change_or_creation in H. unfold get_e, lift, get_ent in H. rewrite Hn in H. cbn [rbind] in H.
  rewrite (i_cfg _ _ _ I), Hps in H.
  pose proof (translate_file (negb s) n Hnok) as Htr. rewrite negb_involutive in Htr. rewrite Htr in H.
  rewrite Hexy, Hcr in H. cbn [ex_is andb] in H. rewrite !andb_false_r in H.
  unfold check_disjoint_create in H. unfold get_e, lift, get_ent in H. rewrite Hn in H. cbn [rbind] in H.
  unfold is_file, is_dir in H. rewrite (ent_file _ _ _ _ _ EO s) in H. cbn [otype_eqb negb] in H.
  destruct (others e (lookup_path (w_st w) (negb s) (Some (pstr [root_name (negb s); n])))) as [|z zs]; [|discriminate].
  cbn [rbind] in H.
  destruct (ProvModel.o_exists ob) eqn:El.
  - rewrite (download_live w e s en _ k ob (i_cfg _ _ _ I) (i_pwf _ _ _ I s) (Htmp s) Hn Hps Ho Hob El Hkf) in H.
    cbn [rbind negb] in H.
    destruct (create_pres g w e en s k ob csg n w1 cs rs SC Hign Ho Hob El Hg Hyn Hp Hnok Hps Hc (Htmp s) H)
      as (Hrs & en3 & SC3 & Ho3 & Hpeer3 & Hh3 & Hi3 & Hprov3 & Hgx3 & _ & Hown3).
    subst rs. exists en3. split; [exact SC3|]. split; [exact Hgx3|]. split; [exact Hown3|]. split; [|split; [exact Hi3|exact Hh3]].
    intros k0 ob0 cs0 Ho0 Hob0 _ _ _ _.
    assert (k0 = k) by (apply ostr_k_inj; congruence). subst k0.
    unfold obj_at in Hob0. rewrite Hprov3 in Hob0. assert (ob0 = ob) by (unfold obj_at in Hob; congruence). subst ob0.
    split; [exact Hpeer3|split; [exact El|exact Hh3]].
  - destruct (download_dead w e s en _ k ob (i_cfg _ _ _ I) (i_tape _ _ _ I) (i_pwf _ _ _ I s) (Htmp s) Hn Hps Ho Hob El Hkf) as (w2 & Ed & We).
    rewrite Ed in H. cbn [rbind negb] in H. injection H as <- <- <-.
    destruct (missing_pres g w e en s k ob _ w2 SC Ho Hob El (Htmp s) We) as (SC2 & Hm2 & Hnow2 & Hgx2 & Ht2 & Hgo2).
    eexists. split; [exact SC2|]. split; [exact Hgx2|]. split; [apply (missing_own g w e en s _ w2 _ _ (Htmp s) We)|]. split; [rewrite Hm2; lia|].
    intros sd. destruct (Bool.bool_dec sd s) as [->|Hne]; [exact Ht2|]. rewrite (other_side _ _ Hne), Hgo2. apply Htmp.
Qed.

Lemma oN_eqb_refl a : oN_eqb a a = true.
Proof. apply oN_eqb_eq. reflexivity. Qed.

Lemma oip_std s : oip_of (cfg_std 1) s = false. Proof. destruct s; reflexivity. Qed.

(* ------------------------------------------------------------------ embrace_change *)
Lemma embrace_pres g w e en s w1 cs rs :
  SCtx g w e en -> e_ign en = INone -> needs_sync (cfg_std 1) s (gs en s) = true ->
  notmp w e -> maxchg en <= now (w_st w) ->
  embrace_change w e s = ROk (w1, cs, rs) ->
  exists en1, SCtx g w1 e en1 /\ (forall x sd0, x <> e -> getx w1 x sd0 = getx w x sd0) /\ OwnFrame g w w1 /\
    match rs with
    | Finished => Just g w1 en1 s
    | Punt => maxchg en1 <= now (w_st w1) /\ notmp w1 e
    | Requeue => False
    end.
Proof.
  intros SC Hign Hns Htmp Hmax H.
  pose proof (sc_inv _ _ _ _ SC) as I. pose proof (sc_en _ _ _ _ SC) as Hn. pose proof (sc_e _ _ _ _ SC) as He.
  pose proof (i_ents _ _ _ I e en He Hn) as EO.
  destruct (needs_sync_parts g w e en SC s Hns) as (Hc & o & Ho).
  destruct (side_obj g w e en SC s o Ho) as (k & ob & n & -> & Hob & Hk2 & FO & Hkf & Hp & Hnok).
  unfold embrace_change in H. unfold get_e, lift, get_ent in H. rewrite Hn in H. cbn [rbind] in H.
  rewrite (i_cfg _ _ _ I) in H.
  match type of H with (rbind ?A _) = _ => destruct A as [[]|c] eqn:E0; [|discriminate] end. cbn [rbind] in H. clear E0.
  rewrite Hign in H. cbn [is_discarded is_conflicted] in H.
  match type of H with (rbind ?A _) = _ => destruct A as [pc|c] eqn:Epc; [|discriminate] end. cbn [rbind] in H. clear Epc.
  destruct pc as [ce|].
  { unfold gate, lvl in H. rewrite (i_cfg _ _ _ I) in H. cbn in H. discriminate. }
  rewrite oip_std in H.
  destruct (ex_is (s_ex (gs en s)) ExTrashed) eqn:Et.
  - (* deleted on this side *)
    assert (Ex: s_ex (gs en s) = ExTrashed) by (destruct (s_ex (gs en s)); simpl in Et; congruence).
    assert (Hnc: is_creation (cfg_std 1) en (negb s) = false).
    { destruct (is_creation (cfg_std 1) en (negb s)) eqn:Ec; [exfalso|reflexivity].
      pose proof Ec as Ec'. unfold is_creation in Ec'. apply andb_prop in Ec' as [Ec' _]. apply andb_prop in Ec' as [_ Hns'].
      destruct (needs_sync_parts g w e en SC (negb s) Hns') as (_ & o' & Ho').
      destruct (side_obj g w e en SC (negb s) o' Ho') as (k' & ob' & n' & -> & Hob' & _ & FO' & _).
      destruct (creation_owner g w e en SC Hign (negb s) k' ob' Ec Ho' Hob' FO') as (X & _).
      rewrite negb_involutive in X. congruence. }
    rewrite Hnc in H. cbn [andb] in H.
    destruct (delete_pres g w e en s k w1 cs rs SC Hign Ex Ho H) as (Hrs & en3 & SC3 & Hd3 & Hgx3 & Hown3).
    subst rs. exists en3. split; [exact SC3|]. split; [intros; apply Hgx3|]. split; [exact Hown3|].
    intros k0 ob0 cs0 _ _ _ _ Hd _. rewrite Hd in Hd3. discriminate.
  - destruct (ex_is (s_ex (gs en s)) ExMissing) eqn:Em; [discriminate|].
    assert (Hgone: ex_in_gone (s_ex (gs en s)) = false) by (destruct (s_ex (gs en s)); simpl in *; congruence).
    rewrite (no_path_change g w e en SC Hign s) in H. cbn [orb] in H.
    destruct (is_creation (cfg_std 1) en s) eqn:Ecr.
    + destruct (handle_path_change_or_creation w e s) as [[[wa csa] rsa]|c] eqn:Eh; [|discriminate]. cbn [rbind] in H.
      destruct (creation_pres g w e en s wa csa rsa SC Hign Hns Htmp Ecr Hmax Eh) as (en1 & SC1 & Hgx1 & Hown1 & Hres).
      destruct rsa.
      * destruct Hres as (HJ & Hi1 & Hh1). unfold get_e, lift, get_ent in H. rewrite (sc_en _ _ _ _ SC1) in H. cbn [rbind] in H.
        rewrite Hi1 in H. cbn [is_discarded rbind] in H. rewrite (sc_en _ _ _ _ SC1) in H. cbn [rbind] in H.
        rewrite Hh1, oN_eqb_refl in H. cbn [negb] in H. injection H as <- <- <-.
        exists en1. split; [exact SC1|]. split; [exact Hgx1|]. split; [exact Hown1|exact HJ].
      * cbn [rbind] in H. injection H as <- <- <-. exists en1. split; [exact SC1|]. split; [exact Hgx1|]. split; [exact Hown1|exact Hres].
      * destruct Hres.
    + cbn [rbind] in H. unfold get_e, lift, get_ent in H. rewrite Hn in H. cbn [rbind] in H.
      destruct (oN_eqb (s_hash (gs en s)) (s_shash (gs en s))) eqn:Eh; cbn [negb] in H.
      * injection H as <- <- <-. exists en. split; [exact SC|]. split; [auto|]. split; [apply OwnFrame_refl|].
        intros k0 ob0 cs0 Ho0 Hob0 Hpd Hfr Hd Hg0.
        assert (k0 = k) by (apply ostr_k_inj; congruence). subst k0. assert (ob0 = ob) by congruence. subst ob0.
        unfold freshP in Hfr. destruct (ProvModel.o_exists ob) eqn:El; [|congruence].
        destruct Hfr as (Fe & Fh & Fp).
        split; [|split; [reflexivity|apply oN_eqb_eq; exact Eh]].
        unfold is_creation in Ecr. rewrite Fp, tstr_pstr, Fe, Hns in Ecr. cbn [ex_is andb] in Ecr.
        apply orb_false_elim in Ecr as [Ecr _]. apply negb_false_iff in Ecr. destruct (tstr_some _ Ecr) as (x & Hx). congruence.
      * destruct (handle_hash_diff w e s) as [[[w2 cs2] rs2]|c] eqn:Ed; [|discriminate]. cbn [rbind] in H. injection H as <- <- <-.
        apply (hash_diff_pres g w e en s w2 cs2 rs2 SC Hign Hns Htmp Hgone); [|exact Hmax|exact Ed].
        intros X. rewrite X, oN_eqb_refl in Eh. discriminate.
Qed.

(* ------------------------------------------------------------------ sync(): one side *)
Lemma sync_side_pres g w e en s w' cs fl :
  SCtx g w e en -> e_ign en = INone -> notmp w e -> maxchg en <= now (w_st w) ->
  sync_side w e s = ROk (w', cs, fl) ->
  (forall x sd0, x <> e -> getx w' x sd0 = getx w x sd0) /\ notmp w' e /\ OwnFrame g w w' /\
  match fl with
  | Continue => exists en', SCtx g w' e en' /\ e_ign en' = INone /\ maxchg en' <= now (w_st w')
  | Break _ => Inv g w'
  end.
Proof.
  intros SC Hign Htmp Hmax H.
  pose proof (sc_inv _ _ _ _ SC) as I. pose proof (sc_en _ _ _ _ SC) as Hn. pose proof (sc_e _ _ _ _ SC) as He.
  pose proof (i_ents _ _ _ I e en He Hn) as EO.
  unfold sync_side in H. unfold get_e, lift, get_ent in H. rewrite Hn in H. cbn [rbind] in H.
  rewrite (i_cfg _ _ _ I) in H.
  destruct (needs_sync (cfg_std 1) s (gs en s)) eqn:Hns; cbn [negb] in H.
  2:{ destruct (tchg (s_chg (gs en s))) eqn:Hc.
      - destruct (set_changed_w w (i_cfg _ _ _ I) (i_tape _ _ _ I) e s (CNum 0) en Hn) as (wa & Ha & Wa).
        rewrite Ha in H. cbn [rbind] in H. injection H as <- <- <-.
        pose proof (clear_changed_pres g w e en s wa SC Hns Hc Ha) as SC1.
        pose proof Wa as (_ & _ & _ & _ & (_ & _ & Wnow & _) & _).
        assert (Hgx: forall x sd0, getx wa x sd0 = getx w x sd0) by (intros; apply (weff_getx _ _ _ _ _ x sd0 Wa)).
        split; [intros; apply Hgx|]. split; [intros sd; rewrite Hgx; apply Htmp|].
        split; [apply OwnFrame_prov; intros sd; apply (weff_prov _ _ _ _ _ sd Wa)|].
        exists (clr en s). split; [exact SC1|]. split; [unfold clr; rewrite ign_ss; exact Hign|].
        pose proof (maxchg_clr en s). lia.
      - injection H as <- <- <-. split; [auto|]. split; [exact Htmp|]. split; [apply OwnFrame_refl|]. exists en. auto. }
  destruct (needs_sync_parts g w e en SC s Hns) as (Hc & o & Ho).
  destruct (side_obj g w e en SC s o Ho) as (k & ob & n & -> & Hob & Hk2 & FO & Hkf & Hp & Hnok).
  destruct (negb (thash (s_hash (gs en s))) && is_file (gs en s) && ex_is (s_ex (gs en s)) ExExists)%bool eqn:Enh.
  { (* a file without a hash: finished *)
    apply andb_prop in Enh as [Enh Eex]. apply andb_prop in Enh as [Eh _]. apply negb_true_iff in Eh.
    destruct (AlgoModel.finished w e s) as [wa|c] eqn:Ef; [|discriminate]. cbn [rbind] in H. injection H as <- <- <-.
    assert (HJ: Just g w en s).
    { intros k0 ob0 cs0 Ho0 Hob0 Hpd Hfr Hd Hg0. exfalso.
      assert (k0 = k) by (apply ostr_k_inj; congruence). subst k0. assert (ob0 = ob) by congruence. subst ob0.
      unfold freshP in Hfr. destruct (ProvModel.o_exists ob).
      - destruct Hfr as (_ & Fh & _). rewrite Fh in Eh. discriminate.
      - destruct (s_ex (gs en s)); simpl in Hfr, Eex; discriminate. }
    destruct (finished_pres g w e en s wa SC HJ Ef) as (Ia & Hgxa & Hta).
    split; [exact Hgxa|]. split; [exact Hta|]. split; [apply OwnFrame_prov; apply (finished_prov g w e en s wa I He Hn Ef)|exact Ia]. }
  rewrite Ho in H. cbn [negb andb] in H.
  match type of H with (if ?B then _ else _) = _ => destruct B end.
  { injection H as <- <- <-. split; [auto|]. split; [exact Htmp|]. split; [apply OwnFrame_refl|]. exists en. auto. }
  destruct (path_conflict (cfg_std 1) en); [discriminate|].
  destruct (embrace_change w e s) as [[[w1 cs1] rs]|c] eqn:Ee; [|discriminate]. cbn [rbind] in H.
  destruct (embrace_pres g w e en s w1 cs1 rs SC Hign Hns Htmp Hmax Ee) as (en1 & SC1 & Hgx1 & Hown1 & Hres).
  destruct rs.
  - destruct (AlgoModel.finished w1 e s) as [wa|c] eqn:Ef; [|discriminate]. cbn [rbind] in H. injection H as <- <- <-.
    destruct (finished_pres g w1 e en1 s wa SC1 Hres Ef) as (Ia & Hgxa & Hta).
    split; [intros x sd0 Hne; rewrite Hgxa by exact Hne; apply Hgx1; exact Hne|]. split; [exact Hta|].
    split; [|exact Ia]. apply (OwnFrame_trans g w w1 wa Hown1). apply OwnFrame_prov.
    apply (finished_prov g w1 e en1 s wa (sc_inv _ _ _ _ SC1) He (sc_en _ _ _ _ SC1) Ef).
  - destruct Hres as (Hm1 & Ht1).
    destruct (punt w1 e) as [wa|c] eqn:Epu; [|discriminate]. cbn [rbind] in H. injection H as <- <- <-.
    destruct (punt_pres g w1 e en1 wa SC1 Hm1 Epu) as (Ia & Hgxa).
    split; [intros x sd0 Hne; rewrite Hgxa; apply Hgx1; exact Hne|]. split; [intros sd; rewrite Hgxa; apply Ht1|].
    split; [|exact Ia]. apply (OwnFrame_trans g w w1 wa Hown1). apply OwnFrame_prov.
    apply (punt_prov g w1 e en1 wa (sc_inv _ _ _ _ SC1) (sc_en _ _ _ _ SC1) Epu).
  - destruct Hres.
Qed.

(* ------------------------------------------------------------------ sync(): both sides *)
Lemma sync_entry_pres g w e en w' cs :
  SCtx g w e en -> e_ign en = INone -> notmp w e -> maxchg en <= now (w_st w) ->
  sync_entry w e = ROk (w', cs) ->
  Inv g w' /\ (forall x sd0, x <> e -> getx w' x sd0 = getx w x sd0) /\ notmp w' e /\ OwnFrame g w w'.
Proof.
  intros SC Hign Htmp Hmax H.
  pose proof (sc_en _ _ _ _ SC) as Hn.
  unfold sync_entry in H. unfold get_e, lift, get_ent in H. rewrite Hn in H. cbn [rbind] in H.
  match type of H with (if ?B then _ else _) = _ => destruct B; [discriminate|] end.
  destruct (hash_conflict en); [discriminate|].
  set (first := N.ltb (chgval (s_chg (e_r en))) (chgval (s_chg (e_l en)))) in H.
  destruct (sync_side w e first) as [[[w1 cs1] f1]|c] eqn:E1; [|discriminate]. cbn [rbind] in H.
  destruct (sync_side_pres g w e en first w1 cs1 f1 SC Hign Htmp Hmax E1) as (Hgx1 & Ht1 & Hown1 & Hres1).
  destruct f1.
  - destruct Hres1 as (en1 & SC1 & Hi1 & Hm1).
    destruct (sync_side w1 e (negb first)) as [[[w2 cs2] f2]|c] eqn:E2; [|discriminate]. cbn [rbind] in H. injection H as <- <-.
    destruct (sync_side_pres g w1 e en1 (negb first) w2 cs2 f2 SC1 Hi1 Ht1 Hm1 E2) as (Hgx2 & Ht2 & Hown2 & Hres2).
    split; [|split; [intros x sd0 Hne; rewrite Hgx2 by exact Hne; apply Hgx1; exact Hne|split; [exact Ht2|apply (OwnFrame_trans g w w1 w2 Hown1 Hown2)]]].
    destruct f2; [destruct Hres2 as (en2 & SC2 & _); exact (sc_inv _ _ _ _ SC2)|exact Hres2].
  - injection H as <- <-. split; [exact Hres1|]. split; [exact Hgx1|]. split; [exact Ht1|exact Hown1].
Qed.

(* ------------------------------------------------------------------ steps that touch the clock or the dirty set only *)
Lemma InvP_st evl g w s' :
  ents s' = ents (w_st w) -> oidsL s' = oidsL (w_st w) -> oidsR s' = oidsR (w_st w) ->
  pathsL s' = pathsL (w_st w) -> pathsR s' = pathsR (w_st w) -> cset s' = cset (w_st w) ->
  now (w_st w) <= now s' -> lastch s' = lastch (w_st w) -> tape s' = tape (w_st w) ->
  InvP evl g w -> InvP evl g (with_st w s').
Proof.
  intros Hents HoL HoR HpL HpR Hcs Hnow Hlast Htape I. set (w' := with_st w s').
  assert (Hp: forall sd, prov_of w' sd = prov_of w sd) by (intros; apply prov_of_with_st).
  assert (Hobj: forall sd k, obj_at w' sd k = obj_at w sd k) by (intros sd k; unfold obj_at; rewrite Hp; reflexivity).
  assert (Hst: w_st w' = s') by reflexivity.
  constructor.
  - exact (i_cfg _ _ _ I).
  - intros sd. rewrite Hp. apply (i_pwf _ _ _ I).
  - intros sd. apply (ShapeOk_ext w w' sd (Hobj sd) (i_shape _ _ _ I sd)).
  - intros sd. apply (LogOk_ext evl evl w w' sd (Hobj sd)); [auto|apply (i_log _ _ _ I)].
  - apply (IdxJ_view (w_st w)); [|apply (i_idx _ _ _ I)]. rewrite Hst. unfold iview. rewrite Hents, HoL, HoR, HpL, HpR. reflexivity.
  - rewrite Hst, Htape. exact (i_tape _ _ _ I).
  - intros e en Hn Hf. rewrite Hst, Hents in Hn. rewrite Hst, Hcs. apply (i_csc _ _ _ I e en Hn Hf).
  - intros x Hm. rewrite Hst, Hcs in Hm. rewrite Hst, Hents. apply (i_csb _ _ _ I x Hm).
  - intros e en Hn Hm. rewrite Hst, Hents in Hn. rewrite Hst, Hcs in Hm. apply (i_cse _ _ _ I e en Hn Hm).
  - rewrite Hst, Hlast. pose proof (i_clk _ _ _ I). lia.
  - intros e en Hn. rewrite Hst, Hents in Hn. destruct (i_clke _ _ _ I e en Hn) as (A & B). rewrite Hst.
    split; [lia|]. intros sd. specialize (B sd). change (getx w' e sd) with (getx w e sd). lia.
  - destruct (i_roots _ _ _ I) as (e0 & e1 & R). exists e0, e1. rewrite Hst, Hents, Hcs. exact R.
  - intros sd k Hk Hlt. rewrite Hp in Hlt. rewrite Hst, Hents. apply (i_cov _ _ _ I sd k Hk Hlt).
  - intros e en He Hn. rewrite Hst, Hents in Hn.
    apply (EntOk_frame evl evl g g w w' e en (i_ents _ _ _ I e en He Hn)); [reflexivity|].
    intros sd k Ho. split; [apply Hobj|split; [auto|reflexivity]].
  - intros sd k Hk Hlt Hg. rewrite Hp in Hlt. rewrite Hst, Hents. apply (i_cove _ _ _ I sd k Hk Hlt Hg).
  - intros sd k cs Hg. rewrite Hobj. apply (i_ghost _ _ _ I sd k cs Hg).
  - intros e sd Hl. rewrite Hst, Hents in Hl. change (getx w' e sd) with (getx w e sd). apply (i_xlen _ _ _ I e sd Hl).
  - intros e en sd He Hn. rewrite Hst, Hents in Hn. unfold Seen. change (getx w' e sd) with (getx w e sd). apply (i_seen _ _ _ I e en sd He Hn).
Qed.

Lemma Inv_st g w s' :
  ents s' = ents (w_st w) -> oidsL s' = oidsL (w_st w) -> oidsR s' = oidsR (w_st w) ->
  pathsL s' = pathsL (w_st w) -> pathsR s' = pathsR (w_st w) -> cset s' = cset (w_st w) ->
  now (w_st w) <= now s' -> lastch s' = lastch (w_st w) -> tape s' = tape (w_st w) ->
  Inv g w -> Inv g (with_st w s').
Proof.
  intros. unfold Inv. apply (InvP_ext (real_evl w)); [intros sd; unfold real_evl; rewrite prov_of_with_st; reflexivity|].
  apply InvP_st; assumption.
Qed.

Lemma Inv_commit g w : Inv g w -> Inv g (commit w).
Proof. intros I. unfold commit. apply Inv_st; try reflexivity; try assumption. Qed.

Lemma Inv_at_clock g w clk : Inv g w -> Inv g (at_clock w clk).
Proof. intros I. unfold at_clock. apply Inv_st; try reflexivity; try assumption. cbn [st_now now]. lia. Qed.

Lemma Inv_tick g w : Inv g w -> Inv g (fst (tick w)).
Proof. intros I. unfold tick. cbn [fst]. apply Inv_st; try reflexivity; try assumption. cbn [st_now now]. lia. Qed.

(* ------------------------------------------------------------------ pre_sync *)
Lemma pre_sync_pres g w e en w' done :
  Inv g w -> (2 <= e)%nat -> nth_error (ents (w_st w)) e = Some en -> notmp w e -> maxchg en <= now (w_st w) ->
  pre_sync w e = ROk (w', done) ->
  (forall x sd0, x <> e -> getx w' x sd0 = getx w x sd0) /\ notmp w' e /\ (forall sd, prov_of w' sd = prov_of w sd) /\
  if done then Inv g w' else exists en', SCtx g w' e en' /\ e_ign en' = INone /\ maxchg en' <= now (w_st w').
Proof.
  intros I He Hn Htmp Hmax H.
  pose proof (i_ents _ _ _ I e en He Hn) as EO.
  unfold pre_sync in H. unfold get_e, lift, get_ent in H. rewrite Hn in H. cbn [rbind] in H.
  destruct (eo_ign _ _ _ _ _ EO) as [Hi|Hi]; rewrite Hi in H; cbn [is_discarded] in H.
  - destruct (get_latest w e false [false; true]) as [w1|c] eqn:Eg; [|discriminate]. cbn [rbind] in H. injection H as <- <-.
    assert (Hnd: forall en0, nth_error (ents (w_st w)) e = Some en0 -> is_discarded (e_ign en0) = false).
    { intros en0 H0. assert (en0 = en) by congruence. subst en0. rewrite Hi. reflexivity. }
    destruct (get_latest_both (real_evl w) g w e w1 I He Hnd Eg) as (I1 & R1 & R2 & Hp & Hgx & (en0 & en1 & Hn0 & Hn1 & Hi1 & Hm1) & Hnow & Hshp).
    destruct (get_latest_pres (real_evl w) g w e false _ w1 I He Eg) as (_ & _ & _ & _ & Htf & _).
    assert (en0 = en) by congruence. subst en0.
    split; [exact Hgx|]. split; [intros sd; rewrite Htf; apply Htmp|]. split; [exact Hp|].
    exists en1. split; [|split; [congruence|lia]].
    constructor; [|exact He|exact Hn1| |intros sd0; apply (Hshp en1 sd0 Hn1)].
    + unfold Inv. apply (InvP_ext (real_evl w)); [intros sd; unfold real_evl; rewrite Hp; reflexivity|exact I1].
    + intros sd0 k ob Ho Hob.
      assert (Hpd: pd (real_evl w1) sd0 k = pd (real_evl w) sd0 k) by (unfold pd, real_evl; rewrite Hp; reflexivity).
      rewrite Hpd. destruct sd0; [apply (R2 en1 k ob Hn1 Ho Hob)|apply (R1 en1 k ob Hn1 Ho Hob)].
  - destruct (revivify_side w e false) as [[]|c]; [|discriminate]. cbn [rbind] in H.
    destruct (revivify_side w e true) as [[]|c]; [|discriminate]. cbn [rbind] in H.
    destruct (AlgoModel.finished w e false) as [wa|c] eqn:Efa; [|discriminate]. cbn [rbind] in H.
    destruct (AlgoModel.finished wa e true) as [wb|c] eqn:Efb; [|discriminate]. cbn [rbind] in H. injection H as <- <-.
    assert (Hd: is_discarded (e_ign en) = true) by (rewrite Hi; reflexivity).
    destruct (finished_pres0 g w e en false wa I He Hn) with (4 := Efa) as (Ia & Hgxa & Hta & Hpa & ena & Hna & Sa).
    { intros X. rewrite Hd in X. discriminate. }
    { intros X. rewrite Hd in X. discriminate. }
    { intros k ob cs _ _ _ _ X. rewrite Hd in X. discriminate. }
    assert (Hda: is_discarded (e_ign ena) = true).
    { destruct Sa as (_ & _ & S3). unfold clr in S3. rewrite ign_ss in S3. rewrite <- S3. exact Hd. }
    destruct (finished_pres0 g wa e ena true wb Ia He Hna) with (4 := Efb) as (Ib & Hgxb & Htb & Hpb & enb & Hnb & Sb).
    { intros X. rewrite Hda in X. discriminate. }
    { intros X. rewrite Hda in X. discriminate. }
    { intros k ob cs _ _ _ _ X. rewrite Hda in X. discriminate. }
    split; [intros x sd0 Hne; rewrite Hgxb by exact Hne; apply Hgxa; exact Hne|]. split; [exact Htb|].
    split; [intros sd; rewrite Hpb; apply Hpa|exact Ib].
Qed.

(* ------------------------------------------------------------------ SyncState.change: the path-filling loop *)
Lemma set_mem_In x l : In x l -> set_mem x l = true.
Proof.
  induction l as [|y r IH]; simpl; [intros []|]. intros [->|H]; [rewrite Nat.eqb_refl; reflexivity|rewrite (IH H); apply orb_true_r].
Qed.

Lemma norm_order_mem order cs x : In x (norm_order order cs) -> set_mem x cs = true.
Proof.
  unfold norm_order. intros H. apply in_app_or in H as [H|H]; apply filter_In in H as [H1 H2]; [exact H2|apply set_mem_In; exact H1].
Qed.

Lemma fill_one_pres g w e sd w' : Inv g w -> (2 <= e)%nat -> fill_one w e sd = ROk w' ->
  Inv g w' /\ (forall x sd0, x_tfile (getx w' x sd0) = x_tfile (getx w x sd0)) /\ (forall sd0, prov_of w' sd0 = prov_of w sd0) /\
  (forall x, set_mem x (cset (w_st w)) = true -> set_mem x (cset (w_st w')) = true).
Proof.
  intros I He H. unfold fill_one in H. unfold get_e, lift, get_ent in H.
  destruct (nth_error (ents (w_st w)) e) as [en|]; [|discriminate]. cbn [rbind] in H.
  match type of H with (if ?B then _ else _) = _ => destruct B end.
  - destruct (get_latest_pres (real_evl w) g w e false [sd] w' I He H) as (I1 & Hp & Hgx & _ & Htf & _ & Hmono).
    split.
    + unfold Inv. apply (InvP_ext (real_evl w)); [intros sd0; unfold real_evl; rewrite Hp; reflexivity|exact I1].
    + split; [|split; [exact Hp|exact Hmono]]. intros x sd0. destruct (Nat.eq_dec x e) as [->|Hne]; [apply Htf|rewrite Hgx by exact Hne; reflexivity].
  - injection H as <-. auto.
Qed.

Lemma fill_paths_pres g : forall order w w', Inv g w -> Forall (fun e => (2 <= e)%nat) order -> fill_paths w order = ROk w' ->
  Inv g w' /\ (forall x sd0, x_tfile (getx w' x sd0) = x_tfile (getx w x sd0)) /\ (forall sd0, prov_of w' sd0 = prov_of w sd0) /\
  (forall x, set_mem x (cset (w_st w)) = true -> set_mem x (cset (w_st w')) = true).
Proof.
  induction order as [|e r IH]; intros w w' I Hall H.
  - simpl in H. injection H as <-. auto.
  - simpl in H. inversion Hall as [|? ? He Hr]; subst.
    destruct (fill_one w e false) as [w1|c] eqn:E1; [|discriminate]. cbn [rbind] in H.
    destruct (fill_one w1 e true) as [w2|c] eqn:E2; [|discriminate]. cbn [rbind] in H.
    destruct (fill_one_pres g w e false w1 I He E1) as (I1 & T1 & P1 & M1).
    destruct (fill_one_pres g w1 e true w2 I1 He E2) as (I2 & T2 & P2 & M2).
    destruct (IH w2 w' I2 Hr H) as (I3 & T3 & P3 & M3). split; [exact I3|]. split; [intros x sd0; rewrite T3, T2, T1; reflexivity|].
    split; [intros sd0; rewrite P3, P2, P1; reflexivity|]. intros x Hm. apply M3, M2, M1. exact Hm.
Qed.

(* ------------------------------------------------------------------ SyncManager.do: one sync step *)
Lemma pick_in s order t e : pick s order t = Some e -> In e order.
Proof.
  unfold pick. intros H. destruct (SchedModel.pick_sorted _ (tagged s order)) as [[i x]|] eqn:E; [|discriminate].
  simpl in H. injection H as <-. destruct (SchedProofs.picked_is_eligible _ _ _ E) as (Hin & _).
  unfold tagged in Hin. apply in_map_iff in Hin as (j & Hj & Hin). injection Hj as <- _. exact Hin.
Qed.

Theorem sync_step_pres g w order w' cs :
  Inv g w -> NoTmp w -> sync_step w order = ROk (w', cs) -> Inv g w' /\ NoTmp w' /\ OwnFrame g w w'.
Proof.
  intros I T H. unfold sync_step in H.
  destruct (cset (w_st w)) as [|c0 cr] eqn:Ecs; [injection H as <- <-; split; [exact I|split; [exact T|apply OwnFrame_refl]]|]. rewrite <- Ecs in H.
  set (ord := norm_order order (cset (w_st w))) in H.
  assert (Hord: Forall (fun e => (2 <= e)%nat) ord).
  { apply Forall_forall. intros x Hx. apply norm_order_mem in Hx.
    destruct (i_roots _ _ _ I) as (e0 & e1 & _ & _ & _ & _ & _ & _ & _ & _ & _ & _ & _ & _ & _ & M0 & M1).
    destruct x as [|[|x]]; [congruence|congruence|lia]. }
  destruct (fill_paths w ord) as [w1|c] eqn:Ef; [|discriminate]. cbn [rbind] in H.
  destruct (fill_paths_pres g ord w w1 I Hord Ef) as (I1 & T1 & P1 & _).
  assert (O2: OwnFrame g w (fst (tick w1))).
  { apply OwnFrame_prov. intros sd. unfold tick. cbn [fst]. rewrite prov_of_with_st. apply P1. }
  assert (Htick: tick w1 = (fst (tick w1), now (w_st w1) + 1000)) by reflexivity.
  rewrite Htick in H.
  pose proof (Inv_tick g w1 I1) as I2. set (w2 := fst (tick w1)) in *.
  assert (Hnow2: now (w_st w2) = now (w_st w1) + 1000) by reflexivity.
  assert (T2: NoTmp w2) by (intros x sd0; change (getx w2 x sd0) with (getx w1 x sd0); rewrite T1; apply T).
  destruct (pick (w_st w2) ord (now (w_st w1) + 1000)) as [e|] eqn:Ep; [|injection H as <- <-; auto].
  fold w2 in O2.
  assert (He: (2 <= e)%nat) by (apply (proj1 (Forall_forall _ _) Hord); apply (pick_in _ _ _ _ Ep)).
  destruct (pre_sync w2 e) as [[w3 done]|c] eqn:Eps; [|discriminate]. cbn [rbind] in H.
  destruct (nth_error (ents (w_st w2)) e) as [en|] eqn:Hn.
  2:{ unfold pre_sync, get_e, lift, get_ent in Eps. rewrite Hn in Eps. discriminate. }
  assert (Hmax: maxchg en <= now (w_st w2)).
  { assert (Hn1: nth_error (ents (w_st w1)) e = Some en) by exact Hn.
    destruct (i_clke _ _ _ I1 e en Hn1) as (A & _). lia. }
  destruct (pre_sync_pres g w2 e en w3 done I2 He Hn (T2 e) Hmax Eps) as (Hgx3 & Ht3 & P3 & Hres).
  assert (O3: OwnFrame g w w3) by (apply (OwnFrame_trans g w w2 w3 O2); apply OwnFrame_prov; exact P3).
  assert (T3: NoTmp w3).
  { intros x sd0. destruct (Nat.eq_dec x e) as [->|Hne]; [apply Ht3|rewrite Hgx3 by exact Hne; apply T2]. }
  destruct done.
  - injection H as <- <-. split; [apply Inv_commit; exact Hres|]. split; [exact T3|].
    intros sd k cs0 Hg. pose proof (O3 sd k cs0 Hg) as X3. unfold obj_at in *. rewrite prov_of_commit. exact X3.
  - destruct Hres as (en3 & SC3 & Hi3 & Hm3).
    destruct (sync_entry w3 e) as [[w4 cs4]|c] eqn:Ese; [|discriminate]. cbn [rbind] in H. injection H as <- <-.
    destruct (sync_entry_pres g w3 e en3 w4 cs4 SC3 Hi3 Ht3 Hm3 Ese) as (I4 & Hgx4 & Ht4 & O4).
    split; [apply Inv_commit; exact I4|]. split.
    + intros x sd0. change (getx (commit w4) x sd0) with (getx w4 x sd0).
      destruct (Nat.eq_dec x e) as [->|Hne]; [apply Ht4|rewrite Hgx4 by exact Hne; apply T3].
    + intros sd k cs0 Hg. pose proof (O3 sd k cs0 Hg) as X3. pose proof (O4 sd k cs0 Hg) as X4.
      unfold obj_at in *. rewrite prov_of_commit. congruence.
Qed.

(* event intake does not touch the temp files *)
Lemma st_op_wx w f w' : st_op w f = ROk w' -> w_x w' = w_x w.
Proof. unfold st_op. destruct (f _); [intros H; injection H as <-; reflexivity|discriminate]. Qed.

Lemma process_event_wx w sd ev w' : process_event w sd ev = ROk w' -> w_x w' = w_x w.
Proof.
  unfold process_event. destruct (oip_of (w_cfg w) sd || c_filt (w_cfg w))%bool; [discriminate|].
  match goal with |- (rbind ?A _) = _ -> _ => destruct A as [[]|c]; [|discriminate] end. cbn [rbind].
  match goal with |- (rbind ?A _) = _ -> _ => destruct A as [w1|c] eqn:E1; [|discriminate] end. cbn [rbind].
  intros H. injection H as <-. apply st_op_wx in E1. exact E1.
Qed.

Lemma process_events_wx sd : forall l w w', process_events w sd l = ROk w' -> w_x w' = w_x w.
Proof.
  induction l as [|ev r IH]; intros w w' H; simpl in H; [injection H as <-; reflexivity|].
  destruct (process_event w sd ev) as [w1|c] eqn:E1; [|discriminate]. cbn [rbind] in H.
  rewrite (IH _ _ H). apply (process_event_wx _ _ _ _ E1).
Qed.

Lemma intake_wx w sd w' : intake w sd = ROk w' -> w_x w' = w_x w.
Proof.
  unfold intake. destruct (ProvModel.read_events (prov_of w sd)) as [pv evs]. intros H.
  rewrite (process_events_wx _ _ _ _ H). unfold with_prov. destruct sd; reflexivity.
Qed.

Lemma st_op_prov w f w' sd : st_op w f = ROk w' -> prov_of w' sd = prov_of w sd.
Proof. unfold st_op. destruct (f _); [intros H; injection H as <-; apply prov_of_with_st|discriminate]. Qed.

Lemma process_event_prov w sd ev w' sd0 : process_event w sd ev = ROk w' -> prov_of w' sd0 = prov_of w sd0.
Proof.
  unfold process_event. destruct (oip_of (w_cfg w) sd || c_filt (w_cfg w))%bool; [discriminate|].
  match goal with |- (rbind ?A _) = _ -> _ => destruct A as [[]|c]; [|discriminate] end. cbn [rbind].
  match goal with |- (rbind ?A _) = _ -> _ => destruct A as [w1|c] eqn:E1; [|discriminate] end. cbn [rbind].
  intros H. injection H as <-. rewrite prov_of_commit. apply (st_op_prov _ _ _ _ E1).
Qed.

Lemma process_events_prov sd sd0 : forall l w w', process_events w sd l = ROk w' -> prov_of w' sd0 = prov_of w sd0.
Proof.
  induction l as [|ev r IH]; intros w w' H; simpl in H; [injection H as <-; reflexivity|].
  destruct (process_event w sd ev) as [w1|c] eqn:E1; [|discriminate]. cbn [rbind] in H.
  rewrite (IH _ _ H). apply (process_event_prov _ _ _ _ _ E1).
Qed.

Lemma intake_heap w sd w' : intake w sd = ROk w' -> forall sd0, ProvModel.p_heap (prov_of w' sd0) = ProvModel.p_heap (prov_of w sd0).
Proof.
  unfold intake. unfold ProvModel.read_events. intros H sd0.
  destruct (Nat.leb (ProvModel.p_cursor (prov_of w sd)) (length (ProvModel.p_log (prov_of w sd)))).
  - rewrite (process_events_prov _ sd0 _ _ _ H). unfold with_prov. destruct sd, sd0; reflexivity.
  - rewrite (process_events_prov _ sd0 _ _ _ H). unfold with_prov. destruct sd, sd0; reflexivity.
Qed.

(* one engine action *)
Theorem engine_step_pres g w a w' cs :
  Inv g w -> NoTmp w -> (forall sd o, a <> AUser sd o) -> algo_step w a = ROk (w', cs) -> Inv g w' /\ NoTmp w' /\ OwnFrame g w w'.
Proof.
  intros I T Ha H. destruct a as [sd o|sd clk|order clk]; [exfalso; apply (Ha sd o); reflexivity| |].
  - simpl in H. destruct (intake (at_clock w clk) sd) as [w1|c] eqn:Ei; [|discriminate]. cbn [rbind] in H. injection H as <- <-.
    split; [apply (intake_pres g _ sd w1 (Inv_at_clock g w clk I) Ei)|]. split.
    + intros x sd0. unfold getx. rewrite (intake_wx _ _ _ Ei). apply (T x sd0).
    + intros sd0 k cs0 _. unfold obj_at. rewrite (intake_heap _ _ _ Ei sd0). unfold at_clock. rewrite prov_of_with_st. reflexivity.
  - simpl in H. destruct (sync_step_pres g _ order w' cs (Inv_at_clock g w clk I)) with (2 := H) as (A & B & C); [intros x sd0; apply T|].
    split; [exact A|]. split; [exact B|]. intros sd k cs0 Hg. rewrite (C sd k cs0 Hg). unfold obj_at, at_clock. rewrite prov_of_with_st. reflexivity.
Qed.

(* ------------------------------------------------------------------ quiet stays quiet *)
(* in a quiescent world an engine action issues no provider call, changes neither provider's objects nor any entry,
   and leaves the world quiescent: nothing happens after quiet until a user acts (C03: no echo after quiet) *)
Theorem quiescent_stable g w a w' cs :
  Inv g w -> quiescent w = true -> (forall sd o, a <> AUser sd o) -> algo_step w a = ROk (w', cs) ->
  cs = [] /\ quiescent w' = true /\ ents (w_st w') = ents (w_st w) /\
  (forall sd, ProvModel.p_heap (prov_of w' sd) = ProvModel.p_heap (prov_of w sd)).
Proof.
  intros I Hq Ha H. unfold quiescent in Hq. apply andb_prop in Hq as [Hq Hcs]. apply andb_prop in Hq as [HqL HqR].
  assert (Hcs': cset (w_st w) = []) by (destruct (cset (w_st w)); [reflexivity|discriminate]).
  assert (Hev: forall sd, ProvModel.events_from (prov_of w sd) = []).
  { intros sd. unfold no_events in HqL, HqR. destruct sd; [destruct (ProvModel.events_from (prov_of w true)); [reflexivity|discriminate]
                                                       |destruct (ProvModel.events_from (prov_of w false)); [reflexivity|discriminate]]. }
  destruct a as [sd o|sd clk|order clk]; [exfalso; apply (Ha sd o); reflexivity| |].
  - simpl in H. unfold intake in H.
    assert (Hp: prov_of (at_clock w clk) sd = prov_of w sd) by (unfold at_clock; apply prov_of_with_st).
    rewrite Hp in H. rewrite (read_events_all _ (i_pwf _ _ _ I sd)), Hev in H. simpl in H. injection H as <- <-.
    split; [reflexivity|].
    set (w1 := with_prov (at_clock w clk) sd _).
    assert (Hheap: forall sd0, ProvModel.p_heap (prov_of w1 sd0) = ProvModel.p_heap (prov_of w sd0)).
    { intros sd0. unfold w1, with_prov, at_clock. destruct sd, sd0; reflexivity. }
    assert (Hevs: forall sd0, ProvModel.events_from (prov_of w1 sd0) = []).
    { intros sd0. destruct (Bool.bool_dec sd0 sd) as [->|Hne].
      - unfold w1, with_prov. destruct sd; simpl; apply events_from_read.
      - assert (Hx: prov_of w1 sd0 = prov_of w sd0) by (unfold w1, with_prov, at_clock; destruct sd, sd0; try reflexivity; contradiction).
        rewrite Hx. apply Hev. }
    split; [|split; [unfold w1, with_prov; destruct sd; reflexivity|exact Hheap]].
    unfold quiescent, no_events. rewrite (Hevs false), (Hevs true).
    assert (Hc: cset (w_st w1) = []) by (unfold w1, with_prov; destruct sd; exact Hcs'). rewrite Hc. reflexivity.
  - simpl in H. unfold sync_step in H.
    assert (Hc: cset (w_st (at_clock w clk)) = []) by exact Hcs'. rewrite Hc in H. injection H as <- <-.
    split; [reflexivity|]. split; [|split; [reflexivity|intros sd; unfold at_clock; rewrite prov_of_with_st; reflexivity]].
    unfold quiescent, no_events.
    assert (Hp: forall sd, prov_of (at_clock w clk) sd = prov_of w sd) by (intros; unfold at_clock; apply prov_of_with_st).
    rewrite !Hp, (Hev false), (Hev true), Hc. reflexivity.
Qed.
