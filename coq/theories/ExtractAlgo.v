From Coq Require Import ExtrOcamlBasic.
From CS Require Import Sx AlgoCheck.
Definition run := AlgoCheck.run.
Extraction "extract/algo/model.ml" run.
