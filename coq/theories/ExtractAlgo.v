From Coq Require Import ExtrOcamlBasic.
From CS Require Import Sx AlgoModel.
Definition run := AlgoModel.run.
Extraction "extract/algo/model.ml" run.
