(* PropAlgo.v — the algorithm layer of C01 / C03: theorems about AlgoModel.algo_step, the engine's own closed
   loop (EventManager.do -> SyncState.update; SyncState.change; SyncManager.pre_sync / sync / embrace_change /
   create_synced / upload_synced / delete_synced / finished / punt) over two ProvModel providers.
   Only statements closed by [exact], each followed by Print Assumptions; Examples = non-vacuity.

   Reading guide.  [Inv g w] (AlgoInv.v) is the coupling invariant of fragment F1 between the sync state, both
   providers and the not-yet-taken-in events of world [w]; the ghost [g] records which objects users made and the
   contents written to each.  [SCtx g w e en] = Inv + "entry e (>= 2, value en) has just been refreshed from both
   providers" — the situation inside SyncManager.sync after pre_sync.  What is here is COMPLETE; the assembly of the
   per-call theorems into one statement about [sync_step] (and from there algo_inv_reachable over whole runs) is
   not finished and therefore absent — see notes/ALGO_design.md for the exact state. *)
From Coq Require Import NArith List Bool.
From CS Require Import Sx Str PathModel StateModel StateProofs ProvModel AlgoModel AlgoCheck AlgoProofs AlgoState AlgoProv AlgoInv AlgoInit AlgoQuiet AlgoIntake
     AlgoSync AlgoLatest AlgoFinish AlgoSyncEntry.
Import ListNotations.
Local Open Scope N_scope.

(* ---- users are not the engine ----------------------------------------------------------------------------- *)
Theorem ALGO_user_step_is_not_an_engine_step : forall w sd o,
  exists w', algo_step w (AUser sd o) = ROk (w', []) /\ w_st w' = w_st w /\ prov_of w' (negb sd) = prov_of w (negb sd).
Proof. exact user_step_no_engine_call. Qed.
Print Assumptions ALGO_user_step_is_not_an_engine_step.

(* ---- the invariant: initial world --------------------------------------------------------------------------- *)
(* the world after the first engine round on two empty roots (compared with the real engine at the start of every
   run of the tie), for every clock reading *)
Theorem ALGO_inv_initial : forall t0 lg0, lg0 <= t0 + 1 -> Inv g0 (world_init (cfg_std 1) t0 lg0).
Proof. exact init_inv. Qed.
Print Assumptions ALGO_inv_initial.

(* ---- the invariant: engine steps proved so far -------------------------------------------------------------- *)
(* EventManager.do on one side: ALL pending events of that side, in order *)
Theorem ALGO_inv_intake : forall g w sd w', Inv g w -> intake w sd = ROk w' -> Inv g w'.
Proof. exact intake_pres. Qed.
Print Assumptions ALGO_inv_intake.

(* SyncEntry.get_latest (any sides, forced or not): the invariant, both providers and every other entry's
   bookkeeping are kept; the clock never goes back *)
Theorem ALGO_inv_get_latest : forall evl g w e force sides w',
  InvP evl g w -> (2 <= e)%nat -> get_latest w e force sides = ROk w' ->
  InvP evl g w' /\ (forall sd0, prov_of w' sd0 = prov_of w sd0) /\
  (forall x sd0, x <> e -> getx w' x sd0 = getx w x sd0) /\ now (w_st w) <= now (w_st w').
Proof. exact get_latest_pres. Qed.
Print Assumptions ALGO_inv_get_latest.

(* pre_sync's refresh of a live entry: afterwards each side is current unless an event for its object is pending *)
Theorem ALGO_inv_refresh_both : forall evl g w e w',
  InvP evl g w -> (2 <= e)%nat ->
  (forall en, nth_error (ents (w_st w)) e = Some en -> is_discarded (e_ign en) = false) ->
  get_latest w e false [false; true] = ROk w' ->
  InvP evl g w' /\ ReadyS evl w' e false /\ ReadyS evl w' e true /\ (forall sd0, prov_of w' sd0 = prov_of w sd0) /\
  (forall x sd0, x <> e -> getx w' x sd0 = getx w x sd0).
Proof. exact get_latest_both. Qed.
Print Assumptions ALGO_inv_refresh_both.

(* sync(): "marked changed but does not need sync" *)
Theorem ALGO_inv_clear_changed : forall g w e en side w1,
  SCtx g w e en -> needs_sync (cfg_std 1) side (gs en side) = false -> tchg (s_chg (gs en side)) = true ->
  AlgoModel.set_changed w e side (CNum 0) = ROk w1 ->
  SCtx g w1 e (clr en side).
Proof. exact clear_changed_pres. Qed.
Print Assumptions ALGO_inv_clear_changed.

(* SyncManager.finished(side, sync).  The side condition is what the callers establish: if the side's object was
   made by a user, is current and has no pending event, then the entry is paired, the object is alive and
   hash = sync_hash.  A discarded entry needs no refresh. *)
Theorem ALGO_inv_finished : forall g w e en side w',
  Inv g w -> (2 <= e)%nat -> nth_error (ents (w_st w)) e = Some en ->
  (is_discarded (e_ign en) = false -> ReadyAll (real_evl w) w e en) ->
  (forall k ob cs, s_oid (gs en side) = Some (ostr_k k) -> obj_at w side k = Some ob -> pd (real_evl w) side k = false ->
     freshP (gs en side) ob -> is_discarded (e_ign en) = false -> g_get k (g_of g side) = Some cs ->
     s_oid (gs en (negb side)) <> None /\ ProvModel.o_exists ob = true /\ s_hash (gs en side) = s_shash (gs en side)) ->
  AlgoModel.finished w e side = ROk w' ->
  Inv g w' /\ (forall x sd0, x <> e -> getx w' x sd0 = getx w x sd0) /\ (forall sd0, x_tfile (getx w' e sd0) = None) /\
  (forall sd0, prov_of w' sd0 = prov_of w sd0) /\
  exists en', nth_error (ents (w_st w')) e = Some en' /\ same_but_prio (clr en side) en'.
Proof. exact finished_pres0. Qed.
Print Assumptions ALGO_inv_finished.

(* SyncEntry.punt() *)
Theorem ALGO_inv_punt : forall g w e en w',
  SCtx g w e en -> maxchg en <= now (w_st w) -> punt w e = ROk w' ->
  Inv g w' /\ (forall x sd0, getx w' x sd0 = getx w x sd0).
Proof. exact punt_pres. Qed.
Print Assumptions ALGO_inv_punt.

(* download_changed on a file that was deleted meanwhile: exists := MISSING *)
Theorem ALGO_inv_download_missing : forall g w e en s k ob p w2,
  SCtx g w e en -> s_oid (gs en s) = Some (ostr_k k) -> obj_at w s k = Some ob -> ProvModel.o_exists ob = false ->
  x_tfile (getx w e s) = None ->
  weff (tname_world w e s en p) w2 e (ss en s (w_ex (gs en s) ExMissing)) None ->
  SCtx g w2 e (ss en s (w_ex (gs en s) ExMissing)) /\
  maxchg (ss en s (w_ex (gs en s) ExMissing)) = maxchg en /\ now (w_st w) <= now (w_st w2) /\
  (forall x sd0, x <> e -> getx w2 x sd0 = getx w x sd0) /\ x_tfile (getx w2 e s) = None /\
  getx w2 e (negb s) = getx w e (negb s).
Proof. exact missing_pres. Qed.
Print Assumptions ALGO_inv_download_missing.

(* _create_synced + create_synced after a successful download: the call succeeds, answers FINISHED, keeps the
   invariant, pairs the entry and leaves hash = sync_hash on the changed side; origin provider untouched *)
Theorem ALGO_inv_create_synced : forall g w e en s k ob cs n w3 calls rs,
  SCtx g w e en -> e_ign en = INone ->
  s_oid (gs en s) = Some (ostr_k k) -> obj_at w s k = Some ob -> ProvModel.o_exists ob = true ->
  g_get k (g_of g s) = Some cs ->
  s_oid (gs en (negb s)) = None ->
  ProvModel.o_path ob = [root_name s; n] -> name_ok n = true ->
  s_path (gs en s) = Some (pstr [root_name s; n]) -> tchg (s_chg (gs en s)) = true ->
  x_tfile (getx w e s) = None ->
  create_synced (setx (tname_world w e s en (pstr [root_name s; n])) e s (set_tfile (ProvModel.o_data ob))) e s
                (pstr [root_name (negb s); n]) = ROk (w3, calls, rs) ->
  rs = Finished /\ exists en3, SCtx g w3 e en3 /\
    s_oid (gs en3 s) = Some (ostr_k k) /\ s_oid (gs en3 (negb s)) <> None /\ s_hash (gs en3 s) = s_shash (gs en3 s) /\
    e_ign en3 = INone /\ prov_of w3 s = prov_of w s /\
    (forall x sd0, x <> e -> getx w3 x sd0 = getx w x sd0) /\ (forall sd0, x_lg (getx w3 e sd0) = x_lg (getx w e sd0)).
Proof. exact create_pres. Qed.
Print Assumptions ALGO_inv_create_synced.

(* upload_synced after a successful download *)
Theorem ALGO_inv_upload_synced : forall g w e en s k ob cs k' ob' n w3 calls up,
  SCtx g w e en -> e_ign en = INone ->
  s_oid (gs en s) = Some (ostr_k k) -> obj_at w s k = Some ob -> ProvModel.o_exists ob = true ->
  g_get k (g_of g s) = Some cs ->
  s_oid (gs en (negb s)) = Some (ostr_k k') -> obj_at w (negb s) k' = Some ob' ->
  ProvModel.o_path ob = [root_name s; n] ->
  s_path (gs en s) = Some (pstr [root_name s; n]) -> tchg (s_chg (gs en s)) = true ->
  x_tfile (getx w e s) = None ->
  upload_synced (setx (tname_world w e s en (pstr [root_name s; n])) e s (set_tfile (ProvModel.o_data ob))) e s = ROk (w3, calls, up) ->
  up = true /\ exists en3, SCtx g w3 e en3 /\
    s_oid (gs en3 s) = Some (ostr_k k) /\ s_oid (gs en3 (negb s)) <> None /\ s_hash (gs en3 s) = s_shash (gs en3 s) /\
    e_ign en3 = INone /\ prov_of w3 s = prov_of w s /\
    (forall x sd0, x <> e -> getx w3 x sd0 = getx w x sd0) /\ (forall sd0, x_lg (getx w3 e sd0) = x_lg (getx w e sd0)).
Proof. exact upload_pres. Qed.
Print Assumptions ALGO_inv_upload_synced.

(* delete_synced: the mirror is deleted (if there is one) and the entry discarded *)
Theorem ALGO_inv_delete_synced : forall g w e en s k w3 calls rs,
  SCtx g w e en -> e_ign en = INone -> s_ex (gs en s) = ExTrashed -> s_oid (gs en s) = Some (ostr_k k) ->
  delete_synced w e s = ROk (w3, calls, rs) ->
  rs = Finished /\ exists en3, SCtx g w3 e en3 /\ is_discarded (e_ign en3) = true /\
    (forall x sd0, getx w3 x sd0 = getx w x sd0).
Proof. exact delete_pres. Qed.
Print Assumptions ALGO_inv_delete_synced.

(* ---- quiescent => both sides equal, from the invariant ------------------------------------------------------ *)
(* no pending event on either side and an empty change set: the two root-relative trees are equal as sets *)
Theorem ALGO_quiescent_equal_under_inv : forall g w, Inv g w -> quiescent w = true ->
  forall rel kd d, In (rel, (kd, d)) (rel_view w false) <-> In (rel, (kd, d)) (rel_view w true).
Proof. exact inv_quiescent_equal. Qed.
Print Assumptions ALGO_quiescent_equal_under_inv.

(* ---- the full-strength statement is false: finding A-1 ------------------------------------------------------ *)
(* dropping "a content written to a file is new for that file" from the domain: a one-sided history of 4
   operations on which the faithful model (and the real engine, step for step) ends quiescent and unequal *)
Theorem ALGO_quiescent_equal_full_refuted :
  exists w, algo_run (world_init (cfg_std 1) aba_t0 aba_lg0) aba_actions = ROk w /\
            quiescent w = true /\ views_equal w = false /\
            In ([[102]], (ProvModel.KFile, 2)) (rel_view w false) /\ In ([[102]], (ProvModel.KFile, 3)) (rel_view w true) /\
            history_of aba_actions = [(false, UCreate [[103]] 1); (false, UCreate [[102]] 2); (false, UWrite [[102]] 3); (false, UWrite [[102]] 2)] /\
            one_sided false (history_of aba_actions) = true /\
            in_F (cfg_std 1) (history_of aba_actions) = false /\
            in_F (cfg_std 1) [(false, UCreate [[103]] 1); (false, UCreate [[102]] 2); (false, UWrite [[102]] 3); (false, UWrite [[102]] 4)] = true.
Proof. exact aba_diverges. Qed.
Print Assumptions ALGO_quiescent_equal_full_refuted.

(* ---- non-vacuity -------------------------------------------------------------------------------------------- *)
(* the invariant is satisfiable, and so is the hypothesis pair of ALGO_quiescent_equal_under_inv *)
Example ALGO_ex_inv_and_quiescent :
  Inv g0 (world_init (cfg_std 1) 1016000 1013000) /\ quiescent (world_init (cfg_std 1) 1016000 1013000) = true.
Proof. split; [apply init_inv; discriminate|reflexivity]. Qed.
(* the domain of F1 is inhabited by histories that make the engine work *)
Example ALGO_ex_domain : in_F1 (cfg_std 1) [(false, UCreate [[102]] 2); (true, UCreate [[103]] 1); (false, UWrite [[102]] 3); (false, UDelete [[102]])] = true.
Proof. reflexivity. Qed.
