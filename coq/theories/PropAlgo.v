(* PropAlgo.v — the algorithm layer of C01 / C03: theorems about AlgoModel.algo_step, the engine's own closed
   loop (EventManager.do -> SyncState.update; SyncState.change; SyncManager.pre_sync / sync / embrace_change /
   create_synced / upload_synced / delete_synced / finished / punt) over two ProvModel providers.
   Only statements closed by [exact], each followed by Print Assumptions; Examples = non-vacuity.

   Reading guide.  [Inv g w] (AlgoInv.v) is the coupling invariant of fragment F1 between the sync state, both
   providers and the not-yet-taken-in events of world [w]; the ghost [g] records which objects users made and the
   contents written to each.  [SCtx g w e en] = Inv + "entry e (>= 2, value en) has just been refreshed from both
   providers" — the situation inside SyncManager.sync after pre_sync.  What is here is COMPLETE; statements still open are
   absent (not admitted) — see notes/ALGO_design.md for the exact state. *)
From Coq Require Import NArith List Bool.
From CS Require Import Sx Str PathModel StateModel StateProofs ProvModel AlgoModel AlgoCheck AlgoProofs AlgoState AlgoProv AlgoInv AlgoInit AlgoQuiet AlgoIntake
     AlgoSync AlgoLatest AlgoFinish AlgoSyncEntry AlgoStep AlgoUser AlgoCalls AlgoRun AlgoTotal AlgoSpec AlgoProgress.
Import ListNotations.
Local Open Scope N_scope.

(* ---- users are not the engine ----------------------------------------------------------------------------- *)
Theorem ALGO_user_step_is_not_an_engine_step : forall w sd o,
  exists w', algo_step w (AUser sd o) = ROk (w', []) /\ w_st w' = w_st w /\ prov_of w' (negb sd) = prov_of w (negb sd).
Proof. exact user_step_no_engine_call. Qed.
Print Assumptions ALGO_user_step_is_not_an_engine_step.

(* ---- the invariant: initial world --------------------------------------------------------------------------- *)
(* the world after the first engine round on two empty roots (compared with the real engine at the start of every
   run of the tie), for every clock reading *)
Theorem ALGO_inv_initial : forall t0 lg0, lg0 <= t0 + 1 -> Inv g0 (world_init (cfg_std 1) t0 lg0).
Proof. exact init_inv. Qed.
Print Assumptions ALGO_inv_initial.

(* ---- the invariant: engine steps proved so far -------------------------------------------------------------- *)
(* EventManager.do on one side: ALL pending events of that side, in order *)
Theorem ALGO_inv_intake : forall g w sd w', Inv g w -> intake w sd = ROk w' -> Inv g w'.
Proof. exact intake_pres. Qed.
Print Assumptions ALGO_inv_intake.

(* SyncEntry.get_latest (any sides, forced or not): the invariant, both providers and every other entry's
   bookkeeping are kept; the clock never goes back *)
Theorem ALGO_inv_get_latest : forall evl g w e force sides w',
  InvP evl g w -> (2 <= e)%nat -> get_latest w e force sides = ROk w' ->
  InvP evl g w' /\ (forall sd0, prov_of w' sd0 = prov_of w sd0) /\
  (forall x sd0, x <> e -> getx w' x sd0 = getx w x sd0) /\ now (w_st w) <= now (w_st w') /\
  (forall sd0, x_tfile (getx w' e sd0) = x_tfile (getx w e sd0)) /\ length (ents (w_st w')) = length (ents (w_st w)) /\
  (forall x, set_mem x (cset (w_st w)) = true -> set_mem x (cset (w_st w')) = true).
Proof. exact get_latest_pres. Qed.
Print Assumptions ALGO_inv_get_latest.

(* pre_sync's refresh of a live entry: afterwards each side is current unless an event for its object is pending *)
Theorem ALGO_inv_refresh_both : forall evl g w e w',
  InvP evl g w -> (2 <= e)%nat ->
  (forall en, nth_error (ents (w_st w)) e = Some en -> is_discarded (e_ign en) = false) ->
  get_latest w e false [false; true] = ROk w' ->
  InvP evl g w' /\ ReadyS evl w' e false /\ ReadyS evl w' e true /\ (forall sd0, prov_of w' sd0 = prov_of w sd0) /\
  (forall x sd0, x <> e -> getx w' x sd0 = getx w x sd0) /\
  (exists en en', nth_error (ents (w_st w)) e = Some en /\ nth_error (ents (w_st w')) e = Some en' /\ e_ign en' = e_ign en /\
                  maxchg en' <= N.max (maxchg en) (now (w_st w'))) /\
  now (w_st w) <= now (w_st w') /\
  (forall en' sd, nth_error (ents (w_st w')) e = Some en' -> s_oid (gs en' sd) <> None -> ShapeS (gs en' sd)).
Proof. exact get_latest_both. Qed.
Print Assumptions ALGO_inv_refresh_both.

(* sync(): "marked changed but does not need sync" *)
Theorem ALGO_inv_clear_changed : forall g w e en side w1,
  SCtx g w e en -> needs_sync (cfg_std 1) side (gs en side) = false -> tchg (s_chg (gs en side)) = true ->
  AlgoModel.set_changed w e side (CNum 0) = ROk w1 ->
  SCtx g w1 e (clr en side).
Proof. exact clear_changed_pres. Qed.
Print Assumptions ALGO_inv_clear_changed.

(* SyncManager.finished(side, sync).  The side condition is what the callers establish: if the side's object was
   made by a user, is current and has no pending event, then the entry is paired, the object is alive and
   hash = sync_hash.  A discarded entry needs no refresh. *)
Theorem ALGO_inv_finished : forall g w e en side w',
  Inv g w -> (2 <= e)%nat -> nth_error (ents (w_st w)) e = Some en ->
  (is_discarded (e_ign en) = false -> ReadyAll (real_evl w) w e en) ->
  (is_discarded (e_ign en) = false -> forall sd0, s_oid (gs en sd0) <> None -> ShapeS (gs en sd0)) ->
  (forall k ob cs, s_oid (gs en side) = Some (ostr_k k) -> obj_at w side k = Some ob -> pd (real_evl w) side k = false ->
     freshP (gs en side) ob -> is_discarded (e_ign en) = false -> g_get k (g_of g side) = Some cs ->
     s_oid (gs en (negb side)) <> None /\ ProvModel.o_exists ob = true /\ s_hash (gs en side) = s_shash (gs en side)) ->
  AlgoModel.finished w e side = ROk w' ->
  Inv g w' /\ (forall x sd0, x <> e -> getx w' x sd0 = getx w x sd0) /\ (forall sd0, x_tfile (getx w' e sd0) = None) /\
  (forall sd0, prov_of w' sd0 = prov_of w sd0) /\
  exists en', nth_error (ents (w_st w')) e = Some en' /\ same_but_prio (clr en side) en'.
Proof. exact finished_pres0. Qed.
Print Assumptions ALGO_inv_finished.

(* SyncEntry.punt() *)
Theorem ALGO_inv_punt : forall g w e en w',
  SCtx g w e en -> maxchg en <= now (w_st w) -> punt w e = ROk w' ->
  Inv g w' /\ (forall x sd0, getx w' x sd0 = getx w x sd0).
Proof. exact punt_pres. Qed.
Print Assumptions ALGO_inv_punt.

(* download_changed on a file that was deleted meanwhile: exists := MISSING *)
Theorem ALGO_inv_download_missing : forall g w e en s k ob p w2,
  SCtx g w e en -> s_oid (gs en s) = Some (ostr_k k) -> obj_at w s k = Some ob -> ProvModel.o_exists ob = false ->
  x_tfile (getx w e s) = None ->
  weff (tname_world w e s en p) w2 e (ss en s (w_ex (gs en s) ExMissing)) None ->
  SCtx g w2 e (ss en s (w_ex (gs en s) ExMissing)) /\
  maxchg (ss en s (w_ex (gs en s) ExMissing)) = maxchg en /\ now (w_st w) <= now (w_st w2) /\
  (forall x sd0, x <> e -> getx w2 x sd0 = getx w x sd0) /\ x_tfile (getx w2 e s) = None /\
  getx w2 e (negb s) = getx w e (negb s).
Proof. exact missing_pres. Qed.
Print Assumptions ALGO_inv_download_missing.

(* _create_synced + create_synced after a successful download: the call succeeds, answers FINISHED, keeps the
   invariant, pairs the entry and leaves hash = sync_hash on the changed side; origin provider untouched *)
Theorem ALGO_inv_create_synced : forall g w e en s k ob cs n w3 calls rs,
  SCtx g w e en -> e_ign en = INone ->
  s_oid (gs en s) = Some (ostr_k k) -> obj_at w s k = Some ob -> ProvModel.o_exists ob = true ->
  g_get k (g_of g s) = Some cs ->
  s_oid (gs en (negb s)) = None ->
  ProvModel.o_path ob = [root_name s; n] -> name_ok n = true ->
  s_path (gs en s) = Some (pstr [root_name s; n]) -> tchg (s_chg (gs en s)) = true ->
  x_tfile (getx w e s) = None ->
  create_synced (setx (tname_world w e s en (pstr [root_name s; n])) e s (set_tfile (ProvModel.o_data ob))) e s
                (pstr [root_name (negb s); n]) = ROk (w3, calls, rs) ->
  rs = Finished /\ exists en3, SCtx g w3 e en3 /\
    s_oid (gs en3 s) = Some (ostr_k k) /\ s_oid (gs en3 (negb s)) <> None /\ s_hash (gs en3 s) = s_shash (gs en3 s) /\
    e_ign en3 = INone /\ prov_of w3 s = prov_of w s /\
    (forall x sd0, x <> e -> getx w3 x sd0 = getx w x sd0) /\ (forall sd0, x_lg (getx w3 e sd0) = x_lg (getx w e sd0)) /\
    (forall sd0 k0 cs0, g_get k0 (g_of g sd0) = Some cs0 -> obj_at w3 sd0 k0 = obj_at w sd0 k0).
Proof. exact create_pres. Qed.
Print Assumptions ALGO_inv_create_synced.

(* upload_synced after a successful download *)
Theorem ALGO_inv_upload_synced : forall g w e en s k ob cs k' ob' n w3 calls up,
  SCtx g w e en -> e_ign en = INone ->
  s_oid (gs en s) = Some (ostr_k k) -> obj_at w s k = Some ob -> ProvModel.o_exists ob = true ->
  g_get k (g_of g s) = Some cs ->
  s_oid (gs en (negb s)) = Some (ostr_k k') -> obj_at w (negb s) k' = Some ob' ->
  ProvModel.o_path ob = [root_name s; n] ->
  s_path (gs en s) = Some (pstr [root_name s; n]) -> tchg (s_chg (gs en s)) = true ->
  x_tfile (getx w e s) = None ->
  upload_synced (setx (tname_world w e s en (pstr [root_name s; n])) e s (set_tfile (ProvModel.o_data ob))) e s = ROk (w3, calls, up) ->
  up = true /\ exists en3, SCtx g w3 e en3 /\
    s_oid (gs en3 s) = Some (ostr_k k) /\ s_oid (gs en3 (negb s)) <> None /\ s_hash (gs en3 s) = s_shash (gs en3 s) /\
    e_ign en3 = INone /\ prov_of w3 s = prov_of w s /\
    (forall x sd0, x <> e -> getx w3 x sd0 = getx w x sd0) /\ (forall sd0, x_lg (getx w3 e sd0) = x_lg (getx w e sd0)) /\
    (forall sd0 k0 cs0, g_get k0 (g_of g sd0) = Some cs0 -> obj_at w3 sd0 k0 = obj_at w sd0 k0).
Proof. exact upload_pres. Qed.
Print Assumptions ALGO_inv_upload_synced.

(* delete_synced: the mirror is deleted (if there is one) and the entry discarded *)
Theorem ALGO_inv_delete_synced : forall g w e en s k w3 calls rs,
  SCtx g w e en -> e_ign en = INone -> s_ex (gs en s) = ExTrashed -> s_oid (gs en s) = Some (ostr_k k) ->
  delete_synced w e s = ROk (w3, calls, rs) ->
  rs = Finished /\ exists en3, SCtx g w3 e en3 /\ is_discarded (e_ign en3) = true /\
    (forall x sd0, getx w3 x sd0 = getx w x sd0) /\
    (forall sd0 k0 cs0, g_get k0 (g_of g sd0) = Some cs0 -> obj_at w3 sd0 k0 = obj_at w sd0 k0).
Proof. exact delete_pres. Qed.
Print Assumptions ALGO_inv_delete_synced.

(* ---- the invariant: one whole engine step --------------------------------------------------------------------- *)
(* SyncManager.do = SyncState.change (path-filling loop, tick, pick) + pre_sync + sync + storage_commit, for EVERY
   iteration order of the change set and every world satisfying the invariant; no temp file outlives the step;
   [OwnFrame g w w']: every object a user made is, cell for cell, what it was (the engine only makes, writes and
   deletes its own mirrors) *)
Theorem ALGO_inv_sync_step : forall g w order w' cs,
  Inv g w -> NoTmp w -> sync_step w order = ROk (w', cs) -> Inv g w' /\ NoTmp w' /\ OwnFrame g w w'.
Proof. exact sync_step_pres. Qed.
Print Assumptions ALGO_inv_sync_step.

(* every engine action (event intake of a side, or a sync step), at every clock reading *)
Theorem ALGO_inv_engine_step : forall g w a w' cs,
  Inv g w -> NoTmp w -> (forall sd o, a <> AUser sd o) -> algo_step w a = ROk (w', cs) -> Inv g w' /\ NoTmp w' /\ OwnFrame g w w'.
Proof. exact engine_step_pres. Qed.
Print Assumptions ALGO_inv_engine_step.

(* ---- quiescent => both sides equal, from the invariant ------------------------------------------------------ *)
(* no pending event on either side and an empty change set: the two root-relative trees are equal as sets *)
Theorem ALGO_quiescent_equal_under_inv : forall g w, Inv g w -> quiescent w = true ->
  forall rel kd d, In (rel, (kd, d)) (rel_view w false) <-> In (rel, (kd, d)) (rel_view w true).
Proof. exact inv_quiescent_equal. Qed.
Print Assumptions ALGO_quiescent_equal_under_inv.

(* ---- user operations of the domain -------------------------------------------------------------------------- *)
(* [Dom used lvL lvR g w] links the bookkeeping of the domain predicate in_F1 (names used so far; per side the files
   its user made and still has, with the contents written) to the world.  Each user operation the domain allows
   succeeds on the provider, keeps the invariant (the ghost grows) and the link. *)
Theorem ALGO_inv_user_create : forall used lvL lvR g w sd n d,
  Inv g w -> NoTmp w -> Dom used lvL lvR g w -> name_ok n = true -> name_mem n used = false ->
  exists g', Inv g' (user_op w sd (UCreate [n] d)) /\ NoTmp (user_op w sd (UCreate [n] d)) /\
     (forall k, g_get k (g_of g' (negb sd)) = g_get k (g_of g (negb sd))) /\
     Dom (n :: used) (if sd then lvL else ([n], [d]) :: lvL) (if sd then ([n], [d]) :: lvR else lvR) g' (user_op w sd (UCreate [n] d)).
Proof. exact user_create_pres. Qed.
Print Assumptions ALGO_inv_user_create.

Theorem ALGO_inv_user_write : forall used lvL lvR g w (sd : bool) rel d cs,
  Inv g w -> NoTmp w -> Dom used lvL lvR g w ->
  live_get rel (if sd then lvR else lvL) = Some cs -> n_mem d cs = false ->
  exists g', Inv g' (user_op w sd (UWrite rel d)) /\ NoTmp (user_op w sd (UWrite rel d)) /\
    (forall k, g_get k (g_of g' (negb sd)) = g_get k (g_of g (negb sd))) /\
    Dom used (if sd then lvL else (rel, d :: cs) :: live_del rel lvL) (if sd then (rel, d :: cs) :: live_del rel lvR else lvR)
        g' (user_op w sd (UWrite rel d)).
Proof. exact user_write_pres. Qed.
Print Assumptions ALGO_inv_user_write.

Theorem ALGO_inv_user_delete : forall used lvL lvR g w (sd : bool) rel cs,
  Inv g w -> NoTmp w -> Dom used lvL lvR g w ->
  live_get rel (if sd then lvR else lvL) = Some cs ->
  exists g', Inv g' (user_op w sd (UDelete rel)) /\ NoTmp (user_op w sd (UDelete rel)) /\
    (forall k, g_get k (g_of g' (negb sd)) = g_get k (g_of g (negb sd))) /\
    Dom used (if sd then lvL else live_del rel lvL) (if sd then live_del rel lvR else lvR) g' (user_op w sd (UDelete rel)).
Proof. exact user_delete_pres. Qed.
Print Assumptions ALGO_inv_user_delete.

(* ---- whole runs: ALL in-domain histories, ALL schedules ------------------------------------------------------- *)
(* [acts] = any interleaving of user operations, per-side intake steps and sync steps, each engine step with any
   clock reading and any iteration order of the change set; [history_of acts] = its user operations, in F1's domain.
   Every world such a run reaches (i.e. the model answers ROk all the way) satisfies the coupling invariant. *)
Theorem ALGO_inv_reachable : forall t0 lg0 acts w,
  lg0 <= t0 + 1 -> in_F1 (cfg_std 1) (history_of acts) = true ->
  algo_run (world_init (cfg_std 1) t0 lg0) acts = ROk w -> exists g, Inv g w /\ NoTmp w.
Proof. exact algo_inv_reachable. Qed.
Print Assumptions ALGO_inv_reachable.

(* two-way convergence, safety half (C01) and one-sided mirror (C03, as the special case of a one-sided history):
   whenever such a run is quiescent - no pending event on either side, empty change set - the two root-relative
   trees are equal *)
Theorem ALGO_quiescent_equal : forall t0 lg0 acts w,
  lg0 <= t0 + 1 -> in_F1 (cfg_std 1) (history_of acts) = true ->
  algo_run (world_init (cfg_std 1) t0 lg0) acts = ROk w -> quiescent w = true ->
  forall rel kd d, In (rel, (kd, d)) (rel_view w false) <-> In (rel, (kd, d)) (rel_view w true).
Proof. exact algo_quiescent_equal. Qed.
Print Assumptions ALGO_quiescent_equal.

(* ---- the quiescent trees are the specification (C01 / C02 / C03 at quiet) ---------------------------------------- *)
(* [spec_L h] / [spec_R h]: the files the LOCAL / REMOTE user made and still has after history h, each with the contents
   written to it, latest first - a function of the history alone ([dom_after], the bookkeeping of the domain predicate).
   [in_lv lv rel d]: lv lists file rel with d as its latest content.  For every in-domain history and every schedule:
   a quiescent world holds on BOTH sides exactly these files with exactly these contents - nothing lost, nothing invented,
   nothing else (no conflict copies, no folders). *)
Theorem ALGO_quiescent_spec : forall t0 lg0 acts w,
  lg0 <= t0 + 1 -> in_F1 (cfg_std 1) (history_of acts) = true ->
  algo_run (world_init (cfg_std 1) t0 lg0) acts = ROk w -> quiescent w = true ->
  forall sd rel kd d, In (rel, (kd, d)) (rel_view w sd) <->
                      (kd = ProvModel.KFile /\ (in_lv (spec_L (history_of acts)) rel d \/ in_lv (spec_R (history_of acts)) rel d)).
Proof. exact algo_quiescent_spec. Qed.
Print Assumptions ALGO_quiescent_spec.

(* C02 at every moment, not only at quiet: whatever the engine is doing, a file a user made and still has is live on
   that user's own side with the content the user wrote last *)
Theorem ALGO_own_files_kept : forall t0 lg0 acts w,
  lg0 <= t0 + 1 -> in_F1 (cfg_std 1) (history_of acts) = true ->
  algo_run (world_init (cfg_std 1) t0 lg0) acts = ROk w ->
  forall rel d, (in_lv (spec_L (history_of acts)) rel d -> In (rel, (ProvModel.KFile, d)) (rel_view w false)) /\
                (in_lv (spec_R (history_of acts)) rel d -> In (rel, (ProvModel.KFile, d)) (rel_view w true)).
Proof. exact algo_own_files_kept. Qed.
Print Assumptions ALGO_own_files_kept.

(* the same from any world satisfying the invariant and linked to the bookkeeping *)
Theorem ALGO_quiescent_is_spec : forall used lvL lvR g w,
  Inv g w -> Dom used lvL lvR g w -> quiescent w = true ->
  forall sd rel kd d, In (rel, (kd, d)) (rel_view w sd) <-> (kd = ProvModel.KFile /\ (in_lv lvL rel d \/ in_lv lvR rel d)).
Proof. exact quiescent_is_spec. Qed.
Print Assumptions ALGO_quiescent_is_spec.

(* ---- towards a step bound: no idle steps ---------------------------------------------------------------------- *)
(* In every reachable world the change set is EXACTLY the set of entries that carry a change flag and an id (the
   invariant now records exactness, not only completeness; StateModel's clause (iv) at full strength is refuted in
   general - C11 - but holds on this fragment). *)
Theorem ALGO_change_set_exact : forall t0 lg0 acts w e en,
  lg0 <= t0 + 1 -> in_F1 (cfg_std 1) (history_of acts) = true ->
  algo_run (world_init (cfg_std 1) t0 lg0) acts = ROk w -> nth_error (ents (w_st w)) e = Some en ->
  (set_mem e (cset (w_st w)) = true <-> flagged en = true).
Proof. exact algo_change_set_exact. Qed.
Print Assumptions ALGO_change_set_exact.

(* SyncManager.do is never idle while work is pending: with a non-empty change set, after the path-filling loop and the
   clock tick of the step, the selection of SyncState.change (ageing 0) returns an entry - for every iteration order.
   (With ALGO_quiescent_stable: an engine step does nothing iff there is nothing to do.)  The bound itself - a measure
   that a fair round decreases - is NOT proved; see notes/ALGO_design.md section 7. *)
Theorem ALGO_selection_not_idle : forall g w order w1,
  Inv g w -> cset (w_st w) <> [] ->
  fill_paths w (norm_order order (cset (w_st w))) = ROk w1 ->
  pick (w_st (fst (tick w1))) (norm_order order (cset (w_st w))) (now (w_st w1) + 1000) <> None.
Proof. exact selection_not_idle. Qed.
Print Assumptions ALGO_selection_not_idle.

(* ---- where the model can answer OutOfFragment ---------------------------------------------------------------- *)
(* The theorems above are about runs on which the model answers ROk.  The model has 28 OutOfFragment codes plus the
   error results of the SyncState operations (assertion failures, KeyError ...).  On in-domain runs under ANY schedule
   all but FOUR are proved unreachable: an in-domain run either goes through or stops with a code of
   [G_SYNC] = X_LEVEL + 3 (_get_parent_conflict found a conflict), X_MISSING (handle_changed_is_missing), X_PEERS
   (check_disjoint_create found another entry on the translated path), X_DELETE_OTHER (delete_synced found another entry
   on the path).  That these four never fire on in-domain runs is measured by the tie (0 answers on ~90 000 runs), not
   proved: three of them depend on lookup_path, whose result lists are only characterised up to key-uniqueness of the
   (path, id) index, which StateModel's index invariant does not state; X_MISSING needs finer clock clauses.  Proved
   unreachable in particular: every SyncState assertion / KeyError / RecursionError, every refusal of a provider call
   the engine issues - create (the translated path is free: user-made objects have pairwise different names, [Uniq]),
   upload, delete, download -, translate() = None and handle_hash_diff with the other side gone (a side refreshed since
   its entry last changed shows an existing object with its path or a gone one: clause [i_seen] of the invariant),
   hash_conflict, path_conflict, the split guard of bbf04b7/0292e7f, CONFLICT and IRRELEVANT entries, events for the
   sync root. *)
Theorem ALGO_out_of_fragment_guards : forall t0 lg0 acts c,
  lg0 <= t0 + 1 -> in_F1 (cfg_std 1) (history_of acts) = true ->
  algo_run (world_init (cfg_std 1) t0 lg0) acts = OutOfFragment c -> In c G_SYNC.
Proof. exact algo_out_of_fragment_guards. Qed.
Print Assumptions ALGO_out_of_fragment_guards.

(* one engine step, from any world satisfying the invariant in which user-made objects have different names *)
Theorem ALGO_engine_step_guards : forall g w a c,
  Inv g w -> NoTmp w -> Uniq g w -> algo_step w a = OutOfFragment c -> In c G_SYNC.
Proof. exact engine_step_guards. Qed.
Print Assumptions ALGO_engine_step_guards.

(* event intake always answers, whatever is pending *)
Theorem ALGO_intake_total : forall g w sd, Inv g w -> exists w', intake w sd = ROk w'.
Proof. exact intake_total. Qed.
Print Assumptions ALGO_intake_total.

(* pre_sync always answers (get_latest of both sides, or the finishing of a discarded entry) *)
Theorem ALGO_pre_sync_total : forall g w e en, Inv g w -> (2 <= e)%nat -> nth_error (ents (w_st w)) e = Some en ->
  exists r, pre_sync w e = ROk r.
Proof. exact pre_sync_total. Qed.
Print Assumptions ALGO_pre_sync_total.

(* a sync step can only stop inside SyncManager.sync on the picked, refreshed entry: SyncState.change with the provider
   calls of its path-filling loop, the pick and pre_sync always answer *)
Theorem ALGO_sync_step_total_up_to_sync : forall g w order c,
  Inv g w -> NoTmp w -> sync_step w order = OutOfFragment c ->
  exists w3 e en3, SCtx g w3 e en3 /\ e_ign en3 = INone /\ notmp w3 e /\ maxchg en3 <= now (w_st w3) /\
                   sync_entry w3 e = OutOfFragment c /\ OwnFrame g w w3.
Proof. exact sync_step_total_up_to_sync. Qed.
Print Assumptions ALGO_sync_step_total_up_to_sync.

(* the three guards at the top of SyncManager.sync never fire on F1 *)
Theorem ALGO_sync_top_guards_false : forall g w e en, SCtx g w e en -> e_ign en = INone ->
  split_guard (cfg_std 1) en false = false /\ split_guard (cfg_std 1) en true = false /\
  hash_conflict en = false /\ path_conflict (cfg_std 1) en = false.
Proof.
  exact (fun g w e en SC Hi => conj (split_guard_false g w e en false SC Hi) (conj (split_guard_false g w e en true SC Hi)
           (conj (hash_conflict_false g w e en SC Hi) (path_conflict_false g w e en SC Hi)))).
Qed.
Print Assumptions ALGO_sync_top_guards_false.

(* ---- C03: the origin is untouched --------------------------------------------------------------------------- *)
(* [algo_run_calls] = algo_run keeping the engine-issued provider calls of every step (the calls the tie compares with
   the real engine's, step by step).  [CallsOk g cs]: every call goes to the side opposite to a side that holds a
   user-made object.  One engine step, from any world satisfying the invariant: *)
Theorem ALGO_engine_calls : forall g w a w' cs,
  Inv g w -> NoTmp w -> algo_step w a = ROk (w', cs) -> CallsOk g cs.
Proof. exact engine_step_calls. Qed.
Print Assumptions ALGO_engine_calls.

(* C03, no echo: sync() on behalf of a side whose object the engine made itself (the events of such an object are the
   echo of the engine's own create / upload) issues no provider call, whatever the state of the entry *)
Theorem ALGO_echo_absorbed : forall g w e en s k w' cs fl,
  SCtx g w e en -> e_ign en = INone -> s_oid (gs en s) = Some (ostr_k k) -> g_get k (g_of g s) = None ->
  sync_side w e s = ROk (w', cs, fl) -> cs = [].
Proof. exact mirror_side_no_calls. Qed.
Print Assumptions ALGO_echo_absorbed.

(* C03, no echo after quiet: in a quiescent world an engine action issues no provider call, changes neither provider's
   objects nor any entry, and leaves the world quiescent - nothing happens after quiet until a user acts *)
Theorem ALGO_quiescent_stable : forall g w a w' cs,
  Inv g w -> quiescent w = true -> (forall sd o, a <> AUser sd o) -> algo_step w a = ROk (w', cs) ->
  cs = [] /\ quiescent w' = true /\ ents (w_st w') = ents (w_st w) /\
  (forall sd, ProvModel.p_heap (prov_of w' sd) = ProvModel.p_heap (prov_of w sd)).
Proof. exact quiescent_stable. Qed.
Print Assumptions ALGO_quiescent_stable.

(* users act on side sd only (any in-domain history, any schedule) => EVERY provider call the engine issues in the
   whole run - create / upload / delete / rename / mkdir, successful or refused - goes to the other side *)
Theorem ALGO_origin_untouched : forall t0 lg0 acts sd w cs,
  lg0 <= t0 + 1 -> in_F1 (cfg_std 1) (history_of acts) = true -> one_sided sd (history_of acts) = true ->
  algo_run_calls (world_init (cfg_std 1) t0 lg0) acts = ROk (w, cs) -> on_side (negb sd) cs.
Proof. exact algo_origin_untouched. Qed.
Print Assumptions ALGO_origin_untouched.

(* ---- the full-strength statement is false: finding A-1 ------------------------------------------------------ *)
(* dropping "a content written to a file is new for that file" from the domain: a one-sided history of 4
   operations on which the faithful model (and the real engine, step for step) ends quiescent and unequal *)
Theorem ALGO_quiescent_equal_full_refuted :
  exists w, algo_run (world_init (cfg_std 1) aba_t0 aba_lg0) aba_actions = ROk w /\
            quiescent w = true /\ views_equal w = false /\
            In ([[102]], (ProvModel.KFile, 2)) (rel_view w false) /\ In ([[102]], (ProvModel.KFile, 3)) (rel_view w true) /\
            history_of aba_actions = [(false, UCreate [[103]] 1); (false, UCreate [[102]] 2); (false, UWrite [[102]] 3); (false, UWrite [[102]] 2)] /\
            one_sided false (history_of aba_actions) = true /\
            in_F (cfg_std 1) (history_of aba_actions) = false /\
            in_F (cfg_std 1) [(false, UCreate [[103]] 1); (false, UCreate [[102]] 2); (false, UWrite [[102]] 3); (false, UWrite [[102]] 4)] = true.
Proof. exact aba_diverges. Qed.
Print Assumptions ALGO_quiescent_equal_full_refuted.

(* ---- non-vacuity -------------------------------------------------------------------------------------------- *)
(* the invariant is satisfiable, and so is the hypothesis pair of ALGO_quiescent_equal_under_inv *)
Example ALGO_ex_inv_and_quiescent :
  Inv g0 (world_init (cfg_std 1) 1016000 1013000) /\ quiescent (world_init (cfg_std 1) 1016000 1013000) = true.
Proof. split; [apply init_inv; discriminate|reflexivity]. Qed.
(* the hypotheses of ALGO_inv_reachable / ALGO_quiescent_equal are met by a run in which the engine creates two files,
   uploads new contents twice and goes quiet with equal trees (recorded from the real engine) *)
Example ALGO_ex_run :
  in_F1 (cfg_std 1) (history_of conv_actions) = true /\ one_sided false (history_of conv_actions) = true /\
  exists w, algo_run (world_init (cfg_std 1) aba_t0 aba_lg0) conv_actions = ROk w /\
            quiescent w = true /\ views_equal w = true /\
            In ([[102]], (ProvModel.KFile, 4)) (rel_view w false) /\ In ([[102]], (ProvModel.KFile, 4)) (rel_view w true) /\
            In ([[103]], (ProvModel.KFile, 1)) (rel_view w true).
Proof. exact conv_converges. Qed.
(* ... and in that run the engine issues 3 provider calls (2 creates, 1 upload), all on REMOTE, all successful *)
Example ALGO_ex_run_calls :
  exists w cs, algo_run_calls (world_init (cfg_std 1) aba_t0 aba_lg0) conv_actions = ROk (w, cs) /\
               map cl_side cs = [true; true; true] /\ map cl_ok cs = [true; true; true].
Proof.
  destruct (algo_run_calls (world_init (cfg_std 1) aba_t0 aba_lg0) conv_actions) as [[w cs]|c] eqn:E.
  - exists w, cs. split; [reflexivity|].
    assert (Hw: ROk (w, cs) = algo_run_calls (world_init (cfg_std 1) aba_t0 aba_lg0) conv_actions) by (symmetry; exact E).
    clear E. vm_compute in Hw. injection Hw as -> ->. split; reflexivity.
  - exfalso. vm_compute in E. discriminate.
Qed.
(* the specification of that run: LOCAL's user has f with contents 4 (then 3, 2) and g with content 1; REMOTE's has none *)
Example ALGO_ex_spec :
  spec_L (history_of conv_actions) = [([[102]], [4; 3; 2]); ([[103]], [1])] /\ spec_R (history_of conv_actions) = [].
Proof. split; reflexivity. Qed.
(* the domain of F1 is inhabited by histories that make the engine work *)
Example ALGO_ex_domain : in_F1 (cfg_std 1) [(false, UCreate [[102]] 2); (true, UCreate [[103]] 1); (false, UWrite [[102]] 3); (false, UDelete [[102]])] = true.
Proof. reflexivity. Qed.
