(* PropAlgo.v — the algorithm layer of C01 / C03: theorems about AlgoModel.algo_step, the engine's own
   closed loop (event intake -> SyncState.update, SyncState.change, SyncManager.sync ...) on the fragment
   reached so far, for ALL in-fragment histories and ALL schedules.  Re-exported by PropC01.v / PropC03.v. *)
From Coq Require Import NArith List Bool.
From CS Require Import Sx Str PathModel StateModel ProvModel AlgoModel AlgoProofs.
Import ListNotations.

Theorem ALGO_user_step_is_not_an_engine_step : forall w sd o,
  exists w', algo_step w (AUser sd o) = ROk (w', []) /\ w_st w' = w_st w /\ prov_of w' (negb sd) = prov_of w (negb sd).
Proof. exact user_step_no_engine_call. Qed.
Print Assumptions ALGO_user_step_is_not_an_engine_step.
