(* MonitorExamples.v — concrete accepted / rejected traces (non-vacuity of the monitor theorems). *)
From Coq Require Import NArith List Bool.
From CS Require Import Sx TreeModel Monitor.
Import ListNotations.
Local Open Scope N_scope.

Definition ex_cfg (org : option side) : config :=
  {| rootL := [1]; rootR := [2]; origin := org; check_spec := true; no_conflicted := true;
     conflicted := [99]; step_bound := 10; cov_every_step := true; declined := [77] |}.
Definition ex_l0 : tree := [([1], Dir); ([5], Dir)].
Definition ex_r0 : tree := [([2], Dir)].
Definition ex_l1 : tree := [([1], Dir); ([5], Dir); ([1; 3], File 7)].
Definition ex_r1 : tree := [([2], Dir); ([2; 3], File 7)].
(* user creates /local/3 with content 7; the engine creates /remote/3; two steps; quiet; one more step; quiet *)
Definition ex_trace : list obs :=
  [ {| o_ev := EUser false (Create [1; 3] 7); o_L := ex_l1; o_R := ex_r0 |};
    {| o_ev := EStep; o_L := ex_l1; o_R := ex_r0 |};
    {| o_ev := EEng true [[2; 3]]; o_L := ex_l1; o_R := ex_r1 |};
    {| o_ev := EStep; o_L := ex_l1; o_R := ex_r1 |};
    {| o_ev := EQuiet; o_L := ex_l1; o_R := ex_r1 |};
    {| o_ev := EStep; o_L := ex_l1; o_R := ex_r1 |};
    {| o_ev := EQuiet; o_L := ex_l1; o_R := ex_r1 |} ].

Example ex_accepted : accepted (ex_cfg (Some false)) ex_l0 ex_r0 ex_trace = true.
Proof. vm_compute. reflexivity. Qed.

(* the same run with the engine writing outside its root (/5/3 on the local side) is rejected: CONFINED *)
Example ex_rejected_confined :
  accept (ex_cfg None) ex_l0 ex_r0
    [ {| o_ev := EUser false (Create [1; 3] 7); o_L := ex_l1; o_R := ex_r0 |};
      {| o_ev := EEng false [[5; 3]]; o_L := ex_l1 ++ [([5; 3], File 7)]; o_R := ex_r0 |} ] = inr (1%nat, G_CONFINED).
Proof. vm_compute. reflexivity. Qed.

(* an engine write on the origin side of a one-sided run is rejected: ORIGIN *)
Example ex_rejected_origin :
  accept (ex_cfg (Some false)) ex_l0 ex_r0
    [ {| o_ev := EUser false (Create [1; 3] 7); o_L := ex_l1; o_R := ex_r0 |};
      {| o_ev := EEng false [[1; 3]]; o_L := [([1], Dir); ([5], Dir); ([1; 3], File 8)]; o_R := ex_r0 |} ]
  = inr (1%nat, G_ORIGIN).
Proof. vm_compute. reflexivity. Qed.

(* going quiet with the user's version nowhere is rejected: the views differ (CONVERGE) *)
Example ex_rejected_converge :
  accept (ex_cfg None) ex_l0 ex_r0
    [ {| o_ev := EUser false (Create [1; 3] 7); o_L := ex_l1; o_R := ex_r0 |};
      {| o_ev := EQuiet; o_L := ex_l1; o_R := ex_r0 |} ] = inr (1%nat, G_CONVERGE).
Proof. vm_compute. reflexivity. Qed.

(* the engine deleting the only copy of a user's version is rejected at that action: COVERED_STEP *)
Example ex_rejected_lost :
  accept (ex_cfg None) ex_l0 ex_r0
    [ {| o_ev := EUser false (Create [1; 3] 7); o_L := ex_l1; o_R := ex_r0 |};
      {| o_ev := EEng false [[1; 3]]; o_L := ex_l0; o_R := ex_r0 |} ] = inr (1%nat, G_COVERED_STEP).
Proof. vm_compute. reflexivity. Qed.

(* an engine action on a path with a declined component (77) is rejected: DECLINED *)
Example ex_rejected_declined :
  accept (ex_cfg None) ex_l0 ex_r0
    [ {| o_ev := EUser false (Create [1; 3] 7); o_L := ex_l1; o_R := ex_r0 |};
      {| o_ev := EEng true [[2; 77]]; o_L := ex_l1; o_R := ex_r0 ++ [([2; 77], Dir)] |} ] = inr (1%nat, G_DECLINED).
Proof. vm_compute. reflexivity. Qed.
