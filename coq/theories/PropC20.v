(* PropC20.v — C20: on-demand sync.  Folders always mirrored, local creations always uploaded, a file that exists only
   remotely never downloaded unless requested (by path, by id, or through an auto-sync predicate), once requested
   downloaded and kept in sync in both directions, un-request uploads newer local edits then removes only the local
   copy and never the remote one, merged listing reports every local file as synced and every not-yet-downloaded
   remote file as not synced.
   (a) gate: the mechanism of cloudsync/smartsync.py; (b) smart_spec: big-step outcomes for all action sequences;
   (c) monitor: what acceptance of an observation trace means between quiescent points.
   Every theorem is for an ARBITRARY auto-sync predicate [auto : path -> bool]. *)
From Coq Require Import NArith List Bool.
From CS Require Import Sx TreeModel SmartModel SmartProofs SmartSpecProofs SmartMonProofs.
Import ListNotations.

(* ================================================================== (a) the gate: mechanism of cloudsync/smartsync.py,
   for ALL entry tables, request / exclude sets, local provider contents and predicates *)
Theorem C20_gate_unrequested_never_downloaded :
  forall (auto : path -> bool) (w : gworld) (st : gst) (k : N) (e : gent),
  find_ent (g_ents st) k = Some e ->
  g_oid (g_loc e) = None ->
  g_dir e = false ->
  kmem k (g_req st) = false ->
  match g_path (g_rem e) with
  | Some p => auto p = false
  | None => True
  end -> reaches_sync auto w st k = false.
Proof. exact unrequested_never_downloaded. Qed.
Print Assumptions C20_gate_unrequested_never_downloaded.

Theorem C20_gate_filter_does_not_request :
  forall (auto : path -> bool) (w : gworld) (st : gst) (k : N) (e : gent),
  find_ent (g_ents st) k = Some e ->
  g_oid (g_loc e) = None ->
  kmem k (g_req st) = false ->
  match g_path (g_rem e) with
  | Some p => auto p = false
  | None => True
  end -> kmem k (g_req (fst (changeset_filter auto w st))) = false.
Proof. exact filter_does_not_request. Qed.
Print Assumptions C20_gate_filter_does_not_request.

Theorem C20_gate_passes :
  forall (w : gworld) (st : gst) (e : gent),
  g_discarded e = false ->
  g_dir e = true \/ kmem (g_key e) (g_req st) = true \/ local_file w e = true -> pre_sync w st e = false.
Proof. exact gate_passes. Qed.
Print Assumptions C20_gate_passes.

Theorem C20_gate_offered_when_pending :
  forall (auto : path -> bool) (w : gworld) (st : gst) (k : N) (e : gent),
  In k (g_changeset st) -> must_offer st k e -> In k (snd (changeset_filter auto w st)).
Proof. exact offered_when_pending. Qed.
Print Assumptions C20_gate_offered_when_pending.

Theorem C20_gate_unrequest_never_deletes_remote :
  forall (w : gworld) (bp : bool) (st : gst) (e : gent) (st' : gst) (acts : list gact),
  g_unrequest w bp st e = (st', acts) ->
  (forall a : gact,
   In a acts ->
   a = GPushLocal (g_key e) \/ (exists p : path, a = GDeleteLocal p /\ g_path (g_loc e) = Some p)) /\
  (kmem (g_key e) (g_req st) = true ->
   local_leaf w e -> kmem (g_key e) (g_req st') = false /\ kmem (g_key e) (g_exc st') = true) /\
  (kmem (g_key e) (g_req st) = true ->
   local_leaf w e ->
   find_ent (g_ents st) (g_key e) = Some e ->
   g_path (g_loc e) <> None ->
   exists e' : gent,
     find_ent (g_ents st') (g_key e) = Some e' /\
     g_oid (g_loc e') = None /\
     is_local_deletion e' = false /\
     g_oid (g_rem e') = g_oid (g_rem e) /\
     g_exists (g_rem e') = g_exists (g_rem e) /\ g_path (g_rem e') = g_path (g_rem e)) /\
  (kmem (g_key e) (g_req st) = false -> g_req st' = g_req st /\ g_exc st' = g_exc st).
Proof. exact unrequest_never_deletes_remote. Qed.
Print Assumptions C20_gate_unrequest_never_deletes_remote.

Theorem C20_gate_request_registers :
  forall (bo : bool) (w : gworld) (st : gst) (e : gent) (st0 : gst) (e0 : gent)
    (st' : gst) (plan : option (list N)),
  find_ent (g_ents st) (g_key e) = Some e ->
  fill_remote bo w st e = (st0, e0) ->
  g_dir e0 = false ->
  g_request bo w st e = (st', plan) ->
  kmem (g_key e) (g_req st') = true /\
  kmem (g_key e) (g_exc st') = false /\
  (plan = None <-> g_path (g_rem e0) = None) /\
  (forall pl : list N,
   plan = Some pl ->
   (exists pre : list N, pl = pre ++ g_key e :: nil) /\
   (exists e' : gent,
      find_ent (g_ents st') (g_key e) = Some e' /\
      g_changed (g_rem e') = true /\
      g_latest e' = false /\
      g_oid (g_rem e') = g_oid (g_rem e) /\
      (forall p : path,
       g_path (g_loc e) = Some p ->
       pmem p (w_lpaths w) = false ->
       g_oid (g_loc e') = None /\ g_sync_hash (g_rem e') = None /\ g_sync_path (g_rem e') = None))).
Proof. exact request_registers. Qed.
Print Assumptions C20_gate_request_registers.

Theorem C20_gate_request_of_folder_registers_nothing :
  forall (bo : bool) (w : gworld) (st : gst) (e : gent) (st0 : gst) (e0 : gent)
    (st' : gst) (plan : option (list N)),
  fill_remote bo w st e = (st0, e0) ->
  g_dir e0 = true -> g_request bo w st e = (st', plan) -> g_req st' = g_req st0 /\ g_exc st' = g_exc st0.
Proof. exact request_of_folder_registers_nothing. Qed.
Print Assumptions C20_gate_request_of_folder_registers_nothing.

Theorem C20_gate_request_by_id_never_raises :
  forall (w : gworld) (st : gst) (e : gent) (o : N) (i : rinfo) (st' : gst) (plan : option (list N)),
  find_ent (g_ents st) (g_key e) = Some e ->
  g_oid (g_rem e) = Some o ->
  find_robj w o = Some i -> g_request true w st e = (st', plan) -> plan <> None.
Proof. exact request_by_id_never_raises. Qed.
Print Assumptions C20_gate_request_by_id_never_raises.

(* the code before the repairs fc0a567 / 2277c0d (g_request_legacy): the two statements above are false of it *)
Theorem C20_legacy_request_by_id_refuted :
  ~ legacy_by_id_never_raises_full.
Proof. exact legacy_by_id_never_raises_refuted. Qed.
Print Assumptions C20_legacy_request_by_id_refuted.

Theorem C20_legacy_request_by_id_registers_then_raises :
  snd (g_request_legacy wit_w (wit_st wit_file) wit_file) = None /\
  kmem 1 (g_req (fst (g_request_legacy wit_w (wit_st wit_file) wit_file))) = true /\
  snd (g_request true wit_w (wit_st wit_file) wit_file) = Some (1%N :: nil).
Proof. exact legacy_by_id_registers_then_raises. Qed.
Print Assumptions C20_legacy_request_by_id_registers_then_raises.

Theorem C20_legacy_folder_request_refuted :
  ~ legacy_folder_registers_nothing_full.
Proof. exact legacy_folder_registers_nothing_refuted. Qed.
Print Assumptions C20_legacy_folder_request_refuted.

Theorem C20_legacy_folder_unrequest_deletes_local_folder :
  let st1 := fst (g_request_legacy wit_w (wit_st wit_dir) wit_dir) in
  let st2 := fst (g_request false wit_w (wit_st wit_dir) wit_dir) in
  (exists e1 : gent,
     find_ent (g_ents st1) 1 = Some e1 /\
     snd (g_unrequest wit_w true st1 e1) = GDeleteLocal (1%N :: 7%N :: nil) :: nil /\
     kmem 1 (g_exc (fst (g_unrequest wit_w true st1 e1))) = true) /\
  (exists e2 : gent,
     find_ent (g_ents st2) 1 = Some e2 /\
     snd (g_unrequest wit_w true st2 e2) = nil /\ g_exc (fst (g_unrequest wit_w true st2 e2)) = nil).
Proof. exact legacy_folder_unrequest_deletes_local_folder. Qed.
Print Assumptions C20_legacy_folder_unrequest_deletes_local_folder.

Theorem C20_gate_parents_first :
  forall (st : gst) (e : gent) (k : N),
  In k (request_plan st e) ->
  k = g_key e \/
  (exists pc : gent, g_key pc = k /\ In pc (g_ents st) /\ pc_ok pc = true /\ g_discarded pc = false).
Proof. exact parents_first. Qed.
Print Assumptions C20_gate_parents_first.

Theorem C20_gate_listing_law :
  forall (tl : gent -> option path) (ls : list linfo) (rs : list (N * gent)) (it : litem),
  In it (g_listdir tl ls rs) <->
  In (i_name it) (map l_name ls ++ map fst rs) /\
  rent_pass tl (find_rent rs (i_name it)) = true /\
  match find_local ls (i_name it) with
  | Some l => truthy (l_mtime l) (l_size l) = true /\ it = synced_item (i_name it) l
  | None =>
      exists e : gent,
        find_rent rs (i_name it) = Some e /\
        ex_gone (g_exists (g_loc e)) = false /\
        ex_gone (g_exists (g_rem e)) = false /\
        truthy (g_mtime (g_rem e)) (g_size (g_rem e)) = true /\ it = unsynced_item (i_name it) e
  end.
Proof. exact g_listing_law. Qed.
Print Assumptions C20_gate_listing_law.

Theorem C20_gate_listing_local_synced :
  forall (tl : gent -> option path) (ls : list linfo) (rs : list (N * gent)) (l : linfo),
  find_local ls (l_name l) = Some l ->
  truthy (l_mtime l) (l_size l) = true ->
  rent_pass tl (find_rent rs (l_name l)) = true -> In (synced_item (l_name l) l) (g_listdir tl ls rs).
Proof. exact g_listing_local_synced. Qed.
Print Assumptions C20_gate_listing_local_synced.

Theorem C20_gate_listing_never_synced_without_local :
  forall (tl : gent -> option path) (ls : list linfo) (rs : list (N * gent)) (it : litem),
  In it (g_listdir tl ls rs) ->
  i_synced it = true -> exists l : linfo, find_local ls (i_name it) = Some l.
Proof. exact g_listing_never_synced_without_local. Qed.
Print Assumptions C20_gate_listing_never_synced_without_local.

(* ================================================================== (b) the big-step specification: ALL action sequences, ALL predicates *)
Theorem C20_spec_invariant :
  forall (auto : path -> bool) (l : list sact) (s s' : sstate),
  sinv s -> srun auto s l = Some s' -> sinv s'.
Proof. exact inv_reachable. Qed.
Print Assumptions C20_spec_invariant.

Theorem C20_folders_always_mirrored :
  forall (auto : path -> bool) (l : list sact) (s : sstate),
  srun auto sinit l = Some s ->
  forall p : path, lookup (sR s) p = Some Dir <-> lookup (sL s) p = Some Dir.
Proof. exact folders_always_mirrored. Qed.
Print Assumptions C20_folders_always_mirrored.

Theorem C20_remote_mkdir_mirrored :
  forall (auto : path -> bool) (s : sstate) (p : path) (s' : sstate),
  sstep auto s (RMkdir p) = Some s' -> lookup (sL s') p = Some Dir /\ lookup (sR s') p = Some Dir.
Proof. exact remote_mkdir_mirrored. Qed.
Print Assumptions C20_remote_mkdir_mirrored.

Theorem C20_local_tree_uploaded :
  forall (auto : path -> bool) (l : list sact) (s : sstate),
  srun auto sinit l = Some s ->
  forall (p : path) (n : node), lookup (sL s) p = Some n -> lookup (sR s) p = Some n.
Proof. exact local_tree_uploaded. Qed.
Print Assumptions C20_local_tree_uploaded.

Theorem C20_local_creations_uploaded :
  forall (auto : path -> bool) (s s' : sstate),
  (forall (p : path) (c : content),
   sstep auto s (LCreate p c) = Some s' ->
   lookup (sR s') p = Some (File c) /\ lookup (sL s') p = Some (File c)) /\
  (forall p : path,
   sstep auto s (LMkdir p) = Some s' -> lookup (sR s') p = Some Dir /\ lookup (sL s') p = Some Dir) /\
  (forall (p : path) (c : content),
   sstep auto s (LEdit p c) = Some s' ->
   lookup (sR s') p = Some (File c) /\ lookup (sL s') p = Some (File c)).
Proof. exact local_creations_uploaded. Qed.
Print Assumptions C20_local_creations_uploaded.

Theorem C20_never_download_unrequested :
  forall (auto : path -> bool) (l : list sact) (s : sstate) (p : path),
  srun auto sinit l = Some s ->
  is_file (sR s) p = true -> pmem p (sQ s) = false -> pmem p (sB s) = false -> lookup (sL s) p = None.
Proof. exact never_download_unrequested. Qed.
Print Assumptions C20_never_download_unrequested.

Theorem C20_downloaded_only_if_requested :
  forall (auto : path -> bool) (l : list sact) (s : sstate) (p : path) (c : content),
  srun auto sinit l = Some s ->
  lookup (sL s) p = Some (File c) ->
  In (Request p) l \/
  auto p = true /\ (exists c' : content, In (RCreate p c') l) \/
  (exists c' : content, In (LCreate p c') l).
Proof. exact downloaded_only_if_requested. Qed.
Print Assumptions C20_downloaded_only_if_requested.

Theorem C20_requested_kept_in_sync :
  forall (auto : path -> bool) (l : list sact) (s : sstate) (p : path),
  srun auto sinit l = Some s ->
  pmem p (sQ s) = true ->
  exists c : content, lookup (sR s) p = Some (File c) /\ lookup (sL s) p = Some (File c).
Proof. exact requested_kept_in_sync. Qed.
Print Assumptions C20_requested_kept_in_sync.

Theorem C20_request_downloads :
  forall (auto : path -> bool) (s : sstate) (p : path) (c : content) (s' : sstate),
  lookup (sR s) p = Some (File c) ->
  sstep auto s (Request p) = Some s' ->
  pmem p (sQ s') = true /\ lookup (sL s') p = Some (File c) /\ sR s' = sR s.
Proof. exact request_downloads. Qed.
Print Assumptions C20_request_downloads.

Theorem C20_requested_persists :
  forall (auto : path -> bool) (s : sstate) (a : sact) (s' : sstate) (p : path),
  sstep auto s a = Some s' ->
  pmem p (sQ s) = true ->
  a <> Unrequest p ->
  a <> RDelete p -> (forall c : content, a <> EditUnrequest p c) -> pmem p (sQ s') = true.
Proof. exact requested_persists. Qed.
Print Assumptions C20_requested_persists.

Theorem C20_requested_edits_propagate :
  forall (auto : path -> bool) (s : sstate) (p : path) (c : content) (s' : sstate),
  sinv s ->
  pmem p (sQ s) = true ->
  sstep auto s (REdit p c) = Some s' \/ sstep auto s (LEdit p c) = Some s' ->
  lookup (sR s') p = Some (File c) /\ lookup (sL s') p = Some (File c) /\ pmem p (sQ s') = true.
Proof. exact requested_edits_propagate. Qed.
Print Assumptions C20_requested_edits_propagate.

Theorem C20_unrequest_keeps_remote :
  forall (auto : path -> bool) (s : sstate) (p : path) (s' : sstate),
  sstep auto s (Unrequest p) = Some s' -> sR s' = sR s.
Proof. exact unrequest_keeps_remote. Qed.
Print Assumptions C20_unrequest_keeps_remote.

Theorem C20_edit_unrequest_keeps_remote :
  forall (auto : path -> bool) (s : sstate) (p : path) (c : content) (s' : sstate),
  sstep auto s (EditUnrequest p c) = Some s' ->
  sR s' = set (sR s) p (File c) /\
  (forall q : path, lookup (sR s) q <> None -> lookup (sR s') q <> None).
Proof. exact edit_unrequest_keeps_remote. Qed.
Print Assumptions C20_edit_unrequest_keeps_remote.

Theorem C20_unrequest_removes_local_only :
  forall (auto : path -> bool) (s : sstate) (p : path) (s' : sstate),
  sinv s ->
  pmem p (sQ s) = true ->
  sstep auto s (Unrequest p) = Some s' ->
  lookup (sL s') p = None /\
  (forall q : path, q <> p -> lookup (sL s') q = lookup (sL s) q) /\
  pmem p (sQ s') = false /\ pmem p (sX s') = true /\ is_file (sR s') p = true.
Proof. exact unrequest_removes_local_only. Qed.
Print Assumptions C20_unrequest_removes_local_only.

Theorem C20_edit_unrequest_is_edit_then_unrequest :
  forall (auto : path -> bool) (s : sstate) (p : path) (c : content),
  sinv s ->
  sstep auto s (EditUnrequest p c) =
  match sstep auto s (LEdit p c) with
  | Some s1 => sstep auto s1 (Unrequest p)
  | None => None
  end.
Proof. exact edit_unrequest_is_edit_then_unrequest. Qed.
Print Assumptions C20_edit_unrequest_is_edit_then_unrequest.

Theorem C20_unrequested_stays_remote :
  forall (auto : path -> bool) (l : list sact) (s : sstate) (p : path),
  srun auto sinit l = Some s ->
  pmem p (sX s) = true -> is_file (sR s) p = true /\ lookup (sL s) p = None /\ pmem p (sQ s) = false.
Proof. exact unrequested_stays_remote. Qed.
Print Assumptions C20_unrequested_stays_remote.

Theorem C20_listing_law :
  forall (s : sstate) (d : path) (x : N) (k : bool),
  NoDup (map fst (sL s)) ->
  NoDup (map fst (sR s)) ->
  (In {| i_name := x; i_isdir := k; i_synced := true |} (listing s d) <->
   (exists n : node, lookup (sL s) (d ++ x :: nil) = Some n /\ node_isdir n = k)) /\
  (In {| i_name := x; i_isdir := k; i_synced := false |} (listing s d) <->
   (exists n : node,
      lookup (sR s) (d ++ x :: nil) = Some n /\ node_isdir n = k /\ lookup (sL s) (d ++ x :: nil) = None)).
Proof. exact listing_law. Qed.
Print Assumptions C20_listing_law.

Theorem C20_listing_law_reachable :
  forall (auto : path -> bool) (l : list sact) (s : sstate) (d : list name),
  srun auto sinit l = Some s ->
  (forall (x : name) (n : node),
   lookup (sL s) (d ++ x :: nil) = Some n ->
   In {| i_name := x; i_isdir := node_isdir n; i_synced := true |} (listing s d)) /\
  (forall (x : name) (c : content),
   lookup (sR s) (d ++ x :: nil) = Some (File c) ->
   lookup (sL s) (d ++ x :: nil) = None ->
   In {| i_name := x; i_isdir := false; i_synced := false |} (listing s d)) /\
  (forall it : litem,
   In it (listing s d) ->
   if i_synced it
   then exists n : node, lookup (sL s) (d ++ i_name it :: nil) = Some n /\ node_isdir n = i_isdir it
   else
    i_isdir it = false /\
    is_file (sR s) (d ++ i_name it :: nil) = true /\
    lookup (sL s) (d ++ i_name it :: nil) = None /\ pmem (d ++ i_name it :: nil) (sQ s) = false).
Proof. exact listing_law_reachable. Qed.
Print Assumptions C20_listing_law_reachable.

(* ================================================================== (c) the monitor: ALL observation traces *)
Theorem C20_mon_never_download_unrequested :
  forall (auto : path -> bool) (cfg : mcfg) (l r : tree) (tr : list mobs) (m' : mst),
  mon_accept auto cfg l r tr = inl m' ->
  forall (pre : list mobs) (x : mobs) (post : list mobs) (k : N) (ts : list path),
  tr = pre ++ x :: post ->
  m_ev x = MEng false k ts ->
  exists ma : mst,
    mrun auto cfg (mon_init l r) pre ma /\
    (forall (p rel : path) (c : content),
     lookup (m_L x) p = Some (File c) ->
     lookup (mL ma) p = None ->
     relp (rootL cfg) p = Some rel ->
     is_file (mR ma) (rootR cfg ++ rel) = true ->
     pmem rel (mQ ma) = true \/ auto rel = true /\ pmem rel (mX ma) = false).
Proof. exact mon_never_download_unrequested. Qed.
Print Assumptions C20_mon_never_download_unrequested.

Theorem C20_mon_requested_only_by_request :
  forall (auto : path -> bool) (cfg : mcfg) (m : mst) (tr : list mobs) (m' : mst),
  mrun auto cfg m tr m' ->
  forall r : path,
  pmem r (mQ m') = true -> pmem r (mQ m) = true \/ (exists x : mobs, In x tr /\ m_ev x = MReqBegin r).
Proof. exact requested_only_by_request. Qed.
Print Assumptions C20_mon_requested_only_by_request.

Theorem C20_mon_unrequested_stays_remote :
  forall (auto : path -> bool) (cfg : mcfg) (m0 : mst) (seg : list mobs) (m1 : mst) (r : path),
  pmem r (mX m0) = true ->
  pmem r (mQ m0) = false ->
  mrun auto cfg m0 seg m1 ->
  forallb (fun x : mobs => negb (touches cfg r x)) seg = true ->
  forall (pre : list mobs) (x : mobs) (post : list mobs) (k : N) (ts : list path),
  seg = pre ++ x :: post ->
  m_ev x = MEng false k ts ->
  exists ma : mst,
    mrun auto cfg m0 pre ma /\
    (forall (p : path) (c : content),
     relp (rootL cfg) p = Some r ->
     lookup (mL ma) p = None ->
     is_file (mR ma) (rootR cfg ++ r) = true -> lookup (m_L x) p <> Some (File c)).
Proof. exact mon_unrequested_stays_remote. Qed.
Print Assumptions C20_mon_unrequested_stays_remote.

Theorem C20_mon_unrequest_never_deletes_remote :
  forall (auto : path -> bool) (cfg : mcfg) (l r : tree) (tr : list mobs) (m' : mst),
  mon_accept auto cfg l r tr = inl m' ->
  forall (pre : list mobs) (x : mobs) (post : list mobs) (k : N) (ts : list path),
  tr = pre ++ x :: post ->
  m_ev x = MEng true k ts ->
  exists ma : mst,
    mrun auto cfg (mon_init l r) pre ma /\
    (forall (p : path) (c : content),
     lookup (mR ma) p = Some (File c) ->
     lookup (m_R x) p = None ->
     in_unreq ma = false /\
     (forall rel : path, relp (rootR cfg) p = Some rel -> pmem rel (mD ma) = true)).
Proof. exact mon_unrequest_never_deletes_remote. Qed.
Print Assumptions C20_mon_unrequest_never_deletes_remote.

Theorem C20_mon_no_remote_delete_without_local_delete :
  forall (auto : path -> bool) (cfg : mcfg) (l r : tree) (tr : list mobs) (m' : mst),
  mon_accept auto cfg l r tr = inl m' ->
  (forall (x : mobs) (p : path), In x tr -> m_ev x <> MUser false (Delete p)) ->
  forall (pre : list mobs) (x : mobs) (post : list mobs) (k : N) (ts : list path),
  tr = pre ++ x :: post ->
  m_ev x = MEng true k ts ->
  exists ma : mst,
    mrun auto cfg (mon_init l r) pre ma /\
    (forall (p : path) (c : content) (rel : path),
     relp (rootR cfg) p = Some rel -> lookup (mR ma) p = Some (File c) -> lookup (m_R x) p <> None).
Proof. exact mon_no_remote_delete_without_local_delete. Qed.
Print Assumptions C20_mon_no_remote_delete_without_local_delete.

Theorem C20_mon_deleted_only_by_user :
  forall (auto : path -> bool) (cfg : mcfg) (m : mst) (tr : list mobs) (m' : mst),
  mrun auto cfg m tr m' ->
  forall r : path,
  pmem r (mD m') = true ->
  pmem r (mD m) = true \/
  (exists (x : mobs) (p : path),
     In x tr /\ m_ev x = MUser false (Delete p) /\ relp (rootL cfg) p = Some r).
Proof. exact deleted_only_by_user. Qed.
Print Assumptions C20_mon_deleted_only_by_user.

Theorem C20_mon_unrequest_touches_only_its_file :
  forall (auto : path -> bool) (cfg : mcfg) (l r : tree) (tr : list mobs) (m' : mst),
  mon_accept auto cfg l r tr = inl m' ->
  forall (pre : list mobs) (x : mobs) (post : list mobs) (s : side) (k : N) (ts : list path),
  tr = pre ++ x :: post ->
  m_ev x = MEng s k ts ->
  exists ma : mst,
    mrun auto cfg (mon_init l r) pre ma /\
    (forall b : bracket,
     mB ma = Some b ->
     b_unreq b = true ->
     if s
     then
      mL ma ~~ m_L x /\
      same_but (rootR cfg ++ b_path b) (mR ma) (m_R x) = true /\
      isnone (lookup (mR ma) (rootR cfg ++ b_path b)) = isnone (lookup (m_R x) (rootR cfg ++ b_path b))
     else mR ma ~~ m_R x /\ same_but (rootL cfg ++ b_path b) (mL ma) (m_L x) = true).
Proof. exact mon_unrequest_touches_only_its_file. Qed.
Print Assumptions C20_mon_unrequest_touches_only_its_file.

Theorem C20_mon_user_tie :
  forall (auto : path -> bool) (cfg : mcfg) (l r : tree) (tr : list mobs) (m' : mst),
  mon_accept auto cfg l r tr = inl m' ->
  forall (pre : list mobs) (x : mobs) (post : list mobs) (s : side) (o : op),
  tr = pre ++ x :: post ->
  m_ev x = MUser s o ->
  exists ma : mst,
    mrun auto cfg (mon_init l r) pre ma /\
    apply_op (if s then mR ma else mL ma) o ~~ (if s then m_R x else m_L x) /\
    (if s then mL ma ~~ m_L x else mR ma ~~ m_R x).
Proof. exact mon_user_tie. Qed.
Print Assumptions C20_mon_user_tie.

Theorem C20_mon_unrequest_end_excludes :
  forall (auto : path -> bool) (cfg : mcfg) (m : mst) (x : mobs) (m' : mst) (b : bracket),
  mon_step auto cfg m x = inl m' ->
  m_ev x = MUnreqEnd true ->
  mB m = Some b -> pmem (b_path b) (mX m') = true /\ pmem (b_path b) (mQ m') = false.
Proof. exact unrequest_end_excludes. Qed.
Print Assumptions C20_mon_unrequest_end_excludes.

(* ================================================================== non-vacuity: concrete instances *)
Local Open Scope N_scope.
Definition ex_rem : gside :=
  {| g_oid := Some 10; g_path := Some [2; 7]; g_changed := true; g_exists := XExists; g_hash := Some 1;
     g_sync_hash := None; g_sync_path := None; g_size := 3; g_mtime := 5 |}.
Definition ex_ent : gent :=
  {| g_key := 1; g_loc := cleared; g_rem := ex_rem; g_dir := false; g_lfresh := true; g_rfresh := false; g_discarded := false;
     g_conflicted := false |}.
Definition ex_w : gworld := {| w_lpaths := []; w_loids := []; w_lhash := []; w_robjs := [] |}.
Definition ex_st (req exc : list N) : gst := {| g_ents := [ex_ent]; g_changeset := [1]; g_req := req; g_exc := exc |}.
(* a pending remote-only file, not requested, no predicate: offered (it needs a get_latest) but finished at the gate *)
Example ex_gate_blocks :
  In 1 (snd (changeset_filter (fun _ => false) ex_w (ex_st [] []))) /\
  reaches_sync (fun _ => false) ex_w (ex_st [] []) 1 = false.
Proof. vm_compute. split; [left; reflexivity|reflexivity]. Qed.
Example ex_gate_requested_passes : reaches_sync (fun _ => false) ex_w (ex_st [1] []) 1 = true.
Proof. vm_compute. reflexivity. Qed.
(* the predicate is consulted only once the entry is up to date (the first pass is the get_latest): two passes *)
Definition ex_ent_latest : gent :=
  {| g_key := 1; g_loc := cleared; g_rem := ex_rem; g_dir := false; g_lfresh := true; g_rfresh := true; g_discarded := false;
     g_conflicted := false |}.
Definition ex_st2 : gst := {| g_ents := [ex_ent_latest]; g_changeset := [1]; g_req := []; g_exc := [] |}.
Example ex_gate_matched_passes :
  reaches_sync (fun _ => true) ex_w (ex_st [] []) 1 = false /\ reaches_sync (fun _ => true) ex_w ex_st2 1 = true /\
  reaches_sync (fun _ => false) ex_w ex_st2 1 = false.
Proof. vm_compute. repeat split; reflexivity. Qed.
(* un-requested: not even offered, predicate or not *)
Example ex_gate_excluded_not_offered : snd (changeset_filter (fun _ => true) ex_w (ex_st [] [1])) = [].
Proof. vm_compute. reflexivity. Qed.

Definition ex_acts : list sact :=
  [RMkdir [1]; RCreate [1; 2] 7; LCreate [3] 8; Request [1; 2]; REdit [1; 2] 9; EditUnrequest [1; 2] 10].
Example ex_spec_before_request :
  exists s, srun (fun _ => false) sinit (firstn 3 ex_acts) = Some s /\
            lookup (sL s) [1; 2] = None /\ lookup (sR s) [1; 2] = Some (File 7) /\
            lookup (sL s) [1] = Some Dir /\ lookup (sR s) [3] = Some (File 8).
Proof. eexists. split; [vm_compute; reflexivity|]. vm_compute. repeat split; reflexivity. Qed.
Example ex_spec_requested :
  exists s, srun (fun _ => false) sinit (firstn 5 ex_acts) = Some s /\
            lookup (sL s) [1; 2] = Some (File 9) /\ lookup (sR s) [1; 2] = Some (File 9) /\ pmem [1; 2] (sQ s) = true.
Proof. eexists. split; [vm_compute; reflexivity|]. vm_compute. repeat split; reflexivity. Qed.
Example ex_spec_unrequested :
  exists s, srun (fun _ => false) sinit ex_acts = Some s /\
            lookup (sL s) [1; 2] = None /\ lookup (sR s) [1; 2] = Some (File 10) /\
            pmem [1; 2] (sX s) = true /\ pmem [1; 2] (sQ s) = false /\
            listing s [1] = [{| i_name := 2; i_isdir := false; i_synced := false |}].
Proof. eexists. split; [vm_compute; reflexivity|]. vm_compute. repeat split; reflexivity. Qed.
(* with a predicate that matches, the remote creation is downloaded at once *)
Example ex_spec_auto :
  exists s, srun (fun _ => true) sinit (firstn 2 ex_acts) = Some s /\ lookup (sL s) [1; 2] = Some (File 7).
Proof. eexists. split; [vm_compute; reflexivity|]. vm_compute. reflexivity. Qed.
(* outside the domain: a local creation at a path occupied remotely *)
Example ex_spec_out_of_domain : srun (fun _ => false) sinit [RCreate [2] 7; LCreate [2] 8] = None.
Proof. vm_compute. reflexivity. Qed.

Definition ex_cfg : mcfg := {| c_rootL := [1]; c_rootR := [2] |}.
Definition ex_l0 : tree := [([1], Dir)].
Definition ex_r0 : tree := [([2], Dir)].
Definition ex_l1 : tree := [([1], Dir); ([1; 3], File 7)].
Definition ex_r1 : tree := [([2], Dir); ([2; 3], File 7)].
Definition ob (e : mev) (l r : tree) : mobs := {| m_ev := e; m_L := l; m_R := r |}.
(* remote create; quiet; request -> download; quiet; un-request -> local delete only; quiet *)
Definition ex_trace : list mobs :=
  [ ob (MUser true (Create [2; 3] 7)) ex_l0 ex_r1; ob MStep ex_l0 ex_r1; ob MQuiet ex_l0 ex_r1;
    ob (MReqBegin [3]) ex_l0 ex_r1; ob (MEng false 0 [[1; 3]]) ex_l1 ex_r1; ob (MReqEnd true) ex_l1 ex_r1;
    ob MQuiet ex_l1 ex_r1;
    ob (MUnreqBegin [3]) ex_l1 ex_r1; ob (MEng false 3 [[1; 3]]) ex_l0 ex_r1; ob (MUnreqEnd true) ex_l0 ex_r1;
    ob MQuiet ex_l0 ex_r1 ].
Example ex_mon_accepted : exists m, mon_accept (fun _ => false) ex_cfg ex_l0 ex_r0 ex_trace = inl m.
Proof. eexists. vm_compute. reflexivity. Qed.
(* the download without the request is rejected *)
Example ex_mon_rejects_download :
  mon_accept (fun _ => false) ex_cfg ex_l0 ex_r0
    [ ob (MUser true (Create [2; 3] 7)) ex_l0 ex_r1; ob (MEng false 0 [[1; 3]]) ex_l1 ex_r1 ] = inr (1%nat, C_DOWNLOAD).
Proof. vm_compute. reflexivity. Qed.
(* ... and accepted when the predicate matches *)
Example ex_mon_accepts_matched : exists m,
  mon_accept (fun _ => true) ex_cfg ex_l0 ex_r0
    [ ob (MUser true (Create [2; 3] 7)) ex_l0 ex_r1; ob (MEng false 0 [[1; 3]]) ex_l1 ex_r1 ] = inl m.
Proof. eexists. vm_compute. reflexivity. Qed.
(* ... but not after an un-request, even though the predicate matches *)
Example ex_mon_rejects_redownload :
  mon_accept (fun _ => true) ex_cfg ex_l0 ex_r0 (ex_trace ++ [ob (MEng false 0 [[1; 3]]) ex_l1 ex_r1]) = inr (11%nat, C_DOWNLOAD).
Proof. vm_compute. reflexivity. Qed.
(* a remote delete inside the un-request is rejected *)
Example ex_mon_rejects_remote_delete_in_unrequest :
  mon_accept (fun _ => false) ex_cfg ex_l0 ex_r0
    (firstn 8 ex_trace ++ [ob (MEng true 3 [[2; 3]]) ex_l1 ex_r0]) = inr (8%nat, C_RDELETE_UNREQ).
Proof. vm_compute. reflexivity. Qed.
(* a remote delete that follows the un-request's own local delete (no user deleted the local copy) is rejected *)
Example ex_mon_rejects_remote_delete_after_unrequest :
  mon_accept (fun _ => false) ex_cfg ex_l0 ex_r0
    (ex_trace ++ [ob (MEng true 3 [[2; 3]]) ex_l0 ex_r0]) = inr (11%nat, C_RDELETE).
Proof. vm_compute. reflexivity. Qed.
(* a remote delete that propagates a USER's delete of the local copy is accepted *)
Example ex_mon_accepts_user_delete : exists m,
  mon_accept (fun _ => false) ex_cfg ex_l0 ex_r0
    (firstn 7 ex_trace ++ [ob (MUser false (Delete [1; 3])) ex_l0 ex_r1; ob (MEng true 3 [[2; 3]]) ex_l0 ex_r0]) = inl m.
Proof. eexists. vm_compute. reflexivity. Qed.
