(* TreeProofs.v — the user-visible laws of the reference file tree (TreeModel.v) and the theorem
   behind C04: operations of two users that touch unrelated files and folders commute, so the
   outcome of concurrent non-conflicting changes does not depend on how they interleave in time.

   wf t        = unique keys + parent-closed (every stored path is non-root and its parent is the
                 account root or a stored folder).  Unique keys ALONE are not preserved by
                 [apply_op] (Example [nodup_alone_not_preserved] below), parent-closedness is what
                 providers guarantee and what makes Rename well behaved.
   teq a b     = same lookup at every path;  on wf trees  same_tree a b = true <-> teq a b. *)
From Coq Require Import NArith List Bool Lia Permutation.
From CS Require Import Sx TreeModel Monitor TreePaths TreeLookup TreeSem TreeCanon.
Import ListNotations.

(* ------------------------------------------------------------------ executable well-formedness *)
Fixpoint nodupb (l : list path) : bool :=
  match l with
  | [] => true
  | x :: r => negb (existsb (path_eqb x) r) && nodupb r
  end.
Definition closedb (t : tree) : bool :=
  forallb (fun e => match fst e with [] => false | _ => is_dir t (parent (fst e)) end) t.
Definition wfb (t : tree) : bool := nodupb (map fst t) && closedb t.

Lemma nodupb_sound l : nodupb l = true -> NoDup l.
Proof.
  induction l as [|x r IH]; simpl; intros H; [constructor|].
  apply andb_true_iff in H as [H1 H2]. constructor; [|apply IH; exact H2].
  intros Hin. apply negb_true_iff in H1.
  assert (Ht : existsb (path_eqb x) r = true).
  { apply existsb_exists. exists x. split; [exact Hin|apply path_eqb_refl]. }
  congruence.
Qed.

Lemma closedb_sound t : closedb t = true -> closed t.
Proof.
  intros H k Hk. apply lookup_keys in Hk. apply in_map_iff in Hk as [[k' n] [Hk Hin]].
  simpl in Hk. subst k'. unfold closedb in H. rewrite forallb_forall in H.
  specialize (H _ Hin). simpl in H. destruct k as [|x k]; [discriminate|].
  split; [discriminate|exact H].
Qed.

Theorem wfb_sound t : wfb t = true -> wf t.
Proof.
  intros H. apply andb_true_iff in H as [H1 H2].
  split; [apply nodupb_sound; exact H1|apply closedb_sound; exact H2].
Qed.

Lemma wf_closed t : wf t -> closed t.
Proof. intros [_ H]. exact H. Qed.

(* ------------------------------------------------------------------ (1) same_tree is teq on wf trees *)
Theorem same_tree_teq a b : wf a -> wf b -> (same_tree a b = true <-> teq a b).
Proof. intros [Ha _] [Hb _]. apply same_tree_iff_teq; assumption. Qed.

(* ------------------------------------------------------------------ locality on trees *)
Lemma touches_root_noop t o : closed t -> In [] (touched o) -> apply_op t o = t.
Proof.
  intros Hc Hin. pose proof (closedL_root (lookup t) Hc) as H0.
  destruct o as [p c|p c|p|p q|p]; simpl in Hin.
  - destruct Hin as [->|[]]. unfold apply_op. rewrite H0. reflexivity.
  - destruct Hin as [->|[]]. unfold apply_op. rewrite H0. reflexivity.
  - destruct Hin as [->|[]]. reflexivity.
  - destruct Hin as [->|[->|[]]].
    + unfold apply_op. rewrite H0. reflexivity.
    + unfold apply_op. destruct (lookup t p); [|reflexivity].
      destruct (path_eqb p []); [reflexivity|]. destruct (is_prefix p []); reflexivity.
  - destruct Hin as [->|[]]. unfold apply_op. rewrite H0. reflexivity.
Qed.

(* the paths an operation reads besides those at or below the ones it touches *)
Definition reads (o : op) (s : path) : Prop :=
  domb o s = true \/ exists x, In x (touched o) /\ s = parent x.

Lemma local_shift root t t' ro r :
  closed t -> closed t' -> is_dir t root = true ->
  ~ In [] (touched ro) ->
  (forall s, s <> [] -> reads ro s -> lookup t' s = lookup t (root ++ s)) ->
  domb ro r = true ->
  lookup (apply_op t' ro) r = lookup (apply_op t (shift_op root ro)) (root ++ r).
Proof.
  intros Hc Hc' Hroot Hnil Hag Hd. rewrite !apply_op_sem by assumption.
  apply sem_shift; [exact Hroot| |exact Hd].
  intros x Hin.
  assert (Hx : x <> []) by (intros ->; contradiction).
  assert (Hs : forall s, lookup t' (x ++ s) = lookup t (root ++ x ++ s)).
  { intros s. apply Hag; [apply app_nonnil_l; exact Hx|].
    left. apply domb_iff. exists x. split; [exact Hin|apply pre_app]. }
  split; [exact Hx|]. split; [exact Hs|]. split.
  - intros Hp. apply Hag; [exact Hp|]. right. exists x. split; [exact Hin|reflexivity].
  - apply bool_eq_iff. rewrite !has_children_iff.
    split; intros [s [Hne Hl]]; exists s; (split; [exact Hne|]).
    + rewrite <- app_assoc, <- Hs. exact Hl.
    + rewrite Hs, app_assoc. exact Hl.
Qed.

Lemma local_plain t t' o r :
  closed t -> closed t' ->
  (forall s, reads o s -> lookup t' s = lookup t s) ->
  domb o r = true ->
  lookup (apply_op t' o) r = lookup (apply_op t o) r.
Proof.
  intros Hc Hc' Hag Hd.
  destruct (in_dec (list_eq_dec N.eq_dec) [] (touched o)) as [Hin|Hnin].
  - rewrite !touches_root_noop by assumption. apply Hag. left. exact Hd.
  - pose proof (local_shift [] t t' o r Hc Hc' eq_refl Hnin) as H.
    rewrite shift_op_nil in H. apply H; [|exact Hd].
    intros s _ Hs. apply Hag. exact Hs.
Qed.

(* apply_op respects extensional equivalence *)
Lemma apply_op_teq_closed a b o :
  closed a -> closed b -> teq a b -> teq (apply_op a o) (apply_op b o).
Proof.
  intros Ha Hb H r. destruct (domb o r) eqn:E.
  - apply local_plain; try assumption. intros s _. apply H.
  - rewrite !apply_op_frame by assumption. apply H.
Qed.

Theorem apply_op_teq a b o : wf a -> wf b -> teq a b -> teq (apply_op a o) (apply_op b o).
Proof. intros [_ Ha] [_ Hb]. apply apply_op_teq_closed; assumption. Qed.

Lemma closed_apply_ops os : forall t, closed t -> closed (apply_ops t os).
Proof.
  induction os as [|o os IH]; intros t H; [exact H|]. simpl. apply IH. apply closed_apply_op. exact H.
Qed.

Lemma apply_ops_teq_closed os :
  forall a b, closed a -> closed b -> teq a b -> teq (apply_ops a os) (apply_ops b os).
Proof.
  induction os as [|o os IH]; intros a b Ha Hb H; [exact H|].
  simpl. apply IH; try (apply closed_apply_op; assumption). apply apply_op_teq_closed; assumption.
Qed.

(* ------------------------------------------------------------------ independence *)
Lemma indep_spec a b :
  indep a b = true <->
  forall x y, In x (touched a) -> In y (touched b) -> ~ pre x y /\ ~ pre y x.
Proof.
  unfold indep. split.
  - intros H x y Hx Hy. rewrite forallb_forall in H. specialize (H x Hx).
    rewrite forallb_forall in H. specialize (H y Hy).
    apply negb_true_iff in H. apply comparable_false_iff. exact H.
  - intros H. apply forallb_forall. intros x Hx. apply forallb_forall. intros y Hy.
    apply negb_true_iff. apply comparable_false_iff. apply H; assumption.
Qed.

Lemma indep_sym a b : indep a b = true -> indep b a = true.
Proof.
  rewrite !indep_spec. intros H x y Hx Hy. destruct (H y x Hy Hx). tauto.
Qed.

Lemma indep_dom a b r : indep a b = true -> domb a r = true -> domb b r = false.
Proof.
  intros Hi Ha. destruct (domb b r) eqn:Eb; [|reflexivity]. exfalso.
  apply domb_iff in Ha as [x [Hx Hxr]]. apply domb_iff in Eb as [y [Hy Hyr]].
  destruct (proj1 (indep_spec a b) Hi x y Hx Hy) as [H1 H2].
  destruct (pre_comparable x y r Hxr Hyr); tauto.
Qed.

Lemma indep_parent a b x : indep a b = true -> In x (touched a) -> domb b (parent x) = false.
Proof.
  intros Hi Hx. destruct (domb b (parent x)) eqn:Eb; [|reflexivity]. exfalso.
  apply domb_iff in Eb as [y [Hy Hyr]].
  destruct (proj1 (indep_spec a b) Hi x y Hx Hy) as [H1 H2].
  apply H2. eapply pre_trans; [exact Hyr|apply pre_parent].
Qed.

Lemma indep_reads a b s : indep a b = true -> reads a s -> domb b s = false.
Proof.
  intros Hi [H|[x [Hx ->]]]; [eapply indep_dom; eassumption|eapply indep_parent; eassumption].
Qed.

(* ------------------------------------------------------------------ (3) commutation *)
Lemma comm_on_dom t a b r :
  closed t -> indep a b = true -> domb a r = true ->
  lookup (apply_op (apply_op t a) b) r = lookup (apply_op (apply_op t b) a) r.
Proof.
  intros Hc Hi Hd.
  rewrite (apply_op_frame (apply_op t a) b r).
  - symmetry. apply local_plain; try assumption; [apply closed_apply_op; exact Hc|].
    intros s Hs. apply apply_op_frame; [exact Hc|]. eapply indep_reads; eassumption.
  - apply closed_apply_op. exact Hc.
  - eapply indep_dom; eassumption.
Qed.

Lemma apply_op_comm_closed a b t :
  indep a b = true -> closed t ->
  teq (apply_op (apply_op t a) b) (apply_op (apply_op t b) a).
Proof.
  intros Hi Hc r.
  destruct (domb a r) eqn:Ea; [apply comm_on_dom; assumption|].
  destruct (domb b r) eqn:Eb.
  - symmetry. apply comm_on_dom; try assumption. apply indep_sym. exact Hi.
  - rewrite !apply_op_frame; try assumption; try (apply closed_apply_op; assumption). reflexivity.
Qed.

Theorem apply_op_comm a b t :
  indep a b = true -> wf t ->
  teq (apply_op (apply_op t a) b) (apply_op (apply_op t b) a).
Proof. intros Hi [_ Hc]. apply apply_op_comm_closed; assumption. Qed.

(* an operation independent of every operation of xs can be moved past all of xs *)
Lemma comm_past y xs :
  forall t, closed t -> (forall x, In x xs -> indep x y = true) ->
  teq (apply_ops (apply_op t y) xs) (apply_op (apply_ops t xs) y).
Proof.
  induction xs as [|x xs IH]; intros t Hc Hi; [apply teq_refl|].
  simpl. eapply teq_trans.
  - apply apply_ops_teq_closed.
    + apply closed_apply_op, closed_apply_op. exact Hc.
    + apply closed_apply_op, closed_apply_op. exact Hc.
    + apply apply_op_comm_closed; [|exact Hc]. apply indep_sym. apply Hi. left. reflexivity.
  - apply IH; [apply closed_apply_op; exact Hc|]. intros x0 H0. apply Hi. right. exact H0.
Qed.

Inductive interleave : list op -> list op -> list op -> Prop :=
| il_nil : interleave [] [] []
| il_left x xs ys zs : interleave xs ys zs -> interleave (x :: xs) ys (x :: zs)
| il_right y xs ys zs : interleave xs ys zs -> interleave xs (y :: ys) (y :: zs).

Lemma disjoint_cons_l x xs ys : disjoint (x :: xs) ys = true -> disjoint xs ys = true.
Proof. unfold disjoint. simpl. intros H. apply andb_true_iff in H. tauto. Qed.

Lemma disjoint_cons_r xs y ys :
  disjoint xs (y :: ys) = true ->
  (forall x, In x xs -> indep x y = true) /\ disjoint xs ys = true.
Proof.
  unfold disjoint. intros H. rewrite forallb_forall in H. split.
  - intros x Hx. specialize (H x Hx). simpl in H. apply andb_true_iff in H. tauto.
  - apply forallb_forall. intros x Hx. specialize (H x Hx). simpl in H. apply andb_true_iff in H. tauto.
Qed.

Lemma interleave_merge_closed xs ys zs :
  interleave xs ys zs ->
  forall base, disjoint xs ys = true -> closed base ->
  teq (apply_ops base zs) (merge3 base xs ys).
Proof.
  unfold merge3. intros H. induction H as [|x xs ys zs H IH|y xs ys zs H IH]; intros base Hd Hc.
  - apply teq_refl.
  - simpl. apply IH; [eapply disjoint_cons_l; exact Hd|apply closed_apply_op; exact Hc].
  - simpl. apply disjoint_cons_r in Hd as [Hy Hd].
    eapply teq_trans; [apply IH; [exact Hd|apply closed_apply_op; exact Hc]|].
    apply apply_ops_teq_closed.
    + apply closed_apply_ops, closed_apply_op. exact Hc.
    + apply closed_apply_op, closed_apply_ops. exact Hc.
    + apply comm_past; assumption.
Qed.

(* C04 core: the result of two users' non-conflicting changes is the same for every interleaving *)
Theorem interleave_independent base xs ys zs :
  disjoint xs ys = true -> wf base -> interleave xs ys zs ->
  teq (apply_ops base zs) (merge3 base xs ys).
Proof. intros Hd [_ Hc] Hi. apply interleave_merge_closed; assumption. Qed.

Theorem interleave_same_tree base xs ys zs :
  disjoint xs ys = true -> wf base -> interleave xs ys zs ->
  same_tree (apply_ops base zs) (merge3 base xs ys) = true.
Proof.
  intros Hd Hw Hi. apply same_tree_teq.
  - apply wf_apply_ops. exact Hw.
  - unfold merge3. apply wf_apply_ops, wf_apply_ops. exact Hw.
  - apply interleave_independent; assumption.
Qed.

(* any two interleavings agree *)
Corollary interleavings_agree base xs ys zs zs' :
  disjoint xs ys = true -> wf base -> interleave xs ys zs -> interleave xs ys zs' ->
  same_tree (apply_ops base zs) (apply_ops base zs') = true.
Proof.
  intros Hd Hw H1 H2. apply same_tree_teq; try (apply wf_apply_ops; exact Hw).
  eapply teq_trans; [apply interleave_independent; eassumption|].
  apply teq_sym. apply interleave_independent; assumption.
Qed.

(* ------------------------------------------------------------------ (2) user-visible laws *)
Definition delete_ok (t : tree) (p : path) : bool :=
  match lookup t p with
  | Some (File _) => true
  | Some Dir => negb (has_children t p)
  | None => false
  end.

Definition rename_ok (t : tree) (p q : path) : bool :=
  match lookup t p with
  | None => false
  | Some n =>
    negb (path_eqb p q) && negb (is_prefix p q) && parent_ok t q &&
    match lookup t q with
    | None => true
    | Some n' => same_kind n n' && match n' with Dir => negb (has_children t q) | File _ => false end
    end
  end.

Theorem delete_refused t p : delete_ok t p = false -> apply_op t (Delete p) = t.
Proof.
  unfold delete_ok, apply_op. destruct (lookup t p) as [[|c]|]; try discriminate; try reflexivity.
  destruct (has_children t p); [reflexivity|discriminate].
Qed.

(* a successful delete: nothing is left at or below p, everything else is untouched *)
Theorem delete_stays_deleted t p :
  wf t -> delete_ok t p = true ->
  (forall s, lookup (apply_op t (Delete p)) (p ++ s) = None) /\
  (forall r, r <> p -> lookup (apply_op t (Delete p)) r = lookup t r).
Proof.
  intros [_ Hc] Hok.
  assert (Hrem : forall r, lookup (apply_op t (Delete p)) r = removeL (lookup t) p r).
  { intros r. unfold delete_ok in Hok. unfold apply_op.
    destruct (lookup t p) as [[|c]|]; try discriminate; [|apply lookup_remove].
    destruct (has_children t p); [discriminate|apply lookup_remove]. }
  assert (Hbelow : forall s, s <> [] -> lookup t (p ++ s) = None).
  { intros s Hs. unfold delete_ok in Hok. destruct (lookup t p) as [[|c]|] eqn:Ep; try discriminate.
    - apply has_children_false; [|exact Hs]. apply negb_true_iff. exact Hok.
    - eapply (closedL_file_leaf (lookup t)); eassumption. }
  split.
  - intros s. rewrite Hrem. unfold removeL. destruct (path_eqb p (p ++ s)) eqn:E; [reflexivity|].
    apply Hbelow. intros ->. rewrite app_nil_r, path_eqb_refl in E. discriminate.
  - intros r Hr. rewrite Hrem. unfold removeL.
    replace (path_eqb p r) with false; [reflexivity|]. symmetry. apply path_eqb_neq. congruence.
Qed.

Theorem rename_refused t p q : rename_ok t p q = false -> apply_op t (Rename p q) = t.
Proof.
  unfold rename_ok, apply_op. destruct (lookup t p) as [n|]; [|reflexivity].
  destruct (path_eqb p q); [reflexivity|]. destruct (is_prefix p q); [reflexivity|].
  destruct (parent_ok t q); [|reflexivity]. cbn [negb andb].
  destruct (lookup t q) as [n'|]; [|discriminate].
  destruct (same_kind n n'); [|reflexivity]. destruct n'; [|reflexivity].
  destruct (has_children t q); [reflexivity|discriminate].
Qed.

Lemma rename_ok_sem t p q :
  closed t -> rename_ok t p q = true ->
  lookup t p <> None /\ ~ pre p q /\ ~ pre q p /\
  (forall k, pre q k -> removeL (lookup t) q k = None) /\
  forall r, lookup (apply_op t (Rename p q)) r = moveL (removeL (lookup t) q) p q r.
Proof.
  intros Hc Hok. unfold rename_ok in Hok.
  destruct (lookup t p) as [n|] eqn:Ep; [|discriminate].
  apply andb_true_iff in Hok as [Hok H4]. apply andb_true_iff in Hok as [Hok H3].
  apply andb_true_iff in Hok as [H1 H2].
  apply negb_true_iff in H1. apply negb_true_iff in H2.
  pose proof H2 as Hpq. apply is_prefix_false_iff in Hpq.
  assert (Hqn : q <> []) by (intros ->; discriminate).
  assert (Hclear : forall k, pre q k -> removeL (lookup t) q k = None).
  { intros k [s Hs]. subst k. unfold removeL. destruct (path_eqb q (q ++ s)) eqn:E; [reflexivity|].
    assert (Hs : s <> []). { intros ->. rewrite app_nil_r, path_eqb_refl in E. discriminate. }
    destruct (lookup t q) as [n'|] eqn:Eq.
    - apply andb_true_iff in H4 as [_ H4]. destruct n' as [|c']; [|discriminate].
      apply has_children_false; [|exact Hs]. apply negb_true_iff. exact H4.
    - apply (closedL_none_below (lookup t) q); try assumption. apply pre_app. }
  split; [congruence|]. split; [exact Hpq|]. split; [|split; [exact Hclear|]].
  - intros Hqp. specialize (Hclear p Hqp). unfold removeL in Hclear.
    destruct (path_eqb q p) eqn:E; [|congruence].
    apply path_eqb_eq in E. subst q. rewrite path_eqb_refl in H1. discriminate.
  - intros r. rewrite apply_op_sem by exact Hc. unfold sem. rewrite Ep, H1, H2.
    change (pokL (lookup t) q) with (parent_ok t q). rewrite H3. cbn [negb].
    destruct (lookup t q) as [n'|] eqn:Eq.
    + apply andb_true_iff in H4 as [H4 H5]. rewrite H4. destruct n' as [|c']; [|discriminate].
      apply negb_true_iff in H5. rewrite H5. reflexivity.
    + unfold moveL, removeL.
      destruct (is_prefix q r) eqn:E1.
      * replace (path_eqb q (p ++ skipn (length q) r)) with false; [reflexivity|].
        symmetry. apply path_eqb_neq. intros Heq. apply Hpq. rewrite Heq. apply pre_app.
      * rewrite (prefix_false_eqb _ _ E1). reflexivity.
Qed.

(* a successful rename/move: the object and everything below it is found at the new path with
   its content, nothing is left at or below the old path, unrelated paths are untouched *)
Theorem rename_moves_subtree t p q :
  wf t -> rename_ok t p q = true ->
  (forall s, lookup (apply_op t (Rename p q)) (q ++ s) = lookup t (p ++ s)) /\
  (forall s, lookup (apply_op t (Rename p q)) (p ++ s) = None) /\
  (forall r, ~ pre p r -> ~ pre q r -> lookup (apply_op t (Rename p q)) r = lookup t r).
Proof.
  intros [_ Hc] Hok.
  destruct (rename_ok_sem t p q Hc Hok) as (Hp & Hpq & Hqp & Hclear & Hsem).
  split; [|split].
  - intros s. rewrite Hsem. unfold moveL. rewrite is_prefix_app, skipn_app_len. unfold removeL.
    replace (path_eqb q (p ++ s)) with false; [reflexivity|].
    symmetry. apply path_eqb_neq. intros Heq. apply Hpq. rewrite Heq. apply pre_app.
  - intros s. rewrite Hsem. unfold moveL.
    replace (is_prefix q (p ++ s)) with false; [rewrite is_prefix_app; reflexivity|].
    symmetry. apply is_prefix_false_iff. intros Hq.
    destruct (pre_comparable q p (p ++ s) Hq (pre_app p s)); tauto.
  - intros r H1 H2. rewrite Hsem. unfold moveL, removeL.
    apply is_prefix_false_iff in H1. apply is_prefix_false_iff in H2. rewrite H1, H2.
    rewrite (prefix_false_eqb _ _ H2). reflexivity.
Qed.

Theorem write_law t p c c0 :
  lookup t p = Some (File c0) ->
  forall r, lookup (apply_op t (Write p c)) r = if path_eqb p r then Some (File c) else lookup t r.
Proof. intros H r. unfold apply_op. rewrite H. apply lookup_set. Qed.

Theorem write_refused t p c :
  (forall c0, lookup t p <> Some (File c0)) -> apply_op t (Write p c) = t.
Proof.
  intros H. unfold apply_op. destruct (lookup t p) as [[|c0]|] eqn:E; try reflexivity.
  exfalso. apply (H c0). reflexivity.
Qed.

Theorem create_law t p c :
  lookup t p = None -> parent_ok t p = true ->
  forall r, lookup (apply_op t (Create p c)) r = if path_eqb p r then Some (File c) else lookup t r.
Proof. intros H1 H2 r. unfold apply_op. rewrite H1, H2. apply lookup_set. Qed.

Theorem mkdir_law t p :
  lookup t p = None -> parent_ok t p = true ->
  forall r, lookup (apply_op t (Mkdir p)) r = if path_eqb p r then Some Dir else lookup t r.
Proof. intros H1 H2 r. unfold apply_op. rewrite H1, H2. apply lookup_set. Qed.

(* no operation changes anything that is not at or below a path it touches *)
Theorem untouched_unchanged t o r :
  wf t -> (forall x, In x (touched o) -> ~ pre x r) -> lookup (apply_op t o) r = lookup t r.
Proof.
  intros [_ Hc] H. apply apply_op_frame; [exact Hc|].
  destruct (domb o r) eqn:E; [|reflexivity]. exfalso.
  apply domb_iff in E as [x [Hx Hpre]]. exact (H x Hx Hpre).
Qed.

(* ------------------------------------------------------------------ (4) view / outside *)
Lemma rel_path_shift root p p' : rel_path root p = Some p' -> p = root ++ p' /\ p' <> [].
Proof.
  unfold rel_path. destruct (strict_prefix root p) eqn:E; [|discriminate].
  intros H. inversion H; subst. apply strict_prefix_iff in E as [s [Hs Hp]]. subst p.
  rewrite skipn_app_len. split; [reflexivity|exact Hs].
Qed.

Lemma rel_op_shift root o ro :
  rel_op root o = Some ro -> o = shift_op root ro /\ ~ In [] (touched ro).
Proof.
  destruct o as [p c|p c|p|p q|p]; simpl.
  - destruct (rel_path root p) as [p'|] eqn:E; [|discriminate]. simpl. intros H. inversion H; subst.
    apply rel_path_shift in E as [-> Hn]. split; [reflexivity|]. simpl. intros [H1|[]]. congruence.
  - destruct (rel_path root p) as [p'|] eqn:E; [|discriminate]. simpl. intros H. inversion H; subst.
    apply rel_path_shift in E as [-> Hn]. split; [reflexivity|]. simpl. intros [H1|[]]. congruence.
  - destruct (rel_path root p) as [p'|] eqn:E; [|discriminate]. simpl. intros H. inversion H; subst.
    apply rel_path_shift in E as [-> Hn]. split; [reflexivity|]. simpl. intros [H1|[]]. congruence.
  - destruct (rel_path root p) as [p'|] eqn:E; [|discriminate].
    destruct (rel_path root q) as [q'|] eqn:E2; [|discriminate]. intros H. inversion H; subst.
    apply rel_path_shift in E as [-> Hn]. apply rel_path_shift in E2 as [-> Hn2].
    split; [reflexivity|]. simpl. intros [H1|[H1|[]]]; congruence.
  - destruct (rel_path root p) as [p'|] eqn:E; [|discriminate]. simpl. intros H. inversion H; subst.
    apply rel_path_shift in E as [-> Hn]. split; [reflexivity|]. simpl. intros [H1|[]]. congruence.
Qed.

Lemma closed_view root t : closed t -> closed (view root t).
Proof.
  intros Hc k Hk. rewrite lookup_view in Hk. destruct k as [|x k]; [congruence|].
  split; [discriminate|]. destruct (Hc _ Hk) as [_ Hd].
  rewrite parent_app in Hd by discriminate.
  destruct (parent (x :: k)) as [|y u] eqn:Eu; [reflexivity|].
  change (dirL (lookup (view root t)) (y :: u) = true).
  change (dirL (lookup t) (root ++ y :: u) = true) in Hd.
  rewrite <- Hd. apply dirL_transfer; [discriminate|apply app_nonnil_r; discriminate|].
  rewrite lookup_view. reflexivity.
Qed.

Lemma nodup_view root t : NoDup (map fst t) -> NoDup (map fst (view root t)).
Proof.
  unfold view. induction t as [|[k n] t IH]; simpl; intros H; [constructor|].
  inversion H as [|x l Hnot Hnd]; subst.
  destruct (strict_prefix root k) eqn:E; simpl; [|apply IH; exact Hnd].
  constructor; [|apply IH; exact Hnd].
  intros Hin. apply Hnot. apply lookup_keys in Hin.
  change (flat_map _ t) with (view root t) in Hin.
  rewrite lookup_view in Hin. apply strict_prefix_iff in E as [s [Hs Hk]]. subst k.
  rewrite skipn_app_len in Hin. destruct s as [|y s]; [congruence|].
  apply lookup_keys. exact Hin.
Qed.

Theorem wf_view root t : wf t -> wf (view root t).
Proof. intros [H1 H2]. split; [apply nodup_view; exact H1|apply closed_view; exact H2]. Qed.

(* applying an operation inside the root and then looking below the root
   = looking below the root and applying the root-relative operation *)
Theorem view_apply_op root t o ro :
  wf t -> is_dir t root = true -> rel_op root o = Some ro ->
  teq (view root (apply_op t o)) (apply_op (view root t) ro).
Proof.
  intros [_ Hc] Hroot Hrel r. apply rel_op_shift in Hrel as [-> Hnil].
  pose proof (closed_view root t Hc) as Hcv.
  rewrite lookup_view. destruct r as [|x r].
  - symmetry. apply (closedL_root (lookup (apply_op (view root t) ro))).
    apply closed_apply_op. exact Hcv.
  - destruct (domb ro (x :: r)) eqn:E.
    + symmetry. apply local_shift; try assumption.
      intros s Hs _. rewrite lookup_view. destruct s; [congruence|reflexivity].
    + rewrite apply_op_frame by (try exact Hc; rewrite domb_shift; exact E).
      rewrite apply_op_frame by assumption. rewrite lookup_view. reflexivity.
Qed.

Theorem view_apply_op_same_tree root t o ro :
  wf t -> is_dir t root = true -> rel_op root o = Some ro ->
  same_tree (view root (apply_op t o)) (apply_op (view root t) ro) = true.
Proof.
  intros Hw Hroot Hrel. apply same_tree_teq.
  - apply wf_view, wf_apply_op. exact Hw.
  - apply wf_apply_op, wf_view. exact Hw.
  - apply view_apply_op; assumption.
Qed.

(* an operation inside the root leaves everything outside the root as it was *)
Theorem outside_apply_op root t o ro :
  wf t -> rel_op root o = Some ro -> teq (outside root (apply_op t o)) (outside root t).
Proof.
  intros [_ Hc] Hrel r. apply rel_op_shift in Hrel as [-> Hnil].
  rewrite !lookup_outside. destruct (strict_prefix root r) eqn:E; [reflexivity|].
  apply apply_op_frame; [exact Hc|].
  destruct (domb (shift_op root ro) r) eqn:Ed; [|reflexivity]. exfalso.
  apply domb_iff in Ed as [x [Hx [s Hs]]]. rewrite touched_shift in Hx.
  apply in_map_iff in Hx as [x' [Hx' Hin]]. subst x r.
  assert (Hne : x' <> []) by (intros ->; contradiction).
  rewrite <- app_assoc in E. rewrite strict_prefix_app in E; [discriminate|].
  apply app_nonnil_l. exact Hne.
Qed.

(* ------------------------------------------------------------------ examples (non-vacuity) *)
Local Open Scope N_scope.

(* /1 (folder) /1/2 (folder) /1/2/3 (file 10) /1/4 (file 11) /5 (folder) /5/6 (file 12) /7 (file 13) *)
Definition ex_base : tree :=
  [([1], Dir); ([1;2], Dir); ([1;2;3], File 10); ([1;4], File 11);
   ([5], Dir); ([5;6], File 12); ([7], File 13)].
(* user A renames folder /1/2 to /1/8, then writes /1/8/3;  user B deletes /5/6, then /5, creates /9 *)
Definition ex_xs : list op := [Rename [1;2] [1;8]; Write [1;8;3] 20].
Definition ex_ys : list op := [Delete [5;6]; Delete [5]; Create [9] 21].
Definition ex_zs : list op :=
  [Delete [5;6]; Rename [1;2] [1;8]; Delete [5]; Write [1;8;3] 20; Create [9] 21].

Example ex_base_wf : wf ex_base.
Proof. apply wfb_sound. vm_compute. reflexivity. Qed.
Example ex_disjoint : disjoint ex_xs ex_ys = true.
Proof. vm_compute. reflexivity. Qed.
Example ex_interleave : interleave ex_xs ex_ys ex_zs.
Proof. unfold ex_xs, ex_ys, ex_zs. repeat constructor. Qed.
Example ex_result :
  canon (apply_ops ex_base ex_zs) =
  [([1], Dir); ([1;4], File 11); ([1;8], Dir); ([1;8;3], File 20); ([7], File 13); ([9], File 21)].
Proof. vm_compute. reflexivity. Qed.
Example ex_equal : same_tree (apply_ops ex_base ex_zs) (merge3 ex_base ex_xs ex_ys) = true.
Proof. vm_compute. reflexivity. Qed.
Example ex_equal_by_theorem : same_tree (apply_ops ex_base ex_zs) (merge3 ex_base ex_xs ex_ys) = true.
Proof. apply interleave_same_tree; [exact ex_disjoint|exact ex_base_wf|exact ex_interleave]. Qed.
Example ex_rename_ok : rename_ok ex_base [1;2] [1;8] = true.
Proof. vm_compute. reflexivity. Qed.
Example ex_delete_ok : delete_ok (apply_op ex_base (Delete [5;6])) [5] = true.
Proof. vm_compute. reflexivity. Qed.
Example ex_view :
  rel_op [1] (Rename [1;2] [1;8]) = Some (Rename [2] [8]) /\ is_dir ex_base [1] = true.
Proof. vm_compute. split; reflexivity. Qed.

(* unique keys alone are NOT preserved: a tree with an orphan (/2/5 without /2) gets a duplicate
   key when /0 is renamed to /2 — this is why wf includes parent-closedness *)
Example nodup_alone_not_preserved :
  let t := [([0], Dir); ([0;5], File 1); ([2;5], File 2)] in
  nodupb (map fst t) = true /\ nodupb (map fst (apply_op t (Rename [0] [2]))) = false.
Proof. vm_compute. split; reflexivity. Qed.

(* without independence the order matters: Delete of an empty folder vs Create inside it *)
Example dependent_ops_do_not_commute :
  let t := [([1], Dir)] in
  indep (Delete [1]) (Create [1;2] 5) = false /\
  same_tree (apply_op (apply_op t (Delete [1])) (Create [1;2] 5))
            (apply_op (apply_op t (Create [1;2] 5)) (Delete [1])) = false.
Proof. vm_compute. split; reflexivity. Qed.

Print Assumptions wfb_sound.
Print Assumptions wf_apply_op.
Print Assumptions same_tree_teq.
Print Assumptions apply_op_teq.
Print Assumptions apply_op_comm.
Print Assumptions interleave_independent.
Print Assumptions interleave_same_tree.
Print Assumptions interleavings_agree.
Print Assumptions delete_stays_deleted.
Print Assumptions rename_moves_subtree.
Print Assumptions untouched_unchanged.
Print Assumptions view_apply_op.
Print Assumptions view_apply_op_same_tree.
Print Assumptions outside_apply_op.
Print Assumptions delete_refused.
Print Assumptions rename_refused.
Print Assumptions write_law.
Print Assumptions write_refused.
Print Assumptions create_law.
Print Assumptions mkdir_law.
Print Assumptions wf_view.
