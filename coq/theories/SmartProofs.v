(* SmartProofs.v — C20: theorems about the GATE layer of SmartModel.v (the mechanism of cloudsync/smartsync.py),
   for ALL entry tables, request / exclude sets, local provider contents and auto-sync predicates. *)
From Coq Require Import NArith List Bool Lia.
From CS Require Import Sx TreeModel TreePaths SmartModel.
Import ListNotations.

(* ------------------------------------------------------------------ small sets *)
Lemma pmem_In p l : pmem p l = true <-> In p l.
Proof.
  unfold pmem. rewrite existsb_exists. split.
  - intros [q [Hq He]]. apply path_eqb_eq in He. subst. exact Hq.
  - intros H. exists p. split; [exact H|apply path_eqb_refl].
Qed.
Lemma pmem_cons p q l : pmem p (q :: l) = path_eqb p q || pmem p l.
Proof. reflexivity. Qed.
Lemma pmem_padd p q l : pmem p (padd q l) = path_eqb p q || pmem p l.
Proof.
  unfold padd. destruct (pmem q l) eqn:Hq; [|apply pmem_cons].
  destruct (path_eqb p q) eqn:E; [|reflexivity].
  apply path_eqb_eq in E. subst. simpl. exact Hq.
Qed.
Lemma pmem_pdel p q l : pmem p (pdel q l) = negb (path_eqb q p) && pmem p l.
Proof.
  unfold pdel. induction l as [|x l IH]; simpl.
  - rewrite andb_false_r. reflexivity.
  - destruct (path_eqb q x) eqn:Eqx; simpl.
    + rewrite IH. apply path_eqb_eq in Eqx. subst x. rewrite (path_eqb_sym p q).
      destruct (path_eqb q p); reflexivity.
    + rewrite IH. destruct (path_eqb p x) eqn:Epx; simpl.
      * apply path_eqb_eq in Epx. subst x. rewrite Eqx. reflexivity.
      * reflexivity.
Qed.
Lemma pmem_padd_same p l : pmem p (padd p l) = true.
Proof. rewrite pmem_padd, path_eqb_refl. reflexivity. Qed.
Lemma pmem_pdel_same p l : pmem p (pdel p l) = false.
Proof. rewrite pmem_pdel, path_eqb_refl. reflexivity. Qed.

Lemma kmem_In k l : kmem k l = true <-> In k l.
Proof.
  unfold kmem. rewrite existsb_exists. split.
  - intros [q [Hq He]]. apply N.eqb_eq in He. subst. exact Hq.
  - intros H. exists k. split; [exact H|apply N.eqb_refl].
Qed.
Lemma kmem_app k a b : kmem k (a ++ b) = kmem k a || kmem k b.
Proof. unfold kmem. apply existsb_app. Qed.
Lemma kmem_kadd k q l : kmem k (kadd q l) = N.eqb k q || kmem k l.
Proof.
  unfold kadd. destruct (kmem q l) eqn:Hq.
  - destruct (N.eqb k q) eqn:E; [|reflexivity]. apply N.eqb_eq in E. subst. simpl. exact Hq.
  - rewrite kmem_app. simpl. rewrite orb_false_r. apply orb_comm.
Qed.
Lemma kmem_kdel k q l : kmem k (kdel q l) = negb (N.eqb q k) && kmem k l.
Proof.
  unfold kdel. induction l as [|x l IH]; simpl.
  - rewrite andb_false_r. reflexivity.
  - destruct (N.eqb q x) eqn:Eqx; simpl.
    + rewrite IH. apply N.eqb_eq in Eqx. subst x. rewrite (N.eqb_sym k q).
      destruct (N.eqb q k); reflexivity.
    + rewrite IH. destruct (N.eqb k x) eqn:Ekx; simpl.
      * apply N.eqb_eq in Ekx. subst x. rewrite Eqx. reflexivity.
      * reflexivity.
Qed.

(* ------------------------------------------------------------------ tables *)
Lemma find_ent_key l k e : find_ent l k = Some e -> g_key e = k.
Proof.
  induction l as [|x l IH]; simpl; [discriminate|].
  destruct (N.eqb (g_key x) k) eqn:E; [|exact IH].
  intros H. inversion H; subst. apply N.eqb_eq. exact E.
Qed.
Lemma find_put_other l e k : g_key e <> k -> find_ent (put_ent l e) k = find_ent l k.
Proof.
  intros Hne. induction l as [|x l IH]; simpl; [reflexivity|].
  destruct (N.eqb (g_key x) (g_key e)) eqn:E.
  - apply N.eqb_eq in E. destruct (N.eqb (g_key e) k) eqn:E2; [apply N.eqb_eq in E2; contradiction|].
    rewrite E. rewrite E2. exact IH.
  - destruct (N.eqb (g_key x) k); [reflexivity|exact IH].
Qed.
Lemma find_put_same l e e0 : find_ent l (g_key e) = Some e0 -> find_ent (put_ent l e) (g_key e) = Some e.
Proof.
  induction l as [|x l IH]; simpl; [discriminate|].
  destruct (N.eqb (g_key x) (g_key e)) eqn:E.
  - intros _. rewrite N.eqb_refl. reflexivity.
  - rewrite E. exact IH.
Qed.

Lemma find_put_key l e e0 k : g_key e = k -> find_ent l k = Some e0 -> find_ent (put_ent l e) k = Some e.
Proof. intros Hk. subst k. apply find_put_same. Qed.

(* what the state-level request does to everything that is not its own entry *)
Lemma state_request_legacy_other w st e k :
  g_key e <> k ->
  find_ent (g_ents (g_state_request_legacy w st e)) k = find_ent (g_ents st) k
  /\ kmem k (g_req (g_state_request_legacy w st e)) = kmem k (g_req st)
  /\ (kmem k (g_exc (g_state_request_legacy w st e)) = kmem k (g_exc st)).
Proof.
  intros Hne. unfold g_state_request_legacy; simpl. repeat split.
  - apply find_put_other. destruct (match g_path (g_loc e) with Some p => _ | None => false end); simpl; exact Hne.
  - rewrite kmem_kadd. destruct (N.eqb k (g_key e)) eqn:E; [apply N.eqb_eq in E; congruence|reflexivity].
  - rewrite kmem_kdel. destruct (N.eqb (g_key e) k) eqn:E; [apply N.eqb_eq in E; congruence|reflexivity].
Qed.
Lemma state_request_other w st e k :
  g_key e <> k ->
  find_ent (g_ents (g_state_request w st e)) k = find_ent (g_ents st) k
  /\ kmem k (g_req (g_state_request w st e)) = kmem k (g_req st)
  /\ (kmem k (g_exc (g_state_request w st e)) = kmem k (g_exc st)).
Proof.
  intros Hne. unfold g_state_request. destruct (g_dir e); [repeat split|apply state_request_legacy_other; exact Hne].
Qed.

Section GateThms.
Variable auto : path -> bool.
Variable w : gworld.

(* ---- the per-entry decision, as a specification of offer_one *)
Definition offered (st : gst) (k : N) (e : gent) : bool :=
  negb (kmem k (g_exc st) && negb (g_changed (g_loc e)))
  && (kmem k (g_req st) || g_dir e || ((g_changed (g_rem e) || g_changed (g_loc e)) && negb (g_latest e))
      || (isnone (g_oid (g_loc e)) && match g_path (g_rem e) with Some p => auto p | None => false end)).

Lemma offer_one_out st out k e :
  find_ent (g_ents st) k = Some e ->
  snd (offer_one auto w (st, out) k) = if offered st k e then out ++ [k] else out.
Proof.
  intros Hf. unfold offer_one, offered. rewrite Hf.
  destruct (kmem k (g_exc st) && negb (g_changed (g_loc e))); simpl; [reflexivity|].
  destruct (kmem k (g_req st)); simpl; [reflexivity|].
  destruct (g_dir e); simpl; [reflexivity|].
  destruct ((g_changed (g_rem e) || g_changed (g_loc e)) && negb (g_latest e)); simpl; [reflexivity|].
  destruct (isnone (g_oid (g_loc e))); simpl; [|reflexivity].
  destruct (g_path (g_rem e)) as [p|]; [|reflexivity].
  destruct (auto p); reflexivity.
Qed.

(* the only way the filter changes the state is the state-level request of the entry being examined, and only
   when that entry is remote-only, not requested, not a folder, and matched by the predicate *)
Lemma offer_one_state st out k :
  fst (offer_one auto w (st, out) k) = st \/
  exists e p, find_ent (g_ents st) k = Some e /\ g_path (g_rem e) = Some p /\ auto p = true /\
              g_oid (g_loc e) = None /\ kmem k (g_req st) = false /\
              fst (offer_one auto w (st, out) k) = g_state_request w st e.
Proof.
  unfold offer_one. destruct (find_ent (g_ents st) k) as [e|] eqn:Hf; [|left; reflexivity].
  destruct (kmem k (g_exc st) && negb (g_changed (g_loc e))); [left; reflexivity|].
  destruct (kmem k (g_req st)) eqn:Hr; [left; reflexivity|].
  destruct (g_dir e); [left; reflexivity|].
  destruct ((g_changed (g_rem e) || g_changed (g_loc e)) && negb (g_latest e)); [left; reflexivity|].
  destruct (isnone (g_oid (g_loc e))) eqn:Ho; [|left; reflexivity].
  destruct (g_path (g_rem e)) as [p|] eqn:Hp; [|left; reflexivity].
  destruct (auto p) eqn:Ha; [|left; reflexivity].
  right. exists e, p. repeat split; try assumption; try reflexivity.
  destruct (g_oid (g_loc e)); [discriminate|reflexivity].
Qed.

Lemma out_monotone ks : forall st out x,
  In x out -> In x (snd (fold_left (offer_one auto w) ks (st, out))).
Proof.
  induction ks as [|k ks IH]; intros st out x Hx; cbn [fold_left]; [exact Hx|].
  destruct (offer_one auto w (st, out) k) as [st1 out1] eqn:Ho.
  apply IH.
  assert (H: out1 = snd (offer_one auto w (st, out) k)) by (rewrite Ho; reflexivity).
  rewrite H. unfold offer_one.
  destruct (find_ent (g_ents st) k) as [e|]; [|exact Hx].
  repeat match goal with
         | |- In x (snd (if ?c then _ else _)) => destruct c
         | |- In x (snd (match ?c with Some _ => _ | None => _ end)) => destruct c
         end; simpl; try exact Hx; try (apply in_or_app; left; exact Hx).
Qed.

(* ---- G1: an unrequested, unmatched remote-only FILE never reaches the sync step *)
Definition quiet_entry (st : gst) (k : N) (e : gent) : Prop :=
  find_ent (g_ents st) k = Some e /\ kmem k (g_req st) = false.

Lemma offer_one_keeps st out k0 k e :
  g_oid (g_loc e) = None ->
  match g_path (g_rem e) with Some p => auto p = false | None => True end ->
  quiet_entry st k e -> quiet_entry (fst (offer_one auto w (st, out) k0)) k e.
Proof.
  intros Hoid Hauto [Hf Hr].
  destruct (offer_one_state st out k0) as [Hs|[e0 [p [Hf0 [Hp [Ha [_ [_ Hs]]]]]]]]; rewrite Hs; [split; assumption|].
  assert (Hk: g_key e0 = k0) by (eapply find_ent_key; exact Hf0).
  destruct (N.eq_dec k0 k) as [Heq|Hne].
  - assert (He: e0 = e) by congruence. subst e0. rewrite Hp in Hauto. congruence.
  - destruct (state_request_other w st e0 k) as [H1 [H2 _]]; [congruence|].
    split; [rewrite H1; exact Hf|rewrite H2; exact Hr].
Qed.

Lemma filter_keeps ks : forall st out k e,
  g_oid (g_loc e) = None ->
  match g_path (g_rem e) with Some p => auto p = false | None => True end ->
  quiet_entry st k e -> quiet_entry (fst (fold_left (offer_one auto w) ks (st, out))) k e.
Proof.
  induction ks as [|k0 ks IH]; intros st out k e Hoid Hauto Hq; cbn [fold_left]; [exact Hq|].
  destruct (offer_one auto w (st, out) k0) as [st1 out1] eqn:Ho.
  apply IH; try assumption.
  replace st1 with (fst (offer_one auto w (st, out) k0)) by (rewrite Ho; reflexivity).
  apply offer_one_keeps; assumption.
Qed.

Theorem unrequested_never_downloaded st k e :
  find_ent (g_ents st) k = Some e ->
  g_oid (g_loc e) = None ->                       (* exists only remotely *)
  g_dir e = false ->                              (* a file *)
  kmem k (g_req st) = false ->                    (* not requested *)
  match g_path (g_rem e) with Some p => auto p = false | None => True end ->   (* not matched *)
  reaches_sync auto w st k = false.
Proof.
  intros Hf Hoid Hdir Hr Hauto. unfold reaches_sync, changeset_filter.
  destruct (fold_left (offer_one auto w) (g_changeset st) (st, [])) as [st' out] eqn:Hfold.
  destruct (filter_keeps (g_changeset st) st [] k e Hoid Hauto (conj Hf Hr)) as [Hf' Hr'].
  rewrite Hfold in Hf', Hr'. simpl in Hf', Hr'. rewrite Hf'.
  assert (Hk: g_key e = k) by (eapply find_ent_key; exact Hf).
  unfold pre_sync, local_file. rewrite Hk, Hoid, Hr', Hdir. simpl. rewrite orb_true_r. apply andb_false_r.
Qed.

(* and the filter leaves such an entry unrequested: no later step can take it for a requested one *)
Theorem filter_does_not_request st k e :
  find_ent (g_ents st) k = Some e -> g_oid (g_loc e) = None -> kmem k (g_req st) = false ->
  match g_path (g_rem e) with Some p => auto p = false | None => True end ->
  kmem k (g_req (fst (changeset_filter auto w st))) = false.
Proof.
  intros Hf Hoid Hr Hauto. unfold changeset_filter.
  destruct (filter_keeps (g_changeset st) st [] k e Hoid Hauto (conj Hf Hr)) as [_ H]. exact H.
Qed.

(* ---- G2: folders, requested entries, entries with a live local file pass the gate; with a fresh local change
        they are offered whatever the exclude set says *)
Theorem gate_passes st e :
  g_discarded e = false ->
  g_dir e = true \/ kmem (g_key e) (g_req st) = true \/ local_file w e = true ->
  pre_sync w st e = false.
Proof.
  intros Hd H. unfold pre_sync. rewrite Hd. simpl. apply negb_false_iff.
  destruct H as [H|[H|H]]; rewrite H; simpl; try reflexivity; try apply orb_true_r.
  destruct (local_file w e); reflexivity.
Qed.

Definition must_offer (st : gst) (k : N) (e : gent) : Prop :=
  find_ent (g_ents st) k = Some e /\
  (kmem k (g_exc st) = false \/ g_changed (g_loc e) = true) /\
  (kmem k (g_req st) = true \/ g_dir e = true \/
   ((g_changed (g_rem e) || g_changed (g_loc e)) = true /\ g_latest e = false)).

Lemma must_offer_offered st k e : must_offer st k e -> offered st k e = true.
Proof.
  intros [_ [Hx Hy]]. unfold offered. apply andb_true_iff. split.
  - apply negb_true_iff. destruct Hx as [Hx|Hx]; rewrite Hx; simpl; [reflexivity|apply andb_false_r].
  - destruct Hy as [Hy|[Hy|[Hy1 Hy2]]].
    + rewrite Hy. reflexivity.
    + rewrite Hy. rewrite orb_true_r. reflexivity.
    + rewrite Hy1, Hy2. simpl. rewrite !orb_true_r. reflexivity.
Qed.

Lemma must_offer_kept st out k0 k e :
  k0 <> k -> must_offer st k e -> must_offer (fst (offer_one auto w (st, out) k0)) k e.
Proof.
  intros Hne [Hf [Hx Hy]].
  destruct (offer_one_state st out k0) as [Hs|[e0 [p [Hf0 [_ [_ [_ [_ Hs]]]]]]]]; rewrite Hs; [repeat split; assumption|].
  assert (Hk: g_key e0 = k0) by (eapply find_ent_key; exact Hf0).
  destruct (state_request_other w st e0 k) as [H1 [H2 H3]]; [congruence|].
  split; [rewrite H1; exact Hf|]. split; [rewrite H3; exact Hx|rewrite H2; exact Hy].
Qed.

Lemma offered_fold ks : forall st out k e,
  In k ks -> must_offer st k e -> In k (snd (fold_left (offer_one auto w) ks (st, out))).
Proof.
  induction ks as [|k0 ks IH]; intros st out k e Hin Hm; [destruct Hin|].
  cbn [fold_left]. destruct (offer_one auto w (st, out) k0) as [st1 out1] eqn:Ho.
  destruct (N.eq_dec k0 k) as [Heq|Hne].
  - subst k0. apply out_monotone.
    replace out1 with (snd (offer_one auto w (st, out) k)) by (rewrite Ho; reflexivity).
    destruct Hm as [Hf Hrest]. rewrite (offer_one_out st out k e Hf).
    rewrite (must_offer_offered st k e (conj Hf Hrest)). apply in_or_app. right. left. reflexivity.
  - destruct Hin as [Hin|Hin]; [contradiction|].
    apply (IH st1 out1 k e Hin).
    replace st1 with (fst (offer_one auto w (st, out) k0)) by (rewrite Ho; reflexivity).
    apply must_offer_kept; assumption.
Qed.

Theorem offered_when_pending st k e :
  In k (g_changeset st) -> must_offer st k e -> In k (snd (changeset_filter auto w st)).
Proof. intros Hin Hm. unfold changeset_filter. eapply offered_fold; eassumption. Qed.
End GateThms.

(* ---- G3: un-request issues no remote delete, and leaves an entry that the sync step cannot read as a local deletion *)
Lemma refresh_keeps w e :
  g_key (g_refresh_local w e) = g_key e /\ g_path (g_loc (g_refresh_local w e)) = g_path (g_loc e) /\
  g_rem (g_refresh_local w e) = g_rem e.
Proof.
  unfold g_refresh_local. simpl. repeat split.
  destruct (g_oid (g_loc e)) as [o|]; [destruct (kmem o (w_loids w))|]; reflexivity.
Qed.
Lemma zero_orphan_keeps a b s :
  g_oid (zero_orphan a b s) = g_oid s /\ g_exists (zero_orphan a b s) = g_exists s /\ g_path (zero_orphan a b s) = g_path s.
Proof. unfold zero_orphan. destruct (a || b); repeat split. Qed.
Lemma with_changed_keeps e :
  g_key (with_local_changed e) = g_key e /\ g_path (g_loc (with_local_changed e)) = g_path (g_loc e) /\
  g_oid (g_rem (with_local_changed e)) = g_oid (g_rem e) /\ g_exists (g_rem (with_local_changed e)) = g_exists (g_rem e) /\
  g_path (g_rem (with_local_changed e)) = g_path (g_rem e).
Proof.
  unfold with_local_changed. cbn [g_key g_loc g_rem g_path].
  destruct (zero_orphan_keeps (has_oid (g_loc e)) (pending (g_rem e)) (g_rem e)) as [A [B C]]. repeat split; assumption.
Qed.

(* [leaf]: the local object of the entry is not a non-empty folder (deleting one raises and nothing is cleared) *)
Definition local_leaf (w : gworld) (e : gent) : Prop :=
  forall p, g_path (g_loc e) = Some p -> existsb (strict_prefix p) (w_lpaths w) = false.

Theorem unrequest_never_deletes_remote w bp st e st' acts :
  g_unrequest w bp st e = (st', acts) ->
  (forall a, In a acts -> a = GPushLocal (g_key e) \/ exists p, a = GDeleteLocal p /\ g_path (g_loc e) = Some p)
  /\ (kmem (g_key e) (g_req st) = true -> local_leaf w e ->
      kmem (g_key e) (g_req st') = false /\ kmem (g_key e) (g_exc st') = true)
  /\ (kmem (g_key e) (g_req st) = true -> local_leaf w e ->
      find_ent (g_ents st) (g_key e) = Some e -> g_path (g_loc e) <> None ->
      exists e', find_ent (g_ents st') (g_key e) = Some e' /\
                 g_oid (g_loc e') = None /\ is_local_deletion e' = false /\
                 g_oid (g_rem e') = g_oid (g_rem e) /\ g_exists (g_rem e') = g_exists (g_rem e) /\
                 g_path (g_rem e') = g_path (g_rem e))
  /\ (kmem (g_key e) (g_req st) = false -> g_req st' = g_req st /\ g_exc st' = g_exc st).
Proof.
  unfold g_unrequest.
  destruct (bp && negb (kmem (g_key e) (g_req st))) eqn:Hbp.
  { intros H. inversion H; subst; clear H. apply andb_true_iff in Hbp as [_ Hbp]. apply negb_true_iff in Hbp.
    split; [intros a []|]. split; [congruence|]. split; [congruence|]. intros _. split; reflexivity. }
  clear Hbp.
  set (e1 := g_refresh_local w e).
  set (e2 := if needs_push e1 then with_local_changed e1 else e1).
  assert (K: g_key e2 = g_key e /\ g_path (g_loc e2) = g_path (g_loc e) /\
             g_oid (g_rem e2) = g_oid (g_rem e) /\ g_exists (g_rem e2) = g_exists (g_rem e) /\ g_path (g_rem e2) = g_path (g_rem e)).
  { destruct (refresh_keeps w e) as [A [B C]]. unfold e2. fold e1 in A, B, C.
    destruct (needs_push e1); [destruct (with_changed_keeps e1) as [A' [B' [C1 [C2 C3]]]]|]; repeat split; congruence. }
  destruct K as [K1 [K2 [K3 [K4 K5]]]]. rewrite K1, K2.
  assert (Hpush: forall a, In a (if needs_push e1 then [GPushLocal (g_key e)] else []) -> a = GPushLocal (g_key e)).
  { intros a Ha. destruct (needs_push e1); [|destruct Ha]. destruct Ha as [Ha|[]]. symmetry. exact Ha. }
  intros H. destruct (kmem (g_key e) (g_req st)) eqn:Hr.
  - destruct (g_path (g_loc e)) as [p|] eqn:Hp.
    + destruct (pmem p (w_lpaths w) && existsb (strict_prefix p) (w_lpaths w)) eqn:Hkids; inversion H; subst; clear H.
      * apply andb_true_iff in Hkids as [_ Hkids].
        split; [intros a Ha; left; apply Hpush; exact Ha|].
        split; [intros _ Hl; rewrite (Hl p Hp) in Hkids; discriminate|].
        split; [intros _ Hl; rewrite (Hl p Hp) in Hkids; discriminate|discriminate].
      * split; [|split; [|split; [|discriminate]]].
        -- intros a Ha. apply in_app_or in Ha. destruct Ha as [Ha|Ha]; [left; apply Hpush; exact Ha|].
           destruct (pmem p (w_lpaths w)); [|destruct Ha]. destruct Ha as [Ha|[]].
           right. exists p. split; [symmetry; exact Ha|reflexivity].
        -- intros _ _. simpl. rewrite kmem_kdel, N.eqb_refl. simpl. rewrite kmem_kadd, N.eqb_refl. split; reflexivity.
        -- intros _ _ Hf _. simpl. eexists. split.
           ++ eapply find_put_key; [|exact Hf]. reflexivity.
           ++ simpl. repeat split; try assumption; try reflexivity. unfold is_local_deletion. simpl. apply andb_false_r.
    + inversion H; subst; clear H. split; [|split; [|split; [|discriminate]]].
      * intros a Ha. left. apply Hpush. exact Ha.
      * intros _ _. simpl. rewrite kmem_kdel, N.eqb_refl. simpl. rewrite kmem_kadd, N.eqb_refl. split; reflexivity.
      * intros _ _ _ Hn. exfalso. apply Hn. reflexivity.
  - inversion H; subst; clear H. split; [|split; [discriminate|split; [discriminate|intros _; split; reflexivity]]].
    intros a Ha. left. apply Hpush. exact Ha.
Qed.

(* ---- G5: request registers the entry, un-excludes it, marks its remote side changed (and forgets a local side
        whose file is gone), and processes changed existing ancestors first *)
Lemma fold_last_some {A} (f : A -> bool) l : forall a y,
  fold_left (fun acc x => if f x then Some x else acc) l a = Some y -> a = Some y \/ (In y l /\ f y = true).
Proof.
  induction l as [|x l IH]; intros a y H; simpl in H; [left; exact H|].
  apply IH in H. destruct H as [H|[H1 H2]].
  - destruct (f x) eqn:Hf; [|left; exact H]. inversion H; subst. right. split; [left; reflexivity|exact Hf].
  - right. split; [right; exact H1|exact H2].
Qed.

Definition pc_ok (e : gent) : bool := g_changed (g_rem e) && ex_is_exists (g_exists (g_rem e)).

Lemma parent_conflict_spec st p pc :
  parent_conflict st p = Some pc ->
  pc_ok pc = true /\ exists q, In q (ancestors p) /\ In pc (lookup_rpath st q).
Proof.
  unfold parent_conflict. generalize (ancestors p) as qs. intros qs.
  assert (G: forall qs a, fold_left (fun acc q => fold_left (fun acc e => if pc_ok e then Some e else acc)
                                                            (lookup_rpath st q) acc) qs a = Some pc ->
             a = Some pc \/ (pc_ok pc = true /\ exists q, In q qs /\ In pc (lookup_rpath st q))).
  { induction qs0 as [|q qs0 IH]; intros a H; simpl in H; [left; exact H|].
    apply IH in H. destruct H as [H|[H1 [q' [H2 H3]]]].
    - apply fold_last_some in H. destruct H as [H|[H1 H2]]; [left; exact H|].
      right. split; [exact H2|]. exists q. split; [left; reflexivity|exact H1].
    - right. split; [exact H1|]. exists q'. split; [right; exact H2|exact H3]. }
  intros H. apply G in H. destruct H as [H|H]; [discriminate|exact H].
Qed.

Lemma lookup_rpath_In st q e : In e (lookup_rpath st q) ->
  In e (g_ents st) /\ g_path (g_rem e) = Some q /\ g_discarded e = false /\ g_conflicted e = false.
Proof.
  unfold lookup_rpath. rewrite filter_In. intros [Hin H].
  apply andb_true_iff in H as [H Hc]. apply andb_true_iff in H as [H Hd]. apply andb_true_iff in H as [Hp _].
  split; [exact Hin|]. split.
  - destruct (g_path (g_rem e)) as [p|]; simpl in Hp; [|discriminate]. apply path_eqb_eq in Hp. subst. reflexivity.
  - split; [apply negb_true_iff; exact Hd|apply negb_true_iff; exact Hc].
Qed.

Lemma ancestors_fuel_strict n : forall p q, In q (ancestors_fuel n p) -> strict_prefix q p = true.
Proof.
  assert (Hrl: forall p : path, p <> [] -> strict_prefix (removelast p) p = true).
  { intros p Hp. destruct (exists_last Hp) as [l [a Hl]]. subst p. rewrite removelast_last.
    unfold strict_prefix. apply andb_true_iff. split.
    - apply is_prefix_iff. exists [a]. reflexivity.
    - apply negb_true_iff. apply path_eqb_neq. intros H.
      assert (Hlen: length l = length (l ++ [a])) by (rewrite <- H; reflexivity).
      rewrite app_length in Hlen. simpl in Hlen. lia. }
  assert (Htr: forall a b c : path, strict_prefix a b = true -> strict_prefix b c = true -> strict_prefix a c = true).
  { intros a b c H1 H2. unfold strict_prefix in *. apply andb_true_iff in H1 as [H1 N1]. apply andb_true_iff in H2 as [H2 N2].
    apply is_prefix_iff in H1 as [s1 E1]. apply is_prefix_iff in H2 as [s2 E2]. subst.
    apply andb_true_iff. split.
    - apply is_prefix_iff. exists (s1 ++ s2). rewrite app_assoc. reflexivity.
    - apply negb_true_iff. apply path_eqb_neq. intros H.
      apply negb_true_iff in N1. apply path_eqb_neq in N1. apply N1.
      assert (Hlen: length a = length ((a ++ s1) ++ s2)) by (rewrite <- H; reflexivity).
      rewrite !app_length in Hlen. destruct s1; [rewrite app_nil_r; reflexivity|simpl in Hlen; lia]. }
  induction n as [|n IH]; intros p q H; simpl in H; [destruct H|].
  destruct p as [|x p]; [destruct H|].
  destruct H as [H|H].
  - subst q. apply Hrl. discriminate.
  - eapply Htr; [apply IH; exact H|apply Hrl; discriminate].
Qed.

Lemma parent_conflicts_from_spec fuel : forall st cur acc k,
  In k (parent_conflicts_from fuel st cur acc) ->
  In k acc \/ exists pc, g_key pc = k /\ In pc (g_ents st) /\ pc_ok pc = true /\ g_discarded pc = false.
Proof.
  induction fuel as [|f IH]; intros st cur acc k H; simpl in H; [left; exact H|].
  destruct (g_path (g_rem cur)) as [p|]; [|left; exact H].
  destruct (parent_conflict st p) as [pc|] eqn:Hpc; [|left; exact H].
  destruct (opt_path_eqb (g_path (g_rem pc)) (Some p)); [left; exact H|].
  apply IH in H. destruct H as [[H|H]|H]; [|left; exact H|right; exact H].
  right. apply parent_conflict_spec in Hpc. destruct Hpc as [Hok [q [_ Hin]]].
  apply lookup_rpath_In in Hin. destruct Hin as [Hin [_ [Hd _]]].
  exists pc. repeat split; assumption.
Qed.

Theorem parents_first st e k :
  In k (request_plan st e) ->
  k = g_key e \/ exists pc, g_key pc = k /\ In pc (g_ents st) /\ pc_ok pc = true /\ g_discarded pc = false.
Proof.
  unfold request_plan. intros H. apply in_app_or in H. destruct H as [H|[H|[]]]; [|left; symmetry; exact H].
  apply parent_conflicts_from_spec in H. destruct H as [[]|H]. right. exact H.
Qed.

Lemma request_core_registers w st e st' plan :
  find_ent (g_ents st) (g_key e) = Some e ->
  g_request_core g_state_request_legacy w st e = (st', plan) ->
  (* the request is registered whether or not the call returns *)
  kmem (g_key e) (g_req st') = true /\ kmem (g_key e) (g_exc st') = false /\
  (* it raises exactly when the remote path of the entry is unknown; then the remote side is NOT marked changed here *)
  (plan = None <-> g_path (g_rem e) = None) /\
  (forall pl, plan = Some pl ->
     (exists pre, pl = pre ++ [g_key e]) /\
     exists e', find_ent (g_ents st') (g_key e) = Some e' /\ g_changed (g_rem e') = true /\ g_latest e' = false /\
                g_oid (g_rem e') = g_oid (g_rem e) /\
                (forall p, g_path (g_loc e) = Some p -> pmem p (w_lpaths w) = false ->
                           g_oid (g_loc e') = None /\ g_sync_hash (g_rem e') = None /\ g_sync_path (g_rem e') = None)).
Proof.
  intros Hf. unfold g_request_core.
  set (st1 := g_state_request_legacy w st e).
  assert (H1: exists e1, find_ent (g_ents st1) (g_key e) = Some e1 /\ g_key e1 = g_key e /\
                         g_oid (g_rem e1) = g_oid (g_rem e) /\ g_path (g_rem e1) = g_path (g_rem e) /\
                         (forall p, g_path (g_loc e) = Some p -> pmem p (w_lpaths w) = false ->
                                    g_loc e1 = cleared /\ g_sync_hash (g_rem e1) = None /\ g_sync_path (g_rem e1) = None)).
  { unfold st1, g_state_request_legacy. cbn [g_ents].
    destruct (g_path (g_loc e)) as [lp|] eqn:Hlp.
    - destruct (pmem lp (w_lpaths w)) eqn:Hm; cbn [negb].
      + exists e. split; [eapply find_put_same; exact Hf|]. split; [reflexivity|]. split; [reflexivity|]. split; [reflexivity|].
        intros p0 Hp Hn. inversion Hp; subst. congruence.
      + eexists. split.
        * apply (find_put_same (g_ents st) {| g_key := g_key e; g_loc := cleared; g_rem := _; g_dir := g_dir e;
                                                g_lfresh := true; g_rfresh := false; g_discarded := g_discarded e;
                                                g_conflicted := g_conflicted e |} e). exact Hf.
        * cbn. repeat split; reflexivity.
    - exists e. split; [eapply find_put_same; exact Hf|]. split; [reflexivity|]. split; [reflexivity|]. split; [reflexivity|].
      intros p0 Hp. discriminate. }
  destruct H1 as [e1 [Hf1 [Hk1 [Ho1 [Hp1 Hst]]]]]. rewrite Hf1.
  assert (HQ: kmem (g_key e) (g_req st1) = true) by (unfold st1, g_state_request_legacy; cbn [g_req]; rewrite kmem_kadd, N.eqb_refl; reflexivity).
  assert (HX: kmem (g_key e) (g_exc st1) = false) by (unfold st1, g_state_request_legacy; cbn [g_exc]; rewrite kmem_kdel, N.eqb_refl; reflexivity).
  destruct (g_path (g_rem e1)) as [rp|] eqn:Hrp; intros H; inversion H; subst; clear H; cbn [g_req g_exc g_ents].
  - split; [exact HQ|]. split; [exact HX|]. split; [split; [discriminate|congruence]|].
    intros pl Hpl. inversion Hpl; subst; clear Hpl.
    split; [eexists; unfold request_plan; rewrite Hk1; reflexivity|].
    eexists. split.
    + eapply find_put_key; [|exact Hf1]. cbn [g_key]. exact Hk1.
    + unfold g_latest. cbn. split; [reflexivity|]. split; [apply andb_false_r|]. split; [exact Ho1|].
      intros p Hp Hn. destruct (Hst p Hp Hn) as [Hc [Hs1 Hs2]].
      destruct (zero_orphan_keeps (has_oid (g_rem e1)) (pending (g_loc e1)) (g_loc e1)) as [Z1 _].
      rewrite Z1, Hc. repeat split; assumption.
  - split; [exact HQ|]. split; [exact HX|]. split; [split; [congruence|reflexivity]|]. intros pl Hpl. discriminate.
Qed.

(* ---- the repaired request (fc0a567: a request by id fills an unknown remote path in first; 2277c0d: folders register nothing) *)
Lemma fill_remote_spec bo w st e st0 e0 :
  find_ent (g_ents st) (g_key e) = Some e ->
  fill_remote bo w st e = (st0, e0) ->
  find_ent (g_ents st0) (g_key e) = Some e0 /\ g_key e0 = g_key e /\ g_req st0 = g_req st /\ g_exc st0 = g_exc st /\
  g_loc e0 = g_loc e /\ g_oid (g_rem e0) = g_oid (g_rem e) /\
  (needs_fill bo e = false -> e0 = e /\ st0 = st) /\
  (needs_fill bo e = true -> forall o i, g_oid (g_rem e) = Some o -> find_robj w o = Some i ->
                             g_path (g_rem e0) = Some (r_path i) /\ g_dir e0 = r_isdir i).
Proof.
  intros Hf. unfold fill_remote. destruct (needs_fill bo e) eqn:Hn; intros H; inversion H; subst; clear H.
  - assert (K: g_key (g_refresh_remote w e) = g_key e /\ g_loc (g_refresh_remote w e) = g_loc e /\
               g_oid (g_rem (g_refresh_remote w e)) = g_oid (g_rem e)).
    { unfold g_refresh_remote. destruct (g_oid (g_rem e)) as [o|] eqn:Ho; [destruct (find_robj w o)|]; simpl; repeat split;
        try reflexivity; try (symmetry; exact Ho). }
    destruct K as [K1 [K2 K3]]. cbn [g_ents g_req g_exc].
    split; [eapply find_put_key; [exact K1|exact Hf]|].
    split; [exact K1|]. split; [reflexivity|]. split; [reflexivity|]. split; [exact K2|]. split; [exact K3|].
    split; [discriminate|]. intros _ o i Ho Hi. unfold g_refresh_remote. rewrite Ho, Hi. simpl. split; reflexivity.
  - repeat split; try assumption; try reflexivity; discriminate.
Qed.

Lemma request_core_same w st e : g_dir e = false ->
  g_request_core g_state_request w st e = g_request_core g_state_request_legacy w st e.
Proof. intros Hd. unfold g_request_core, g_state_request. rewrite Hd. reflexivity. Qed.

(* files (after the fill): the request is registered, un-excluded, marked; it raises exactly when the path is still unknown *)
Theorem request_registers bo w st e st0 e0 st' plan :
  find_ent (g_ents st) (g_key e) = Some e ->
  fill_remote bo w st e = (st0, e0) -> g_dir e0 = false ->
  g_request bo w st e = (st', plan) ->
  kmem (g_key e) (g_req st') = true /\ kmem (g_key e) (g_exc st') = false /\
  (plan = None <-> g_path (g_rem e0) = None) /\
  (forall pl, plan = Some pl ->
     (exists pre, pl = pre ++ [g_key e]) /\
     exists e', find_ent (g_ents st') (g_key e) = Some e' /\ g_changed (g_rem e') = true /\ g_latest e' = false /\
                g_oid (g_rem e') = g_oid (g_rem e) /\
                (forall p, g_path (g_loc e) = Some p -> pmem p (w_lpaths w) = false ->
                           g_oid (g_loc e') = None /\ g_sync_hash (g_rem e') = None /\ g_sync_path (g_rem e') = None)).
Proof.
  intros Hf Hfill Hd. unfold g_request. rewrite Hfill.
  destruct (fill_remote_spec bo w st e st0 e0 Hf Hfill) as [Hf0 [Hk [_ [_ [Hl [Ho _]]]]]].
  rewrite (request_core_same w st0 e0 Hd). intros H.
  rewrite <- Hk in Hf0.
  destruct (request_core_registers w st0 e0 st' plan Hf0 H) as [A [B [C D]]].
  rewrite Hk in A, B, D. rewrite Hl, Ho in D.
  split; [exact A|]. split; [exact B|]. split; [exact C|exact D].
Qed.

(* folders: nothing is registered, so there is nothing an un-request could take away (2277c0d) *)
Theorem request_of_folder_registers_nothing bo w st e st0 e0 st' plan :
  fill_remote bo w st e = (st0, e0) -> g_dir e0 = true ->
  g_request bo w st e = (st', plan) ->
  g_req st' = g_req st0 /\ g_exc st' = g_exc st0.
Proof.
  intros Hfill Hd. unfold g_request. rewrite Hfill. unfold g_request_core, g_state_request. rewrite Hd.
  destruct (find_ent (g_ents st0) (g_key e0)) as [e1|]; [destruct (g_path (g_rem e1))|]; intros H; inversion H; subst;
    split; reflexivity.
Qed.

(* a request by id of an object the remote provider has never raises for lack of a path (fc0a567) *)
Theorem request_by_id_never_raises w st e o i st' plan :
  find_ent (g_ents st) (g_key e) = Some e ->
  g_oid (g_rem e) = Some o -> find_robj w o = Some i ->
  g_request true w st e = (st', plan) -> plan <> None.
Proof.
  intros Hf Ho Hi. unfold g_request.
  destruct (fill_remote true w st e) as [st0 e0] eqn:Hfill.
  destruct (fill_remote_spec true w st e st0 e0 Hf Hfill) as [Hf0 [Hk [_ [_ [_ [_ [Hnf Hfl]]]]]]].
  assert (Hp: g_path (g_rem e0) <> None).
  { destruct (needs_fill true e) eqn:Hn.
    - destruct (Hfl eq_refl o i Ho Hi) as [Hp _]. rewrite Hp. discriminate.
    - destruct (Hnf eq_refl) as [-> _]. unfold needs_fill in Hn. simpl in Hn.
      destruct (g_path (g_rem e)); [discriminate|discriminate]. }
  unfold g_request_core.
  assert (Hsr: exists e1, find_ent (g_ents (g_state_request w st0 e0)) (g_key e0) = Some e1 /\ g_path (g_rem e1) = g_path (g_rem e0)).
  { rewrite <- Hk in Hf0. unfold g_state_request. destruct (g_dir e0); [exists e0; split; [exact Hf0|reflexivity]|].
    unfold g_state_request_legacy. cbn [g_ents].
    destruct (match g_path (g_loc e0) with Some p => negb (pmem p (w_lpaths w)) | None => false end).
    - eexists. split; [eapply find_put_key; [|exact Hf0]; reflexivity|reflexivity].
    - exists e0. split; [eapply find_put_same; exact Hf0|reflexivity]. }
  destruct Hsr as [e1 [Hf1 Hp1]]. rewrite Hf1. rewrite Hp1.
  destruct (g_path (g_rem e0)); [|exfalso; apply Hp; reflexivity]. intros H; inversion H; subst. discriminate.
Qed.

(* ---- G4: the merged listing, one folder *)
Lemma dedup_In n l : In n (dedup l) <-> In n l.
Proof.
  induction l as [|x l IH]; simpl; [tauto|].
  destruct (kmem x (dedup l)) eqn:Hm.
  - apply kmem_In in Hm. split; [intros H; right; apply IH; exact H|intros [H|H]; [subst; exact Hm|apply IH; exact H]].
  - simpl. rewrite IH. tauto.
Qed.

Definition synced_item (n : N) (l : linfo) : litem := {| i_name := n; i_isdir := l_isdir l; i_synced := true |}.
Definition unsynced_item (n : N) (e : gent) : litem := {| i_name := n; i_isdir := g_dir e; i_synced := false |}.

Theorem g_listing_law tl ls rs it :
  In it (g_listdir tl ls rs) <->
  In (i_name it) (map l_name ls ++ map fst rs) /\ rent_pass tl (find_rent rs (i_name it)) = true /\
  match find_local ls (i_name it) with
  | Some l => truthy (l_mtime l) (l_size l) = true /\ it = synced_item (i_name it) l
  | None => exists e, find_rent rs (i_name it) = Some e /\
                      ex_gone (g_exists (g_loc e)) = false /\ ex_gone (g_exists (g_rem e)) = false /\
                      truthy (g_mtime (g_rem e)) (g_size (g_rem e)) = true /\ it = unsynced_item (i_name it) e
  end.
Proof.
  unfold g_listdir. rewrite in_flat_map. split.
  - intros [n [Hn Hit]]. apply (proj1 (dedup_In _ _)) in Hn. unfold list_one in Hit.
    destruct (rent_pass tl (find_rent rs n)) eqn:Hp; simpl in Hit; [|destruct Hit].
    destruct (find_local ls n) as [l|] eqn:Hl.
    + destruct (truthy (l_mtime l) (l_size l)) eqn:Ht; [|destruct Hit]. destruct Hit as [Hit|[]]. subst it. cbn [i_name].
      rewrite Hl. split; [exact Hn|]. split; [exact Hp|]. split; [exact Ht|reflexivity].
    + destruct (find_rent rs n) as [e|] eqn:Hr; [|destruct Hit].
      destruct (ex_gone (g_exists (g_loc e)) || ex_gone (g_exists (g_rem e))) eqn:Hg; [destruct Hit|].
      destruct (truthy (g_mtime (g_rem e)) (g_size (g_rem e))) eqn:Ht; [|destruct Hit].
      destruct Hit as [Hit|[]]. subst it. cbn [i_name]. rewrite Hl, Hr. apply orb_false_iff in Hg as [G1 G2].
      split; [exact Hn|]. split; [exact Hp|]. exists e.
      split; [reflexivity|]. split; [exact G1|]. split; [exact G2|]. split; [exact Ht|reflexivity].
  - intros [Hn [Hp H]]. exists (i_name it). split; [apply (proj2 (dedup_In _ _)); exact Hn|].
    unfold list_one. rewrite Hp. simpl.
    destruct (find_local ls (i_name it)) as [l|].
    + destruct H as [Ht Hit]. rewrite Ht. left. symmetry. exact Hit.
    + destruct H as [e [Hr [G1 [G2 [Ht Hit]]]]]. rewrite Hr, G1, G2, Ht. simpl. left. symmetry. exact Hit.
Qed.

(* every local object of the folder is reported as synced (unless a same-named entry is mid-rename, or the
   provider reports neither size nor mtime); a remote entry is reported as not synced exactly when no local object
   has its name and neither side is known to be gone *)
Corollary g_listing_local_synced tl ls rs l :
  find_local ls (l_name l) = Some l -> truthy (l_mtime l) (l_size l) = true ->
  rent_pass tl (find_rent rs (l_name l)) = true ->
  In (synced_item (l_name l) l) (g_listdir tl ls rs).
Proof.
  intros Hl Ht Hp. apply g_listing_law. simpl. rewrite Hl. repeat split; try assumption.
  apply in_or_app. left. apply find_some in Hl. destruct Hl as [Hin _]. apply in_map. exact Hin.
Qed.
Corollary g_listing_never_synced_without_local tl ls rs it :
  In it (g_listdir tl ls rs) -> i_synced it = true -> exists l, find_local ls (i_name it) = Some l.
Proof.
  intros H Hs. apply g_listing_law in H. destruct H as [_ [_ H]].
  destruct (find_local ls (i_name it)) as [l|]; [exists l; reflexivity|].
  destruct H as [e [_ [_ [_ [_ Hit]]]]]. rewrite Hit in Hs. discriminate.
Qed.

(* ================================================================== the code before the repairs fc0a567 / 2277c0d: refuted *)
Local Open Scope N_scope.
Definition wit_rem (p : option path) : gside :=
  {| g_oid := Some 10; g_path := p; g_changed := true; g_exists := XExists; g_hash := Some 1;
     g_sync_hash := None; g_sync_path := None; g_size := 3; g_mtime := 5 |}.
(* S-1: a remote file the engine knows by id only (the event carried no path) *)
Definition wit_file : gent :=
  {| g_key := 1; g_loc := cleared; g_rem := wit_rem None; g_dir := false; g_lfresh := true; g_rfresh := false;
     g_discarded := false; g_conflicted := false |}.
Definition wit_w : gworld :=
  {| w_lpaths := [[1]; [1; 7]]; w_loids := [20]; w_lhash := [];
     w_robjs := [{| r_oid := 10; r_path := [2; 7]; r_hash := Some 1; r_isdir := false; r_size := 3; r_mtime := 5 |}] |}.
Definition wit_st (e : gent) : gst := {| g_ents := [e]; g_changeset := [1]; g_req := []; g_exc := [] |}.

Definition legacy_by_id_never_raises_full : Prop :=
  forall w st e o i st' plan,
    find_ent (g_ents st) (g_key e) = Some e -> g_oid (g_rem e) = Some o -> find_robj w o = Some i ->
    g_request_legacy w st e = (st', plan) -> plan <> None.
Theorem legacy_by_id_never_raises_refuted : ~ legacy_by_id_never_raises_full.
Proof.
  intros H. apply (H wit_w (wit_st wit_file) wit_file 10
                     {| r_oid := 10; r_path := [2; 7]; r_hash := Some 1; r_isdir := false; r_size := 3; r_mtime := 5 |}
                     (fst (g_request_legacy wit_w (wit_st wit_file) wit_file)) None); reflexivity.
Qed.
(* ... and the request it raised on is in force all the same; the repaired request of the same table returns *)
Theorem legacy_by_id_registers_then_raises :
  snd (g_request_legacy wit_w (wit_st wit_file) wit_file) = None /\
  kmem 1 (g_req (fst (g_request_legacy wit_w (wit_st wit_file) wit_file))) = true /\
  snd (g_request true wit_w (wit_st wit_file) wit_file) = Some [1].
Proof. vm_compute. repeat split; reflexivity. Qed.

(* S-2: a mirrored folder *)
Definition wit_dir : gent :=
  {| g_key := 1;
     g_loc := {| g_oid := Some 20; g_path := Some [1; 7]; g_changed := false; g_exists := XExists; g_hash := None;
                 g_sync_hash := None; g_sync_path := Some [1; 7]; g_size := 0; g_mtime := 0 |};
     g_rem := {| g_oid := Some 10; g_path := Some [2; 7]; g_changed := false; g_exists := XExists; g_hash := None;
                 g_sync_hash := None; g_sync_path := Some [2; 7]; g_size := 0; g_mtime := 5 |};
     g_dir := true; g_lfresh := true; g_rfresh := true; g_discarded := false; g_conflicted := false |}.
Definition legacy_folder_registers_nothing_full : Prop :=
  forall w st e st' plan, g_dir e = true -> g_request_legacy w st e = (st', plan) -> g_req st' = g_req st.
Theorem legacy_folder_registers_nothing_refuted : ~ legacy_folder_registers_nothing_full.
Proof.
  intros H.
  specialize (H wit_w (wit_st wit_dir) wit_dir (fst (g_request_legacy wit_w (wit_st wit_dir) wit_dir))
                (snd (g_request_legacy wit_w (wit_st wit_dir) wit_dir)) eq_refl eq_refl).
  vm_compute in H. discriminate.
Qed.
(* the consequence: the un-request that the legacy registration makes possible deletes the local FOLDER and excludes the
   entry (it is then never offered again); after the repaired request the same un-request does nothing *)
Theorem legacy_folder_unrequest_deletes_local_folder :
  let st1 := fst (g_request_legacy wit_w (wit_st wit_dir) wit_dir) in
  let st2 := fst (g_request false wit_w (wit_st wit_dir) wit_dir) in
  (exists e1, find_ent (g_ents st1) 1 = Some e1 /\
              snd (g_unrequest wit_w true st1 e1) = [GDeleteLocal [1; 7]] /\
              kmem 1 (g_exc (fst (g_unrequest wit_w true st1 e1))) = true) /\
  (exists e2, find_ent (g_ents st2) 1 = Some e2 /\ snd (g_unrequest wit_w true st2 e2) = [] /\
              g_exc (fst (g_unrequest wit_w true st2 e2)) = []).
Proof. vm_compute. split; eexists; repeat split; reflexivity. Qed.
