(* ResolverSpec.v — C05: the conflict-resolution contract as an executable specification.
   A same-file conflict is (local content a, remote content b); the application's resolver answers;
   [outcome] is the pair of quiet-state views restricted to the conflicted file and its '.conflicted'
   sibling, and the number of resolver calls.  Mirrors SyncManager.__safe_call_resolver /
   resolve_conflict (cloudsync/sync/manager.py): handles are labelled with their side; every
   malformed answer (None, exception, not a tuple, wrong length, not file-like) falls back to
   "remote wins, keep the local version". *)
From Coq Require Import NArith List Bool.
From CS Require Import Sx TreeModel.
Import ListNotations.

Inductive answer :=
| PickLocal (keep : bool)
| PickRemote (keep : bool)
| Merged (c : content) (keep : bool)
| Fallback.               (* None / raises / not a tuple / wrong length / not file-like *)

Record resolved := {
  r_calls : nat;          (* how often the resolver is called *)
  r_seen : option (content * content);   (* (bytes of the LOCAL handle, bytes of the REMOTE handle) it must see *)
  r_local : tree;         (* quiet-state local view: entries for the file name and its conflicted sibling *)
  r_remote : tree
}.

(* n = the file's name, nc = its '.conflicted' sibling name; both at the same folder [dir] *)
Definition at_ (dir : path) (n : name) (c : content) : tree := [(dir ++ [n], File c)].

Definition outcome (dir : path) (n nc : name) (a b : content) (ans : answer) : option resolved :=
  if N.eqb a b then
    Some {| r_calls := 0; r_seen := None; r_local := at_ dir n a; r_remote := at_ dir n a |}
  else
    let seen := Some (a, b) in
    match ans with
    | PickLocal keep =>
      Some {| r_calls := 1; r_seen := seen; r_local := at_ dir n a;
              r_remote := at_ dir n a ++ (if keep then at_ dir nc b else []) |}
    | PickRemote keep =>
      Some {| r_calls := 1; r_seen := seen; r_remote := at_ dir n b;
              r_local := at_ dir n b ++ (if keep then at_ dir nc a else []) |}
    | Merged c false =>
      Some {| r_calls := 1; r_seen := seen; r_local := at_ dir n c; r_remote := at_ dir n c |}
    | Merged c true => None       (* not specified by the property (and the engine does not settle: finding E-7) *)
    | Fallback =>
      Some {| r_calls := 1; r_seen := seen; r_remote := at_ dir n b;
              r_local := at_ dir n b ++ at_ dir nc a |}
    end.

(* acceptor for one observed conflict run: observed call log and observed views of the two names *)
Definition calls_ok (exp : resolved) (calls : list (content * content)) : bool :=
  match r_seen exp, calls with
  | None, [] => true
  | Some (a, b), [(x, y)] => N.eqb a x && N.eqb b y
  | _, _ => false
  end.

Definition accept_conflict (dir : path) (n nc : name) (a b : content) (ans : answer)
           (calls : list (content * content)) (vl vr : tree) : bool :=
  match outcome dir n nc a b ans with
  | None => false
  | Some exp => calls_ok exp calls && same_tree vl (r_local exp) && same_tree vr (r_remote exp)
  end.

(* ------------------------------------------------------------------ wire *)
Definition un_answer (x : sx) : option answer :=
  match x with
  | L [A 0; k] => option_map PickLocal (un_bool k)
  | L [A 1; k] => option_map PickRemote (un_bool k)
  | L [A 2; A c; k] => option_map (Merged c) (un_bool k)
  | L [A 3] => Some Fallback
  | _ => None
  end.
Definition un_call (x : sx) : option (content * content) :=
  match x with L [A a; A b] => Some (a, b) | _ => None end.

(* (dir n nc a b answer (calls) viewL viewR) -> (1) accepted | (0 expected-calls expectedL expectedR) *)
Definition run (x : sx) : sx :=
  match x with
  | L [d; A n; A nc; A a; A b; ans; cs; vl; vr] =>
    match un_path d, un_answer ans, un_list un_call cs, un_tree vl, un_tree vr with
    | Some d, Some ans, Some cs, Some vl, Some vr =>
      if accept_conflict d n nc a b ans cs vl vr then L [A 1]
      else match outcome d n nc a b ans with
           | Some e => L [A 0; A (N.of_nat (r_calls e)); sx_tree (r_local e); sx_tree (r_remote e)]
           | None => L [A 0]
           end
    | _, _, _, _, _ => sx_malformed
    end
  | _ => sx_malformed
  end.
