(* CacheDict.v — refinement of the tree to a plain dictionary (association list
   path -> (type, id, metadata)), commuting diagrams for delete / rename / create, and
   "replacing a folder forgets its subtree". *)
From Coq Require Import NArith List Bool Lia.
From CS Require Import Sx Str CacheModel CacheProofs CacheInv CacheLaws CacheTame.
Import ListNotations.

Definition dict := list (list N * entry).

Fixpoint dict_get (q : list N) (d : dict) : option entry :=
  match d with
  | [] => None
  | (p, e) :: r => if str_eqb q p then Some e else dict_get q r
  end.

(* everything that is in the tree, with its path *)
Fixpoint dict_of (t : node) : dict :=
  match t with Node d i m kids =>
    ([], (d, i, m)) :: flat_map (fun nc => map (fun pe => (fst nc :: fst pe, snd pe)) (dict_of (snd nc))) kids
  end.

(* invalidation of a subtree in the dictionary *)
Definition dict_remove (rp : list N) (d : dict) : dict := filter (fun pe => negb (prefixb rp (fst pe))) d.

Lemma str_eqb_eq' a b : str_eqb a b = true <-> a = b.
Proof.
  revert b; induction a as [|x a IH]; intros [|y b]; simpl; split; intros H; try congruence; try reflexivity.
  - apply andb_true_iff in H as [H1 H2]. apply N.eqb_eq in H1. apply IH in H2. congruence.
  - inversion H; subst. rewrite N.eqb_refl. simpl. apply IH. reflexivity.
Qed.

Lemma dict_get_app q a b :
  dict_get q (a ++ b) = match dict_get q a with Some e => Some e | None => dict_get q b end.
Proof.
  induction a as [|[p e] a IH]; simpl; [reflexivity|]. destruct (str_eqb q p); [reflexivity|exact IH].
Qed.

Lemma dict_get_prefix n q k (D : dict) :
  dict_get (n :: q) (map (fun pe => (k :: fst pe, snd pe)) D) = if N.eqb n k then dict_get q D else None.
Proof.
  induction D as [|[p e] D IH]; simpl; [destruct (N.eqb n k); reflexivity|].
  destruct (N.eqb n k) eqn:E; simpl.
  - destruct (str_eqb q p); [reflexivity|]. rewrite IH. reflexivity.
  - rewrite IH. reflexivity.
Qed.

Lemma dict_get_kids_none n q (kids : list (N * node)) :
  ~ In n (map fst kids) ->
  dict_get (n :: q) (flat_map (fun nc => map (fun pe => (fst nc :: fst pe, snd pe)) (dict_of (snd nc))) kids) = None.
Proof.
  induction kids as [|[k c] r IH]; simpl; intros Hn; [reflexivity|].
  rewrite dict_get_app, dict_get_prefix.
  destruct (N.eqb_spec n k) as [->|Hne]; [exfalso; apply Hn; left; reflexivity|].
  apply IH. intros H. apply Hn. right. exact H.
Qed.

Theorem dict_of_lookup t : forall q, knodup t = true -> dict_get q (dict_of t) = view t q.
Proof.
  induction t as [d i m kids IH] using node_ind'. intros q HK.
  destruct q as [|n q]; [reflexivity|].
  unfold knodup in HK. simpl in HK. apply andb_true_iff in HK as [HK1 HK2].
  apply nodupb_nodup in HK1.
  change (dict_get (n :: q) (dict_of (Node d i m kids)))
    with (dict_get (n :: q) (flat_map (fun nc => map (fun pe => (fst nc :: fst pe, snd pe)) (dict_of (snd nc))) kids)).
  unfold view. simpl lookup.
  induction kids as [|[k c] r IHr]; [reflexivity|].
  simpl flat_map. rewrite dict_get_app, dict_get_prefix. simpl aget.
  inversion IH as [|? ? IHc IHrest]; subst. simpl in HK2. apply andb_true_iff in HK2 as [HKc HKr].
  inversion HK1 as [|? ? Hnotin HKr1]; subst.
  destruct (N.eqb_spec n k) as [->|Hne].
  - simpl in IHc. rewrite (IHc q HKc). unfold view.
    destruct (lookup q c) as [x|]; simpl; [reflexivity|].
    apply dict_get_kids_none. exact Hnotin.
  - apply IHr; assumption.
Qed.

Lemma dict_get_remove rp q d :
  dict_get q (dict_remove rp d) = if prefixb rp q then None else dict_get q d.
Proof.
  unfold dict_remove. induction d as [|[p e] d IH]; simpl; [destruct (prefixb rp q); reflexivity|].
  destruct (str_eqb q p) eqn:E.
  - apply str_eqb_eq' in E. subst p. destruct (prefixb rp q) eqn:Ep; simpl.
    + exact IH.
    + rewrite (proj2 (str_eqb_eq' q q) eq_refl). reflexivity.
  - destruct (prefixb rp p); simpl; [exact IH|]. rewrite E. exact IH.
Qed.

Theorem dict_delete_commutes cf c p q :
  Inv c -> tame cf c = true -> map (cf_fold cf) p <> [] ->
  lookup (map (cf_fold cf) p) (c_root c) <> None ->
  dict_get q (dict_of (c_root (snd (step cf c (ODelete None (Some p)))))) =
  dict_get q (dict_remove (map (cf_fold cf) p) (dict_of (c_root c))).
Proof.
  intros HI Ht Hne Hex.
  pose proof (step_inv cf c (ODelete None (Some p)) HI) as [K' _].
  rewrite dict_of_lookup by exact K'. rewrite dict_get_remove, dict_of_lookup by apply HI.
  unfold step. rewrite Ht. cbn [negb get_node]. unfold loc_path.
  destruct (lookup (map (cf_fold cf) p) (c_root c)); [|congruence].
  rewrite delete_loc_root_cons by exact Hne. apply view_remove. exact Hne.
Qed.

Theorem dict_rename_commutes cf c p q S rel :
  (forall n, cf_fold cf (cf_fold cf n) = cf_fold cf n) ->
  Inv c -> tame cf c = true -> n_id (c_root c) <> None ->
  map (cf_fold cf) p <> [] -> q <> [] ->
  lookup (map (cf_fold cf) p) (c_root c) = Some S ->
  fst (step cf c (ORename p q)) = ROk ->
  dict_get (map (cf_fold cf) q ++ rel) (dict_of (c_root (snd (step cf c (ORename p q))))) =
  dict_get (map (cf_fold cf) p ++ rel) (dict_of (c_root c)).
Proof.
  intros Hidem HI Ht Hr Hp Hq Hl Hok.
  destruct (rename_moves_subtree cf c p q S Hidem HI Ht Hr Hp Hq Hl Hok) as [A _].
  pose proof (step_inv cf c (ORename p q) HI) as [K' _].
  rewrite dict_of_lookup by exact K'. rewrite dict_of_lookup by apply HI.
  unfold view. rewrite !lookup_app, A, Hl. reflexivity.
Qed.

Lemma map_fold_idem cf p : fold_ok cf -> map (cf_fold cf) (map (cf_fold cf) p) = map (cf_fold cf) p.
Proof. intros [Hi _]. rewrite map_map. apply map_ext. exact Hi. Qed.

Theorem dict_create_commutes cf c d p o m :
  fold_ok cf -> Inv c -> map (cf_fold cf) p <> [] ->
  (forall x, o = Some x -> x <> rid c /\ (forall q, ~ has_id (c_root c) q x)) ->
  fst (make_node cf c d p o m) = ROk ->
  dict_get (map (cf_fold cf) p) (dict_of (c_root (snd (make_node cf c d p o m)))) = Some (d, o, md_or m).
Proof.
  intros Hf HI Hne Hfresh Hok.
  pose proof (make_node_inv cf c d p o m HI) as [K' _].
  rewrite dict_of_lookup by exact K'.
  unfold make_node in *. destruct (negb (md_ok_opt cf m)); [discriminate|].
  assert (Hp : p <> []) by (intros ->; apply Hne; reflexivity).
  destruct (insert_node_fresh cf c (Node d o (md_or m) []) (map (cf_fold cf) p) HI Hne) as [A _].
  - rewrite last_map by exact Hp. apply Hf.
  - simpl. exact Hfresh.
  - exact Hok.
  - rewrite map_fold_idem in A by exact Hf. unfold view. rewrite A. reflexivity.
Qed.

(* ------------------------------------------------------------------ replacing a folder forgets its subtree *)
Lemma aset_same {T} k (v : T) l : aget k l = Some v -> aset k v l = l.
Proof.
  induction l as [|[k' v'] l IH]; simpl; [discriminate|].
  destruct (N.eqb_spec k k') as [->|Hne]; intros H; [inversion H; reflexivity|]. rewrite IH; auto.
Qed.

(* when something exists strictly below par, mkdir -p par changes nothing *)
Lemma mkdirp_same par : forall t x n,
  files_leaf t = true -> lookup (par ++ [n]) t = Some x -> mkdirp par t = t.
Proof.
  induction par as [|a par IH]; intros t x n HF Hl; [reflexivity|].
  destruct t as [d i m kids]. simpl in Hl. simpl.
  destruct (aget a kids) as [c|] eqn:E; [|discriminate].
  assert (HFc : files_leaf c = true) by (eapply (all_nodes_kid PF (Node d i m kids)); eauto).
  destruct c as [dc ic mc kc].
  assert (dc = true).
  { unfold files_leaf in HFc. simpl in HFc. apply andb_true_iff in HFc as [H _]. unfold PF in H.
    destruct dc; [reflexivity|]. simpl in H. destruct kc; [|discriminate].
    destruct par; simpl in Hl; discriminate. }
  subst dc. rewrite (IH _ x n HFc Hl). rewrite (aset_same _ _ _ E). reflexivity.
Qed.

Lemma insert_tail_no_id par nm nd pid c2 o' :
  (forall q, ~ has_id (c_root c2) q o') -> (forall r, ~ has_id nd r o') ->
  aget o' (c_ghosts c2) = None -> n_id nd <> Some o' ->
  let c' := snd (insert_tail par nm nd pid c2) in
  (forall q, ~ has_id (c_root c') q o') /\ aget o' (c_ghosts c') = None.
Proof.
  intros Hno Hnd Hg Hne. unfold insert_tail.
  assert (Hatt : forall c3, (forall q, ~ has_id (c_root c3) q o') -> aget o' (c_ghosts c3) = None ->
            (forall q, ~ has_id (c_root (snd (attach_node par nm nd c3))) q o') /\
            aget o' (c_ghosts (snd (attach_node par nm nd c3))) = None).
  { intros c3 Hno3 Hg3. unfold attach_node. destruct (lookup par (c_root c3)) as [P|].
    - simpl. split; [|exact Hg3]. intros q H. apply has_id_attach in H as [[H _]|[r [_ H]]].
      + eapply Hno3; eauto.
      + eapply Hnd; eauto.
    - destruct (n_id nd) as [o|] eqn:Eo; simpl; [|auto]. split; [exact Hno3|].
      rewrite aget_aset_neq; [exact Hg3|]. intros ->. apply Hne. reflexivity. }
  destruct (n_id nd) as [o|] eqn:Eo; [|apply Hatt; assumption].
  assert (Hdel : forall l, (forall q, ~ has_id (c_root (snd (delete_loc c2 l))) q o') /\
                           aget o' (c_ghosts (snd (delete_loc c2 l))) = None).
  { intros l. destruct (delete_loc_spec c2 l) as [Hgh [Hv _]]. split; [|rewrite Hgh; exact Hg].
    intros q H. apply (view_sub_ids _ _ Hv) in H. eapply Hno; eauto. }
  destruct (loc_oid c2 o) as [|rp|g gn].
  - destruct (oid_is pid o); [apply Hdel|]. apply Hatt; apply Hdel.
  - destruct (oid_is pid o); [apply Hdel|]. apply Hatt; apply Hdel.
  - simpl. auto.
Qed.

Theorem replace_forgets_subtree cf c d p o m rel o' :
  fold_ok cf -> Inv c -> tame cf c = true -> map (cf_fold cf) rel <> [] ->
  get_oid cf c (p ++ rel) = Some o' -> aget o' (c_ghosts c) = None -> o <> Some o' ->
  let c' := snd (make_node cf c d p o m) in
  fst (make_node cf c d p o m) = ROk ->
  get_path c' o' = None /\ (forall q, ~ has_id (c_root c') q o').
Proof.
  intros Hf HI Ht Hrel Hh Hg Hne c' Hok.
  pose proof (make_node_inv cf c d p o m HI) as HI'. fold c' in HI'.
  apply get_oid_spec in Hh. rewrite map_app in Hh.
  assert (Hmain : (forall q, ~ has_id (c_root c') q o') /\ aget o' (c_ghosts c') = None).
  { unfold c', make_node in *. destruct (negb (md_ok_opt cf m)); [discriminate|].
    unfold insert_node.
    set (F := map (cf_fold cf) p) in *. set (R := map (cf_fold cf) rel) in *.
    (* mkdir -p of the parent changes nothing: the folder and something below it exist *)
    assert (Hmk : mkdirp (map (cf_fold cf) (removelast F)) (c_root c) = c_root c).
    { destruct F as [|f0 F0] eqn:EF; [reflexivity|].
      assert (HF : (f0 :: F0) <> []) by discriminate.
      assert (Hidem : map (cf_fold cf) (f0 :: F0) = f0 :: F0) by (rewrite <- EF; unfold F; apply map_fold_idem; exact Hf).
      rewrite (map_removelast_last _ _ HF) in Hidem.
      rewrite (app_removelast_last 0%N HF) in Hidem at 3.
      apply app_inj_tail in Hidem as [Hidem _]. rewrite Hidem.
      pose proof Hh as [x [Hx _]]. rewrite (app_removelast_last 0%N HF) in Hx.
      rewrite lookup_app in Hx.
      destruct (lookup (removelast (f0 :: F0) ++ [last (f0 :: F0) 0%N]) (c_root c)) as [y|] eqn:Ey; [|discriminate].
      apply (mkdirp_same _ _ y (last (f0 :: F0) 0%N)); [apply HI|exact Ey]. }
    rewrite Hmk.
    set (c1 := with_root c (c_root c)).
    assert (HI1 : Inv c1) by exact HI.
    assert (Hl1 : loc_path cf c1 F = LTree F).
    { assert (HFi : map (cf_fold cf) F = F) by (unfold F; apply map_fold_idem; exact Hf).
      unfold loc_path. rewrite HFi.
      pose proof Hh as [x [Hx _]]. rewrite lookup_app in Hx. simpl.
      destruct (lookup F (c_root c)); [reflexivity|discriminate]. }
    rewrite Hl1.
    assert (HFR : F ++ R <> []) by (intros He; apply app_eq_nil in He as [_ He]; contradiction).
    destruct (delete_loc_forgets c1 F (F ++ R) o' HI1 (prefixb_app _ _) HFR Hh Hg) as [_ [Hno _]].
    apply insert_tail_no_id.
    - exact Hno.
    - intros r [x [Hx Hi]]. destruct r; simpl in Hx; [|discriminate]. inversion Hx; subst x. simpl in Hi. congruence.
    - destruct (delete_loc_spec c1 (LTree F)) as [Hgh _]. rewrite Hgh. exact Hg.
    - exact Hne. }
  destruct Hmain as [A B]. split; [|exact A]. apply get_path_none; assumption.
Qed.

(* ------------------------------------------------------------------ summaries over reachable states *)
Theorem inv_reachable cf ops r m : Inv (exec cf (init r m) ops).
Proof. apply exec_inv. apply inv_init. Qed.

Theorem inverse_views_reachable cf ops r m o p :
  fold_ok cf -> forallb (op_regular cf) ops = true ->
  let c := exec cf (init r m) ops in
  (get_path c o = Some p -> get_oid cf c p = Some o) /\
  (aget o (c_ghosts c) = None -> get_oid cf c p = Some o -> get_path c o = Some (map (cf_fold cf) p)).
Proof.
  intros Hf Hr c. destruct (exec_regular cf ops r m Hf Hr) as [Ht HI]. split.
  - apply path_oid_inverse; assumption.
  - apply oid_path_inverse; assumption.
Qed.
