(* ProvMove.v — what MockProvider._rename_single_object and the loop of rename() do to the object
   table (ProvModel.rename_single / move_all), in the flavours other than path-style + case-insensitive:
   every moved cell gets its new path (and oid, for path-style), its old path key disappears, its new
   path key leads to it, every other key is untouched. *)
From Coq Require Import NArith List Bool Lia Arith.
From CS Require Import Sx Str PathLaws ProvModel ProvProofs ProvWf.
Import ListNotations.

(* the cell after the move *)
Definition mv (c : cfg) (old dest : path) (x : obj) : obj :=
  set_place x (new_path old dest x) (if c_oidpath c then KPath (new_path old dest x) else o_oid x).

Lemma rename_single_char s q x dest ev : S_inv s -> nth_error (p_heap s) q = Some x ->
  dget (KPath (np (p_cfg s) (o_path x))) (p_dict s) = Some q ->
  exists s', rename_single s q dest ev = Some s' /\
    p_cfg s' = p_cfg s /\
    (ev = false -> p_log s' = p_log s) /\
    p_heap s' = hset (p_heap s) q (set_place x dest (if c_oidpath (p_cfg s) then KPath dest else o_oid x)) /\
    (forall P, dget (KPath P) (p_dict s') =
               if path_eqb P (np (p_cfg s) dest) then Some q
               else if path_eqb P (np (p_cfg s) (o_path x)) then None
               else dget (KPath P) (p_dict s)) /\
    (forall n, dget (KId n) (p_dict s') = dget (KId n) (p_dict s)).
Proof.
  intros HS Hx Hown. unfold rename_single. rewrite Hx.
  unfold unstore. assert (M : dmem (KPath (np (p_cfg s) (o_path x))) (p_dict s) = true) by (apply dmem_true; eauto).
  rewrite M.
  set (o' := set_place x dest (if c_oidpath (p_cfg s) then KPath dest else o_oid x)).
  set (d1 := dremove (o_oid x) (dremove (KPath (np (p_cfg s) (o_path x))) (p_dict s))).
  assert (Hro : o_oid x = if c_oidpath (p_cfg s) then KPath (o_path x) else KId (N.of_nat q)) by (apply (s_oid s HS); exact Hx).
  assert (Ho : o_oid o' = if c_oidpath (p_cfg s) then KPath (o_path o') else KId (N.of_nat q)).
  { simpl. destruct (c_oidpath (p_cfg s)); [reflexivity|exact Hro]. }
  assert (G1 : forall k, dget k d1 = if key_eqb k (o_oid x) then None
                                     else if key_eqb k (KPath (np (p_cfg s) (o_path x))) then None
                                     else dget k (p_dict s)).
  { intros k. unfold d1. rewrite !dget_dremove. reflexivity. }
  assert (A := s_sane s HS).
  assert (HP : forall P, dget (KPath P) (store (p_cfg s) d1 q o') =
               if path_eqb P (np (p_cfg s) dest) then Some q
               else if path_eqb P (np (p_cfg s) (o_path x)) then None
               else dget (KPath P) (p_dict s)).
  { intros P. rewrite (store_dget_path _ _ _ _ _ _ A Ho). simpl.
    destruct (path_eqb P (np (p_cfg s) dest)); [reflexivity|].
    rewrite G1. rewrite Hro. destruct (sane_cases _ A) as [X|[X1 X2]]; rewrite ?X, ?X1; simpl; [reflexivity|].
    rewrite (np_cs _ _ X2). destruct (path_eqb P (o_path x)); reflexivity. }
  assert (HI : forall n, dget (KId n) (store (p_cfg s) d1 q o') = dget (KId n) (p_dict s)).
  { intros n. rewrite (store_dget _ _ _ _ _ _ A Ho). simpl.
    destruct (c_oidpath (p_cfg s)) eqn:Hc.
    - simpl. rewrite G1, Hro. reflexivity.
    - rewrite Hro. simpl. destruct (N.eqb n (N.of_nat q)) eqn:E1.
      + apply N.eqb_eq in E1. subst n. rewrite G1, Hro. simpl. rewrite N.eqb_refl.
        symmetry. apply (s_idkey s HS Hc). apply nth_error_Some. congruence.
      + rewrite G1, Hro. simpl. rewrite E1. reflexivity. }
  eexists. split; [reflexivity|].
  destruct ev; simpl; (split; [reflexivity|]); (split; [intros; congruence || reflexivity|]); (split; [reflexivity|]); split; assumption.
Qed.

(* the loop over the moved cells *)
Lemma move_all_char : forall L s old dest,
  S_inv s -> NoDup L ->
  (forall q, In q L -> exists x, nth_error (p_heap s) q = Some x /\
                                 dget (KPath (np (p_cfg s) (o_path x))) (p_dict s) = Some q) ->
  (forall q1 q2 x1 x2, In q1 L -> In q2 L -> q1 <> q2 ->
     nth_error (p_heap s) q1 = Some x1 -> nth_error (p_heap s) q2 = Some x2 ->
     np (p_cfg s) (new_path old dest x1) <> np (p_cfg s) (o_path x2) /\
     np (p_cfg s) (new_path old dest x1) <> np (p_cfg s) (new_path old dest x2)) ->
  exists s', move_all s L old dest = Some s' /\ p_cfg s' = p_cfg s /\ p_log s' = p_log s /\
    length (p_heap s') = length (p_heap s) /\
    (forall q x, nth_error (p_heap s) q = Some x -> In q L ->
                 nth_error (p_heap s') q = Some (mv (p_cfg s) old dest x)) /\
    (forall q, ~ In q L -> nth_error (p_heap s') q = nth_error (p_heap s) q) /\
    (forall q x, In q L -> nth_error (p_heap s) q = Some x ->
                 dget (KPath (np (p_cfg s) (new_path old dest x))) (p_dict s') = Some q) /\
    (forall P q x, In q L -> nth_error (p_heap s) q = Some x -> np (p_cfg s) (o_path x) = P ->
                   (forall q' x', In q' L -> nth_error (p_heap s) q' = Some x' ->
                                  np (p_cfg s) (new_path old dest x') <> P) ->
                   dget (KPath P) (p_dict s') = None) /\
    (forall P, (forall q x, In q L -> nth_error (p_heap s) q = Some x ->
                            np (p_cfg s) (new_path old dest x) <> P /\ np (p_cfg s) (o_path x) <> P) ->
               dget (KPath P) (p_dict s') = dget (KPath P) (p_dict s)) /\
    (forall n, dget (KId n) (p_dict s') = dget (KId n) (p_dict s)).
Proof.
  induction L as [|q0 t IH]; intros s old dest HS Hnd Hown Hsep.
  - exists s. simpl. repeat split; auto; intros; try contradiction.
  - inversion Hnd as [|? ? Hq0 Hnt]; subst.
    destruct (Hown q0 (or_introl eq_refl)) as [x0 [Hx0 Hk0]].
    destruct (rename_single_char s q0 x0 (new_path old dest x0) false HS Hx0 Hk0)
      as [s1 [R [Hc1 [Hl1 [Hh1 [HP1 HI1]]]]]].
    specialize (Hl1 eq_refl).
    assert (Hlen0 : q0 < length (p_heap s)) by (apply nth_error_Some; congruence).
    assert (Hnth1 : forall q, q <> q0 -> nth_error (p_heap s1) q = nth_error (p_heap s) q).
    { intros q Hne. rewrite Hh1. apply nth_hset_other. exact Hne. }
    assert (Hnth0 : nth_error (p_heap s1) q0 = Some (mv (p_cfg s) old dest x0)).
    { rewrite Hh1. apply nth_hset_same. exact Hlen0. }
    assert (Hne_t : forall q, In q t -> q <> q0) by (intros q Hin ->; contradiction).
    assert (HS1 : S_inv s1) by (eapply S_rename_single; eassumption).
    (* hypotheses for the tail in s1 *)
    assert (Hown1 : forall q, In q t -> exists x, nth_error (p_heap s1) q = Some x /\
                       dget (KPath (np (p_cfg s1) (o_path x))) (p_dict s1) = Some q).
    { intros q Hin. destruct (Hown q (or_intror Hin)) as [x [Hx Hk]]. exists x.
      rewrite (Hnth1 q (Hne_t q Hin)), Hc1. split; [exact Hx|]. rewrite HP1.
      destruct (Hsep q0 q x0 x (or_introl eq_refl) (or_intror Hin) (fun E => Hne_t q Hin (eq_sym E)) Hx0 Hx) as [S1 _].
      destruct (path_eqb (np (p_cfg s) (o_path x)) (np (p_cfg s) (new_path old dest x0))) eqn:E1.
      { apply path_eqb_eq in E1. congruence. }
      destruct (path_eqb (np (p_cfg s) (o_path x)) (np (p_cfg s) (o_path x0))) eqn:E2; [|exact Hk].
      apply path_eqb_eq in E2. rewrite E2 in Hk. rewrite Hk0 in Hk. inversion Hk. exfalso. apply (Hne_t q Hin). congruence. }
    assert (Hsep1 : forall q1 q2 x1 x2, In q1 t -> In q2 t -> q1 <> q2 ->
              nth_error (p_heap s1) q1 = Some x1 -> nth_error (p_heap s1) q2 = Some x2 ->
              np (p_cfg s1) (new_path old dest x1) <> np (p_cfg s1) (o_path x2) /\
              np (p_cfg s1) (new_path old dest x1) <> np (p_cfg s1) (new_path old dest x2)).
    { intros q1 q2 x1 x2 I1 I2 Hne H1 H2. rewrite Hc1.
      rewrite (Hnth1 q1 (Hne_t q1 I1)) in H1. rewrite (Hnth1 q2 (Hne_t q2 I2)) in H2.
      apply (Hsep q1 q2); auto; right; assumption. }
    destruct (IH s1 old dest HS1 Hnt Hown1 Hsep1) as [s' [M [Hc [Hl [Hlen [Hmv [Hst [C1 [C2 [C3 C4]]]]]]]]]].
    rewrite Hc1 in *.
    exists s'. simpl. rewrite Hx0, R. split; [exact M|].
    split; [congruence|]. split; [congruence|].
    split; [rewrite Hlen, Hh1; apply hset_length|].
    (* facts about the separation of q0 from the tail *)
    assert (SepA : forall q' x', In q' t -> nth_error (p_heap s1) q' = Some x' ->
                   np (p_cfg s) (new_path old dest x') <> np (p_cfg s) (new_path old dest x0) /\
                   np (p_cfg s) (o_path x') <> np (p_cfg s) (new_path old dest x0)).
    { intros q' x' Hin Hx'. rewrite (Hnth1 q' (Hne_t q' Hin)) in Hx'.
      destruct (Hsep q0 q' x0 x' (or_introl eq_refl) (or_intror Hin) (fun E => Hne_t q' Hin (eq_sym E)) Hx0 Hx') as [S1 S2].
      split; congruence. }
    split; [|split; [|split; [|split; [|split]]]].
    + intros q x Hx [<-|Hin].
      * rewrite Hx in Hx0. inversion Hx0; subst x0. rewrite (Hst q0 Hq0). exact Hnth0.
      * apply Hmv; [|exact Hin]. rewrite (Hnth1 q (Hne_t q Hin)). exact Hx.
    + intros q Hnin. rewrite Hst by (intros Hin; apply Hnin; right; exact Hin).
      apply Hnth1. intros ->. apply Hnin. left. reflexivity.
    + intros q x [<-|Hin] Hx.
      * rewrite Hx in Hx0. inversion Hx0; subst x0.
        rewrite C3 by (intros q' x' Hin' Hx'; apply (SepA q' x' Hin' Hx')).
        rewrite HP1, path_eqb_refl. reflexivity.
      * apply C1; [exact Hin|]. rewrite (Hnth1 q (Hne_t q Hin)). exact Hx.
    + intros P q x [<-|Hin] Hx HP Hnew.
      * rewrite Hx in Hx0. inversion Hx0; subst x0.
        rewrite C3.
        { rewrite HP1. destruct (path_eqb P (np (p_cfg s) (new_path old dest x))) eqn:E1.
          - apply path_eqb_eq in E1. exfalso. apply (Hnew q0 x (or_introl eq_refl) Hx). congruence.
          - rewrite <- HP, path_eqb_refl. reflexivity. }
        intros q' x' Hin' Hx'. rewrite (Hnth1 q' (Hne_t q' Hin')) in Hx'. split.
        { apply (Hnew q' x' (or_intror Hin') Hx'). }
        { intros E. destruct (Hown q' (or_intror Hin')) as [x'' [Hx'' Hk'']]. rewrite Hx' in Hx''. inversion Hx''; subst x''.
          rewrite E, <- HP, Hk0 in Hk''. inversion Hk''. apply (Hne_t q' Hin'). congruence. }
      * apply (C2 P q x Hin); [rewrite (Hnth1 q (Hne_t q Hin)); exact Hx|exact HP|].
        intros q' x' Hin' Hx'. rewrite (Hnth1 q' (Hne_t q' Hin')) in Hx'. apply (Hnew q' x' (or_intror Hin') Hx').
    + intros P HP. rewrite C3.
      * rewrite HP1. destruct (HP q0 x0 (or_introl eq_refl) Hx0) as [N1 N2].
        destruct (path_eqb P (np (p_cfg s) (new_path old dest x0))) eqn:E1; [apply path_eqb_eq in E1; congruence|].
        destruct (path_eqb P (np (p_cfg s) (o_path x0))) eqn:E2; [apply path_eqb_eq in E2; congruence|]. reflexivity.
      * intros q' x' Hin' Hx'. rewrite (Hnth1 q' (Hne_t q' Hin')) in Hx'. apply (HP q' x' (or_intror Hin') Hx').
    + intros n. rewrite C4. apply HI1.
Qed.
