(* Monitor.v — the engine seen from outside: an acceptor for observation traces of real runs.
   A trace is the sequence of user operations, engine-issued provider mutations, engine step
   boundaries and "not busy" reports of one run, each with the two full provider trees observed
   after it.  [accept] folds the guards of the engine-level properties over it; MonitorProofs.v
   proves, for every trace, that acceptance implies the declarative statements
   (C01 convergence at quiet, C02 no content lost, C03 origin untouched / mirror / no echo,
   C04 merge = spec, C12 confinement).  Executable definitions only. *)
From Coq Require Import NArith List Bool.
From CS Require Import Sx TreeModel.
Import ListNotations.

Definition side := bool.   (* false = side 0 (local), true = side 1 (remote) *)

Inductive ev :=
| EUser (s : side) (o : op)              (* a user operation on side s, absolute component paths *)
| EEng (s : side) (targets : list path)  (* an engine-issued create/upload/rename/delete/mkdir on side s;
                                            targets = absolute paths of the object before and after *)
| EStep                                  (* one engine step (event intake of a side, or one sync step) ended *)
| EQuiet.                                (* the engine reported "not busy" *)

Record obs := { o_ev : ev; o_L : tree; o_R : tree }.   (* event + both trees observed after it *)

Record config := {
  rootL : path; rootR : path;
  origin : option side;        (* Some s: users act on side s only (C03 guards) *)
  check_spec : bool;           (* at quiet both views must equal the spec tree (C03, C04) *)
  no_conflicted : bool;        (* no name of [conflicted] may appear in a view at quiet (C03, C04) *)
  conflicted : list name;      (* interned names that contain ".conflicted" *)
  step_bound : nat;            (* C01: engine steps allowed between the last user op and quiet *)
  cov_every_step : bool;       (* C02 checked after every engine action, not only at quiet *)
  declined : list name         (* C12: interned names the application's translate function declines;
                                  a path is declined when one of its components is in the list *)
}.

Record mstate := {
  tL : tree; tR : tree;        (* last observed trees *)
  spec : tree;                 (* root-relative expected tree: base with every user op applied *)
  cov : list content;          (* versions written by users and not destroyed by a user *)
  steps : nat;                 (* engine steps since the last user op *)
  quiet : bool                 (* a quiet report was seen since the last user op *)
}.

(* guard codes *)
Definition G_TIE : N := 1.          (* user op: observed tree <> apply_op; or the other side changed *)
Definition G_CONFINED : N := 2.     (* engine action addresses a path outside its root (C12) *)
Definition G_OUTSIDE : N := 3.      (* something outside a root changed during an engine action (C12) *)
Definition G_OTHER_SIDE : N := 4.   (* engine action on side s changed the other side's tree *)
Definition G_ORIGIN : N := 5.       (* one-sided run: engine changed the origin side's view (C03) *)
Definition G_COVERED_STEP : N := 6. (* a covered version vanished during an engine action (C02) *)
Definition G_CONVERGE : N := 7.     (* quiet but the views differ modulo conflicted names (C01) *)
Definition G_SPEC : N := 8.         (* quiet but a view differs from the spec tree (C03 C04) *)
Definition G_CONFLICTED : N := 9.   (* quiet and a conflicted artefact exists (C03 C04) *)
Definition G_COVERED_QUIET : N := 10. (* quiet and a covered version is in no live file (C02) *)
Definition G_BOUND : N := 11.       (* more engine steps than the bound without reaching quiet (C01) *)
Definition G_ECHO : N := 12.        (* provider write after quiet without a user op in between (C03) *)
Definition G_SPEC_OP : N := 13.     (* check_spec run contains a user op that is not inside its root *)
Definition G_STEP_TREE : N := 14.   (* a step/quiet marker whose trees differ from the previous ones *)
Definition G_DECLINED : N := 15.    (* engine action addresses a path the translate function declines (C12) *)

Definition tree_of (m : mstate) (s : side) : tree := if s then tR m else tL m.
Definition root_of (cfg : config) (s : side) : path := if s then rootR cfg else rootL cfg.

Definition contents (t : tree) : list content :=
  flat_map (fun e => match snd e with File c => [c] | Dir => [] end) t.
Definition mem (c : content) (l : list content) : bool := existsb (N.eqb c) l.
Definition all_live (cov : list content) (a b : tree) : bool :=
  forallb (fun c => mem c (contents a) || mem c (contents b)) cov.
Definition drop (c : content) (l : list content) : list content := filter (fun d => negb (N.eqb c d)) l.

(* how a (successful or refused) user op changes the covered set, given the tree before it *)
Definition cov_after (t : tree) (o : op) (cv : list content) : list content :=
  match o with
  | Create p c => match lookup t p with
                  | None => if parent_ok t p then c :: cv else cv
                  | Some _ => cv
                  end
  | Write p c => match lookup t p with
                 | Some (File old) => c :: drop old cv
                 | _ => cv
                 end
  | Delete p => match lookup t p with
                | Some (File old) => drop old cv
                | _ => cv
                end
  | Mkdir _ | Rename _ _ => cv
  end.

Definition rel_path (root p : path) : option path :=
  if strict_prefix root p then Some (skipn (length root) p) else None.
Definition rel_op (root : path) (o : op) : option op :=
  match o with
  | Create p c => option_map (fun p => Create p c) (rel_path root p)
  | Write p c => option_map (fun p => Write p c) (rel_path root p)
  | Mkdir p => option_map Mkdir (rel_path root p)
  | Delete p => option_map Delete (rel_path root p)
  | Rename p q => match rel_path root p, rel_path root q with
                  | Some p, Some q => Some (Rename p q)
                  | _, _ => None
                  end
  end.

Definition has_conflicted (cfg : config) (t : tree) : bool :=
  existsb (fun e => existsb (fun n => existsb (N.eqb n) (conflicted cfg)) (fst e)) t.
Definition strip_conflicted (cfg : config) (t : tree) : tree :=
  filter (fun e => negb (existsb (fun n => existsb (N.eqb n) (conflicted cfg)) (fst e))) t.

Definition side_eqb (a b : side) : bool := Bool.eqb a b.

(* a path with a component the application's translate function declines *)
Definition has_declined (cfg : config) (p : path) : bool :=
  existsb (fun n => existsb (N.eqb n) (declined cfg)) p.

(* one observation: Inl = next state, Inr = code of the first guard that fails *)
Definition mstep (cfg : config) (m : mstate) (x : obs) : mstate + N :=
  let nL := o_L x in
  let nR := o_R x in
  match o_ev x with
  | EUser s o =>
    let t := tree_of m s in
    let n := if s then nR else nL in
    let other_same := if s then same_tree (tL m) nL else same_tree (tR m) nR in
    if negb (same_tree (apply_op t o) n && other_same) then inr G_TIE
    else
      match (if check_spec cfg then option_map (apply_op (spec m)) (rel_op (root_of cfg s) o)
             else Some (spec m)) with
      | None => inr G_SPEC_OP
      | Some sp =>
        inl {| tL := nL; tR := nR; spec := sp; cov := cov_after t o (cov m); steps := 0; quiet := false |}
      end
  | EEng s targets =>
    let root := root_of cfg s in
    if negb (forallb (is_prefix root) targets) then inr G_CONFINED
    else if existsb (has_declined cfg) targets then inr G_DECLINED
    else if negb (same_tree (outside (rootL cfg) (tL m)) (outside (rootL cfg) nL)
                  && same_tree (outside (rootR cfg) (tR m)) (outside (rootR cfg) nR)) then inr G_OUTSIDE
    else if negb (if s then same_tree (tL m) nL else same_tree (tR m) nR) then inr G_OTHER_SIDE
    else if (match origin cfg with
             | Some s0 => side_eqb s s0 &&
                          negb (same_tree (view root (tree_of m s)) (view root (if s then nR else nL)))
             | None => false
             end) then inr G_ORIGIN
    else if quiet m then inr G_ECHO
    else if cov_every_step cfg && negb (all_live (cov m) nL nR) then inr G_COVERED_STEP
    else inl {| tL := nL; tR := nR; spec := spec m; cov := cov m; steps := steps m; quiet := quiet m |}
  | EStep =>
    if negb (same_tree (tL m) nL && same_tree (tR m) nR) then inr G_STEP_TREE
    else if Nat.ltb (step_bound cfg) (S (steps m)) && negb (quiet m) then inr G_BOUND
    else inl {| tL := nL; tR := nR; spec := spec m; cov := cov m; steps := S (steps m); quiet := quiet m |}
  | EQuiet =>
    let vl := view (rootL cfg) nL in
    let vr := view (rootR cfg) nR in
    if negb (same_tree (tL m) nL && same_tree (tR m) nR) then inr G_STEP_TREE
    else if negb (same_tree (strip_conflicted cfg vl) (strip_conflicted cfg vr)) then inr G_CONVERGE
    else if check_spec cfg && negb (same_tree vl (spec m) && same_tree vr (spec m)) then inr G_SPEC
    else if no_conflicted cfg && (has_conflicted cfg vl || has_conflicted cfg vr) then inr G_CONFLICTED
    else if negb (all_live (cov m) nL nR) then inr G_COVERED_QUIET
    else inl {| tL := nL; tR := nR; spec := spec m; cov := cov m; steps := steps m; quiet := true |}
  end.

(* fold; Inr (index, code) names the first rejected observation *)
Fixpoint accept_from (cfg : config) (m : mstate) (tr : list obs) (i : nat) : mstate + (nat * N) :=
  match tr with
  | [] => inl m
  | x :: r => match mstep cfg m x with
              | inl m' => accept_from cfg m' r (S i)
              | inr c => inr (i, c)
              end
  end.

(* the run starts from a synchronised pair of trees: spec = the common view, nothing covered *)
Definition init_state (cfg : config) (l r : tree) : mstate :=
  {| tL := l; tR := r; spec := view (rootL cfg) l; cov := []; steps := 0; quiet := false |}.

Definition accept (cfg : config) (l r : tree) (tr : list obs) : mstate + (nat * N) :=
  accept_from cfg (init_state cfg l r) tr 0.

Definition accepted (cfg : config) (l r : tree) (tr : list obs) : bool :=
  match accept cfg l r tr with inl _ => true | inr _ => false end.

(* ------------------------------------------------------------------ wire format *)
Definition un_side (x : sx) : option side := un_bool x.
Definition un_ev (x : sx) : option ev :=
  match x with
  | L [A 0; s; o] => match un_side s, un_op o with Some s, Some o => Some (EUser s o) | _, _ => None end
  | L [A 1; s; ts] => match un_side s, un_list un_path ts with Some s, Some ts => Some (EEng s ts) | _, _ => None end
  | L [A 2] => Some EStep
  | L [A 3] => Some EQuiet
  | _ => None
  end.
(* trees are delta-encoded on the wire: (A 0) = same as after the previous observation *)
Definition un_tree_delta (prev : tree) (x : sx) : option tree :=
  match x with A 0%N => Some prev | _ => un_tree x end.
Fixpoint un_trace (pl pr : tree) (l : list sx) : option (list obs) :=
  match l with
  | [] => Some []
  | L [e; a; b] :: r =>
    match un_ev e, un_tree_delta pl a, un_tree_delta pr b with
    | Some e, Some a, Some b =>
      match un_trace a b r with
      | Some tr => Some ({| o_ev := e; o_L := a; o_R := b |} :: tr)
      | None => None
      end
    | _, _, _ => None
    end
  | _ :: _ => None
  end.
(* the declined names are an optional ninth field (older producers send eight: nothing declined) *)
Definition un_config_with (rl rr org cs nc cf : sx) (sb : N) (ce : sx) (dc : list name) : option config :=
  match un_path rl, un_path rr, un_opt un_side org, un_bool cs, un_bool nc, un_list un_atom cf, un_bool ce with
  | Some rl, Some rr, Some org, Some cs, Some nc, Some cf, Some ce =>
    Some {| rootL := rl; rootR := rr; origin := org; check_spec := cs; no_conflicted := nc;
            conflicted := cf; step_bound := N.to_nat sb; cov_every_step := ce; declined := dc |}
  | _, _, _, _, _, _, _ => None
  end.
Definition un_config (x : sx) : option config :=
  match x with
  | L [rl; rr; org; cs; nc; cf; A sb; ce] => un_config_with rl rr org cs nc cf sb ce []
  | L [rl; rr; org; cs; nc; cf; A sb; ce; dc] =>
    match un_list un_atom dc with
    | Some dc => un_config_with rl rr org cs nc cf sb ce dc
    | None => None
    end
  | _ => None
  end.

(* request: (0 config initL initR (obs ...)) -> () accepted | (index code) first rejected observation
            (1 tree op)                      -> apply_op, canonical tree
            (2 base (ops) (ops))             -> (disjoint?, merge3)  *)
Definition run (x : sx) : sx :=
  match x with
  | L [A 0; c; l; r; L tr] =>
    match un_config c, un_tree l, un_tree r with
    | Some cfg, Some l, Some r =>
      match un_trace l r tr with
      | Some tr => match accept cfg l r tr with
                   | inl _ => L []
                   | inr (i, code) => L [A (N.of_nat i); A code]
                   end
      | None => sx_malformed
      end
    | _, _, _ => sx_malformed
    end
  | L [A 1; t; o] =>
    match un_tree t, un_op o with
    | Some t, Some o => sx_tree (apply_op t o)
    | _, _ => sx_malformed
    end
  | L [A 2; b; xs; ys] =>
    match un_tree b, un_list un_op xs, un_list un_op ys with
    | Some b, Some xs, Some ys => L [sx_bool (disjoint xs ys); sx_tree (merge3 b xs ys)]
    | _, _, _ => sx_malformed
    end
  | _ => sx_malformed
  end.
