(* Str.v — Python str primitives used by the path helpers, over strings = list N (code points).
   Executable definitions only; lemmas live in StrLemmas.v.  Each primitive is compared with
   CPython on exhaustive small strings by the C13 correspondence run. *)
From Coq Require Import NArith List Bool.
Import ListNotations.

Definition str := list N.

Definition nonempty (s : str) : bool := match s with [] => false | _ => true end.

Fixpoint str_eqb (a b : str) : bool :=
  match a, b with
  | [], [] => true
  | x :: a', y :: b' => N.eqb x y && str_eqb a' b'
  | _, _ => false
  end.

(* s.lstrip(c) / s.rstrip(c) / s.strip(c) for a one-character set *)
Fixpoint lstrip (c : N) (s : str) : str :=
  match s with
  | x :: r => if N.eqb x c then lstrip c r else s
  | [] => []
  end.
Definition rstrip (c : N) (s : str) : str := rev (lstrip c (rev s)).
Definition strip (c : N) (s : str) : str := rstrip c (lstrip c s).

(* s.replace(a, b) for one-character a and b *)
Definition replace_char (a b : N) (s : str) : str :=
  map (fun x => if N.eqb x a then b else x) s.

(* s.startswith(p) *)
Fixpoint startswith (s p : str) : bool :=
  match p, s with
  | [], _ => true
  | y :: p', x :: s' => N.eqb x y && startswith s' p'
  | _ :: _, [] => false
  end.

(* s.rfind(c): index of the last occurrence, None for -1 *)
Fixpoint rfind_from (c : N) (s : str) (i : nat) (acc : option nat) : option nat :=
  match s with
  | [] => acc
  | x :: r => rfind_from c r (S i) (if N.eqb x c then Some i else acc)
  end.
Definition rfind (c : N) (s : str) : option nat := rfind_from c s 0 None.

(* re.split("[c]+", s): maximal runs of c are separators; leading/trailing empty pieces kept *)
Fixpoint split_runs_aux (c : N) (s : str) (cur : str) (prev_sep : bool) : list str :=
  match s with
  | [] => [rev cur]
  | x :: r =>
    if N.eqb x c then
      if prev_sep then split_runs_aux c r cur true
      else rev cur :: split_runs_aux c r [] true
    else split_runs_aux c r (x :: cur) false
  end.
Definition split_runs (c : N) (s : str) : list str := split_runs_aux c s [] false.

(* c.join(parts) *)
Fixpoint intercalate (c : N) (parts : list str) : str :=
  match parts with
  | [] => []
  | [p] => p
  | p :: r => p ++ c :: intercalate c r
  end.

(* the concrete per-character case fold used by the executable model:
   ASCII and Latin-1 upper case -> lower case, identity elsewhere.
   The correspondence run checks chr(c).lower() == chr(fold_std c) on its alphabet. *)
Definition fold_std (c : N) : N :=
  if (N.leb 65 c && N.leb c 90)%bool then (c + 32)%N
  else if (N.leb 192 c && N.leb c 222 && negb (N.eqb c 215))%bool then (c + 32)%N
  else c.
