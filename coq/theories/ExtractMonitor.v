From Coq Require Import ExtrOcamlBasic.
From CS Require Import Sx Monitor.
Definition run := Monitor.run.
Extraction "extract/monitor/model.ml" run.
