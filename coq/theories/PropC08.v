(* PropC08.v — property theorems for C08 (persisted sync state = in-memory state; codec round trip).
   Only statements closed by [exact], each followed by Print Assumptions; Examples show that the
   hypotheses are satisfiable.  Model: CodecModel.v (tied to cloudsync/sync/state.py by
   harness/checks/c08.py). *)
From Coq Require Import NArith ZArith List Bool Permutation.
From CS Require Import Sx Str CodecModel CodecProofs CodecCommitProofs CodecReloadProofs.
Import ListNotations.
Local Open Scope N_scope.

(* ------------------------------------------------------------------ codec *)

(* serialize -> msgpack.dumps -> msgpack.loads -> deserialize, completely characterised: the entry
   survives iff its integers fit 64 bits, every dict key (after list->tuple) is str/bytes and mtime
   is None or a number; what comes back is [norm_entry]: every value field with its Python lists
   turned into tuples, priority 0, force_sync False, _last_gotten 0, storage_id = the row id. *)
Theorem C08_codec_roundtrip_partial : forall sid e,
  roundtrip sid e = if survives e then Some (norm_entry sid e) else None.
Proof. exact roundtrip_char. Qed.
Print Assumptions C08_codec_roundtrip_partial.

(* for well-formed field shapes (no Python list anywhere) every field the property lists is preserved *)
Theorem C08_codec_roundtrip : forall sid e, wf_entry e = true ->
  exists e', roundtrip sid e = Some e' /\ same_synced e e' /\ e_sid e' = Some sid.
Proof. exact codec_roundtrip. Qed.
Print Assumptions C08_codec_roundtrip.

(* full strength ("every value shape a provider may use") is false: a list-valued hash returns as a tuple *)
Theorem C08_codec_roundtrip_refuted : ~ codec_roundtrip_full.
Proof. exact codec_roundtrip_refuted. Qed.
Print Assumptions C08_codec_roundtrip_refuted.

(* a dict-valued hash with a non-str/bytes key is written but can never be loaded again
   (strict_map_key): SyncState.__init__ then deletes the row *)
Theorem C08_written_rows_load_refuted : ~ written_rows_load.
Proof. exact written_rows_load_refuted. Qed.
Print Assumptions C08_written_rows_load_refuted.

(* priority, force_sync and _last_gotten are never restored *)
Theorem C08_volatile_fields_reset : forall sid e e', roundtrip sid e = Some e' ->
  e_priority e' = MInt 0%Z /\
  s_force_sync (e_s0 e') = false /\ s_force_sync (e_s1 e') = false /\
  s_last_gotten (e_s0 e') = MFloat 0 /\ s_last_gotten (e_s1 e') = MFloat 0.
Proof. exact volatile_reset. Qed.
Print Assumptions C08_volatile_fields_reset.

(* existence (the corrupt marker included), the saved existence and the ignore reason always survive *)
Theorem C08_corrupt_marker_roundtrip : forall sid e e', roundtrip sid e = Some e' ->
  s_exists (e_s0 e') = s_exists (e_s0 e) /\ s_saved (e_s0 e') = s_saved (e_s0 e) /\
  s_exists (e_s1 e') = s_exists (e_s1 e) /\ s_saved (e_s1 e') = s_saved (e_s1 e) /\
  e_ignored e' = e_ignored e.
Proof. exact corrupt_marker_roundtrip. Qed.
Print Assumptions C08_corrupt_marker_roundtrip.

(* trash-ness and membership of the pending set survive *)
Theorem C08_roundtrip_trash_pending : forall sid e e', roundtrip sid e = Some e' ->
  is_trash e' = is_trash e /\ pending e' = pending e.
Proof. exact roundtrip_trash_pending. Qed.
Print Assumptions C08_roundtrip_trash_pending.

(* rows of older releases: boolean / None existence, no size / mtime / _saved_exists / priority,
   'discarded' / 'conflicted' keys, ignore reason 'trashed' or unknown *)
Theorem C08_legacy_loads : forall sid s0 s1 lex0 lex1 x0 x1 t,
  keys_ok (legacy_row s0 s1 lex0 lex1 t) = true ->
  parse_exists lex0 = Some x0 -> parse_exists lex1 = Some x1 ->
  load_row sid (legacy_row s0 s1 lex0 lex1 t) =
  Some (mkEntry (legacy_side_loaded s0 x0) (legacy_side_loaded s1 x1) (legacy_tail_ign t) (MInt 0%Z) (Some sid)).
Proof. exact legacy_loads. Qed.
Print Assumptions C08_legacy_loads.

Theorem C08_legacy_exists_values :
  parse_exists (MBool true) = Some XExists /\ parse_exists (MBool false) = Some XTrashed /\
  parse_exists MNil = Some XUnknown /\ forall x, parse_exists (MStr (exi_val x)) = Some x.
Proof. exact legacy_exists_values. Qed.
Print Assumptions C08_legacy_exists_values.

(* ------------------------------------------------------------------ dirty set and commit *)

(* model variant that clears storage_id when the row of a trash entry is deleted: for every
   history of entry creations, field assignments through __setattr__ and commits that iterate over
   the whole dirty set (any order), no commit raises and after each commit the rows are exactly the
   serialisations of the live entries *)
Theorem C08_commit_exact_partial : commit_exact_full true.
Proof. exact commit_exact_fixed. Qed.
Print Assumptions C08_commit_exact_partial.

(* ... the same from any state satisfying the invariant G, not only the empty one *)
Theorem C08_commit_exact_from : forall hs ps0 ord,
  G ps0 -> hist_okb true hs ps0 = true ->
  incl (dirty (fst (exec true hs ps0))) ord ->
  snd (commit true ord (fst (exec true hs ps0))) = ENone /\
  exact (fst (commit true ord (fst (exec true hs ps0)))).
Proof. exact commit_exact. Qed.
Print Assumptions C08_commit_exact_from.

(* the code as it is (storage_id kept): a live entry loses its row *)
Theorem C08_commit_exact_refuted : ~ commit_exact_full false.
Proof. exact commit_exact_refuted. Qed.
Print Assumptions C08_commit_exact_refuted.

Theorem C08_commit_order_independent_partial : commit_order_independent_full true.
Proof. exact commit_order_independent_fixed. Qed.
Print Assumptions C08_commit_order_independent_partial.

Theorem C08_commit_order_independent_refuted : ~ commit_order_independent_full false.
Proof. exact commit_order_independent_refuted. Qed.
Print Assumptions C08_commit_order_independent_refuted.

(* the hypothesis "every mutation marks the entry dirty" is needed *)
Theorem C08_commit_exact_unconditional_refuted :
  ~ (forall clr pl hs ord, incl (dirty (fst (exec clr hs (init pl)))) ord ->
       exact (fst (commit clr ord (fst (exec clr hs (init pl)))))).
Proof. exact commit_exact_unconditional_refuted. Qed.
Print Assumptions C08_commit_exact_unconditional_refuted.

(* the computable snapshot used by the harness agrees with [exact] *)
Theorem C08_exact_view : forall ps, Ser (ents ps) -> exact ps -> live_view ps = want ps /\ stale ps = [].
Proof. exact exact_view. Qed.
Print Assumptions C08_exact_view.

(* ------------------------------------------------------------------ reload *)

(* a restart over a store that is exact for a state whose live entries have well-formed field
   shapes loads exactly the live entries (normalised: priority 0, force_sync False, _last_gotten 0)
   and deletes no row *)
Theorem C08_reload_entries : forall ps, Ser (ents ps) -> exact ps -> live_wf ps ->
  (forall e', In e' (fst (load (sto ps))) <->
     exists e i, In e (ents ps) /\ is_trash e = false /\ e_sid e = Some i /\ e' = norm_entry i e) /\
  snd (load (sto ps)) = sto ps.
Proof. exact reload_entries. Qed.
Print Assumptions C08_reload_entries.

(* ... hence the same entries (by storage id) under every oid, under every path, and the same pending set *)
Theorem C08_reload_same_lookups : forall ps, Ser (ents ps) -> exact ps -> live_wf ps ->
  forall x,
    (forall sd oid, In x (lookup_oid sd oid (fst (load (sto ps)))) <-> In x (lookup_oid sd oid (live (ents ps)))) /\
    (forall sd p, In x (lookup_path sd p (fst (load (sto ps)))) <-> In x (lookup_path sd p (live (ents ps)))) /\
    (In x (pending_set (fst (load (sto ps)))) <-> In x (pending_set (live (ents ps)))).
Proof. exact reload_same_lookups. Qed.
Print Assumptions C08_reload_same_lookups.


(* ------------------------------------------------------------------ non-vacuity *)
Example wf_nonvacuous :
  wf_entry (mkEntry (mkSide ODir (MInt 0%Z) (MTup [MBin [1; 255]; MMap [(MStr [107], MInt (-5)%Z)]]) (MFloat 7)
                            (MBin [9]) (MStr [47; 233]) (MStr [47; 20013]) (MInt 42%Z) XCorrupt MNil (MInt 3%Z) (MFloat 2)
                            (Some XTrashed) true (MFloat 7))
                    (w_side MNil) ITemp (MInt 3%Z) None) = true.
Proof. reflexivity. Qed.

Example hist_nonvacuous : hist_okb true w_hist (init PSqlite) = true /\ hist_okb false w_hist (init PSqlite) = true.
Proof. split; vm_compute; reflexivity. Qed.

Example witness_rows :
  ids (rows (sto (fst (commit false w_good (fst (exec false w_hist (init PSqlite))))))) = [1; 2] /\
  ids (rows (sto (fst (commit false w_bad (fst (exec false w_hist (init PSqlite))))))) = [1] /\
  ids (rows (sto (fst (commit true w_bad (fst (exec true w_hist (init PSqlite))))))) = [1; 2].
Proof. repeat split; vm_compute; reflexivity. Qed.

Example legacy_nonvacuous :
  keys_ok (legacy_row (w_side w_a) (w_side MNil) (MBool true) MNil LtTrashedReason) = true.
Proof. reflexivity. Qed.

Example reload_nonvacuous :
  let ps := fst (commit true w_bad (fst (exec true w_hist (init PSqlite)))) in
  live_wf ps /\ length (fst (load (sto ps))) = 2%nat.
Proof.
  split; [|vm_compute; reflexivity].
  intros e H. vm_compute in H. destruct H as [<-|[<-|[<-|[]]]]; intros Ht; try reflexivity; vm_compute in Ht; discriminate Ht.
Qed.
