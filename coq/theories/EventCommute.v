(* EventCommute.v — events for different ids of an id-stable provider commute (observed through the id index). *)
From Coq Require Import NArith List Bool Arith Lia.
From CS Require Import Sx Str PathModel PathLaws StateModel StateProofs StatePathProofs EventModel EventProofs EventLaws.
Import ListNotations.

(* ---------------------------------------------------------------- H. events for different ids commute *)
(* what can be seen of a state through the id index of a side: the entry filed under the id, and whether it is pending *)
Definition obsc (s : state) (sd : bool) (o : str) : option (entry * bool) :=
  match al_get o (oids s sd) with
  | Some e => match nth_error (ents s) e with Some en => Some (en, set_mem e (cset s)) | None => None end
  | None => None
  end.
Definition orel (a b : option (entry * bool)) : Prop :=
  match a, b with
  | Some (x, m), Some (y, n) => abs_entry x = abs_entry y /\ m = n
  | None, None => True
  | _, _ => False
  end.
Definition eqv_obs (s s' : state) : Prop := forall sd o, orel (obsc s sd o) (obsc s' sd o).

Lemma nth_base_lt s sd (o : str) ot e' : e' <> upd_target s sd o -> IdxJ s ->
  nth_error (upd_base s sd o ot) e' = nth_error (ents s) e'.
Proof.
  intros Hne HJ. unfold upd_base, upd_target in *. destruct (al_get o (oids s sd)); [reflexivity|].
  destruct (Nat.lt_ge_cases e' (length (ents s))) as [Hl|Hl].
  - apply nth_error_app1. exact Hl.
  - rewrite nth_error_app2 by exact Hl. destruct (e' - length (ents s)) as [|k] eqn:Ek; [exfalso; apply Hne; lia|].
    simpl. destruct k; symmetry; apply nth_error_None; exact Hl.
Qed.

Lemma obsc_update E s sd ot (o : str) path h ex s1 :
  IdxJ s -> oip E sd = false -> ot <> Dir -> o <> [] ->
  update E s sd (Some ot) (Some o) path h ex None = Ok s1 ->
  IdxJ s1 /\
  exists c, tchg c = true /\
  let en0 := match obsc s sd o with Some (en, _) => en | None => new_entry ot end in
  let en1 := ev_entry en0 sd ot o (omap (nps (cvs E sd)) path) h ex c in
  forall sd' (o' : str),
    obsc s1 sd' o' =
    if Bool.eqb sd' sd && str_eqb o' o then Some (en1, true)
    else match obsc s sd' o' with
         | Some (en, m) => if ostr_eqb (s_oid (gs en sd)) (Some o) then Some (en1, true) else Some (en, m)
         | None => None
         end.
Proof.
  intros HJ Hoip Hot Hne H.
  destruct (update_spec _ _ _ _ _ _ _ _ _ HJ Hoip Hot Hne H) as [en [c [Hn [Hc [Hnew [Hold [He [Hm HJ1]]]]]]]].
  split; [exact HJ1|]. exists c. split; [exact Hc|]. cbv zeta.
  set (tgt := upd_target s sd o) in *. set (np := omap (nps (cvs E sd)) path) in *.
  assert (Hen0: match obsc s sd o with Some (en', _) => en' | None => new_entry ot end = en).
  { unfold obsc. unfold tgt, upd_target, upd_base in Hn. destruct (al_get o (oids s sd)) as [e0|] eqn:Ea.
    - rewrite Hn. reflexivity.
    - symmetry. apply Hnew. reflexivity. }
  rewrite Hen0. set (en1 := ev_entry en sd ot o np h ex c) in *.
  assert (Hn1: nth_error (ents s1) tgt = Some en1) by (rewrite He; apply (nth_upd_eq _ _ _ _ Hn)).
  assert (Hoth: forall e', e' <> tgt -> nth_error (ents s1) e' = nth_error (ents s) e').
  { intros e' Hne'. rewrite He, nth_list_upd. destruct (Nat.eqb_spec e' tgt); [contradiction|]. apply nth_base_lt; assumption. }
  assert (Htgt_s: forall en', nth_error (ents s) tgt = Some en' -> en' = en /\ s_oid (gs en sd) = Some o).
  { intros en' Hx. unfold tgt, upd_target, upd_base in *. destruct (al_get o (oids s sd)) as [e0|] eqn:Ea.
    - rewrite Hn in Hx. injection Hx as <-. split; [reflexivity|apply Hold; discriminate].
    - exfalso. assert (length (ents s) < length (ents s)) by (apply nth_error_Some; congruence). lia. }
  assert (Hown: forall e' en', nth_error (ents s) e' = Some en' -> s_oid (gs en' sd) = Some o -> e' = tgt).
  { intros e' en' Hx Hy. pose proof (IdxJ_holder s e' sd o en' HJ Hx Hy) as Ha. unfold tgt, upd_target. rewrite Ha. reflexivity. }
  assert (Hoid1: s_oid (gs en1 sd) = Some o) by apply ev_entry_oid.
  assert (Hoth1: gs en1 (negb sd) = gs en (negb sd)) by (unfold en1, ev_entry; rewrite gs_with_prio, gs_ss_other; reflexivity).
  (* holder of every id after the event *)
  assert (Hhold: forall sd' (o' : str), al_get o' (oids s1 sd') =
             if Bool.eqb sd' sd && str_eqb o' o then Some tgt else al_get o' (oids s sd')).
  { intros sd' o'. destruct (Bool.eqb sd' sd && str_eqb o' o)%bool eqn:Ek.
    - apply andb_prop in Ek as [Es Eo]. apply Bool.eqb_prop in Es. apply str_eqb_eq in Eo. subst sd' o'.
      apply (IdxJ_holder s1 tgt sd o en1 HJ1 Hn1 Hoid1).
    - destruct (al_get o' (oids s sd')) as [e'|] eqn:Ea.
      + assert (Hoe: oid_of s e' sd' = Some o') by (destruct HJ as [_ [Ho _]]; apply Ho; exact Ea).
        destruct (oid_of_some_ent _ _ _ _ Hoe) as [en' [Hen' Hos']]. apply get_ent_ok in Hen'.
        destruct (Nat.eq_dec e' tgt) as [->|Hne'].
        * destruct (Htgt_s _ Hen') as [-> Hoo].
          destruct (Bool.eqb_spec sd' sd) as [->|Hns].
          -- rewrite Hoo in Hos'. injection Hos' as <-. rewrite str_eqb_refl in Ek. discriminate.
          -- assert (sd' = negb sd) by (destruct sd, sd'; try reflexivity; exfalso; apply Hns; reflexivity). subst sd'.
             apply (IdxJ_holder s1 tgt (negb sd) o' en1 HJ1 Hn1). rewrite Hoth1. exact Hos'.
        * apply (IdxJ_holder s1 e' sd' o' en' HJ1); [rewrite Hoth by exact Hne'; exact Hen'|exact Hos'].
      + destruct (al_get o' (oids s1 sd')) as [e'|] eqn:Ea1; [|reflexivity]. exfalso.
        assert (Hoe: oid_of s1 e' sd' = Some o') by (destruct HJ1 as [_ [Ho _]]; apply Ho; exact Ea1).
        destruct (oid_of_some_ent _ _ _ _ Hoe) as [en' [Hen' Hos']]. apply get_ent_ok in Hen'.
        destruct (Nat.eq_dec e' tgt) as [->|Hne'].
        * rewrite Hn1 in Hen'. injection Hen' as <-.
          destruct (Bool.eqb_spec sd' sd) as [->|Hns].
          -- rewrite Hoid1 in Hos'. injection Hos' as <-. rewrite str_eqb_refl in Ek. discriminate.
          -- assert (sd' = negb sd) by (destruct sd, sd'; try reflexivity; exfalso; apply Hns; reflexivity). subst sd'.
             rewrite Hoth1 in Hos'.
             unfold tgt, upd_target, upd_base in Hn. destruct (al_get o (oids s sd)) as [e0|] eqn:Eo.
             ++ pose proof (IdxJ_holder s e0 (negb sd) o' en HJ Hn Hos') as Hx. congruence.
             ++ rewrite (Hnew eq_refl) in Hos'. destruct sd; discriminate.
        * rewrite Hoth in Hen' by exact Hne'. pose proof (IdxJ_holder s e' sd' o' en' HJ Hen' Hos') as Hx. congruence. }
  intros sd' o'. unfold obsc at 1. rewrite Hhold.
  destruct (Bool.eqb sd' sd && str_eqb o' o)%bool eqn:Ek.
  - rewrite Hn1, Hm, Nat.eqb_refl. reflexivity.
  - unfold obsc. destruct (al_get o' (oids s sd')) as [e'|] eqn:Ea; [|reflexivity].
    destruct (Nat.eq_dec e' tgt) as [->|Hne'].
    + rewrite Hn1, Hm, Nat.eqb_refl. cbn [orb].
      destruct (nth_error (ents s) tgt) as [en'|] eqn:Ex.
      * destruct (Htgt_s _ eq_refl) as [-> Hoo]. rewrite Hoo, ostr_eqb_refl. reflexivity.
      * exfalso. destruct HJ as [_ [Ho _]]. apply Ho in Ea. unfold oid_of in Ea. rewrite Ex in Ea. discriminate.
    + rewrite Hoth by exact Hne'. rewrite Hm. destruct (Nat.eqb_spec e' tgt); [contradiction|]. cbn [orb].
      destruct (nth_error (ents s) e') as [en'|] eqn:Ex; [|reflexivity].
      destruct (ostr_eqb (s_oid (gs en' sd)) (Some o)) eqn:Eo; [|reflexivity].
      apply ostr_eqb_eq in Eo. exfalso. apply Hne'. apply (Hown _ _ Ex Eo).
Qed.

Lemma obsc_st_tape s t sd o : obsc (st_tape s t) sd o = obsc s sd o.
Proof. unfold obsc. destruct sd; reflexivity. Qed.
Lemma obsc_oid s sd (o : str) en m : IdxJ s -> obsc s sd o = Some (en, m) -> s_oid (gs en sd) = Some o.
Proof.
  intros [_ [Ho _]] H. unfold obsc in H. destruct (al_get o (oids s sd)) as [e|] eqn:Ea; [|discriminate].
  apply Ho in Ea. unfold oid_of in Ea. destruct (nth_error (ents s) e) as [en'|]; [|discriminate]. injection H as <- _. exact Ea.
Qed.
Lemma abs_ev_entry_c en sd ot (o : str) np h ex c c' : tchg c = tchg c' ->
  abs_entry (ev_entry en sd ot o np h ex c) = abs_entry (ev_entry en sd ot o np h ex c').
Proof.
  intros H. unfold ev_entry. rewrite !abs_entry_split. f_equal.
  apply (abs_noprio_ext _ _ sd); rewrite ?gs_with_prio, ?gs_ss_same, ?gs_ss_other, ?ign_with_prio, ?ign_ss; try reflexivity.
  unfold abs_side, ev_side. cbn. rewrite H. reflexivity.
Qed.
Lemma str_eqb_sym a b : str_eqb a b = str_eqb b a.
Proof. destruct (str_eqb_spec a b) as [->|H]; [rewrite str_eqb_refl; reflexivity|]. symmetry. apply str_eqb_neq. congruence. Qed.

Theorem events_commute_distinct_oids_thm E s sd otA (oA : str) pA hA exA otB (oB : str) pB hB exB tA tB tA' tB' sA sAB sB sBA :
  IdxJ s -> oip E sd = false -> otA <> Dir -> otB <> Dir -> oA <> [] -> oB <> [] -> oA <> oB ->
  update E (st_tape s tA) sd (Some otA) (Some oA) pA hA exA None = Ok sA ->
  update E (st_tape sA tB) sd (Some otB) (Some oB) pB hB exB None = Ok sAB ->
  update E (st_tape s tB') sd (Some otB) (Some oB) pB hB exB None = Ok sB ->
  update E (st_tape sB tA') sd (Some otA) (Some oA) pA hA exA None = Ok sBA ->
  IdxJ sAB /\ IdxJ sBA /\ eqv_obs sAB sBA.
Proof.
  intros HJ Hoip HotA HotB HnA HnB Hab UA UAB UB UBA.
  destruct (obsc_update _ _ _ _ _ _ _ _ _ (IdxJ_st_tape _ tA HJ) Hoip HotA HnA UA) as [HJA [cA [HcA FA]]].
  destruct (obsc_update _ _ _ _ _ _ _ _ _ (IdxJ_st_tape _ tB HJA) Hoip HotB HnB UAB) as [HJAB [cB [HcB FAB]]].
  destruct (obsc_update _ _ _ _ _ _ _ _ _ (IdxJ_st_tape _ tB' HJ) Hoip HotB HnB UB) as [HJB [cB' [HcB' FB]]].
  destruct (obsc_update _ _ _ _ _ _ _ _ _ (IdxJ_st_tape _ tA' HJB) Hoip HotA HnA UBA) as [HJBA [cA' [HcA' FBA]]].
  cbv zeta in FA, FAB, FB, FBA.
  split; [exact HJAB|]. split; [exact HJBA|].
  assert (Hne_ab: str_eqb oB oA = false) by (apply str_eqb_neq; congruence).
  assert (Hne_ba: str_eqb oA oB = false) by (apply str_eqb_neq; congruence).
  (* the entry each event starts from is the same in both orders *)
  assert (HB0: obsc (st_tape sA tB) sd oB = obsc (st_tape s tB') sd oB).
  { rewrite !obsc_st_tape, FA, bool_eqb_refl, Hne_ab. cbn [andb]. rewrite obsc_st_tape.
    destruct (obsc s sd oB) as [[en m]|] eqn:Eo; [|reflexivity].
    rewrite (obsc_oid _ _ _ _ _ HJ Eo). cbn [ostr_eqb]. rewrite Hne_ab. reflexivity. }
  assert (HA0: obsc (st_tape sB tA') sd oA = obsc (st_tape s tA) sd oA).
  { rewrite !obsc_st_tape, FB, bool_eqb_refl, Hne_ba. cbn [andb]. rewrite obsc_st_tape.
    destruct (obsc s sd oA) as [[en m]|] eqn:Eo; [|reflexivity].
    rewrite (obsc_oid _ _ _ _ _ HJ Eo). cbn [ostr_eqb]. rewrite Hne_ba. reflexivity. }
  rewrite HB0 in FAB. rewrite HA0 in FBA.
  set (enA0 := match obsc (st_tape s tA) sd oA with Some (en, _) => en | None => new_entry otA end) in *.
  set (enB0 := match obsc (st_tape s tB') sd oB with Some (en, _) => en | None => new_entry otB end) in *.
  set (npA := omap (nps (cvs E sd)) pA) in *. set (npB := omap (nps (cvs E sd)) pB) in *.
  assert (HoA1: forall c, s_oid (gs (ev_entry enA0 sd otA oA npA hA exA c) sd) = Some oA) by (intros; apply ev_entry_oid).
  assert (HoB1: forall c, s_oid (gs (ev_entry enB0 sd otB oB npB hB exB c) sd) = Some oB) by (intros; apply ev_entry_oid).
  assert (HabsA: abs_entry (ev_entry enA0 sd otA oA npA hA exA cA) = abs_entry (ev_entry enA0 sd otA oA npA hA exA cA')) by (apply abs_ev_entry_c; congruence).
  assert (HabsB: abs_entry (ev_entry enB0 sd otB oB npB hB exB cB) = abs_entry (ev_entry enB0 sd otB oB npB hB exB cB')) by (apply abs_ev_entry_c; congruence).
  intros sd' o'. rewrite FAB, FBA, !obsc_st_tape, FA, FB, !obsc_st_tape.
  destruct (Bool.eqb sd' sd) eqn:Es; cbn [andb].
  - destruct (str_eqb o' oA) eqn:EA, (str_eqb o' oB) eqn:EB.
    + apply str_eqb_eq in EA, EB. congruence.
    + rewrite HoA1. cbn [ostr_eqb]. rewrite Hne_ba. cbn [orel]. split; [exact HabsA|reflexivity].
    + rewrite HoB1. cbn [ostr_eqb]. rewrite Hne_ab. cbn [orel]. split; [exact HabsB|reflexivity].
    + apply Bool.eqb_prop in Es. subst sd'.
      destruct (obsc s sd o') as [[en m]|] eqn:Eo; [|exact I].
      rewrite (obsc_oid _ _ _ _ _ HJ Eo). cbn [ostr_eqb]. rewrite EA, EB. rewrite (obsc_oid _ _ _ _ _ HJ Eo). cbn [ostr_eqb]. rewrite EA, EB.
      cbn [orel]. split; reflexivity.
  - destruct (obsc s sd' o') as [[en m]|] eqn:Eo; [|exact I].
    destruct (ostr_eqb (s_oid (gs en sd)) (Some oA)) eqn:EA, (ostr_eqb (s_oid (gs en sd)) (Some oB)) eqn:EB.
    + apply ostr_eqb_eq in EA, EB. congruence.
    + cbv beta iota. rewrite ?HoA1. cbn [ostr_eqb]. rewrite ?Hne_ba, ?EA. cbv beta iota. rewrite ?HoA1. cbn [ostr_eqb orel]. rewrite ?Hne_ba. split; [exact HabsA|reflexivity].
    + cbv beta iota. rewrite ?HoB1. cbn [ostr_eqb]. rewrite ?Hne_ab, ?EB. cbv beta iota. rewrite ?HoB1. cbn [ostr_eqb orel]. rewrite ?Hne_ab. split; [exact HabsB|reflexivity].
    + cbv beta iota. rewrite ?EA, ?EB. cbn [orel]. split; reflexivity.
Qed.
