(* AlgoTotal.v — parts of the engine that never leave the fragment: from the invariant the model answers ROk. *)
From Coq Require Import NArith List Bool Arith Lia.
From CS Require Import Sx Str PathModel PathLaws StateModel StateProofs ProvModel ProvProofs EventLaws
     AlgoModel AlgoCheck AlgoState AlgoProv AlgoPath AlgoInv AlgoIntake AlgoSync AlgoLatest AlgoFinish AlgoSyncEntry AlgoStep.
Import ListNotations.
Local Open Scope N_scope.

(* one event of the pending list is always taken in *)
Lemma process_event_total evl g w sd ev rest :
  InvP evl g w -> evl sd = ev :: rest -> exists w', process_event w sd ev = ROk w'.
Proof.
  intros I Hevl.
  destruct (i_log _ _ _ I sd ev ltac:(rewrite Hevl; left; reflexivity)) as (k & ob & Hoid & Hk & Hob & Hot & Hdead).
  destruct (sh_files _ _ (i_shape _ _ _ I sd) k ob Hk Hob) as (Hkf & n & Hpn & Hnok).
  pose proof (i_cfg _ _ _ I) as Hcfg.
  unfold process_event. rewrite Hcfg.
  assert (Hf: (oip_of (cfg_std 1) sd || c_filt (cfg_std 1))%bool = false) by (destruct sd; reflexivity).
  rewrite Hf. rewrite <- Hcfg.
  destruct (root_check evl g w sd k I Hk) as (ri & Hri & Hrk). rewrite Hri, Hoid, Hrk. cbn [rbind].
  rewrite kstr_kid. unfold lookup_oid.
  set (s0 := st_tape (w_st w) [TSwap false; TSwap false]) in *.
  assert (HI0: IdxJ s0) by (apply IdxJ_tape; apply (i_idx _ _ _ I)).
  assert (Hclk0: lastch s0 <= now s0) by (apply (i_clk _ _ _ I)).
  assert (HE: E w = env_of (cfg_std 1)) by (unfold E; rewrite Hcfg; reflexivity).
  destruct env_of_std as (Hleg & Hoip & Hcvs).
  assert (Hty: otype_of_kind (ProvModel.e_otype ev) = File) by (rewrite Hot, Hkf; reflexivity).
  rewrite Hty.
  destruct (al_get (ostr_k k) (oids (w_st w) sd)) as [e|] eqn:Ea.
  - destruct (idx_lookup _ _ _ _ (i_idx _ _ _ I) Ea) as (en & He & Ho). rewrite He.
    pose proof (entry_ge2 _ _ _ _ _ _ _ I He Ho Hk) as He2.
    pose proof (i_ents _ _ _ I e en He2 He) as EO.
    destruct (so_full _ _ _ _ _ _ (eo_side _ _ _ _ _ EO sd) _ Ho) as (k1 & ob1 & Hk1 & Hob1 & _ & FO).
    apply ostr_k_inj in Hk1. subst k1. assert (ob1 = ob) by congruence. subst ob1.
    assert (Hn0: nth_error (ents s0) e = Some en) by exact He.
    assert (Ha0: al_get (ostr_k k) (oids s0 sd) = Some e) by (destruct sd; exact Ea).
    assert (Hnp: forall p, s_path (gs en sd) = Some p -> nps (cvs (env_of (cfg_std 1)) sd) p = p).
    { intros p Hp. rewrite Hcvs. eapply (file_path_normal w sd k ob); eauto. apply (i_shape _ _ _ I). apply (fo_path _ _ _ _ _ _ _ _ FO). }
    destruct (update_known_eff (env_of (cfg_std 1)) Hleg Hoip s0 sd (ostr_k k) e en (ProvModel.e_exists ev) File
                Hn0 Ha0 Ho (tstr_ostr k) (so_file _ _ _ _ _ _ (eo_side _ _ _ _ _ EO sd)) ltac:(discriminate) Hnp Hclk0)
      as (s1 & Hu & F1 & T1).
    unfold st_op. fold s0. rewrite HE. rewrite Hu. cbn [rbind]. eexists. reflexivity.
  - assert (Ha0: al_get (ostr_k k) (oids s0 sd) = None) by (destruct sd; exact Ea).
    destruct (update_new_eff (env_of (cfg_std 1)) Hleg Hoip s0 sd (ostr_k k) (ProvModel.e_exists ev) File false [TSwap false]
                Ha0 (tstr_ostr k) ltac:(discriminate) Hclk0 eq_refl) as (s1 & Hu & _).
    unfold st_op. fold s0. rewrite HE. rewrite Hu. cbn [rbind]. eexists. reflexivity.
Qed.

Lemma process_events_total l : forall evl g w sd, InvP evl g w -> evl sd = l -> exists w', process_events w sd l = ROk w'.
Proof.
  induction l as [|ev rest IH]; intros evl g w sd I Hevl.
  - simpl. eexists. reflexivity.
  - simpl. destruct (process_event_total evl g w sd ev rest I Hevl) as (w1 & E1). rewrite E1. cbn [rbind].
    pose proof (process_event_pres evl g w sd ev rest w1 I Hevl E1) as I1.
    assert (Hr: evl_set evl sd rest sd = rest) by (unfold evl_set; rewrite Bool.eqb_reflx; reflexivity).
    apply (IH _ g w1 sd I1 Hr).
Qed.

(* EventManager.do never leaves the fragment: whatever events are pending, the model takes them all in *)
Theorem intake_total g w sd : Inv g w -> exists w', intake w sd = ROk w'.
Proof.
  intros I. unfold intake. rewrite (read_events_all _ (i_pwf _ _ _ I sd)).
  set (w1 := with_prov w sd _).
  pose proof (InvP_cursor _ g w sd I) as I1. fold w1 in I1.
  apply (process_events_total _ (real_evl w) g w1 sd I1). reflexivity.
Qed.

(* ------------------------------------------------------------------ get_latest, the path-filling loop, pre_sync *)
Lemma get_latest_loop_total evl g e force mx : forall sides w,
  InvP evl g w -> (2 <= e)%nat -> (exists en, nth_error (ents (w_st w)) e = Some en) -> mx <= now (w_st w) + 1 ->
  exists w', get_latest_loop w e force mx sides = ROk w'.
Proof.
  induction sides as [|sd r IH]; intros w I He (en & Hn) Hmx.
  - simpl. eexists. reflexivity.
  - simpl. destruct (force || N.ltb (x_lg (getx w e sd)) mx)%bool.
    + destruct (uget_latest_spec evl g w e sd en I He Hn) as (wa & en' & m & Eu & _). rewrite Eu. cbn [rbind].
      destruct (refresh_side_pres evl g w e sd en mx wa I He Hn Hmx Eu) as (I2 & _ & _ & (en2 & Hn2 & _) & _ & _ & Hnow2 & _).
      change (setx wa e sd (fun x => mkX mx (x_tname x) (x_tfile x))) with (setx wa e sd (set_lg mx)).
      apply (IH _ I2 He (ex_intro _ en2 Hn2)). lia.
    + cbn [rbind]. apply (IH _ I He (ex_intro _ en Hn) Hmx).
Qed.

Lemma get_latest_total evl g w e force sides en :
  InvP evl g w -> (2 <= e)%nat -> nth_error (ents (w_st w)) e = Some en -> exists w', get_latest w e force sides = ROk w'.
Proof.
  intros I He Hn. unfold get_latest, get_e, lift, get_ent. rewrite Hn. cbn [rbind].
  apply (get_latest_loop_total evl g e force _ sides w I He (ex_intro _ en Hn)).
  destruct (i_clke _ _ _ I e en Hn) as (Hm & _). unfold maxchg, chgv in Hm.
  clear - Hm. induction sides as [|sd r IHs]; simpl; [lia|]. destruct sd; simpl; lia.
Qed.

Lemma fill_one_total g w e sd : Inv g w -> (2 <= e)%nat -> set_mem e (cset (w_st w)) = true -> exists w', fill_one w e sd = ROk w'.
Proof.
  intros I He Hm. unfold fill_one, get_e, lift, get_ent.
  pose proof (i_csb _ _ _ I e Hm) as Hlt. destruct (nth_error (ents (w_st w)) e) as [en|] eqn:Hn; [|apply nth_error_None in Hn; lia].
  cbn [rbind]. match goal with |- exists _, (if ?B then _ else _) = _ => destruct B end.
  - apply (get_latest_total (real_evl w) g w e false [sd] en I He Hn).
  - eexists. reflexivity.
Qed.

Lemma fill_one_total' g w e sd : Inv g w -> (2 <= e)%nat -> (e < length (ents (w_st w)))%nat ->
  exists w', fill_one w e sd = ROk w' /\ Inv g w' /\ length (ents (w_st w')) = length (ents (w_st w)).
Proof.
  intros I He Hlt. unfold fill_one, get_e, lift, get_ent.
  destruct (nth_error (ents (w_st w)) e) as [en|] eqn:Hn; [|apply nth_error_None in Hn; lia].
  cbn [rbind]. match goal with |- exists _, (if ?B then _ else _) = _ /\ _ => destruct B end.
  - destruct (get_latest_total (real_evl w) g w e false [sd] en I He Hn) as (w' & Eg). exists w'. split; [exact Eg|].
    destruct (get_latest_pres (real_evl w) g w e false [sd] w' I He Eg) as (I1 & Hp & _ & _ & _ & Hlen).
    split; [|exact Hlen]. unfold Inv. apply (InvP_ext (real_evl w)); [intros sd0; unfold real_evl; rewrite Hp; reflexivity|exact I1].
  - exists w. auto.
Qed.

Lemma fill_paths_total g : forall order w, Inv g w -> Forall (fun e => (2 <= e)%nat /\ (e < length (ents (w_st w)))%nat) order ->
  exists w', fill_paths w order = ROk w' /\ length (ents (w_st w')) = length (ents (w_st w)).
Proof.
  induction order as [|e r IH]; intros w I Hall.
  - simpl. eexists. split; reflexivity.
  - simpl. inversion Hall as [|? ? (He & Hlt) Hr]; subst.
    destruct (fill_one_total' g w e false I He Hlt) as (w1 & E1 & I1 & L1). rewrite E1. cbn [rbind].
    destruct (fill_one_total' g w1 e true I1 He ltac:(lia)) as (w2 & E2 & I2 & L2). rewrite E2. cbn [rbind].
    destruct (IH w2 I2) as (w3 & E3 & L3); [eapply Forall_impl; [|exact Hr]; intros x (A & B); split; [exact A|lia]|].
    exists w3. split; [exact E3|lia].
Qed.

Lemma revivify_total g w e en sd : Inv g w -> (2 <= e)%nat -> nth_error (ents (w_st w)) e = Some en -> revivify_side w e sd = ROk tt.
Proof.
  intros I He Hn. pose proof (i_ents _ _ _ I e en He Hn) as EO. unfold revivify_side, get_e, lift, get_ent. rewrite Hn. cbn [rbind].
  assert (Hir: ign_eqb (e_ign en) IIrrelevant = false) by (destruct (eo_ign _ _ _ _ _ EO) as [X|X]; rewrite X; reflexivity).
  rewrite Hir. destruct (_ || _)%bool; [reflexivity|].
  destruct (lookup_oid (w_st w) sd (s_oid (gs en sd))) as [e'|]; [destruct (Nat.eqb e' e); reflexivity|reflexivity].
Qed.

Lemma finished_total g w e en side : Inv g w -> (2 <= e)%nat -> nth_error (ents (w_st w)) e = Some en ->
  exists w', AlgoModel.finished w e side = ROk w'.
Proof.
  intros I He Hn. pose proof (i_ents _ _ _ I e en He Hn) as EO.
  destruct (finished_w w e side en (i_cfg _ _ _ I) (i_tape _ _ _ I) Hn (i_csb _ _ _ I)
              (ent_chg_oid (real_evl w) g w e en EO (negb side)) (ent_force (real_evl w) g w e en EO false) (ent_force (real_evl w) g w e en EO true))
    as (w2 & en' & H2 & _). eauto.
Qed.

(* pre_sync never leaves the fragment *)
Theorem pre_sync_total g w e en : Inv g w -> (2 <= e)%nat -> nth_error (ents (w_st w)) e = Some en ->
  exists r, pre_sync w e = ROk r.
Proof.
  intros I He Hn. pose proof (i_ents _ _ _ I e en He Hn) as EO.
  unfold pre_sync. unfold get_e at 1, lift, get_ent. rewrite Hn. cbn [rbind].
  destruct (eo_ign _ _ _ _ _ EO) as [Hi|Hi]; rewrite Hi; cbn [is_discarded].
  - destruct (get_latest_total (real_evl w) g w e false [false; true] en I He Hn) as (w1 & E1). rewrite E1. cbn [rbind]. eauto.
  - rewrite (revivify_total g w e en false I He Hn), (revivify_total g w e en true I He Hn). cbn [rbind].
    destruct (finished_total g w e en false I He Hn) as (wa & Ea). rewrite Ea. cbn [rbind].
    assert (Hd: is_discarded (e_ign en) = true) by (rewrite Hi; reflexivity).
    destruct (finished_pres0 g w e en false wa I He Hn) with (3 := Ea) as (Ia & _ & _ & _ & ena & Hna & _).
    { intros X. rewrite Hd in X. discriminate. }
    { intros k ob cs _ _ _ _ X. rewrite Hd in X. discriminate. }
    destruct (finished_total g wa e ena true Ia He Hna) as (wb & Eb). rewrite Eb. cbn [rbind]. eauto.
Qed.

(* SyncManager.do can leave the fragment only inside SyncManager.sync on the picked entry: everything before it -
   SyncState.change with its provider calls, the pick, pre_sync - always answers *)
Theorem sync_step_total_up_to_sync g w order c :
  Inv g w -> NoTmp w -> sync_step w order = OutOfFragment c ->
  exists w3 e en3, SCtx g w3 e en3 /\ e_ign en3 = INone /\ sync_entry w3 e = OutOfFragment c.
Proof.
  intros I T H. unfold sync_step in H.
  destruct (cset (w_st w)) as [|c0 cr] eqn:Ecs; [discriminate|]. rewrite <- Ecs in H.
  set (ord := norm_order order (cset (w_st w))) in H.
  assert (Hord: Forall (fun e => (2 <= e)%nat /\ (e < length (ents (w_st w)))%nat) ord).
  { apply Forall_forall. intros x Hx. apply norm_order_mem in Hx. split; [|apply (i_csb _ _ _ I x Hx)].
    destruct (i_roots _ _ _ I) as (e0 & e1 & _ & _ & _ & _ & _ & _ & _ & _ & _ & _ & _ & _ & _ & M0 & M1).
    destruct x as [|[|x]]; [congruence|congruence|lia]. }
  destruct (fill_paths_total g ord w I Hord) as (w1 & Ef & Lf). rewrite Ef in H. cbn [rbind] in H.
  assert (Hord2: Forall (fun e => (2 <= e)%nat) ord) by (eapply Forall_impl; [|exact Hord]; intros x (A & _); exact A).
  destruct (fill_paths_pres g ord w w1 I Hord2 Ef) as (I1 & T1 & P1).
  assert (Htick: tick w1 = (fst (tick w1), now (w_st w1) + 1000)) by reflexivity.
  rewrite Htick in H.
  pose proof (Inv_tick g w1 I1) as I2. set (w2 := fst (tick w1)) in *.
  assert (T2: NoTmp w2) by (intros x sd0; change (getx w2 x sd0) with (getx w1 x sd0); rewrite T1; apply T).
  destruct (pick (w_st w2) ord (now (w_st w1) + 1000)) as [e|] eqn:Ep; [|discriminate].
  assert (He: (2 <= e)%nat) by (apply (proj1 (Forall_forall _ _) Hord2); apply (pick_in _ _ _ _ Ep)).
  destruct (nth_error (ents (w_st w2)) e) as [en|] eqn:Hn.
  2:{ exfalso. assert (Hin: In e ord) by apply (pick_in _ _ _ _ Ep).
      destruct (proj1 (Forall_forall _ _) Hord e Hin) as (_ & Hlt).
      apply nth_error_None in Hn. change (ents (w_st w2)) with (ents (w_st w1)) in Hn. lia. }
  destruct (pre_sync_total g w2 e en I2 He Hn) as ([w3 done] & Eps). rewrite Eps in H. cbn [rbind] in H.
  assert (Hmax: maxchg en <= now (w_st w2)).
  { assert (Hn1: nth_error (ents (w_st w1)) e = Some en) by exact Hn.
    destruct (i_clke _ _ _ I1 e en Hn1) as (A & _). change (now (w_st w2)) with (now (w_st w1) + 1000). lia. }
  destruct (pre_sync_pres g w2 e en w3 done I2 He Hn (T2 e) Hmax Eps) as (Hgx3 & Ht3 & P3 & Hres).
  destruct done; [discriminate|].
  destruct Hres as (en3 & SC3 & Hi3 & Hm3).
  destruct (sync_entry w3 e) as [[w4 cs4]|c'] eqn:Ese; [discriminate|]. cbn [rbind] in H. injection H as <-.
  exists w3, e, en3. auto.
Qed.
