(* AlgoTotal.v — parts of the engine that never leave the fragment: from the invariant the model answers ROk. *)
From Coq Require Import NArith List Bool Arith Lia.
From CS Require Import Sx Str PathModel PathLaws StateModel StateProofs ProvModel ProvProofs EventLaws
     AlgoModel AlgoCheck AlgoState AlgoProv AlgoPath AlgoInv AlgoInit AlgoIntake AlgoSync AlgoLatest AlgoFinish AlgoSyncEntry AlgoStep AlgoUser.
Import ListNotations.
Local Open Scope N_scope.

(* one event of the pending list is always taken in *)
Lemma process_event_total evl g w sd ev rest :
  InvP evl g w -> evl sd = ev :: rest -> exists w', process_event w sd ev = ROk w'.
Proof.
  intros I Hevl.
  destruct (i_log _ _ _ I sd ev ltac:(rewrite Hevl; left; reflexivity)) as (k & ob & Hoid & Hk & Hob & Hot & Hdead).
  destruct (sh_files _ _ (i_shape _ _ _ I sd) k ob Hk Hob) as (Hkf & n & Hpn & Hnok).
  pose proof (i_cfg _ _ _ I) as Hcfg.
  unfold process_event. rewrite Hcfg.
  assert (Hf: (oip_of (cfg_std 1) sd || c_filt (cfg_std 1))%bool = false) by (destruct sd; reflexivity).
  rewrite Hf. rewrite <- Hcfg.
  destruct (root_check evl g w sd k I Hk) as (ri & Hri & Hrk). rewrite Hri, Hoid, Hrk. cbn [rbind].
  rewrite kstr_kid. unfold lookup_oid.
  set (s0 := st_tape (w_st w) [TSwap false; TSwap false]) in *.
  assert (HI0: IdxJ s0) by (apply IdxJ_tape; apply (i_idx _ _ _ I)).
  assert (Hclk0: lastch s0 <= now s0) by (apply (i_clk _ _ _ I)).
  assert (HE: E w = env_of (cfg_std 1)) by (unfold E; rewrite Hcfg; reflexivity).
  destruct env_of_std as (Hleg & Hoip & Hcvs).
  assert (Hty: otype_of_kind (ProvModel.e_otype ev) = File) by (rewrite Hot, Hkf; reflexivity).
  rewrite Hty.
  destruct (al_get (ostr_k k) (oids (w_st w) sd)) as [e|] eqn:Ea.
  - destruct (idx_lookup _ _ _ _ (i_idx _ _ _ I) Ea) as (en & He & Ho). rewrite He.
    pose proof (entry_ge2 _ _ _ _ _ _ _ I He Ho Hk) as He2.
    pose proof (i_ents _ _ _ I e en He2 He) as EO.
    destruct (so_full _ _ _ _ _ _ (eo_side _ _ _ _ _ EO sd) _ Ho) as (k1 & ob1 & Hk1 & Hob1 & _ & FO).
    apply ostr_k_inj in Hk1. subst k1. assert (ob1 = ob) by congruence. subst ob1.
    assert (Hn0: nth_error (ents s0) e = Some en) by exact He.
    assert (Ha0: al_get (ostr_k k) (oids s0 sd) = Some e) by (destruct sd; exact Ea).
    assert (Hnp: forall p, s_path (gs en sd) = Some p -> nps (cvs (env_of (cfg_std 1)) sd) p = p).
    { intros p Hp. rewrite Hcvs. eapply (file_path_normal w sd k ob); eauto. apply (i_shape _ _ _ I). apply (fo_path _ _ _ _ _ _ _ _ FO). }
    destruct (update_known_eff (env_of (cfg_std 1)) Hleg Hoip s0 sd (ostr_k k) e en (ProvModel.e_exists ev) File
                Hn0 Ha0 Ho (tstr_ostr k) (so_file _ _ _ _ _ _ (eo_side _ _ _ _ _ EO sd)) ltac:(discriminate) Hnp Hclk0)
      as (s1 & Hu & F1 & T1).
    unfold st_op. fold s0. rewrite HE. rewrite Hu. cbn [rbind]. eexists. reflexivity.
  - assert (Ha0: al_get (ostr_k k) (oids s0 sd) = None) by (destruct sd; exact Ea).
    destruct (update_new_eff (env_of (cfg_std 1)) Hleg Hoip s0 sd (ostr_k k) (ProvModel.e_exists ev) File false [TSwap false]
                Ha0 (tstr_ostr k) ltac:(discriminate) Hclk0 eq_refl) as (s1 & Hu & _).
    unfold st_op. fold s0. rewrite HE. rewrite Hu. cbn [rbind]. eexists. reflexivity.
Qed.

Lemma process_events_total l : forall evl g w sd, InvP evl g w -> evl sd = l -> exists w', process_events w sd l = ROk w'.
Proof.
  induction l as [|ev rest IH]; intros evl g w sd I Hevl.
  - simpl. eexists. reflexivity.
  - simpl. destruct (process_event_total evl g w sd ev rest I Hevl) as (w1 & E1). rewrite E1. cbn [rbind].
    pose proof (process_event_pres evl g w sd ev rest w1 I Hevl E1) as I1.
    assert (Hr: evl_set evl sd rest sd = rest) by (unfold evl_set; rewrite Bool.eqb_reflx; reflexivity).
    apply (IH _ g w1 sd I1 Hr).
Qed.

(* EventManager.do never leaves the fragment: whatever events are pending, the model takes them all in *)
Theorem intake_total g w sd : Inv g w -> exists w', intake w sd = ROk w'.
Proof.
  intros I. unfold intake. rewrite (read_events_all _ (i_pwf _ _ _ I sd)).
  set (w1 := with_prov w sd _).
  pose proof (InvP_cursor _ g w sd I) as I1. fold w1 in I1.
  apply (process_events_total _ (real_evl w) g w1 sd I1). reflexivity.
Qed.

(* ------------------------------------------------------------------ get_latest, the path-filling loop, pre_sync *)
Lemma get_latest_loop_total evl g e force mx : forall sides w,
  InvP evl g w -> (2 <= e)%nat -> (exists en, nth_error (ents (w_st w)) e = Some en) -> mx <= now (w_st w) + 1 ->
  exists w', get_latest_loop w e force mx sides = ROk w'.
Proof.
  induction sides as [|sd r IH]; intros w I He (en & Hn) Hmx.
  - simpl. eexists. reflexivity.
  - simpl. destruct (force || N.ltb (x_lg (getx w e sd)) mx)%bool.
    + destruct (uget_latest_spec evl g w e sd en I He Hn) as (wa & en' & m & Eu & _). rewrite Eu. cbn [rbind].
      destruct (refresh_side_pres evl g w e sd en mx wa I He Hn Hmx Eu) as (I2 & _ & _ & (en2 & Hn2 & _) & _ & _ & Hnow2 & _).
      change (setx wa e sd (fun x => mkX mx (x_tname x) (x_tfile x))) with (setx wa e sd (set_lg mx)).
      apply (IH _ I2 He (ex_intro _ en2 Hn2)). lia.
    + cbn [rbind]. apply (IH _ I He (ex_intro _ en Hn) Hmx).
Qed.

Lemma get_latest_total evl g w e force sides en :
  InvP evl g w -> (2 <= e)%nat -> nth_error (ents (w_st w)) e = Some en -> exists w', get_latest w e force sides = ROk w'.
Proof.
  intros I He Hn. unfold get_latest, get_e, lift, get_ent. rewrite Hn. cbn [rbind].
  apply (get_latest_loop_total evl g e force _ sides w I He (ex_intro _ en Hn)).
  destruct (i_clke _ _ _ I e en Hn) as (Hm & _). unfold maxchg, chgv in Hm.
  clear - Hm. induction sides as [|sd r IHs]; simpl; [lia|]. destruct sd; simpl; lia.
Qed.

Lemma fill_one_total g w e sd : Inv g w -> (2 <= e)%nat -> set_mem e (cset (w_st w)) = true -> exists w', fill_one w e sd = ROk w'.
Proof.
  intros I He Hm. unfold fill_one, get_e, lift, get_ent.
  pose proof (i_csb _ _ _ I e Hm) as Hlt. destruct (nth_error (ents (w_st w)) e) as [en|] eqn:Hn; [|apply nth_error_None in Hn; lia].
  cbn [rbind]. match goal with |- exists _, (if ?B then _ else _) = _ => destruct B end.
  - apply (get_latest_total (real_evl w) g w e false [sd] en I He Hn).
  - eexists. reflexivity.
Qed.

Lemma fill_one_total' g w e sd : Inv g w -> (2 <= e)%nat -> (e < length (ents (w_st w)))%nat ->
  exists w', fill_one w e sd = ROk w' /\ Inv g w' /\ length (ents (w_st w')) = length (ents (w_st w)).
Proof.
  intros I He Hlt. unfold fill_one, get_e, lift, get_ent.
  destruct (nth_error (ents (w_st w)) e) as [en|] eqn:Hn; [|apply nth_error_None in Hn; lia].
  cbn [rbind]. match goal with |- exists _, (if ?B then _ else _) = _ /\ _ => destruct B end.
  - destruct (get_latest_total (real_evl w) g w e false [sd] en I He Hn) as (w' & Eg). exists w'. split; [exact Eg|].
    destruct (get_latest_pres (real_evl w) g w e false [sd] w' I He Eg) as (I1 & Hp & _ & _ & _ & Hlen & _).
    split; [|exact Hlen]. unfold Inv. apply (InvP_ext (real_evl w)); [intros sd0; unfold real_evl; rewrite Hp; reflexivity|exact I1].
  - exists w. auto.
Qed.

Lemma fill_paths_total g : forall order w, Inv g w -> Forall (fun e => (2 <= e)%nat /\ (e < length (ents (w_st w)))%nat) order ->
  exists w', fill_paths w order = ROk w' /\ length (ents (w_st w')) = length (ents (w_st w)).
Proof.
  induction order as [|e r IH]; intros w I Hall.
  - simpl. eexists. split; reflexivity.
  - simpl. inversion Hall as [|? ? (He & Hlt) Hr]; subst.
    destruct (fill_one_total' g w e false I He Hlt) as (w1 & E1 & I1 & L1). rewrite E1. cbn [rbind].
    destruct (fill_one_total' g w1 e true I1 He ltac:(lia)) as (w2 & E2 & I2 & L2). rewrite E2. cbn [rbind].
    destruct (IH w2 I2) as (w3 & E3 & L3); [eapply Forall_impl; [|exact Hr]; intros x (A & B); split; [exact A|lia]|].
    exists w3. split; [exact E3|lia].
Qed.

Lemma revivify_total g w e en sd : Inv g w -> (2 <= e)%nat -> nth_error (ents (w_st w)) e = Some en -> revivify_side w e sd = ROk tt.
Proof.
  intros I He Hn. pose proof (i_ents _ _ _ I e en He Hn) as EO. unfold revivify_side, get_e, lift, get_ent. rewrite Hn. cbn [rbind].
  assert (Hir: ign_eqb (e_ign en) IIrrelevant = false) by (destruct (eo_ign _ _ _ _ _ EO) as [X|X]; rewrite X; reflexivity).
  rewrite Hir. destruct (_ || _)%bool; [reflexivity|].
  destruct (lookup_oid (w_st w) sd (s_oid (gs en sd))) as [e'|]; [destruct (Nat.eqb e' e); reflexivity|reflexivity].
Qed.

Lemma finished_total g w e en side : Inv g w -> (2 <= e)%nat -> nth_error (ents (w_st w)) e = Some en ->
  exists w', AlgoModel.finished w e side = ROk w'.
Proof.
  intros I He Hn. pose proof (i_ents _ _ _ I e en He Hn) as EO.
  destruct (finished_w w e side en (i_cfg _ _ _ I) (i_tape _ _ _ I) Hn (i_csb _ _ _ I)
              (ent_chg_oid (real_evl w) g w e en EO (negb side)) (ent_force (real_evl w) g w e en EO false) (ent_force (real_evl w) g w e en EO true))
    as (w2 & en' & H2 & _). eauto.
Qed.

(* pre_sync never leaves the fragment *)
Theorem pre_sync_total g w e en : Inv g w -> (2 <= e)%nat -> nth_error (ents (w_st w)) e = Some en ->
  exists r, pre_sync w e = ROk r.
Proof.
  intros I He Hn. pose proof (i_ents _ _ _ I e en He Hn) as EO.
  unfold pre_sync. unfold get_e at 1, lift, get_ent. rewrite Hn. cbn [rbind].
  destruct (eo_ign _ _ _ _ _ EO) as [Hi|Hi]; rewrite Hi; cbn [is_discarded].
  - destruct (get_latest_total (real_evl w) g w e false [false; true] en I He Hn) as (w1 & E1). rewrite E1. cbn [rbind]. eauto.
  - rewrite (revivify_total g w e en false I He Hn), (revivify_total g w e en true I He Hn). cbn [rbind].
    destruct (finished_total g w e en false I He Hn) as (wa & Ea). rewrite Ea. cbn [rbind].
    assert (Hd: is_discarded (e_ign en) = true) by (rewrite Hi; reflexivity).
    destruct (finished_pres0 g w e en false wa I He Hn) with (4 := Ea) as (Ia & _ & _ & _ & ena & Hna & _).
    { intros X. rewrite Hd in X. discriminate. }
    { intros X. rewrite Hd in X. discriminate. }
    { intros k ob cs _ _ _ _ X. rewrite Hd in X. discriminate. }
    destruct (finished_total g wa e ena true Ia He Hna) as (wb & Eb). rewrite Eb. cbn [rbind]. eauto.
Qed.

(* SyncManager.do can leave the fragment only inside SyncManager.sync on the picked entry: everything before it -
   SyncState.change with its provider calls, the pick, pre_sync - always answers *)
Theorem sync_step_total_up_to_sync g w order c :
  Inv g w -> NoTmp w -> sync_step w order = OutOfFragment c ->
  exists w3 e en3, SCtx g w3 e en3 /\ e_ign en3 = INone /\ notmp w3 e /\ maxchg en3 <= now (w_st w3) /\
                   sync_entry w3 e = OutOfFragment c /\ OwnFrame g w w3.
Proof.
  intros I T H. unfold sync_step in H.
  destruct (cset (w_st w)) as [|c0 cr] eqn:Ecs; [discriminate|]. rewrite <- Ecs in H.
  set (ord := norm_order order (cset (w_st w))) in H.
  assert (Hord: Forall (fun e => (2 <= e)%nat /\ (e < length (ents (w_st w)))%nat) ord).
  { apply Forall_forall. intros x Hx. apply norm_order_mem in Hx. split; [|apply (i_csb _ _ _ I x Hx)].
    destruct (i_roots _ _ _ I) as (e0 & e1 & _ & _ & _ & _ & _ & _ & _ & _ & _ & _ & _ & _ & _ & M0 & M1).
    destruct x as [|[|x]]; [congruence|congruence|lia]. }
  destruct (fill_paths_total g ord w I Hord) as (w1 & Ef & Lf). rewrite Ef in H. cbn [rbind] in H.
  assert (Hord2: Forall (fun e => (2 <= e)%nat) ord) by (eapply Forall_impl; [|exact Hord]; intros x (A & _); exact A).
  destruct (fill_paths_pres g ord w w1 I Hord2 Ef) as (I1 & T1 & P1 & _).
  assert (Htick: tick w1 = (fst (tick w1), now (w_st w1) + 1000)) by reflexivity.
  rewrite Htick in H.
  pose proof (Inv_tick g w1 I1) as I2. set (w2 := fst (tick w1)) in *.
  assert (T2: NoTmp w2) by (intros x sd0; change (getx w2 x sd0) with (getx w1 x sd0); rewrite T1; apply T).
  destruct (pick (w_st w2) ord (now (w_st w1) + 1000)) as [e|] eqn:Ep; [|discriminate].
  assert (He: (2 <= e)%nat) by (apply (proj1 (Forall_forall _ _) Hord2); apply (pick_in _ _ _ _ Ep)).
  destruct (nth_error (ents (w_st w2)) e) as [en|] eqn:Hn.
  2:{ exfalso. assert (Hin: In e ord) by apply (pick_in _ _ _ _ Ep).
      destruct (proj1 (Forall_forall _ _) Hord e Hin) as (_ & Hlt).
      apply nth_error_None in Hn. change (ents (w_st w2)) with (ents (w_st w1)) in Hn. lia. }
  destruct (pre_sync_total g w2 e en I2 He Hn) as ([w3 done] & Eps). rewrite Eps in H. cbn [rbind] in H.
  assert (Hmax: maxchg en <= now (w_st w2)).
  { assert (Hn1: nth_error (ents (w_st w1)) e = Some en) by exact Hn.
    destruct (i_clke _ _ _ I1 e en Hn1) as (A & _). change (now (w_st w2)) with (now (w_st w1) + 1000). lia. }
  destruct (pre_sync_pres g w2 e en w3 done I2 He Hn (T2 e) Hmax Eps) as (Hgx3 & Ht3 & P3 & Hres).
  destruct done; [discriminate|].
  destruct Hres as (en3 & SC3 & Hi3 & Hm3).
  destruct (sync_entry w3 e) as [[w4 cs4]|c'] eqn:Ese; [discriminate|]. cbn [rbind] in H. injection H as <-.
  exists w3, e, en3. repeat (split; [assumption|]).
  apply OwnFrame_prov. intros sd. rewrite P3. unfold w2, tick. cbn [fst]. rewrite prov_of_with_st. apply P1.
Qed.

(* ------------------------------------------------------------------ the leaves of sync(): which OutOfFragment answers are left *)
(* The proofs replay the preservation proofs of AlgoSyncEntry.v on the hypothesis "the call answers OutOfFragment c". *)
Definition G_CREATE : list N := [].

Lemma verify_parent_root g w t n : Inv g w -> ProvModel.verify_parent (prov_of w t) [root_name t; n] = None.
Proof.
  intros I. pose proof (i_pwf _ _ _ I t) as W.
  destruct (sh_root1 _ _ (i_shape _ _ _ I t)) as (r1 & H1 & L1 & P1 & K1). unfold obj_at in H1.
  pose proof (info_path_live _ 1 r1 W H1 L1) as Hi. rewrite P1 in Hi.
  unfold ProvModel.verify_parent. cbn [removelast]. rewrite Hi. unfold ProvModel.info_of. cbn [ProvModel.i_kind]. rewrite K1. reflexivity.
Qed.

(* the translated path of a creation is free on the other side: names of user-made objects are unique, every live
   engine-made object mirrors a user-made one of the same name, and an object has one entry *)
Lemma target_free g w e en s k ob cs n :
  SCtx g w e en -> e_ign en = INone -> Uniq g w ->
  s_oid (gs en s) = Some (ostr_k k) -> obj_at w s k = Some ob -> g_get k (g_of g s) = Some cs ->
  s_oid (gs en (negb s)) = None -> ProvModel.o_path ob = [root_name s; n] ->
  ProvModel.info_path (prov_of w (negb s)) [root_name (negb s); n] = None.
Proof.
  intros SC Hign U Ho Hob Hg Hot Hp.
  pose proof (sc_inv _ _ _ _ SC) as I. pose proof (sc_en _ _ _ _ SC) as Hn. pose proof (sc_e _ _ _ _ SC) as He.
  set (t := negb s) in *.
  apply (info_path_none _ _ (i_pwf _ _ _ I t)). intros m om Hm Hl Hq.
  destruct m as [|[|m]].
  - destruct (sh_root0 _ _ (i_shape _ _ _ I t)) as (r0 & H0 & _ & P0 & _). unfold obj_at in H0. assert (om = r0) by congruence. subst om. rewrite P0 in Hq. discriminate.
  - destruct (sh_root1 _ _ (i_shape _ _ _ I t)) as (r1 & H1 & _ & P1 & _). unfold obj_at in H1. assert (om = r1) by congruence. subst om. rewrite P1 in Hq. discriminate.
  - set (m2 := S (S m)) in *. assert (Hm2: (2 <= m2)%nat) by (unfold m2; lia).
    assert (Hlf: leaf (ProvModel.o_path om) = leaf (ProvModel.o_path ob)) by (rewrite Hq, Hp; reflexivity).
    destruct (opt_dec (g_get m2 (g_of g t))) as [(c1 & Eg)|Eg].
    + destruct (U t m2 c1 s k cs om ob Eg Hg Hm Hob Hlf) as (X & _). unfold t in X. destruct s; discriminate.
    + assert (Hlt: (m2 < length (ProvModel.p_heap (prov_of w t)))%nat) by (apply nth_error_Some; congruence).
      destruct (i_cove _ _ _ I t m2 Hm2 Hlt Eg) as (x & xn & Hxn & Hox).
      assert (Hx2: (2 <= x)%nat) by (apply (entry_ge2 _ _ _ _ _ _ _ I Hxn Hox Hm2)).
      pose proof (i_ents _ _ _ I x xn Hx2 Hxn) as EOx.
      destruct (so_full _ _ _ _ _ _ (eo_side _ _ _ _ _ EOx t) _ Hox) as (k1 & ob1 & Hk1 & Hob1 & _ & FOx).
      apply ostr_k_inj in Hk1. subst k1. assert (ob1 = om) by (unfold obj_at in Hob1; congruence). subst ob1.
      assert (Hnd: is_discarded (e_ign xn) = false).
      { destruct (is_discarded (e_ign xn)) eqn:Ed; [|reflexivity]. rewrite (fo_disc _ _ _ _ _ _ _ _ FOx Ed) in Hl. discriminate. }
      destruct (fo_mirror _ _ _ _ _ _ _ _ FOx Hnd Eg) as (_ & _ & _ & _ & _ & _ & (k'' & ob'' & G1 & G2 & G3 & G4)).
      assert (Hts: negb t = s) by (unfold t; apply negb_involutive). rewrite Hts in G1, G2, G4.
      destruct (opt_dec (g_get k'' (g_of g s))) as [(c2 & Eg2)|Eg2]; [|contradiction].
      assert (Hlf2: leaf (ProvModel.o_path ob'') = leaf (ProvModel.o_path ob)) by congruence.
      destruct (U s k'' c2 s k cs ob'' ob Eg2 Hg G2 Hob Hlf2) as (_ & Hkk). subst k''.
      assert (x = e) by (apply (idx_unique_ent _ s _ x e xn en (i_idx _ _ _ I) Hxn G1 Hn Ho)). subst x.
      assert (xn = en) by congruence. subst xn. fold t in Hot. congruence.
Qed.

Lemma create_ok p q d : PWF p -> ProvModel.verify_parent p q = None -> ProvModel.info_path p q = None ->
  exists pv i, ProvModel.create p q d = (pv, ProvModel.Ok i).
Proof.
  intros W Hvp Hi. unfold ProvModel.create. rewrite (no_forbidden _ q (pw_noforbid p W)), Hi, Hvp.
  destruct (ProvModel.alloc p q ProvModel.KFile d). eauto.
Qed.

(* create() on a well-formed id-style provider whose parent folder exists can only refuse with "exists" *)
Lemma create_err p q d pv er : PWF p -> ProvModel.verify_parent p q = None -> ProvModel.create p q d = (pv, ProvModel.Err er) -> er = ProvModel.EExists.
Proof.
  intros W Hvp H. unfold ProvModel.create in H. rewrite (no_forbidden _ q (pw_noforbid p W)) in H.
  destruct (ProvModel.info_path p q); [injection H as _ <-; reflexivity|]. rewrite Hvp in H.
  destruct (ProvModel.alloc p q ProvModel.KFile d). discriminate.
Qed.
Definition G_DELETE : list N := [X_DELETE_OTHER].

Lemma create_total g w e en s k ob cs n c :
  Uniq g w -> SCtx g w e en -> e_ign en = INone ->
  s_oid (gs en s) = Some (ostr_k k) -> obj_at w s k = Some ob -> ProvModel.o_exists ob = true ->
  g_get k (g_of g s) = Some cs -> s_oid (gs en (negb s)) = None ->
  ProvModel.o_path ob = [root_name s; n] -> name_ok n = true ->
  s_path (gs en s) = Some (pstr [root_name s; n]) -> tchg (s_chg (gs en s)) = true ->
  x_tfile (getx w e s) = None ->
  create_synced (setx (tname_world w e s en (pstr [root_name s; n])) e s (set_tfile (ProvModel.o_data ob))) e s
                (pstr [root_name (negb s); n]) = OutOfFragment c ->
  In c G_CREATE.
Proof.
  intros HU HSC. pose proof HSC as HSC'. revert HSC. intros [I He Hn Hr Hsh] Hign Ho Hob Hl Hg Hot Hpath Hnok Hsp Hc Htf H.
  set (t := negb s) in *. set (p := [root_name t; n]).
  pose proof (i_cfg _ _ _ I) as Hcfg. pose proof (i_ents _ _ _ I e en He Hn) as EO.
  destruct (tname_world_facts w e s en (pstr [root_name s; n]) Htf) as (TA & TB & TC & TD & TF & TG & TH).
  set (w0 := tname_world w e s en (pstr [root_name s; n])) in *.
  set (w1 := setx w0 e s (set_tfile (ProvModel.o_data ob))) in *.
  assert (H1cfg: w_cfg w1 = cfg_std 1) by (unfold w1; rewrite w_cfg_setx; congruence).
  assert (H1st: w_st w1 = w_st w) by (unfold w1; rewrite w_st_setx; exact TB).
  assert (H1prov: forall sd0, prov_of w1 sd0 = prov_of w sd0) by (intros; unfold w1; rewrite prov_of_setx; apply TC).
  unfold create_synced in H.
  assert (Htd: temp_data w1 e s = ROk (ProvModel.o_data ob)) by (unfold temp_data, w1; rewrite getx_setx_same; reflexivity).
  rewrite Htd in H. cbn [rbind] in H.
  assert (Hsp2: spath (pstr [root_name t; n]) = p).
  { apply spath_pstr. constructor; [apply root_name_ok|]. constructor; [exact Hnok|constructor]. }
  fold t in H. rewrite Hsp2 in H. rewrite (H1prov t) in H.
  pose proof (i_pwf _ _ _ I t) as HWt.
  destruct (ProvModel.create (prov_of w t) p (ProvModel.o_data ob)) as [pv r] eqn:Ecr.
  destruct r as [i|er].
  2:{ exfalso. destruct (create_ok (prov_of w t) p (ProvModel.o_data ob) HWt (verify_parent_root g w t n I)
                          (target_free g w e en s k ob cs n HSC' Hign HU Ho Hob Hg Hot Hpath)) as (pv' & i' & X). rewrite X in Ecr. discriminate. }
  destruct (create_inv _ _ _ _ _ HWt Ecr) as (Hi & Hheap & Hlog & Hcur & Hpcfg & HWv).
  set (k' := length (ProvModel.p_heap (prov_of w t))) in *.
  set (o' := new_obj (prov_of w t) p ProvModel.KFile (ProvModel.o_data ob)) in *.
  set (w2 := with_prov w1 t pv) in *.
  assert (H2cfg: w_cfg w2 = cfg_std 1) by (unfold w2, with_prov; destruct t; exact H1cfg).
  assert (H2st: w_st w2 = w_st w) by (unfold w2, with_prov; destruct t; exact H1st).
  assert (H2tape: tape (w_st w2) = []) by (rewrite H2st; apply (i_tape _ _ _ I)).
  assert (H2n: nth_error (ents (w_st w2)) e = Some en) by (rewrite H2st; exact Hn).
  unfold get_e, lift, get_ent in H. rewrite H2n in H. cbn [rbind] in H.
  assert (Hid: ProvModel.i_data i = Some (ProvModel.o_data ob)) by (rewrite Hi; reflexivity).
  assert (Hip: ProvModel.i_path i = p) by (rewrite Hi; reflexivity).
  assert (Hio: ProvModel.i_oid i = kid_of k') by (rewrite Hi; reflexivity).
  rewrite Hid, Hip, Hio in H. rewrite kstr_kid in H.
  (* the four marker writes *)
  destruct (plain_w w2 H2tape e t (fun y => w_shash y (Some (ProvModel.o_data ob))) en H2n) as (wa & Ha & Wa); [intros; split; reflexivity|].
  rewrite Ha in H. cbn [rbind] in H. set (ena := ss en t (w_shash (gs en t) (Some (ProvModel.o_data ob)))) in *.
  pose proof (weff_nth _ _ _ _ _ _ Wa H2n) as Hna. assert (Hta: tape (w_st wa) = []) by (destruct Wa as (_ & _ & _ & _ & _ & T); exact T).
  destruct (plain_w wa Hta e t (fun y => w_spath y (Some (pstr p))) ena Hna) as (wb & Hb & Wb); [intros; split; reflexivity|].
  rewrite Hb in H. cbn [rbind] in H. set (enb := ss ena t (w_spath (gs ena t) (Some (pstr p)))) in *.
  pose proof (weff_nth _ _ _ _ _ _ Wb Hna) as Hnb. assert (Htb: tape (w_st wb) = []) by (destruct Wb as (_ & _ & _ & _ & _ & T); exact T).
  destruct (plain_w wb Htb e s (fun y => w_shash y (s_hash (gs en s))) enb Hnb) as (wc & Hcc & Wc); [intros; split; reflexivity|].
  rewrite Hcc in H. cbn [rbind] in H. set (enc := ss enb s (w_shash (gs enb s) (s_hash (gs en s)))) in *.
  pose proof (weff_nth _ _ _ _ _ _ Wc Hnb) as Hnc. assert (Htc: tape (w_st wc) = []) by (destruct Wc as (_ & _ & _ & _ & _ & T); exact T).
  destruct (plain_w wc Htc e s (fun y => w_spath y (s_path (gs en s))) enc Hnc) as (wd & Hd & Wd); [intros; split; reflexivity|].
  rewrite Hd in H. cbn [rbind] in H. set (end_ := ss enc s (w_spath (gs enc s) (s_path (gs en s)))) in *.
  pose proof (weff_nth _ _ _ _ _ _ Wd Hnc) as Hnd. assert (Htd': tape (w_st wd) = []) by (destruct Wd as (_ & _ & _ & _ & _ & T); exact T).
  pose proof (weff_trans _ _ _ _ _ _ _ _ (weff_trans _ _ _ _ _ _ _ _ (weff_trans _ _ _ _ _ _ _ _ Wa Wb) Wc) Wd) as Wad. cbn [mcomp] in Wad.
  assert (Hdcfg: w_cfg wd = cfg_std 1) by (destruct Wad as (A & _); congruence).
  assert (HdI: IdxJ (w_st wd)) by (destruct Wad as (_ & _ & _ & _ & (_ & _ & _ & _ & J) & _); apply J; rewrite H2st; apply (i_idx _ _ _ I)).
  (* side t of the entry is still empty *)
  assert (Hst: t <> s) by (unfold t; destruct s; discriminate).
  assert (Hgt: gs end_ t = w_spath (w_shash (gs en t) (Some (ProvModel.o_data ob))) (Some (pstr p))).
  { unfold end_, enc, enb, ena. unfold t in *. destruct s; simpl; reflexivity. }
  assert (Hgs: gs end_ s = w_spath (w_shash (gs en s) (s_hash (gs en s))) (s_path (gs en s))).
  { unfold end_, enc, enb, ena. unfold t in *. destruct s; simpl; reflexivity. }
  destruct (so_empty _ _ _ _ _ _ (eo_side _ _ _ _ _ EO t) Hot) as (Etc & Etp & Eth & Etsp & Etsh).
  assert (Hfresh: al_get (ostr_k k') (oids (w_st wd) t) = None).
  { destruct (al_get (ostr_k k') (oids (w_st wd) t)) as [x|] eqn:Ea; [|reflexivity]. exfalso.
    destruct (idx_lookup _ _ _ _ HdI Ea) as (xn & Hxn & Hox).
    assert (Hx': exists xn0, nth_error (ents (w_st w)) x = Some xn0 /\ s_oid (gs xn0 t) = Some (ostr_k k')).
    { destruct Wad as (_ & _ & _ & _ & (SA & _) & _). rewrite SA, H2st in Hxn. destruct (Nat.eq_dec x e) as [Hxe|Hxe].
      - subst x. rewrite (nth_list_upd_eq _ _ _ _ Hn) in Hxn. injection Hxn as <-. rewrite Hgt in Hox. cbn [w_spath w_shash s_oid] in Hox. rewrite Hot in Hox. discriminate.
      - rewrite nth_list_upd_neq in Hxn by congruence. eauto. }
    destruct Hx' as (xn0 & Hxn0 & Hox0).
    assert (Hx2: (2 <= x)%nat) by (apply (entry_ge2 _ _ _ _ _ _ _ I Hxn0 Hox0); unfold k'; destruct (sh_root1 _ _ (i_shape _ _ _ I t)) as (r1 & Hr1 & _); unfold obj_at in Hr1;
                                   assert (1 < length (ProvModel.p_heap (prov_of w t)))%nat by (apply nth_error_Some; congruence); lia).
    destruct (so_full _ _ _ _ _ _ (eo_side _ _ _ _ _ (i_ents _ _ _ I x xn0 Hx2 Hxn0) t) _ Hox0) as (k1 & ob1 & Hk1 & Hob1 & _).
    apply ostr_k_inj in Hk1. subst k1. unfold obj_at in Hob1. assert (Hlt: (k' < length (ProvModel.p_heap (prov_of w t)))%nat) by (apply nth_error_Some; congruence). unfold k' in Hlt. lia. }
  assert (Hnpp: nps (mk_conv true) (pstr p) = pstr p).
  { apply nps_pstr. constructor; [apply root_name_ok|]. constructor; [exact Hnok|constructor]. }
  destruct (upd_entry_create_w wd e t (ostr_k k') (pstr p) (Some (ProvModel.o_data ob)) end_ Hdcfg Htd' HdI Hnd)
    as (w4 & H4 & W4).
  { rewrite Hgt. cbn [w_spath w_shash s_oid]. exact Hot. }
  { rewrite Hgt. cbn [w_spath w_shash s_path]. exact Etp. }
  { exact Hfresh. }
  { apply tstr_ostr. }
  { apply tstr_pstr. }
  { exact Hnpp. }
  { rewrite Hgt. cbn [w_spath w_shash s_otype]. rewrite (ent_file (real_evl w) g w e en EO t). discriminate. }
  rewrite H4 in H. cbn [rbind] in H. discriminate H.
Qed.

Lemma upload_total g w e en s k ob cs k' ob' n c :
  SCtx g w e en -> e_ign en = INone ->
  s_oid (gs en s) = Some (ostr_k k) -> obj_at w s k = Some ob -> ProvModel.o_exists ob = true ->
  g_get k (g_of g s) = Some cs ->
  s_oid (gs en (negb s)) = Some (ostr_k k') -> obj_at w (negb s) k' = Some ob' ->
  ProvModel.o_path ob = [root_name s; n] ->
  s_path (gs en s) = Some (pstr [root_name s; n]) -> tchg (s_chg (gs en s)) = true ->
  x_tfile (getx w e s) = None ->
  upload_synced (setx (tname_world w e s en (pstr [root_name s; n])) e s (set_tfile (ProvModel.o_data ob))) e s = OutOfFragment c ->
  False.
Proof.
  intros [I He Hn Hr Hsh] Hign Ho Hob Hl Hg Hot Hobt Hpath Hsp Hc Htf H.
  set (t := negb s) in *.
  pose proof (i_cfg _ _ _ I) as Hcfg. pose proof (i_ents _ _ _ I e en He Hn) as EO.
  assert (Hndisc: is_discarded (e_ign en) = false) by (rewrite Hign; reflexivity).
  (* the peer is the engine's object: alive, and what its markers say *)
  destruct (so_full _ _ _ _ _ _ (eo_side _ _ _ _ _ EO s) _ Ho) as (k1 & ob1 & Hk1 & Hob1 & Hk2 & FO).
  apply ostr_k_inj in Hk1. subst k1. assert (ob1 = ob) by congruence. subst ob1.
  destruct (so_full _ _ _ _ _ _ (eo_side _ _ _ _ _ EO t) _ Hot) as (k1 & ob1 & Hk1 & Hob1' & Hk2' & FOt).
  apply ostr_k_inj in Hk1. subst k1. assert (ob1 = ob') by congruence. subst ob1.
  assert (Hot_ne: s_oid (gs en (negb s)) <> None) by (fold t; rewrite Hot; discriminate).
  destruct (fo_owner _ _ _ _ _ _ _ _ FO Hndisc cs Hg) as (P1 & P2 & P3 & P4 & P5).
  destruct (P5 Hot_ne) as (Q1 & Q2 & Q3 & Q4).
  assert (Hgt: g_get k' (g_of g t) = None) by (apply Q4; exact Hot).
  destruct (fo_mirror _ _ _ _ _ _ _ _ FOt Hndisc Hgt) as (M1 & M2 & M3 & M4 & M5 & M6 & (k2 & ob2 & M7 & M8 & M9 & M10)).
  destruct (sh_files _ _ (i_shape _ _ _ I t) k' ob' Hk2' Hobt) as (Hkf' & n' & Hpn' & Hnok').
  destruct (tname_world_facts w e s en (pstr [root_name s; n]) Htf) as (TA & TB & TC & TD & TF & TG & TH).
  set (w0 := tname_world w e s en (pstr [root_name s; n])) in *.
  set (data := ProvModel.o_data ob) in *.
  set (w1 := setx w0 e s (set_tfile data)) in *.
  assert (H1cfg: w_cfg w1 = cfg_std 1) by (unfold w1; rewrite w_cfg_setx; congruence).
  assert (H1st: w_st w1 = w_st w) by (unfold w1; rewrite w_st_setx; exact TB).
  assert (H1prov: forall sd0, prov_of w1 sd0 = prov_of w sd0) by (intros; unfold w1; rewrite prov_of_setx; apply TC).
  unfold upload_synced in H.
  assert (Htd: temp_data w1 e s = ROk data) by (unfold temp_data, w1; rewrite getx_setx_same; reflexivity).
  rewrite Htd in H. cbn [rbind] in H.
  unfold get_e, lift, get_ent in H. rewrite H1st, Hn in H. cbn [rbind] in H. fold t in H. rewrite Hot in H.
  rewrite (key_of_std w1 t k' H1cfg) in H. cbn [rbind] in H. rewrite (H1prov t) in H.
  pose proof (i_pwf _ _ _ I t) as HWt. unfold obj_at in Hobt.
  destruct (upload_spec _ _ _ data HWt Hobt M1 Hkf') as (pv & Eup & Hheap & Hlog & Hcur & Hpcfg & HWv).
  rewrite Eup in H.
  set (ob'' := ProvModel.set_data ob' data) in *.
  set (w2 := with_prov w1 t pv) in *.
  assert (H2cfg: w_cfg w2 = cfg_std 1) by (unfold w2, with_prov; destruct t; exact H1cfg).
  assert (H2st: w_st w2 = w_st w) by (unfold w2, with_prov; destruct t; exact H1st).
  assert (H2tape: tape (w_st w2) = []) by (rewrite H2st; apply (i_tape _ _ _ I)).
  assert (H2n: nth_error (ents (w_st w2)) e = Some en) by (rewrite H2st; exact Hn).
  assert (Hid: ProvModel.i_data (ProvModel.info_of ob'') = Some data) by (unfold ProvModel.info_of, ob''; simpl; rewrite Hkf'; reflexivity).
  rewrite Hid in H.
  destruct (plain_w w2 H2tape e t (fun y => w_hash y (Some data)) en H2n) as (wa & Ha & Wa); [intros; split; reflexivity|].
  rewrite Ha in H. cbn [rbind] in H. set (ena := ss en t (w_hash (gs en t) (Some data))) in *.
  pose proof (weff_nth _ _ _ _ _ _ Wa H2n) as Hna. assert (Hta: tape (w_st wa) = []) by (destruct Wa as (_ & _ & _ & _ & _ & T); exact T).
  destruct (plain_w wa Hta e t (fun y => w_shash y (Some data)) ena Hna) as (wb & Hb & Wb); [intros; split; reflexivity|].
  rewrite Hb in H. cbn [rbind] in H. set (enb := ss ena t (w_shash (gs ena t) (Some data))) in *.
  pose proof (weff_nth _ _ _ _ _ _ Wb Hna) as Hnb. assert (Htb: tape (w_st wb) = []) by (destruct Wb as (_ & _ & _ & _ & _ & T); exact T).
  unfold get_e, lift, get_ent in H. rewrite Hnb in H. cbn [rbind] in H.
  assert (Hsp_t: s_spath (gs enb t) = Some (pstr (ProvModel.o_path ob'))) by (unfold enb, ena; rewrite !gs_ss_same; exact M5).
  rewrite Hsp_t in H. rewrite tstr_pstr in H. cbn [rbind] in H.
  assert (Hs_b: gs enb s = gs en s) by (unfold enb, ena; rewrite !gs_ss_neq by (unfold t; destruct s; discriminate); reflexivity).
  rewrite Hs_b in H.
  destruct (plain_w wb Htb e s (fun y => w_shash y (s_hash (gs en s))) enb Hnb) as (wc & Hcc & Wc); [intros; split; reflexivity|].
  rewrite Hcc in H. cbn [rbind] in H. set (enc := ss enb s (w_shash (gs enb s) (s_hash (gs en s)))) in *.
  pose proof (weff_nth _ _ _ _ _ _ Wc Hnb) as Hnc. assert (Htc: tape (w_st wc) = []) by (destruct Wc as (_ & _ & _ & _ & _ & T); exact T).
  destruct (plain_w wc Htc e s (fun y => w_spath y (s_path (gs en s))) enc Hnc) as (wd & Hd & Wd); [intros; split; reflexivity|].
  rewrite Hd in H. cbn [rbind] in H. set (end_ := ss enc s (w_spath (gs enc s) (s_path (gs en s)))) in *.
  pose proof (weff_nth _ _ _ _ _ _ Wd Hnc) as Hnd. assert (Htd': tape (w_st wd) = []) by (destruct Wd as (_ & _ & _ & _ & _ & T); exact T).
  pose proof (weff_trans _ _ _ _ _ _ _ _ (weff_trans _ _ _ _ _ _ _ _ (weff_trans _ _ _ _ _ _ _ _ Wa Wb) Wc) Wd) as Wad. cbn [mcomp] in Wad.
  assert (Hdcfg: w_cfg wd = cfg_std 1) by (destruct Wad as (A & _); congruence).
  assert (HdI: IdxJ (w_st wd)) by (destruct Wad as (_ & _ & _ & _ & (_ & _ & _ & _ & J) & _); apply J; rewrite H2st; apply (i_idx _ _ _ I)).
  unfold get_e, lift, get_ent in H. rewrite Hnd in H. cbn [rbind] in H.
  assert (Hst: t <> s) by (unfold t; destruct s; discriminate).
  assert (Hgt_d: gs end_ t = w_shash (w_hash (gs en t) (Some data)) (Some data)).
  { unfold end_, enc. rewrite !gs_ss_neq by exact Hst. unfold enb, ena. rewrite !gs_ss_same. reflexivity. }
  assert (Hgs_d: gs end_ s = w_spath (w_shash (gs en s) (s_hash (gs en s))) (s_path (gs en s))).
  { unfold end_, enc. rewrite !gs_ss_same, Hs_b. reflexivity. }
  assert (Hio: kstr (ProvModel.i_oid (ProvModel.info_of ob'')) = ostr_k k').
  { unfold ProvModel.info_of, ob''. simpl. rewrite (pw_oid _ HWt _ _ Hobt). reflexivity. }
  rewrite Hio in H.
  assert (Hpath_d: s_spath (gs end_ t) = s_path (gs end_ t)) by (rewrite Hgt_d; cbn [w_shash w_hash s_spath s_path]; congruence).
  rewrite Hpath_d in H.
  assert (Hal: al_get (ostr_k k') (oids (w_st wd) t) = Some e).
  { apply (idx_found_get _ _ _ _ _ HdI Hnd). rewrite Hgt_d. cbn [w_shash w_hash s_oid]. exact Hot. }
  destruct (upd_entry_same_w wd e t (ostr_k k') end_ Hdcfg Htd' Hnd) as (w4 & H4 & W4).
  { rewrite Hgt_d. cbn [w_shash w_hash s_oid]. exact Hot. }
  { exact Hal. }
  { intros q Hq. rewrite Hgt_d in Hq. cbn [w_shash w_hash s_path] in Hq. rewrite M6 in Hq. injection Hq as <-. rewrite Hpn'.
    apply nps_pstr. constructor; [apply root_name_ok|]. constructor; [exact Hnok'|constructor]. }
  rewrite H4 in H. cbn [rbind] in H. discriminate H.
Qed.

Lemma delete_total g w e en s k c :
  SCtx g w e en -> e_ign en = INone -> s_ex (gs en s) = ExTrashed -> s_oid (gs en s) = Some (ostr_k k) ->
  delete_synced w e s = OutOfFragment c ->
  In c G_DELETE.
Proof.
  intros [I He Hn Hr Hsh] Hign Hex Ho H.
  set (t := negb s) in *.
  pose proof (i_cfg _ _ _ I) as Hcfg. pose proof (i_tape _ _ _ I) as Htape. pose proof (i_ents _ _ _ I e en He Hn) as EO.
  assert (Hndisc: is_discarded (e_ign en) = false) by (rewrite Hign; reflexivity).
  destruct (so_full _ _ _ _ _ _ (eo_side _ _ _ _ _ EO s) _ Ho) as (k1 & ob & Hk1 & Hob & Hk2 & FO).
  apply ostr_k_inj in Hk1. subst k1.
  assert (Hdead: ProvModel.o_exists ob = false) by (apply (fo_trash _ _ _ _ _ _ _ _ FO Hex)).
  assert (Hgs: exists cs, g_get k (g_of g s) = Some cs).
  { destruct (g_get k (g_of g s)) as [cs|] eqn:Eg; [eauto|]. destruct (fo_mirror _ _ _ _ _ _ _ _ FO Hndisc Eg) as (X & _). congruence. }
  destruct Hgs as (cs & Hg).
  unfold delete_synced in H. unfold get_e, lift, get_ent in H. rewrite Hn in H. cbn [rbind] in H.
  match type of H with context [existsb ?F ?L] => destruct (existsb F L); [injection H as <-; left; reflexivity|] end.
  match type of H with context [existsb ?F ?L] => destruct (existsb F L); [injection H as <-; left; reflexivity|] end.
  fold t in H.
  destruct (s_oid (gs en t)) as [o'|] eqn:Eot.
  - (* the peer object is deleted *)
    destruct (so_full _ _ _ _ _ _ (eo_side _ _ _ _ _ EO t) _ Eot) as (k' & ob' & Hk1 & Hobt & Hk2' & FOt). subst o'.
    assert (Hot_ne: s_oid (gs en (negb s)) <> None) by (fold t; rewrite Eot; discriminate).
    destruct (fo_owner _ _ _ _ _ _ _ _ FO Hndisc cs Hg) as (P1 & P2 & P3 & P4 & P5).
    destruct (P5 Hot_ne) as (Q1 & Q2 & Q3 & Q4).
    assert (Hgt: g_get k' (g_of g t) = None) by (apply Q4; exact Eot).
    destruct (fo_mirror _ _ _ _ _ _ _ _ FOt Hndisc Hgt) as (M1 & M2 & M3 & M4 & M5 & M6 & _).
    destruct (sh_files _ _ (i_shape _ _ _ I t) k' ob' Hk2' Hobt) as (Hkf' & n' & Hpn' & Hnok').
    rewrite tstr_ostr in H. rewrite (key_of_std w t k' Hcfg) in H. cbn [rbind] in H.
    pose proof (i_pwf _ _ _ I t) as HWt. unfold obj_at in Hobt.
    destruct (delete_spec _ _ _ HWt Hobt M1 Hkf') as (pv & Edel & Hheap & Hlog & Hcur & Hpcfg & HWv).
    rewrite Edel in H.
    set (ob'' := ProvModel.set_exists ob' false) in *.
    set (w2 := with_prov w t pv) in *.
    assert (H2cfg: w_cfg w2 = cfg_std 1) by (unfold w2, with_prov; destruct t; exact Hcfg).
    assert (H2st: w_st w2 = w_st w) by (unfold w2, with_prov; destruct t; reflexivity).
    assert (H2tape: tape (w_st w2) = []) by (rewrite H2st; exact Htape).
    assert (H2n: nth_error (ents (w_st w2)) e = Some en) by (rewrite H2st; exact Hn).
    destruct (plain_w w2 H2tape e s (fun y => w_spath y None) en H2n) as (wa & Ha & Wa); [intros; split; reflexivity|].
    rewrite Ha in H. cbn [rbind] in H. set (ena := ss en s (w_spath (gs en s) None)) in *.
    pose proof (weff_nth _ _ _ _ _ _ Wa H2n) as Hna. assert (Hta: tape (w_st wa) = []) by (destruct Wa as (_ & _ & _ & _ & _ & T); exact T).
    destruct (plain_w wa Hta e t (fun y => w_ex y ExTrashed) ena Hna) as (wb & Hb & Wb); [intros; split; reflexivity|].
    rewrite Hb in H. cbn [rbind] in H. set (enb := ss ena t (w_ex (gs ena t) ExTrashed)) in *.
    pose proof (weff_nth _ _ _ _ _ _ Wb Hna) as Hnb. assert (Htb: tape (w_st wb) = []) by (destruct Wb as (_ & _ & _ & _ & _ & T); exact T).
    unfold get_e, lift, get_ent in H. rewrite Hnb in H. cbn [rbind] in H.
    assert (Hign_b: e_ign enb = INone) by (unfold enb, ena; rewrite !ign_ss; exact Hign).
    rewrite Hign_b in H. cbn [is_conflicted] in H.
    assert (Hbcfg: w_cfg wb = cfg_std 1) by (destruct Wa as (A & _); destruct Wb as (B & _); congruence).
    destruct (set_ignored_w wb Htb e IDiscarded enb Hnb) as (wc & Hc' & Wc).
    rewrite Hc' in H. cbn [rbind] in H. discriminate H.
  - (* never synchronised: nothing to delete *)
    cbn [rbind] in H.
    destruct (plain_w w Htape e t (fun y => w_ex y ExTrashed) en Hn) as (wb & Hb & Wb); [intros; split; reflexivity|].
    rewrite Hb in H. cbn [rbind] in H. set (enb := ss en t (w_ex (gs en t) ExTrashed)) in *.
    pose proof (weff_nth _ _ _ _ _ _ Wb Hn) as Hnb. assert (Htb: tape (w_st wb) = []) by (destruct Wb as (_ & _ & _ & _ & _ & T); exact T).
    unfold get_e, lift, get_ent in H. rewrite Hnb in H. cbn [rbind] in H.
    assert (Hign_b: e_ign enb = INone) by (unfold enb; rewrite !ign_ss; exact Hign).
    rewrite Hign_b in H. cbn [is_conflicted] in H.
    destruct (set_ignored_w wb Htb e IDiscarded enb Hnb) as (wc & Hc' & Wc).
    rewrite Hc' in H. cbn [rbind] in H. discriminate H.
Qed.

(* ------------------------------------------------------------------ guards of sync() that never fire on F1 *)
Lemma split_guard_false g w e en sd : SCtx g w e en -> e_ign en = INone -> split_guard (cfg_std 1) en sd = false.
Proof.
  intros SC Hign. unfold split_guard, moved_out_of_root.
  destruct (s_oid (gs en (negb sd))) as [o|] eqn:Eo; [|cbn [tstr andb]; apply andb_false_r].
  destruct (side_obj g w e en SC (negb sd) o Eo) as (k & ob & n & -> & Hob & Hk2 & FO & Hkf & Hp & Hnok).
  destruct (fo_path _ _ _ _ _ _ _ _ FO) as [X|X]; rewrite X; [cbn [tstr andb]; rewrite !andb_false_r; reflexivity|].
  rewrite Hp, negb_involutive, (translate_file sd n Hnok). rewrite !andb_false_r. reflexivity.
Qed.

Lemma hash_conflict_false g w e en : SCtx g w e en -> e_ign en = INone -> hash_conflict en = false.
Proof.
  intros SC Hign. pose proof (sc_inv _ _ _ _ SC) as I. pose proof (sc_en _ _ _ _ SC) as Hn. pose proof (sc_e _ _ _ _ SC) as He.
  pose proof (i_ents _ _ _ I e en He Hn) as EO.
  destruct (hash_conflict en) eqn:E; [exfalso|reflexivity]. unfold hash_conflict in E.
  apply andb_prop in E as [E Hr]. apply andb_prop in E as [E Hl]. apply andb_prop in E as [E Hpr]. apply andb_prop in E as [E Hpl].
  apply negb_true_iff in Hr, Hl.
  assert (Hside: forall sd, tstr (s_path (gs en sd)) = true -> oN_eqb (s_hash (gs en sd)) (s_shash (gs en sd)) = false ->
                 exists k ob cs, s_oid (gs en sd) = Some (ostr_k k) /\ obj_at w sd k = Some ob /\ FullOk (real_evl w) g w e en sd k ob /\ g_get k (g_of g sd) = Some cs).
  { intros sd Hp Hh. destruct (s_oid (gs en sd)) as [o|] eqn:Eo.
    - destruct (side_obj g w e en SC sd o Eo) as (k & ob & n & -> & Hob & _ & FO & _).
      assert (Hd: s_hash (gs en sd) <> s_shash (gs en sd)) by (intros X; rewrite X, oN_eqb_refl in Hh; discriminate).
      destruct (hashdiff_owner g w e en Hign sd k ob Hd Eo FO) as (cs & Hg). exists k, ob, cs. auto.
    - destruct (so_empty _ _ _ _ _ _ (eo_side _ _ _ _ _ EO sd) Eo) as (_ & X & _). rewrite X in Hp. discriminate. }
  destruct (Hside false Hpl Hl) as (kl & obl & csl & Hol & Hobl & FOl & Hgl).
  destruct (Hside true Hpr Hr) as (kr & obr & csr & Hor & Hobr & FOr & Hgr).
  destruct (fo_owner _ _ _ _ _ _ _ _ FOl (nd en Hign) csl Hgl) as (_ & _ & _ & _ & P5).
  assert (Hne: s_oid (gs en (negb false)) <> None) by (cbn [negb]; rewrite Hor; discriminate).
  destruct (P5 Hne) as (_ & _ & _ & Q4). cbn [negb] in Q4. rewrite (Q4 kr Hor) in Hgr. discriminate.
Qed.

Lemma path_conflict_false g w e en : SCtx g w e en -> e_ign en = INone -> path_conflict (cfg_std 1) en = false.
Proof.
  intros SC Hign. unfold path_conflict.
  destruct (s_spath (e_l en)) as [q|] eqn:Eq.
  - change (e_l en) with (gs en false) in *. rewrite (paths_differ_same false (gs en false) q Eq (side_paths g w e en SC Hign false q Eq)).
    rewrite !andb_false_r. reflexivity.
  - cbn [tstr]. rewrite !andb_false_r. reflexivity.
Qed.

(* ------------------------------------------------------------------ SyncManager.sync: the OutOfFragment answers that are left *)
Definition G_EMBRACE : list N :=
  [X_LEVEL + 3; X_MISSING; X_PEERS; X_DELETE_OTHER].
Definition G_SYNC : list N := G_EMBRACE.

Ltac oof_code E :=
  repeat (match type of E with
          | (if ?B then _ else _) = _ => destruct B
          | (match ?X with _ => _ end) = _ => destruct X
          end); try discriminate E; injection E as <-.

Lemma hash_diff_total g w e en s c :
  SCtx g w e en -> e_ign en = INone -> needs_sync (cfg_std 1) s (gs en s) = true ->
  notmp w e -> ex_in_gone (s_ex (gs en s)) = false -> s_hash (gs en s) <> s_shash (gs en s) ->
  is_creation (cfg_std 1) en s = false ->
  handle_hash_diff w e s = OutOfFragment c -> False.
Proof.
  intros SC Hign Hns Htmp Hex Hdiff Hncr H.
  pose proof (sc_inv _ _ _ _ SC) as I. pose proof (sc_en _ _ _ _ SC) as Hn.
  destruct (needs_sync_parts g w e en SC s Hns) as (Hc & o & Ho).
  destruct (side_obj g w e en SC s o Ho) as (k & ob & n & -> & Hob & Hk2 & FO & Hkf & Hp & Hnok).
  unfold handle_hash_diff in H. unfold get_e, lift, get_ent in H. rewrite Hn in H. cbn [rbind] in H.
  destruct (fo_path _ _ _ _ _ _ _ _ FO) as [Hpn|Hps]; [rewrite Hpn in H; discriminate|].
  rewrite Hps in H.
  destruct (hashdiff_owner g w e en Hign s k ob Hdiff Ho FO) as (csg0 & Hg0).
  pose proof (i_ents _ _ _ I e en (sc_e _ _ _ _ SC) Hn) as EO.
  destruct (ex_in_gone (s_ex (gs en (negb s))) || negb (tstr (s_oid (gs en (negb s)))))%bool eqn:Eg.
  { clear H. destruct (s_oid (gs en (negb s))) as [o'|] eqn:Eo'.
    - destruct (side_obj g w e en SC (negb s) o' Eo') as (k' & ob' & n' & -> & Hob' & Hk2' & FO' & _).
      rewrite tstr_ostr in Eg. cbn [negb orb] in Eg. rewrite orb_false_r in Eg.
      destruct (fo_owner _ _ _ _ _ _ _ _ FO (nd en Hign) csg0 Hg0) as (_ & _ & _ & _ & P5).
      assert (Hne: s_oid (gs en (negb s)) <> None) by (rewrite Eo'; discriminate).
      destruct (P5 Hne) as (_ & _ & _ & Q4).
      destruct (fo_mirror _ _ _ _ _ _ _ _ FO' (nd en Hign) (Q4 k' Eo')) as (_ & M2 & _). rewrite M2 in Eg. discriminate.
    - (* no peer: then the entry is a creation *)
      assert (Hexx: s_ex (gs en s) = ExExists).
      { destruct (sc_shape _ _ _ _ SC s) as [(X & _)|X]; [rewrite Ho; discriminate|exact X|congruence]. }
      unfold is_creation in Hncr. rewrite Hps, Hexx, Hns, Eo' in Hncr. rewrite tstr_pstr in Hncr. cbn in Hncr. discriminate. }
  apply orb_false_elim in Eg as [Eg1 Eg2]. apply negb_false_iff in Eg2. destruct (tstr_some _ Eg2) as (o' & Ho').
  destruct (side_obj g w e en SC (negb s) o' Ho') as (k' & ob' & n' & -> & Hob' & Hk2' & FO' & _).
  pose proof Hg0 as Hg. set (csg := csg0) in *.
  rewrite Hp in Hps.
  destruct (ProvModel.o_exists ob) eqn:El.
  - rewrite (download_live w e s en _ k ob (i_cfg _ _ _ I) (i_pwf _ _ _ I s) (Htmp s) Hn Hps Ho Hob El Hkf) in H.
    cbn [rbind negb] in H.
    match type of H with context [upload_synced ?W e s] => destruct (upload_synced W e s) as [[[w2 cs2] up]|c'] eqn:Eu end.
    + cbn [rbind] in H. discriminate.
    + apply (upload_total g w e en s k ob csg k' ob' n c' SC Hign Ho Hob El Hg Ho' Hob' Hp Hps Hc (Htmp s) Eu).
  - destruct (download_dead w e s en _ k ob (i_cfg _ _ _ I) (i_tape _ _ _ I) (i_pwf _ _ _ I s) (Htmp s) Hn Hps Ho Hob El Hkf) as (w2 & Ed & We).
    rewrite Ed in H. cbn [rbind negb] in H. discriminate.
Qed.

Lemma creation_total g w e en s c :
  Uniq g w -> SCtx g w e en -> e_ign en = INone -> needs_sync (cfg_std 1) s (gs en s) = true ->
  notmp w e -> is_creation (cfg_std 1) en s = true ->
  handle_path_change_or_creation w e s = OutOfFragment c -> In c (X_PEERS :: G_CREATE).
Proof.
  intros U SC Hign Hns Htmp Hcr H.
  pose proof (sc_inv _ _ _ _ SC) as I. pose proof (sc_en _ _ _ _ SC) as Hn. pose proof (sc_e _ _ _ _ SC) as He.
  pose proof (i_ents _ _ _ I e en He Hn) as EO.
  destruct (needs_sync_parts g w e en SC s Hns) as (Hc & o & Ho).
  destruct (side_obj g w e en SC s o Ho) as (k & ob & n & -> & Hob & Hk2 & FO & Hkf & Hp & Hnok).
  destruct (creation_owner g w e en SC Hign s k ob Hcr Ho Hob FO) as (Hyn & csg & Hg).
  assert (Hexy: s_ex (gs en (negb s)) = ExUnknown).
  { apply (so_empty_ex _ _ _ _ _ _ (eo_side _ _ _ _ _ EO (negb s)) Hyn). rewrite Hign. reflexivity. }
  pose proof Hcr as Hcr'. unfold is_creation in Hcr'. apply andb_prop in Hcr' as [Hcr' _]. apply andb_prop in Hcr' as [Hcr' _].
  apply andb_prop in Hcr' as [Hpt Hexx].
  assert (Hps: s_path (gs en s) = Some (pstr [root_name s; n])).
  { destruct (fo_path _ _ _ _ _ _ _ _ FO) as [X|X]; [rewrite X in Hpt; discriminate|rewrite X, Hp; reflexivity]. }
  unfold handle_path_change_or_creation in H. unfold get_e, lift, get_ent in H. rewrite Hn in H. cbn [rbind] in H.
  rewrite (i_cfg _ _ _ I), Hps in H.
  pose proof (translate_file (negb s) n Hnok) as Htr. rewrite negb_involutive in Htr. rewrite Htr in H.
  rewrite Hexy, Hcr in H. cbn [ex_is andb] in H. rewrite !andb_false_r in H.
  unfold check_disjoint_create in H. unfold get_e, lift, get_ent in H. rewrite Hn in H. cbn [rbind] in H.
  unfold is_file, is_dir in H. rewrite (ent_file _ _ _ _ _ EO s) in H. cbn [otype_eqb negb] in H.
  destruct (others e (lookup_path (w_st w) (negb s) (Some (pstr [root_name (negb s); n])))) as [|z zs]; [|cbn [rbind] in H; injection H as <-; left; reflexivity].
  cbn [rbind] in H. right.
  destruct (ProvModel.o_exists ob) eqn:El.
  - rewrite (download_live w e s en _ k ob (i_cfg _ _ _ I) (i_pwf _ _ _ I s) (Htmp s) Hn Hps Ho Hob El Hkf) in H.
    cbn [rbind negb] in H.
    apply (create_total g w e en s k ob csg n c U SC Hign Ho Hob El Hg Hyn Hp Hnok Hps Hc (Htmp s) H).
  - destruct (download_dead w e s en _ k ob (i_cfg _ _ _ I) (i_tape _ _ _ I) (i_pwf _ _ _ I s) (Htmp s) Hn Hps Ho Hob El Hkf) as (w2 & Ed & We).
    rewrite Ed in H. cbn [rbind negb] in H. discriminate.
Qed.

Lemma In_embrace_of l c : In c l -> (forall x, In x l -> In x G_EMBRACE) -> In c G_EMBRACE.
Proof. auto. Qed.

Lemma embrace_total g w e en s c :
  Uniq g w -> SCtx g w e en -> e_ign en = INone -> needs_sync (cfg_std 1) s (gs en s) = true ->
  notmp w e -> maxchg en <= now (w_st w) ->
  embrace_change w e s = OutOfFragment c -> In c G_EMBRACE.
Proof.
  intros U SC Hign Hns Htmp Hmax H.
  pose proof (sc_inv _ _ _ _ SC) as I. pose proof (sc_en _ _ _ _ SC) as Hn. pose proof (sc_e _ _ _ _ SC) as He.
  pose proof (i_ents _ _ _ I e en He Hn) as EO.
  destruct (needs_sync_parts g w e en SC s Hns) as (Hc & o & Ho).
  destruct (side_obj g w e en SC s o Ho) as (k & ob & n & -> & Hob & Hk2 & FO & Hkf & Hp & Hnok).
  unfold embrace_change in H. unfold get_e, lift, get_ent in H. rewrite Hn in H. cbn [rbind] in H.
  rewrite (i_cfg _ _ _ I) in H.
  match type of H with (rbind ?A _) = _ => destruct A as [[]|c0] eqn:E0 end.
  2:{ exfalso. clear H. destruct (fo_path _ _ _ _ _ _ _ _ FO) as [Hpn|Hps].
      - rewrite Hpn in E0. cbn [tstr orb] in E0.
        destruct (sc_shape _ _ _ _ SC s) as [(_ & X)|X]; [rewrite Ho; discriminate|contradiction|].
        destruct (s_ex (gs en s)); simpl in X, E0; discriminate.
      - rewrite Hps, Hp in E0. pose proof (translate_file (negb s) n Hnok) as Htr. rewrite negb_involutive in Htr. rewrite Htr in E0.
        destruct (_ || _)%bool in E0; discriminate. }
  cbn [rbind] in H. clear E0.
  rewrite Hign in H. cbn [is_discarded is_conflicted] in H.
  match type of H with (rbind ?A _) = _ => destruct A as [pc|c0] eqn:Epc end.
  2:{ exfalso. oof_code Epc. }
  cbn [rbind] in H. clear Epc.
  destruct pc as [ce|].
  { unfold gate, lvl in H. rewrite (i_cfg _ _ _ I) in H. cbn in H. injection H as <-. left. reflexivity. }
  rewrite oip_std in H.
  destruct (ex_is (s_ex (gs en s)) ExTrashed) eqn:Et.
  - assert (Ex: s_ex (gs en s) = ExTrashed) by (destruct (s_ex (gs en s)); simpl in Et; congruence).
    assert (Hnc: is_creation (cfg_std 1) en (negb s) = false).
    { destruct (is_creation (cfg_std 1) en (negb s)) eqn:Ec; [exfalso|reflexivity].
      pose proof Ec as Ec'. unfold is_creation in Ec'. apply andb_prop in Ec' as [Ec' _]. apply andb_prop in Ec' as [_ Hns'].
      destruct (needs_sync_parts g w e en SC (negb s) Hns') as (_ & o' & Ho').
      destruct (side_obj g w e en SC (negb s) o' Ho') as (k' & ob' & n' & -> & Hob' & _ & FO' & _).
      destruct (creation_owner g w e en SC Hign (negb s) k' ob' Ec Ho' Hob' FO') as (X & _).
      rewrite negb_involutive in X. congruence. }
    rewrite Hnc in H. cbn [andb] in H.
    destruct (delete_total g w e en s k c SC Hign Ex Ho H) as [<-|[]]. unfold G_EMBRACE. cbn. auto 10.
  - destruct (ex_is (s_ex (gs en s)) ExMissing) eqn:Em; [injection H as <-; unfold G_EMBRACE; cbn; auto 10|].
    assert (Hgone: ex_in_gone (s_ex (gs en s)) = false) by (destruct (s_ex (gs en s)); simpl in *; congruence).
    rewrite (no_path_change g w e en SC Hign s) in H. cbn [orb] in H.
    destruct (is_creation (cfg_std 1) en s) eqn:Ecr.
    + destruct (handle_path_change_or_creation w e s) as [[[wa csa] rsa]|c0] eqn:Eh.
      * exfalso. cbn [rbind] in H.
        destruct (creation_pres g w e en s wa csa rsa SC Hign Hns Htmp Ecr Hmax Eh) as (en1 & SC1 & Hgx1 & Hown1 & Hres).
        destruct rsa.
        -- destruct Hres as (HJ & Hi1 & Hh1). unfold get_e, lift, get_ent in H. rewrite (sc_en _ _ _ _ SC1) in H. cbn [rbind] in H.
           rewrite Hi1 in H. cbn [is_discarded rbind] in H. rewrite (sc_en _ _ _ _ SC1) in H. cbn [rbind] in H.
           rewrite Hh1, oN_eqb_refl in H. cbn [negb] in H. discriminate.
        -- cbn [rbind] in H. discriminate.
        -- destruct Hres.
      * cbn [rbind] in H. injection H as <-.
        pose proof (creation_total g w e en s c0 U SC Hign Hns Htmp Ecr Eh) as X. unfold G_CREATE, G_EMBRACE in *. cbn in *. intuition.
    + cbn [rbind] in H. unfold get_e, lift, get_ent in H. rewrite Hn in H. cbn [rbind] in H.
      destruct (oN_eqb (s_hash (gs en s)) (s_shash (gs en s))) eqn:Eh; cbn [negb] in H; [discriminate|].
      destruct (handle_hash_diff w e s) as [[[w2 cs2] rs2]|c0] eqn:Ed; [cbn [rbind] in H; discriminate|].
      cbn [rbind] in H. injection H as <-.
      exfalso. apply (hash_diff_total g w e en s c0 SC Hign Hns Htmp Hgone); [|exact Ecr|exact Ed].
      intros X. rewrite X, oN_eqb_refl in Eh. discriminate.
Qed.

Lemma punt_total g w e en : Inv g w -> nth_error (ents (w_st w)) e = Some en -> exists w', punt w e = ROk w'.
Proof.
  intros I Hn. unfold punt, get_e, lift, get_ent. rewrite Hn. cbn [rbind].
  destruct (set_priority_w w (i_cfg _ _ _ I) (i_tape _ _ _ I) e (e_prio en + PRIO_ONE) en Hn) as (w2 & H2 & _). eauto.
Qed.

Lemma In_sync_of_embrace c : In c G_EMBRACE -> In c G_SYNC.
Proof. intros H. exact H. Qed.

Lemma sync_side_total g w e en s c :
  Uniq g w -> SCtx g w e en -> e_ign en = INone -> notmp w e -> maxchg en <= now (w_st w) ->
  sync_side w e s = OutOfFragment c -> In c G_SYNC.
Proof.
  intros U SC Hign Htmp Hmax H.
  pose proof (sc_inv _ _ _ _ SC) as I. pose proof (sc_en _ _ _ _ SC) as Hn. pose proof (sc_e _ _ _ _ SC) as He.
  pose proof (i_ents _ _ _ I e en He Hn) as EO.
  unfold sync_side in H. unfold get_e, lift, get_ent in H. rewrite Hn in H. cbn [rbind] in H.
  rewrite (i_cfg _ _ _ I) in H.
  destruct (needs_sync (cfg_std 1) s (gs en s)) eqn:Hns; cbn [negb] in H.
  2:{ exfalso. destruct (tchg (s_chg (gs en s))) eqn:Hc; [|discriminate].
      destruct (set_changed_w w (i_cfg _ _ _ I) (i_tape _ _ _ I) e s (CNum 0) en Hn) as (wa & Ha & Wa).
      rewrite Ha in H. cbn [rbind] in H. discriminate. }
  destruct (needs_sync_parts g w e en SC s Hns) as (Hc & o & Ho).
  destruct (negb (thash (s_hash (gs en s))) && is_file (gs en s) && ex_is (s_ex (gs en s)) ExExists)%bool.
  { exfalso. destruct (finished_total g w e en s I He Hn) as (wa & Ef). rewrite Ef in H. cbn [rbind] in H. discriminate. }
  rewrite Ho in H. cbn [negb andb] in H.
  match type of H with (if ?B then _ else _) = _ => destruct B; [discriminate|] end.
  rewrite (path_conflict_false g w e en SC Hign) in H.
  destruct (embrace_change w e s) as [[[w1 cs1] rs]|c0] eqn:Ee.
  - exfalso. cbn [rbind] in H.
    destruct (embrace_pres g w e en s w1 cs1 rs SC Hign Hns Htmp Hmax Ee) as (en1 & SC1 & Hgx1 & Hown1 & Hres).
    destruct rs.
    + destruct (finished_total g w1 e en1 s (sc_inv _ _ _ _ SC1) He (sc_en _ _ _ _ SC1)) as (wa & Ef). rewrite Ef in H. cbn [rbind] in H. discriminate.
    + destruct (punt_total g w1 e en1 (sc_inv _ _ _ _ SC1) (sc_en _ _ _ _ SC1)) as (wa & Ep). rewrite Ep in H. cbn [rbind] in H. discriminate.
    + destruct Hres.
  - cbn [rbind] in H. injection H as <-. apply In_sync_of_embrace. apply (embrace_total g w e en s c0 U SC Hign Hns Htmp Hmax Ee).
Qed.

Lemma sync_entry_total g w e en c :
  Uniq g w -> SCtx g w e en -> e_ign en = INone -> notmp w e -> maxchg en <= now (w_st w) ->
  sync_entry w e = OutOfFragment c -> In c G_SYNC.
Proof.
  intros U SC Hign Htmp Hmax H.
  pose proof (sc_en _ _ _ _ SC) as Hn.
  unfold sync_entry in H. unfold get_e, lift, get_ent in H. rewrite Hn in H. cbn [rbind] in H.
  rewrite (i_cfg _ _ _ (sc_inv _ _ _ _ SC)), (split_guard_false g w e en false SC Hign), (split_guard_false g w e en true SC Hign) in H.
  cbn [orb] in H. rewrite (hash_conflict_false g w e en SC Hign) in H.
  set (first := N.ltb (chgval (s_chg (e_r en))) (chgval (s_chg (e_l en)))) in H.
  destruct (sync_side w e first) as [[[w1 cs1] f1]|c0] eqn:E1.
  - cbn [rbind] in H.
    destruct (sync_side_pres g w e en first w1 cs1 f1 SC Hign Htmp Hmax E1) as (Hgx1 & Ht1 & Hown1 & Hres1).
    destruct f1; [|discriminate].
    destruct Hres1 as (en1 & SC1 & Hi1 & Hm1).
    destruct (sync_side w1 e (negb first)) as [[[w2 cs2] f2]|c1] eqn:E2; [cbn [rbind] in H; discriminate|].
    cbn [rbind] in H. injection H as <-. apply (sync_side_total g w1 e en1 (negb first) c1 (Uniq_frame g w w1 Hown1 U) SC1 Hi1 Ht1 Hm1 E2).
  - cbn [rbind] in H. injection H as <-. apply (sync_side_total g w e en first c0 U SC Hign Htmp Hmax E1).
Qed.

(* one engine step leaves the fragment only with one of the guard codes of G_SYNC *)
Theorem engine_step_guards g w a c :
  Inv g w -> NoTmp w -> Uniq g w -> algo_step w a = OutOfFragment c -> In c G_SYNC.
Proof.
  intros I T U H. destruct a as [sd o|sd clk|order clk].
  - simpl in H. discriminate.
  - simpl in H. destruct (intake_total g (at_clock w clk) sd (Inv_at_clock g w clk I)) as (w1 & E). rewrite E in H. cbn [rbind] in H. discriminate.
  - simpl in H.
    destruct (sync_step_total_up_to_sync g (at_clock w clk) order c (Inv_at_clock g w clk I)) with (2 := H) as (w3 & e & en3 & SC3 & Hi3 & Ht3 & Hm3 & Ese & O3).
    { intros x sd0. apply T. }
    apply (sync_entry_total g w3 e en3 c) with (2 := SC3); auto.
    apply (Uniq_frame g (at_clock w clk) w3 O3). intros sd k cs sd' k' cs' ob ob' A B C D0 E0. apply (U sd k cs sd' k' cs' ob ob' A B); auto.
Qed.

(* whole runs: an in-domain run under any schedule either goes through (ROk) or stops with one of the guard codes *)
Theorem run_guards : forall acts used lvL lvR g w c,
  Inv g w -> NoTmp w -> Dom used lvL lvR g w ->
  in_F_from 1 used lvL lvR [] [] (history_of acts) = true ->
  algo_run w acts = OutOfFragment c -> In c G_SYNC.
Proof.
  induction acts as [|a r IH]; intros used lvL lvR g w c I T D HF H.
  - simpl in H. discriminate.
  - simpl in H. destruct (algo_step w a) as [[w1 cs1]|c0] eqn:Es.
    2:{ cbn [rbind] in H. injection H as <-. apply (engine_step_guards g w a c0 I T (d_uniq _ _ _ _ _ D) Es). }
    cbn [rbind] in H.
    destruct a as [sd o|sd clk|order clk].
    + simpl in Es. injection Es as <- <-. change (history_of (AUser sd o :: r)) with ((sd, o) :: history_of r) in HF.
      destruct o as [rel d|rel d|rel|rel rel2|rel].
      * destruct sd; simpl in HF; apply andb_prop in HF as [Hnl HF]; destruct (new_leaf_1 _ _ Hnl) as (n & -> & Hnok & Hnew);
          change (leaf [n]) with n in HF.
        -- destruct (user_create_pres used lvL lvR g w true n d I T D Hnok Hnew) as (g1 & I1 & T1 & _ & D1).
           apply (IH _ _ _ g1 _ c I1 T1 D1 HF H).
        -- destruct (user_create_pres used lvL lvR g w false n d I T D Hnok Hnew) as (g1 & I1 & T1 & _ & D1).
           apply (IH _ _ _ g1 _ c I1 T1 D1 HF H).
      * destruct sd; simpl in HF.
        -- destruct (live_get rel lvR) as [cs|] eqn:El; [|discriminate]. apply andb_prop in HF as [Hf HF]. apply negb_true_iff in Hf.
           destruct (user_write_pres used lvL lvR g w true rel d cs I T D El Hf) as (g1 & I1 & T1 & _ & D1).
           apply (IH _ _ _ g1 _ c I1 T1 D1 HF H).
        -- destruct (live_get rel lvL) as [cs|] eqn:El; [|discriminate]. apply andb_prop in HF as [Hf HF]. apply negb_true_iff in Hf.
           destruct (user_write_pres used lvL lvR g w false rel d cs I T D El Hf) as (g1 & I1 & T1 & _ & D1).
           apply (IH _ _ _ g1 _ c I1 T1 D1 HF H).
      * destruct sd; simpl in HF.
        -- destruct (live_get rel lvR) as [cs|] eqn:El; [|discriminate].
           destruct (user_delete_pres used lvL lvR g w true rel cs I T D El) as (g1 & I1 & T1 & _ & D1).
           apply (IH _ _ _ g1 _ c I1 T1 D1 HF H).
        -- destruct (live_get rel lvL) as [cs|] eqn:El; [|discriminate].
           destruct (user_delete_pres used lvL lvR g w false rel cs I T D El) as (g1 & I1 & T1 & _ & D1).
           apply (IH _ _ _ g1 _ c I1 T1 D1 HF H).
      * simpl in HF. discriminate.
      * simpl in HF. discriminate.
    + destruct (engine_step_pres g w (AIntake sd clk) w1 cs1 I T ltac:(intros; discriminate) Es) as (I1 & T1 & O1).
      apply (IH used lvL lvR g w1 c I1 T1 (Dom_frame _ _ _ _ _ _ O1 D) HF H).
    + destruct (engine_step_pres g w (ASync order clk) w1 cs1 I T ltac:(intros; discriminate) Es) as (I1 & T1 & O1).
      apply (IH used lvL lvR g w1 c I1 T1 (Dom_frame _ _ _ _ _ _ O1 D) HF H).
Qed.

Theorem algo_out_of_fragment_guards t0 lg0 acts c :
  lg0 <= t0 + 1 -> in_F1 (cfg_std 1) (history_of acts) = true ->
  algo_run (world_init (cfg_std 1) t0 lg0) acts = OutOfFragment c -> In c G_SYNC.
Proof.
  intros Hlg HF H. unfold in_F1, in_F in HF. cbn in HF.
  apply (run_guards acts [] [] [] g0 _ c (init_inv t0 lg0 Hlg) (NoTmp_init _ _ _) (Dom_init _ _ _) HF H).
Qed.
