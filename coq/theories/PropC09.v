(* PropC09.v — property theorems for C09 (storage back ends behave as a durable, tag-isolated map of rows).
   Only statements closed by [exact], each followed by Print Assumptions; Examples show the hypotheses are
   satisfiable.  Models and specification: StoreModel.v; proofs: StoreProofs.v.

   Reading guide.  [sq_step] / [m_step] are the models of one call on SqliteStorage / MockStorage;
   [run_ops] runs a call sequence and returns every result; [sp_ok s o r s'] says that a map
   (tag, id) -> value in state s may answer call o with r and become s'; [sp_trace] is its lift to
   histories; [abs_sq] / [abs_m] read a table / a MockStorage dict as such a map; [sp_equiv] is equality
   of maps (same lookup for every key).  [wf_sq T] (ids pairwise different: the PRIMARY KEY constraint)
   holds for the empty table and is preserved by every call, so it holds for every table the code can
   produce.  Atomicity of a call (the mutex in __db_execute, which since the repository's `fix:` commit
   637ed7d also covers fetching the rows; autocommit) is an assumption about the runtime: a call is one
   step of the model. *)
From Coq Require Import NArith List Bool Permutation.
From CS Require Import Sx Str StoreModel StoreProofs.
Import ListNotations.

(* ------------------------------------------------------------------ the specification is a map *)
Theorem C09_spec_map_laws : forall s k k' b,
  sp_get (sp_set k b s) k' = (if key_eqb k k' then Some b else sp_get s k') /\
  sp_get (sp_del k s) k' = (if key_eqb k k' then None else sp_get s k') /\
  (key_eqb k k' = true <-> k = k').
Proof. exact (fun s k k' b => conj (sp_get_set k b k' s) (conj (sp_get_del k k' s) (key_eqb_eq k k'))). Qed.
Print Assumptions C09_spec_map_laws.

(* ------------------------------------------------------------------ SqliteStorage refines the map *)
(* one call: the result, exactly as returned, is one the map allows, and the abstraction commutes *)
Theorem C09_store_refines_step : forall T o, wf_sq T ->
  wf_sq (snd (sq_step T o)) /\
  exists s', sp_ok (abs_sq T) o (fst (sq_step T o)) s' /\ sp_equiv s' (abs_sq (snd (sq_step T o))).
Proof. exact sq_step_refines. Qed.
Print Assumptions C09_store_refines_step.

(* every call sequence (incl. close/reopen), from every well-formed table, results taken as they are
   ([view_raw] is the identity).  Before the repository's `fix:` commit 9d0a73d this statement was false
   (read returned the row tuple; witness create('t', b'\x01'); read('t', 1)) and was kept here as
   C09_store_refines_refuted. *)
Theorem C09_store_refines : forall ops T, wf_sq T ->
  exists s', sp_trace (abs_sq T) (history view_raw ops (fst (run_ops sq_step T ops))) s' /\
             sp_equiv s' (abs_sq (snd (run_ops sq_step T ops))) /\
             wf_sq (snd (run_ops sq_step T ops)).
Proof. exact sq_refines. Qed.
Print Assumptions C09_store_refines.

(* ------------------------------------------------------------------ corollaries, stated on the model directly *)
(* create returns an id that no live row uses — of any tag — and adds exactly that row *)
Theorem C09_create_fresh : forall T t b, wf_sq T ->
  exists i, sq_step T (Create t b) = (RId i, T ++ [(i, t, b)]) /\ forall t' b', ~ In (i, t', b') T.
Proof. exact sq_create_fresh. Qed.
Print Assumptions C09_create_fresh.

(* read returns the value of the last acknowledged write (create or update) of that tag and id, whatever
   calls came in between — other tags, other ids, creates, reads, close/reopen — as long as none of them
   updates or deletes that very (tag, id) *)
Theorem C09_read_last_write : forall T w t b i ops, wf_sq T ->
  (w = Create t b /\ fst (sq_step T w) = RId i) \/ (w = Update t b i /\ fst (sq_step T w) = RCount 1) ->
  Forall (fun o => touches (t, i) o = false) ops ->
  fst (sq_step (snd (run_ops sq_step (snd (sq_step T w)) ops)) (Read t i)) = RBytes b.
Proof. exact sq_read_last_write. Qed.
Print Assumptions C09_read_last_write.

(* update of a missing row is an error and changes nothing — also when the id is live under another tag *)
Theorem C09_update_missing_err : forall T t b i,
  (forall b0, ~ In (i, t, b0) T) -> sq_step T (Update t b i) = (RErr EValue, T).
Proof. exact sq_update_missing. Qed.
Print Assumptions C09_update_missing_err.

Theorem C09_update_live : forall T t b i b0, wf_sq T -> In (i, t, b0) T -> fst (sq_step T (Update t b i)) = RCount 1.
Proof. exact sq_update_live. Qed.
Print Assumptions C09_update_live.

(* delete is idempotent (second delete: same table, no error) and the row reads as nothing afterwards *)
Theorem C09_delete_idem : forall T t i,
  sq_step (snd (sq_step T (Delete t i))) (Delete t i) = (RNone, snd (sq_step T (Delete t i))) /\
  fst (sq_step (snd (sq_step T (Delete t i))) (Read t i)) = RNone.
Proof. exact sq_delete_idem. Qed.
Print Assumptions C09_delete_idem.

(* read_all(tag) is a dict holding exactly the live rows of the tag *)
Theorem C09_read_all_exact : forall T t, wf_sq T ->
  exists d, fst (sq_step T (ReadAll (Some t))) = RDict d /\ is_dict d /\
            forall i b, In (i, b) d <-> In (i, t, b) T.
Proof. exact sq_read_all_exact. Qed.
Print Assumptions C09_read_all_exact.

(* read_all() is a dict of dicts holding exactly the live rows of all tags *)
Theorem C09_read_all_tags_exact : forall T, wf_sq T ->
  exists g, fst (sq_step T (ReadAll None)) = RDictAll g /\ is_dict g /\ (forall t d, In (t, d) g -> is_dict d) /\
            forall t i b, dd_get g t i = Some b <-> In (i, t, b) T.
Proof. exact sq_read_all_tags_exact. Qed.
Print Assumptions C09_read_all_tags_exact.

(* a call that does not name tag t' — whatever id it names — leaves read_all(t') and every read(t', i) unchanged *)
Theorem C09_tag_isolation : forall T o t', op_tag o <> Some t' ->
  fst (sq_step (snd (sq_step T o)) (ReadAll (Some t'))) = fst (sq_step T (ReadAll (Some t'))) /\
  forall i, fst (sq_step (snd (sq_step T o)) (Read t' i)) = fst (sq_step T (Read t' i)).
Proof. exact sq_tag_isolation. Qed.
Print Assumptions C09_tag_isolation.

(* close + reopen is the identity on the table (what SQLite keeps on disk is not modelled: see the check) *)
Theorem C09_reopen_id : forall T, sq_step T Reopen = (RUnit, T).
Proof. exact sq_reopen_id. Qed.
Print Assumptions C09_reopen_id.

(* ------------------------------------------------------------------ concurrency *)
(* n threads, each a list of calls; every interleaving of whole calls: all calls are in the schedule, the
   history is a legal map history in schedule order (so every create got an id no live row of its tag
   had), ids in the final table are pairwise different, the final table is exactly the acknowledged
   writes applied in schedule order (no write lost, none invented), and without deletes all created ids
   are pairwise different. *)
Theorem C09_serial_no_lost_write : forall (progs : list (list op)) (sched : list op) T,
  interleaving progs sched -> wf_sq T ->
  let rs := fst (run_ops sq_step T sched) in
  let T' := snd (run_ops sq_step T sched) in
  Permutation (concat progs) sched /\
  (exists s', sp_trace (abs_sq T) (history view_raw sched rs) s' /\ sp_equiv s' (abs_sq T')) /\
  wf_sq T' /\
  sp_equiv (fold_left apply_ack (history view_raw sched rs) (abs_sq T)) (abs_sq T') /\
  (Forall (fun o => is_delete o = false) sched -> NoDup (created_ids sched rs)).
Proof. exact sq_serial_no_lost_write. Qed.
Print Assumptions C09_serial_no_lost_write.

(* ------------------------------------------------------------------ MockStorage (second implementation) *)
(* full strength (read's ValueError already forgiven): every sequence incl. "new instance over the same dict" *)
Definition mock_refines_full : Prop :=
  forall ops, exists s', sp_trace [] (history unraise ops (fst (run_ops m_step m_init ops))) s'.

(* false: create('t', b1); MockStorage(same dict); create('t', b2) -> id 0 again, live row overwritten *)
Theorem C09_mock_refines_refuted : ~ mock_refines_full.
Proof. exact m_refines_full_refuted. Qed.
Print Assumptions C09_mock_refines_refuted.

Definition mock_read_total : Prop :=
  forall ops, Forall (fun o => o <> Reopen) ops ->
  exists s', sp_trace [] (history view_raw ops (fst (run_ops m_step m_init ops))) s'.

(* false: read('t', 0) on an empty store raises ValueError instead of returning None *)
Theorem C09_mock_read_missing_refuted : ~ mock_read_total.
Proof. exact m_read_total_refuted. Qed.
Print Assumptions C09_mock_read_missing_refuted.

(* one instance (no Reopen), read's ValueError read as "nothing": MockStorage refines the map *)
Theorem C09_mock_refines_partial : forall ops m, inv_m m -> Forall (fun o => o <> Reopen) ops ->
  exists s', sp_trace (abs_m m) (history unraise ops (fst (run_ops m_step m ops))) s' /\
             sp_equiv s' (abs_m (snd (run_ops m_step m ops))) /\ inv_m (snd (run_ops m_step m ops)).
Proof. exact m_refines. Qed.
Print Assumptions C09_mock_refines_partial.

(* tag isolation holds for MockStorage unconditionally, ids coinciding across tags included *)
Theorem C09_mock_tag_isolation : forall m o t', op_tag o <> Some t' ->
  fst (m_step (snd (m_step m o)) (ReadAll (Some t'))) = fst (m_step m (ReadAll (Some t'))).
Proof. exact m_tag_isolation. Qed.
Print Assumptions C09_mock_tag_isolation.

(* ------------------------------------------------------------------ non-vacuity and witnesses *)
Definition tA : tag := [97%N].      (* "a" *)
Definition tB : tag := [65%N].      (* "A" *)

Example wf_empty : wf_sq [].
Proof. constructor. Qed.

(* a reachable three-row table over two tags; the id of the deleted last row (3) was handed out again *)
Example reachable_table :
  snd (run_ops sq_step [] [Create tA [1%N]; Create tB []; Create tA [255%N]; Delete tA 3%N; Create tB [7%N]])
  = [(1%N, tA, [1%N]); (2%N, tB, []); (3%N, tB, [7%N])].
Proof. vm_compute. reflexivity. Qed.

Example wf_reachable : wf_sq [(1%N, tA, [1%N]); (2%N, tB, []); (3%N, tB, [7%N])].
Proof.
  rewrite <- reachable_table.
  destruct (C09_store_refines [Create tA [1%N]; Create tB []; Create tA [255%N]; Delete tA 3%N; Create tB [7%N]] [] wf_empty)
    as [s' [_ [_ W]]]. exact W.
Qed.

(* read_last_write's hypotheses: an acknowledged update followed by calls on the same id under another tag *)
Example read_last_write_inst :
  fst (sq_step [(1%N, tA, [1%N]); (2%N, tB, []); (3%N, tB, [7%N])] (Update tB [9%N] 3%N)) = RCount 1 /\
  Forall (fun o => touches (tB, 3%N) o = false) [Delete tA 3%N; Update tB [0%N] 2%N; Reopen; Create tA []].
Proof. split; [vm_compute; reflexivity | repeat constructor]. Qed.

(* tag isolation with coinciding ids: update('a', .., 3) where 3 is live under 'A' -> ValueError, 'A' untouched *)
Example isolation_inst :
  sq_step [(1%N, tA, [1%N]); (2%N, tB, []); (3%N, tB, [7%N])] (Update tA [9%N] 3%N)
  = (RErr EValue, [(1%N, tA, [1%N]); (2%N, tB, []); (3%N, tB, [7%N])]).
Proof. vm_compute. reflexivity. Qed.

Example interleaving_inst :
  interleaving [[Create tA [1%N]; Read tA 1%N]; [Create tB [2%N]]] [Create tA [1%N]; Create tB [2%N]; Read tA 1%N].
Proof.
  apply (il_step [] (Create tA [1%N]) [Read tA 1%N] [[Create tB [2%N]]]).
  apply (il_step [[Read tA 1%N]] (Create tB [2%N]) [] []).
  apply (il_step [] (Read tA 1%N) [] [[]]).
  apply il_done. repeat constructor.
Qed.

Example inv_m_empty : inv_m m_init.
Proof. exact inv_m_init. Qed.

(* the witnesses of the refutations, as the models compute them *)
Example sqlite_read_inst :
  fst (run_ops sq_step [] [Create tA [1%N]; Read tA 1%N; Read tA 2%N]) = [RId 1; RBytes [1%N]; RNone].
Proof. vm_compute. reflexivity. Qed.

Example mock_reissue_witness :
  fst (run_ops m_step m_init [Create tA [1%N]; Reopen; Create tA [2%N]; Read tA 0%N; Read tA 5%N])
  = [RId 0; RUnit; RId 0; RBytes [2%N]; RErr EValue].
Proof. vm_compute. reflexivity. Qed.
