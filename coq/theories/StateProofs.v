(* StateProofs.v — invariants of StateModel. *)
From Coq Require Import NArith List Bool Arith Lia.
From CS Require Import Sx Str PathModel PathLaws StateModel.
Import ListNotations.

(* ------------------------------------------------------------------ the property *)
Definition oid_of (s : state) (e : eid) (sd : bool) : option str :=
  match nth_error (ents s) e with Some en => s_oid (gs en sd) | None => None end.
Definition path_of (s : state) (e : eid) (sd : bool) : option str :=
  match nth_error (ents s) e with Some en => s_path (gs en sd) | None => None end.

(* (i) every entry that carries an id is found under it, and under (path, id) *)
Definition idx_found (s : state) : Prop :=
  forall e sd o, oid_of s e sd = Some o ->
    al_get o (oids s sd) = Some e /\
    (forall p, path_of s e sd = Some p -> p <> [] -> slot_get s sd p o = Some e).
(* (ii) every slot leads to an entry that carries that id / path *)
Definition idx_slots (s : state) : Prop :=
  (forall sd o e, al_get o (oids s sd) = Some e -> oid_of s e sd = Some o) /\
  (forall sd p o e, slot_get s sd p o = Some e -> oid_of s e sd = Some o /\ path_of s e sd = Some p).
(* (iii) at most one entry owns an id per side *)
Definition idx_unique (s : state) : Prop :=
  forall e1 e2 sd o, oid_of s e1 sd = Some o -> oid_of s e2 sd = Some o -> e1 = e2.

Definition flagged (en : entry) : bool :=
  (tchg (s_chg (e_l en)) && tstr (s_oid (e_l en))) || (tchg (s_chg (e_r en)) && tstr (s_oid (e_r en))).
(* (iv), the half that holds: every entry with a change flag and an id is pending *)
Definition cs_complete (s : state) : Prop :=
  forall e en, nth_error (ents s) e = Some en -> flagged en = true -> set_mem e (cset s) = true.
(* (iv) at full strength (discarded entries excepted, as the property says) *)
Definition cs_exact (s : state) : Prop :=
  forall e en, nth_error (ents s) e = Some en -> is_discarded (e_ign en) = false ->
    (set_mem e (cset s) = true <-> flagged en = true).

Definition IdxJ (s : state) : Prop := idx_found s /\ idx_slots s.

Lemma idx_found_unique s : idx_found s -> idx_unique s.
Proof.
  intros H e1 e2 sd o H1 H2. apply H in H1 as [H1 _]. apply H in H2 as [H2 _]. congruence.
Qed.

(* ------------------------------------------------------------------ association lists *)
Lemma str_eqb_refl a : str_eqb a a = true.
Proof. apply str_eqb_eq. reflexivity. Qed.
Lemma str_eqb_neq a b : a <> b -> str_eqb a b = false.
Proof. intros H. destruct (str_eqb a b) eqn:E; [apply str_eqb_eq in E; contradiction|reflexivity]. Qed.
Lemma str_eqb_spec a b : reflect (a = b) (str_eqb a b).
Proof. destruct (str_eqb a b) eqn:E; constructor; [apply str_eqb_eq; exact E|intros H; apply str_eqb_eq in H; congruence]. Qed.

Section AL.
Context {V : Type}.
Implicit Types (l : list (str * V)).
Lemma al_get_set_eq k v l : al_get k (al_set k v l) = Some v.
Proof.
  induction l as [|[k' v'] l IH]; simpl; [rewrite str_eqb_refl; reflexivity|].
  destruct (str_eqb k k') eqn:E; simpl; rewrite E; [reflexivity|exact IH].
Qed.
Lemma al_get_set_neq k k' v l : k' <> k -> al_get k' (al_set k v l) = al_get k' l.
Proof.
  intros Hn. induction l as [|[k2 v2] l IH]; simpl.
  - rewrite str_eqb_neq by exact Hn. reflexivity.
  - destruct (str_eqb k k2) eqn:E; simpl.
    + apply str_eqb_eq in E. subst k2. rewrite str_eqb_neq by exact Hn. reflexivity.
    + destruct (str_eqb k' k2); [reflexivity|exact IH].
Qed.
Lemma al_get_del_eq k l : al_get k (al_del k l) = None.
Proof.
  induction l as [|[k2 v2] l IH]; simpl; [reflexivity|].
  destruct (str_eqb k k2) eqn:E; simpl; [exact IH|rewrite E; exact IH].
Qed.
Lemma al_get_del_neq k k' l : k' <> k -> al_get k' (al_del k l) = al_get k' l.
Proof.
  intros Hn. induction l as [|[k2 v2] l IH]; simpl; [reflexivity|].
  destruct (str_eqb k k2) eqn:E; simpl.
  - apply str_eqb_eq in E. subst k2. rewrite str_eqb_neq by exact Hn. exact IH.
  - destruct (str_eqb k' k2); [reflexivity|exact IH].
Qed.
Lemma al_get_set k k' v l : al_get k' (al_set k v l) = if str_eqb k' k then Some v else al_get k' l.
Proof.
  destruct (str_eqb_spec k' k) as [->|Hn]; [apply al_get_set_eq|apply al_get_set_neq; exact Hn].
Qed.
Lemma al_get_del k k' l : al_get k' (al_del k l) = if str_eqb k' k then None else al_get k' l.
Proof.
  destruct (str_eqb_spec k' k) as [->|Hn]; [apply al_get_del_eq|apply al_get_del_neq; exact Hn].
Qed.
End AL.

(* ------------------------------------------------------------------ initial state *)
Lemma idx_init : IdxJ init_state /\ cs_exact init_state.
Proof.
  split; [split|].
  - intros e sd o H. unfold oid_of in H. simpl in H. destruct e; discriminate.
  - split.
    + intros sd o e H. destruct sd; discriminate.
    + intros sd p o e H. destruct sd; discriminate.
  - intros e en H. destruct e; discriminate.
Qed.

(* ------------------------------------------------------------------ refutations (witnesses replayed on the real code) *)
Definition E_id : env := mkEnv (fun _ => false) (fun _ => mk_conv true) (fun _ => 1000%N) (fun _ _ => None).
Definition w_o1 : str := [111;49]%N.
Definition w_o2 : str := [111;50]%N.
Definition w_pb : str := [47;98]%N.
Definition w_pbx : str := [47;98;47;120]%N.

(* update(LOCAL, FILE, 'o1', '/b/x'); ent[LOCAL].oid = None; ent[REMOTE].oid = 'o2' *)
Definition w_changeset : list (op * list titem) :=
  [ (OUpdate false (Some File) (Some w_o1) (Some w_pbx) None (Some true) None, [TSwap false]);
    (OSet 0 false (FOid None), [TSwap false]);
    (OSet 0 true (FOid (Some w_o2)), [TSwap false]) ].
(* update(LOCAL, DIRECTORY, 'o1', '/b'); update(LOCAL, DIRECTORY, 'o1', '/b/x') *)
Definition w_kids (n : nat) : list (op * list titem) :=
  [ (OUpdate false (Some Dir) (Some w_o1) (Some w_pb) None (Some true) None, [TSwap false]);
    (OUpdate false (Some Dir) (Some w_o1) (Some w_pbx) None (Some true) None, repeat (TOrder [0]) n) ].
(* both sides flagged, both ids removed, then `changed` is written *)
Definition w_changed : list (op * list titem) :=
  [ (OUpdate false (Some File) (Some w_o1) (Some w_pbx) None (Some true) None, [TSwap false]);
    (OSet 0 true (FOid (Some w_o2)), [TSwap false]);
    (OMark 0 true, []);
    (OSet 0 false (FOid None), [TSwap false]);
    (OSet 0 true (FOid None), [TSwap false]);
    (OSet 0 true (FChg (CNum 0)), []) ].

Definition changeset_exact_full : Prop :=
  forall E ops s, run_ops E init_state ops = Ok s -> cs_exact s.
Definition setters_terminate_full : Prop :=
  forall E ops, run_ops E init_state ops <> Err ERecursion.

Lemma changeset_exact_refuted : ~ changeset_exact_full.
Proof.
  intros H.
  destruct (run_ops E_id init_state w_changeset) as [s|] eqn:R; [|vm_compute in R; discriminate].
  specialize (H _ _ _ R). vm_compute in R. injection R as <-.
  specialize (H 0 _ eq_refl eq_refl). destruct H as [H _]. specialize (H eq_refl). vm_compute in H. discriminate.
Qed.
Lemma update_kids_terminates_refuted : ~ setters_terminate_full.
Proof. intros H. apply (H E_id (w_kids 20)). vm_compute. reflexivity. Qed.
Lemma changed_setter_terminates_refuted : ~ setters_terminate_full.
Proof. intros H. apply (H E_id w_changed). vm_compute. reflexivity. Qed.

(* ------------------------------------------------------------------ the part of the state Idx talks about *)
Definition ekey (en : entry) := (s_oid (e_l en), s_path (e_l en), s_oid (e_r en), s_path (e_r en)).
Definition iview (s : state) := (map ekey (ents s), oidsL s, oidsR s, pathsL s, pathsR s).

Lemma iview_eq s s' : iview s = iview s' ->
  (forall e sd, oid_of s e sd = oid_of s' e sd /\ path_of s e sd = path_of s' e sd) /\
  (forall sd, oids s sd = oids s' sd) /\ (forall sd, paths s sd = paths s' sd).
Proof.
  unfold iview. intros H. injection H as H1 H2 H3 H4 H5.
  split; [|split; intros []; simpl; congruence].
  intros e sd. unfold oid_of, path_of.
  assert (Hn: nth_error (map ekey (ents s)) e = nth_error (map ekey (ents s')) e) by (rewrite H1; reflexivity).
  rewrite !nth_error_map in Hn.
  destruct (nth_error (ents s) e) as [a|], (nth_error (ents s') e) as [b|]; simpl in Hn; try discriminate; [|split; reflexivity].
  injection Hn as Ha Hb Hc Hd. unfold gs. destruct sd; split; assumption.
Qed.

Lemma slot_get_paths s s' sd : paths s sd = paths s' sd -> forall p o, slot_get s sd p o = slot_get s' sd p o.
Proof. intros H p o. unfold slot_get. rewrite H. reflexivity. Qed.

Lemma IdxJ_view s s' : iview s = iview s' -> IdxJ s -> IdxJ s'.
Proof.
  intros Hv [Hf [Ho Hp]]. apply iview_eq in Hv as [He [Hoi Hpa]].
  assert (Hsl: forall sd p o, slot_get s sd p o = slot_get s' sd p o) by (intros; apply slot_get_paths; apply Hpa).
  split; [|split].
  - intros e sd o H. rewrite <- (proj1 (He e sd)) in H. apply Hf in H as [H1 H2]. split.
    + rewrite <- Hoi. exact H1.
    + intros p Hp1 Hp2. rewrite <- Hsl. apply H2; [rewrite (proj2 (He e sd)); exact Hp1|exact Hp2].
  - intros sd o e H. rewrite <- Hoi in H. apply Ho in H. rewrite <- (proj1 (He e sd)). exact H.
  - intros sd p o e H. rewrite <- Hsl in H. apply Hp in H. rewrite <- (proj1 (He e sd)), <- (proj2 (He e sd)). exact H.
Qed.

Lemma map_list_upd {T U} (f : T -> U) l n x y :
  nth_error l n = Some y -> f x = f y -> map f (list_upd l n x) = map f l.
Proof.
  revert n. induction l as [|a l IH]; intros [|n] H Hf; simpl in *; try discriminate.
  - injection H as ->. rewrite Hf. reflexivity.
  - f_equal. apply IH; assumption.
Qed.

Lemma iview_put_ent s e en en' :
  nth_error (ents s) e = Some en -> ekey en' = ekey en -> iview (put_ent s e en') = iview s.
Proof.
  intros H Hk. unfold iview, put_ent. simpl. rewrite (map_list_upd ekey _ _ _ _ H Hk). reflexivity.
Qed.

Lemma iview_raw_side s e sd f :
  (forall x, s_oid (f x) = s_oid x /\ s_path (f x) = s_path x) -> iview (raw_side s e sd f) = iview s.
Proof.
  intros Hf. unfold raw_side. destruct (nth_error (ents s) e) as [en|] eqn:E; [|reflexivity].
  apply (iview_put_ent _ _ en); [exact E|].
  unfold ekey, ss, gs. destruct sd; simpl; [destruct (Hf (e_r en)) as [-> ->]|destruct (Hf (e_l en)) as [-> ->]]; reflexivity.
Qed.

Lemma iview_dirty_add s e : iview (dirty_add s e) = iview s. Proof. reflexivity. Qed.
Lemma iview_cs_add s e : iview (cs_add s e) = iview s. Proof. reflexivity. Qed.
Lemma iview_cs_del s e : iview (cs_del s e) = iview s. Proof. reflexivity. Qed.

Definition flag_cmd (c : cmd) : bool := match c with CChg _ _ _ _ | CPrio _ _ => true | _ => false end.

Lemma get_ent_ok s e en : get_ent s e = Ok en -> nth_error (ents s) e = Some en.
Proof. unfold get_ent. destruct (nth_error (ents s) e); intros H; inversion H; reflexivity. Qed.

Ltac bind_inv H :=
  match type of H with
  | bind ?r _ = Ok _ => let x := fresh "x" in let E := fresh "E" in destruct r as [x|] eqn:E; simpl in H; [|discriminate]
  end.

(* writes of `changed` and `priority` never touch ids, paths, indexes or the tape *)
Lemma exec_flag_view E f : forall c s s', flag_cmd c = true -> exec E f c s = Ok s' ->
  iview s' = iview s /\ tape s' = tape s.
Proof.
  induction f as [|f IH]; intros c s s' Hc H; [discriminate|].
  destruct c as [fin e sd v|fin e sd v|fin e sd v|e v]; try discriminate; simpl in H.
  - (* CChg *)
    bind_inv H. bind_inv H.
    assert (Hx: iview x0 = iview s /\ tape x0 = tape s).
    { destruct ((tchg v && tstr (s_oid (gs x sd)) || tchg (s_chg (gs x (negb sd))) && tstr (s_oid (gs x (negb sd))))%bool).
      - injection E1 as <-. split; reflexivity.
      - destruct (tchg (s_chg (gs x (negb sd))) && negb (tstr (s_oid (gs x (negb sd)))))%bool.
        + apply IH in E1; [|reflexivity]. exact E1.
        + injection E1 as <-. split; reflexivity. }
    destruct Hx as [Hx1 Hx2]. injection H as <-. destruct fin.
    + split.
      * rewrite iview_raw_side; [exact Hx1|intros y; split; reflexivity].
      * unfold raw_side. simpl. destruct (nth_error (ents x0) e); simpl; exact Hx2.
    + split; [exact Hx1|exact Hx2].
  - (* CPrio *)
    bind_inv H. destruct (N.eqb (e_prio x) v); [injection H as <-; split; reflexivity|].
    bind_inv H.
    assert (Hx: iview x0 = iview s /\ tape x0 = tape s).
    { destruct (N.ltb (e_prio x) v && N.ltb 0 v)%bool; [|injection E1 as <-; split; reflexivity].
      bind_inv E1.
      assert (Ha: iview x1 = iview s /\ tape x1 = tape s).
      { destruct (tchg (s_chg (e_l x))); [apply IH in E2; [exact E2|reflexivity]|injection E2 as <-; split; reflexivity]. }
      bind_inv E1.
      destruct (tchg (s_chg (e_r x2))).
      - apply IH in E1; [|reflexivity]. destruct E1 as [-> ->]. exact Ha.
      - injection E1 as <-. exact Ha. }
    destruct Hx as [Hx1 Hx2].
    simpl in H. destruct (nth_error (ents x0) e) as [en2|] eqn:E3; [|discriminate]. injection H as <-. split.
    + rewrite (iview_put_ent _ _ en2); [exact Hx1|exact E3|reflexivity].
    + exact Hx2.
Qed.
