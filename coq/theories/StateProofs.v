(* StateProofs.v — invariants of StateModel. *)
From Coq Require Import NArith List Bool Arith Lia.
From CS Require Import Sx Str PathModel PathLaws StateModel.
Import ListNotations.

(* ------------------------------------------------------------------ the property *)
Definition oid_of (s : state) (e : eid) (sd : bool) : option str :=
  match nth_error (ents s) e with Some en => s_oid (gs en sd) | None => None end.
Definition path_of (s : state) (e : eid) (sd : bool) : option str :=
  match nth_error (ents s) e with Some en => s_path (gs en sd) | None => None end.

(* (i) every entry that carries an id is found under it, and under (path, id) *)
Definition idx_found (s : state) : Prop :=
  forall e sd o, oid_of s e sd = Some o ->
    al_get o (oids s sd) = Some e /\
    (forall p, path_of s e sd = Some p -> p <> [] -> slot_get s sd p o = Some e).
(* (ii) every slot leads to an entry that carries that id / path *)
Definition idx_slots (s : state) : Prop :=
  (forall sd o e, al_get o (oids s sd) = Some e -> oid_of s e sd = Some o) /\
  (forall sd p o e, slot_get s sd p o = Some e -> oid_of s e sd = Some o /\ path_of s e sd = Some p).
(* (iii) at most one entry owns an id per side *)
Definition idx_unique (s : state) : Prop :=
  forall e1 e2 sd o, oid_of s e1 sd = Some o -> oid_of s e2 sd = Some o -> e1 = e2.

Definition flagged (en : entry) : bool :=
  (tchg (s_chg (e_l en)) && tstr (s_oid (e_l en))) || (tchg (s_chg (e_r en)) && tstr (s_oid (e_r en))).
(* (iv), the half that holds: every entry with a change flag and an id is pending *)
Definition cs_complete (s : state) : Prop :=
  forall e en, nth_error (ents s) e = Some en -> flagged en = true -> set_mem e (cset s) = true.
(* (iv) at full strength (discarded entries excepted, as the property says) *)
Definition cs_exact (s : state) : Prop :=
  forall e en, nth_error (ents s) e = Some en -> is_discarded (e_ign en) = false ->
    (set_mem e (cset s) = true <-> flagged en = true).

Definition IdxJ (s : state) : Prop := idx_found s /\ idx_slots s.

Lemma idx_found_unique s : idx_found s -> idx_unique s.
Proof.
  intros H e1 e2 sd o H1 H2. apply H in H1 as [H1 _]. apply H in H2 as [H2 _]. congruence.
Qed.

(* ------------------------------------------------------------------ association lists *)
Lemma str_eqb_refl a : str_eqb a a = true.
Proof. apply str_eqb_eq. reflexivity. Qed.
Lemma str_eqb_neq a b : a <> b -> str_eqb a b = false.
Proof. intros H. destruct (str_eqb a b) eqn:E; [apply str_eqb_eq in E; contradiction|reflexivity]. Qed.
Lemma str_eqb_spec a b : reflect (a = b) (str_eqb a b).
Proof. destruct (str_eqb a b) eqn:E; constructor; [apply str_eqb_eq; exact E|intros H; apply str_eqb_eq in H; congruence]. Qed.

Section AL.
Context {V : Type}.
Implicit Types (l : list (str * V)).
Lemma al_get_set_eq k v l : al_get k (al_set k v l) = Some v.
Proof.
  induction l as [|[k' v'] l IH]; simpl; [rewrite str_eqb_refl; reflexivity|].
  destruct (str_eqb k k') eqn:E; simpl; rewrite E; [reflexivity|exact IH].
Qed.
Lemma al_get_set_neq k k' v l : k' <> k -> al_get k' (al_set k v l) = al_get k' l.
Proof.
  intros Hn. induction l as [|[k2 v2] l IH]; simpl.
  - rewrite str_eqb_neq by exact Hn. reflexivity.
  - destruct (str_eqb k k2) eqn:E; simpl.
    + apply str_eqb_eq in E. subst k2. rewrite str_eqb_neq by exact Hn. reflexivity.
    + destruct (str_eqb k' k2); [reflexivity|exact IH].
Qed.
Lemma al_get_del_eq k l : al_get k (al_del k l) = None.
Proof.
  induction l as [|[k2 v2] l IH]; simpl; [reflexivity|].
  destruct (str_eqb k k2) eqn:E; simpl; [exact IH|rewrite E; exact IH].
Qed.
Lemma al_get_del_neq k k' l : k' <> k -> al_get k' (al_del k l) = al_get k' l.
Proof.
  intros Hn. induction l as [|[k2 v2] l IH]; simpl; [reflexivity|].
  destruct (str_eqb k k2) eqn:E; simpl.
  - apply str_eqb_eq in E. subst k2. rewrite str_eqb_neq by exact Hn. exact IH.
  - destruct (str_eqb k' k2); [reflexivity|exact IH].
Qed.
Lemma al_get_set k k' v l : al_get k' (al_set k v l) = if str_eqb k' k then Some v else al_get k' l.
Proof.
  destruct (str_eqb_spec k' k) as [->|Hn]; [apply al_get_set_eq|apply al_get_set_neq; exact Hn].
Qed.
Lemma al_get_del k k' l : al_get k' (al_del k l) = if str_eqb k' k then None else al_get k' l.
Proof.
  destruct (str_eqb_spec k' k) as [->|Hn]; [apply al_get_del_eq|apply al_get_del_neq; exact Hn].
Qed.
End AL.

(* ------------------------------------------------------------------ initial state *)
Lemma idx_init : IdxJ init_state /\ cs_exact init_state.
Proof.
  split; [split|].
  - intros e sd o H. unfold oid_of in H. simpl in H. destruct e; discriminate.
  - split.
    + intros sd o e H. destruct sd; discriminate.
    + intros sd p o e H. destruct sd; discriminate.
  - intros e en H. destruct e; discriminate.
Qed.

(* ------------------------------------------------------------------ refutations (witnesses replayed on the real code) *)
Definition E_id : env := mkEnv (fun _ => false) (fun _ => mk_conv true) (fun _ => 1000%N) (fun _ _ => None).
Definition w_o1 : str := [111;49]%N.
Definition w_o2 : str := [111;50]%N.
Definition w_pb : str := [47;98]%N.
Definition w_pbx : str := [47;98;47;120]%N.

(* update(LOCAL, FILE, 'o1', '/b/x'); ent[LOCAL].oid = None; ent[REMOTE].oid = 'o2' *)
Definition w_changeset : list (op * list titem) :=
  [ (OUpdate false (Some File) (Some w_o1) (Some w_pbx) None (Some true) None, [TSwap false]);
    (OSet 0 false (FOid None), [TSwap false]);
    (OSet 0 true (FOid (Some w_o2)), [TSwap false]) ].
(* update(LOCAL, DIRECTORY, 'o1', '/b'); update(LOCAL, DIRECTORY, 'o1', '/b/x') *)
Definition w_kids (n : nat) : list (op * list titem) :=
  [ (OUpdate false (Some Dir) (Some w_o1) (Some w_pb) None (Some true) None, [TSwap false]);
    (OUpdate false (Some Dir) (Some w_o1) (Some w_pbx) None (Some true) None, repeat (TOrder [0]) n) ].
(* both sides flagged, both ids removed, then `changed` is written *)
Definition w_changed : list (op * list titem) :=
  [ (OUpdate false (Some File) (Some w_o1) (Some w_pbx) None (Some true) None, [TSwap false]);
    (OSet 0 true (FOid (Some w_o2)), [TSwap false]);
    (OMark 0 true, []);
    (OSet 0 false (FOid None), [TSwap false]);
    (OSet 0 true (FOid None), [TSwap false]);
    (OSet 0 true (FChg (CNum 0)), []) ].

Definition changeset_exact_full : Prop :=
  forall E ops s, run_ops E init_state ops = Ok s -> cs_exact s.
Definition setters_terminate_full : Prop :=
  forall E ops, run_ops E init_state ops <> Err ERecursion.

Lemma changeset_exact_refuted : ~ changeset_exact_full.
Proof.
  intros H.
  destruct (run_ops E_id init_state w_changeset) as [s|] eqn:R; [|vm_compute in R; discriminate].
  specialize (H _ _ _ R). vm_compute in R. injection R as <-.
  specialize (H 0 _ eq_refl eq_refl). destruct H as [H _]. specialize (H eq_refl). vm_compute in H. discriminate.
Qed.
Lemma update_kids_terminates_refuted : ~ setters_terminate_full.
Proof. intros H. apply (H E_id (w_kids 20)). vm_compute. reflexivity. Qed.
Lemma changed_setter_terminates_refuted : ~ setters_terminate_full.
Proof. intros H. apply (H E_id w_changed). vm_compute. reflexivity. Qed.
