(* StateProofs.v — invariants of StateModel. *)
From Coq Require Import NArith List Bool Arith Lia.
From CS Require Import Sx Str PathModel PathLaws StateModel.
Import ListNotations.

(* ------------------------------------------------------------------ the property *)
Definition oid_of (s : state) (e : eid) (sd : bool) : option str :=
  match nth_error (ents s) e with Some en => s_oid (gs en sd) | None => None end.
Definition path_of (s : state) (e : eid) (sd : bool) : option str :=
  match nth_error (ents s) e with Some en => s_path (gs en sd) | None => None end.

(* (i) every entry that carries an id is found under it, and under (path, id) *)
Definition idx_found (s : state) : Prop :=
  forall e sd o, oid_of s e sd = Some o ->
    al_get o (oids s sd) = Some e /\
    (forall p, path_of s e sd = Some p -> p <> [] -> slot_get s sd p o = Some e).
(* (ii) every slot leads to an entry that carries that id / path *)
Definition idx_slots (s : state) : Prop :=
  (forall sd o e, al_get o (oids s sd) = Some e -> oid_of s e sd = Some o) /\
  (forall sd p o e, slot_get s sd p o = Some e -> oid_of s e sd = Some o /\ path_of s e sd = Some p /\ p <> []).
(* (iii) at most one entry owns an id per side *)
Definition idx_unique (s : state) : Prop :=
  forall e1 e2 sd o, oid_of s e1 sd = Some o -> oid_of s e2 sd = Some o -> e1 = e2.

Definition flagged (en : entry) : bool :=
  (tchg (s_chg (e_l en)) && tstr (s_oid (e_l en))) || (tchg (s_chg (e_r en)) && tstr (s_oid (e_r en))).
(* (iv), the half that holds: every entry with a change flag and an id is pending *)
Definition cs_complete (s : state) : Prop :=
  forall e en, nth_error (ents s) e = Some en -> flagged en = true -> set_mem e (cset s) = true.
(* (iv) at full strength (discarded entries excepted, as the property says) *)
Definition cs_exact (s : state) : Prop :=
  forall e en, nth_error (ents s) e = Some en -> is_discarded (e_ign en) = false ->
    (set_mem e (cset s) = true <-> flagged en = true).

Definition IdxJ (s : state) : Prop := idx_found s /\ idx_slots s.

Lemma idx_found_unique s : idx_found s -> idx_unique s.
Proof.
  intros H e1 e2 sd o H1 H2. apply H in H1 as [H1 _]. apply H in H2 as [H2 _]. congruence.
Qed.

(* ------------------------------------------------------------------ association lists *)
Lemma str_eqb_refl a : str_eqb a a = true.
Proof. apply str_eqb_eq. reflexivity. Qed.
Lemma str_eqb_neq a b : a <> b -> str_eqb a b = false.
Proof. intros H. destruct (str_eqb a b) eqn:E; [apply str_eqb_eq in E; contradiction|reflexivity]. Qed.
Lemma str_eqb_spec a b : reflect (a = b) (str_eqb a b).
Proof. destruct (str_eqb a b) eqn:E; constructor; [apply str_eqb_eq; exact E|intros H; apply str_eqb_eq in H; congruence]. Qed.

Section AL.
Context {V : Type}.
Implicit Types (l : list (str * V)).
Lemma al_get_set_eq k v l : al_get k (al_set k v l) = Some v.
Proof.
  induction l as [|[k' v'] l IH]; simpl; [rewrite str_eqb_refl; reflexivity|].
  destruct (str_eqb k k') eqn:E; simpl; rewrite E; [reflexivity|exact IH].
Qed.
Lemma al_get_set_neq k k' v l : k' <> k -> al_get k' (al_set k v l) = al_get k' l.
Proof.
  intros Hn. induction l as [|[k2 v2] l IH]; simpl.
  - rewrite str_eqb_neq by exact Hn. reflexivity.
  - destruct (str_eqb k k2) eqn:E; simpl.
    + apply str_eqb_eq in E. subst k2. rewrite str_eqb_neq by exact Hn. reflexivity.
    + destruct (str_eqb k' k2); [reflexivity|exact IH].
Qed.
Lemma al_get_del_eq k l : al_get k (al_del k l) = None.
Proof.
  induction l as [|[k2 v2] l IH]; simpl; [reflexivity|].
  destruct (str_eqb k k2) eqn:E; simpl; [exact IH|rewrite E; exact IH].
Qed.
Lemma al_get_del_neq k k' l : k' <> k -> al_get k' (al_del k l) = al_get k' l.
Proof.
  intros Hn. induction l as [|[k2 v2] l IH]; simpl; [reflexivity|].
  destruct (str_eqb k k2) eqn:E; simpl.
  - apply str_eqb_eq in E. subst k2. rewrite str_eqb_neq by exact Hn. exact IH.
  - destruct (str_eqb k' k2); [reflexivity|exact IH].
Qed.
Lemma al_get_set k k' v l : al_get k' (al_set k v l) = if str_eqb k' k then Some v else al_get k' l.
Proof.
  destruct (str_eqb_spec k' k) as [->|Hn]; [apply al_get_set_eq|apply al_get_set_neq; exact Hn].
Qed.
Lemma al_get_del k k' l : al_get k' (al_del k l) = if str_eqb k' k then None else al_get k' l.
Proof.
  destruct (str_eqb_spec k' k) as [->|Hn]; [apply al_get_del_eq|apply al_get_del_neq; exact Hn].
Qed.
End AL.

(* ------------------------------------------------------------------ initial state *)
Lemma idx_init : IdxJ init_state /\ cs_exact init_state.
Proof.
  split; [split|].
  - intros e sd o H. unfold oid_of in H. simpl in H. destruct e; discriminate.
  - split.
    + intros sd o e H. destruct sd; discriminate.
    + intros sd p o e H. destruct sd; discriminate.
  - intros e en H. destruct e; discriminate.
Qed.

(* ------------------------------------------------------------------ refutations (witnesses replayed on the real code) *)
Definition E_id : env := mkEnv (fun _ => false) (fun _ => mk_conv true) (fun _ => 1000%N) (fun _ _ => None) false.
(* the same providers, code as it was before /repo commits 029c8f6 and ccb41ee *)
Definition E_old : env := mkEnv (fun _ => false) (fun _ => mk_conv true) (fun _ => 1000%N) (fun _ _ => None) true.
Definition w_o1 : str := [111;49]%N.
Definition w_o2 : str := [111;50]%N.
Definition w_pb : str := [47;98]%N.
Definition w_pbx : str := [47;98;47;120]%N.

(* update(LOCAL, FILE, 'o1', '/b/x'); ent[LOCAL].oid = None; ent[REMOTE].oid = 'o2' *)
Definition w_changeset : list (op * list titem) :=
  [ (OUpdate false (Some File) (Some w_o1) (Some w_pbx) None (Some true) None, [TSwap false]);
    (OSet 0 false (FOid None), [TSwap false]);
    (OSet 0 true (FOid (Some w_o2)), [TSwap false]) ].
(* update(LOCAL, DIRECTORY, 'o1', '/b'); update(LOCAL, DIRECTORY, 'o1', '/b/x') *)
Definition w_kids (n : nat) : list (op * list titem) :=
  [ (OUpdate false (Some Dir) (Some w_o1) (Some w_pb) None (Some true) None, [TSwap false]);
    (OUpdate false (Some Dir) (Some w_o1) (Some w_pbx) None (Some true) None, repeat (TOrder [0]) n) ].
(* both sides flagged, both ids removed, then `changed` is written *)
Definition w_changed : list (op * list titem) :=
  [ (OUpdate false (Some File) (Some w_o1) (Some w_pbx) None (Some true) None, [TSwap false]);
    (OSet 0 true (FOid (Some w_o2)), [TSwap false]);
    (OMark 0 true, []);
    (OSet 0 false (FOid None), [TSwap false]);
    (OSet 0 true (FOid None), [TSwap false]);
    (OSet 0 true (FChg (CNum 0)), []) ].

Definition changeset_exact_full : Prop :=
  forall E ops s, run_ops E init_state ops = Ok s -> cs_exact s.
(* about the model VARIANT of the old code (legacy E = true) *)
Definition legacy_setters_terminate_full : Prop :=
  forall E ops, legacy E = true -> run_ops E init_state ops <> Err ERecursion.
(* about the code as it is (legacy E = false) *)
Definition setters_terminate_full : Prop :=
  forall E ops, legacy E = false -> run_ops E init_state ops <> Err ERecursion.
Definition w_pa : str := [47;97]%N.
Definition w_pab : str := [47;97;47;98]%N.
Definition w_pabx : str := [47;97;47;98;47;120]%N.
(* update(LOCAL, DIRECTORY, 'o2', '/a/b'); update(LOCAL, DIRECTORY, 'o1', '/a'); update(LOCAL, DIRECTORY, 'o1', '/a/b/x'):
   folder /a lands below its own child folder /a/b; each of the two is then a child of the other's move *)
Definition w_kids2 (n : nat) : list (op * list titem) :=
  [ (OUpdate false (Some Dir) (Some w_o2) (Some w_pab) None (Some true) None, [TSwap false]);
    (OUpdate false (Some Dir) (Some w_o1) (Some w_pa) None (Some true) None, [TSwap false]);
    (OUpdate false (Some Dir) (Some w_o1) (Some w_pabx) None (Some true) None, repeat (TOrder [0; 1]) n) ].

Lemma changeset_exact_refuted : ~ changeset_exact_full.
Proof.
  intros H.
  destruct (run_ops E_id init_state w_changeset) as [s|] eqn:R; [|vm_compute in R; discriminate].
  specialize (H _ _ _ R). vm_compute in R. injection R as <-.
  specialize (H 0 _ eq_refl eq_refl). destruct H as [H _]. specialize (H eq_refl). vm_compute in H. discriminate.
Qed.
Lemma legacy_update_kids_terminates_refuted : ~ legacy_setters_terminate_full.
Proof. intros H. apply (H E_old (w_kids 20)); [reflexivity|]. vm_compute. reflexivity. Qed.
Lemma legacy_changed_setter_terminates_refuted : ~ legacy_setters_terminate_full.
Proof. intros H. apply (H E_old w_changed); [reflexivity|]. vm_compute. reflexivity. Qed.
(* the two old witnesses run to completion on the model of the current code *)
Lemma fixed_witnesses_terminate :
  (exists s, run_ops E_id init_state (w_kids 1) = Ok s) /\ (exists s, run_ops E_id init_state w_changed = Ok s).
Proof. split; eexists; vm_compute; reflexivity. Qed.
(* ... but two nested folders still make _update_kids recurse without bound *)
Lemma update_kids_terminates_refuted : ~ setters_terminate_full.
Proof. intros H. apply (H E_id (w_kids2 40)); [reflexivity|]. vm_compute. reflexivity. Qed.

(* ------------------------------------------------------------------ the part of the state Idx talks about *)
Definition ekey (en : entry) := (s_oid (e_l en), s_path (e_l en), s_oid (e_r en), s_path (e_r en)).
Definition iview (s : state) := (map ekey (ents s), oidsL s, oidsR s, pathsL s, pathsR s).

Lemma iview_eq s s' : iview s = iview s' ->
  (forall e sd, oid_of s e sd = oid_of s' e sd /\ path_of s e sd = path_of s' e sd) /\
  (forall sd, oids s sd = oids s' sd) /\ (forall sd, paths s sd = paths s' sd).
Proof.
  unfold iview. intros H. injection H as H1 H2 H3 H4 H5.
  split; [|split; intros []; simpl; congruence].
  intros e sd. unfold oid_of, path_of.
  assert (Hn: nth_error (map ekey (ents s)) e = nth_error (map ekey (ents s')) e) by (rewrite H1; reflexivity).
  rewrite !nth_error_map in Hn.
  destruct (nth_error (ents s) e) as [a|], (nth_error (ents s') e) as [b|]; simpl in Hn; try discriminate; [|split; reflexivity].
  injection Hn as Ha Hb Hc Hd. unfold gs. destruct sd; split; assumption.
Qed.

Lemma slot_get_paths s s' sd : paths s sd = paths s' sd -> forall p o, slot_get s sd p o = slot_get s' sd p o.
Proof. intros H p o. unfold slot_get. rewrite H. reflexivity. Qed.

Lemma IdxJ_view s s' : iview s = iview s' -> IdxJ s -> IdxJ s'.
Proof.
  intros Hv [Hf [Ho Hp]]. apply iview_eq in Hv as [He [Hoi Hpa]].
  assert (Hsl: forall sd p o, slot_get s sd p o = slot_get s' sd p o) by (intros; apply slot_get_paths; apply Hpa).
  split; [|split].
  - intros e sd o H. rewrite <- (proj1 (He e sd)) in H. apply Hf in H as [H1 H2]. split.
    + rewrite <- Hoi. exact H1.
    + intros p Hp1 Hp2. rewrite <- Hsl. apply H2; [rewrite (proj2 (He e sd)); exact Hp1|exact Hp2].
  - intros sd o e H. rewrite <- Hoi in H. apply Ho in H. rewrite <- (proj1 (He e sd)). exact H.
  - intros sd p o e H. rewrite <- Hsl in H. apply Hp in H. rewrite <- (proj1 (He e sd)), <- (proj2 (He e sd)). exact H.
Qed.

Lemma map_list_upd {T U} (f : T -> U) l n x y :
  nth_error l n = Some y -> f x = f y -> map f (list_upd l n x) = map f l.
Proof.
  revert n. induction l as [|a l IH]; intros [|n] H Hf; simpl in *; try discriminate.
  - injection H as ->. rewrite Hf. reflexivity.
  - f_equal. apply IH; assumption.
Qed.

Lemma iview_put_ent s e en en' :
  nth_error (ents s) e = Some en -> ekey en' = ekey en -> iview (put_ent s e en') = iview s.
Proof.
  intros H Hk. unfold iview, put_ent. simpl. rewrite (map_list_upd ekey _ _ _ _ H Hk). reflexivity.
Qed.

Lemma iview_raw_side s e sd f :
  (forall x, s_oid (f x) = s_oid x /\ s_path (f x) = s_path x) -> iview (raw_side s e sd f) = iview s.
Proof.
  intros Hf. unfold raw_side. destruct (nth_error (ents s) e) as [en|] eqn:E; [|reflexivity].
  apply (iview_put_ent _ _ en); [exact E|].
  unfold ekey, ss, gs. destruct sd; simpl; [destruct (Hf (e_r en)) as [-> ->]|destruct (Hf (e_l en)) as [-> ->]]; reflexivity.
Qed.

Lemma iview_dirty_add s e : iview (dirty_add s e) = iview s. Proof. reflexivity. Qed.
Lemma iview_cs_add s e : iview (cs_add s e) = iview s. Proof. reflexivity. Qed.
Lemma iview_cs_del s e : iview (cs_del s e) = iview s. Proof. reflexivity. Qed.

Definition flag_cmd (c : cmd) : bool := match c with CChg _ _ _ _ | CPrio _ _ => true | _ => false end.

Lemma get_ent_ok s e en : get_ent s e = Ok en -> nth_error (ents s) e = Some en.
Proof. unfold get_ent. destruct (nth_error (ents s) e); intros H; inversion H; reflexivity. Qed.

Ltac bind_inv H :=
  match type of H with
  | bind ?r _ = Ok _ => let x := fresh "x" in let E := fresh "E" in destruct r as [x|] eqn:E; simpl in H; [|discriminate]
  end.

(* writes of `changed` and `priority` never touch ids, paths, indexes or the tape *)
Lemma exec_flag_view E f : forall c s s', flag_cmd c = true -> exec E f c s = Ok s' ->
  iview s' = iview s /\ tape s' = tape s.
Proof.
  induction f as [|f IH]; intros c s s' Hc H; [discriminate|].
  destruct c as [fin e sd v|fin e sd v|fin e sd v|e v]; try discriminate; simpl in H.
  - (* CChg *)
    bind_inv H. bind_inv H.
    assert (Hx: iview x0 = iview s /\ tape x0 = tape s).
    { destruct ((tchg v && tstr (s_oid (gs x sd)) || tchg (s_chg (gs x (negb sd))) && tstr (s_oid (gs x (negb sd))))%bool).
      - injection E1 as <-. split; reflexivity.
      - destruct (tchg (s_chg (gs x (negb sd))) && negb (tstr (s_oid (gs x (negb sd)))))%bool.
        + destruct (legacy E).
          * apply IH in E1; [|reflexivity]. exact E1.
          * injection E1 as <-. split.
            -- rewrite iview_raw_side; [reflexivity|intros y; split; reflexivity].
            -- unfold raw_side. simpl. destruct (nth_error (ents s) e); reflexivity.
        + injection E1 as <-. split; reflexivity. }
    destruct Hx as [Hx1 Hx2]. injection H as <-. destruct fin.
    + split.
      * rewrite iview_raw_side; [exact Hx1|intros y; split; reflexivity].
      * unfold raw_side. simpl. destruct (nth_error (ents x0) e); simpl; exact Hx2.
    + split; [exact Hx1|exact Hx2].
  - (* CPrio *)
    bind_inv H. destruct (N.eqb (e_prio x) v); [injection H as <-; split; reflexivity|].
    bind_inv H.
    assert (Hx: iview x0 = iview s /\ tape x0 = tape s).
    { destruct (N.ltb (e_prio x) v && N.ltb 0 v)%bool; [|injection E1 as <-; split; reflexivity].
      bind_inv E1.
      assert (Ha: iview x1 = iview s /\ tape x1 = tape s).
      { destruct (tchg (s_chg (e_l x))); [apply IH in E2; [exact E2|reflexivity]|injection E2 as <-; split; reflexivity]. }
      bind_inv E1.
      destruct (tchg (s_chg (e_r x2))).
      - apply IH in E1; [|reflexivity]. destruct E1 as [-> ->]. exact Ha.
      - injection E1 as <-. exact Ha. }
    destruct Hx as [Hx1 Hx2].
    simpl in H. destruct (nth_error (ents x0) e) as [en2|] eqn:E3; [|discriminate]. injection H as <-. split.
    + rewrite (iview_put_ent _ _ en2); [exact Hx1|exact E3|reflexivity].
    + exact Hx2.
Qed.

(* ------------------------------------------------------------------ effect of the primitive state transformers *)
Lemma oids_st_oids s sd v sd' : oids (st_oids s sd v) sd' = if Bool.eqb sd' sd then v else oids s sd'.
Proof. destruct sd, sd'; reflexivity. Qed.
Lemma paths_st_oids s sd v sd' : paths (st_oids s sd v) sd' = paths s sd'.
Proof. destruct sd, sd'; reflexivity. Qed.
Lemma ents_st_oids s sd v : ents (st_oids s sd v) = ents s.
Proof. destruct sd; reflexivity. Qed.
Lemma oids_st_paths s sd v sd' : oids (st_paths s sd v) sd' = oids s sd'.
Proof. destruct sd, sd'; reflexivity. Qed.
Lemma paths_st_paths s sd v sd' : paths (st_paths s sd v) sd' = if Bool.eqb sd' sd then v else paths s sd'.
Proof. destruct sd, sd'; reflexivity. Qed.
Lemma ents_st_paths s sd v : ents (st_paths s sd v) = ents s.
Proof. destruct sd; reflexivity. Qed.

Lemma oid_of_st_oids s sd v e sd' : oid_of (st_oids s sd v) e sd' = oid_of s e sd'.
Proof. unfold oid_of. rewrite ents_st_oids. reflexivity. Qed.
Lemma path_of_st_oids s sd v e sd' : path_of (st_oids s sd v) e sd' = path_of s e sd'.
Proof. unfold path_of. rewrite ents_st_oids. reflexivity. Qed.
Lemma oid_of_st_paths s sd v e sd' : oid_of (st_paths s sd v) e sd' = oid_of s e sd'.
Proof. unfold oid_of. rewrite ents_st_paths. reflexivity. Qed.
Lemma path_of_st_paths s sd v e sd' : path_of (st_paths s sd v) e sd' = path_of s e sd'.
Proof. unfold path_of. rewrite ents_st_paths. reflexivity. Qed.
Lemma slot_get_st_oids s sd v sd' p o : slot_get (st_oids s sd v) sd' p o = slot_get s sd' p o.
Proof. unfold slot_get. rewrite paths_st_oids. reflexivity. Qed.

Lemma oids_raw_side s e sd f sd' : oids (raw_side s e sd f) sd' = oids s sd'.
Proof. unfold raw_side. destruct (nth_error (ents s) e); destruct sd'; reflexivity. Qed.
Lemma paths_raw_side s e sd f sd' : paths (raw_side s e sd f) sd' = paths s sd'.
Proof. unfold raw_side. destruct (nth_error (ents s) e); destruct sd'; reflexivity. Qed.
Lemma slot_get_raw_side s e sd f sd' p o : slot_get (raw_side s e sd f) sd' p o = slot_get s sd' p o.
Proof. unfold slot_get. rewrite paths_raw_side. reflexivity. Qed.

Lemma nth_list_upd {T} (l : list T) n x m :
  nth_error (list_upd l n x) m = if Nat.eqb m n then (match nth_error l n with Some _ => Some x | None => None end) else nth_error l m.
Proof.
  revert n m. induction l as [|a l IH]; intros [|n] [|m]; simpl; try reflexivity.
  - destruct (Nat.eqb m n); [destruct n; reflexivity|reflexivity].
  - apply IH.
Qed.

Lemma gs_ss en sd x sd' : gs (ss en sd x) sd' = if Bool.eqb sd' sd then x else gs en sd'.
Proof. destruct sd, sd'; reflexivity. Qed.

Lemma oid_of_raw_side s e sd f e' sd' :
  oid_of (raw_side s e sd f) e' sd' =
  if Nat.eqb e' e && Bool.eqb sd' sd
  then match nth_error (ents s) e with Some en => s_oid (f (gs en sd)) | None => None end
  else oid_of s e' sd'.
Proof.
  unfold oid_of, raw_side. destruct (nth_error (ents s) e) as [en|] eqn:E.
  - simpl. rewrite nth_list_upd, E. destruct (Nat.eqb_spec e' e) as [->|Hn]; simpl.
    + rewrite gs_ss. destruct (Bool.eqb sd' sd); [reflexivity|rewrite E; reflexivity].
    + reflexivity.
  - destruct (Nat.eqb_spec e' e) as [->|Hn]; simpl; [|reflexivity].
    rewrite E. destruct (Bool.eqb sd' sd); reflexivity.
Qed.
Lemma path_of_raw_side s e sd f e' sd' :
  path_of (raw_side s e sd f) e' sd' =
  if Nat.eqb e' e && Bool.eqb sd' sd
  then match nth_error (ents s) e with Some en => s_path (f (gs en sd)) | None => None end
  else path_of s e' sd'.
Proof.
  unfold path_of, raw_side. destruct (nth_error (ents s) e) as [en|] eqn:E.
  - simpl. rewrite nth_list_upd, E. destruct (Nat.eqb_spec e' e) as [->|Hn]; simpl.
    + rewrite gs_ss. destruct (Bool.eqb sd' sd); [reflexivity|rewrite E; reflexivity].
    + reflexivity.
  - destruct (Nat.eqb_spec e' e) as [->|Hn]; simpl; [|reflexivity].
    rewrite E. destruct (Bool.eqb sd' sd); reflexivity.
Qed.

Lemma slot_get_slot_set s sd p o e sd' p' o' :
  slot_get (slot_set s sd p o e) sd' p' o' =
  if Bool.eqb sd' sd && str_eqb p' p && str_eqb o' o then Some e else slot_get s sd' p' o'.
Proof.
  unfold slot_get, slot_set. rewrite paths_st_paths.
  destruct (Bool.eqb sd' sd) eqn:Es; simpl; [|reflexivity].
  apply Bool.eqb_prop in Es. subst sd'.
  rewrite al_get_set. destruct (str_eqb p' p) eqn:Ep; simpl; [|reflexivity].
  apply str_eqb_eq in Ep. subst p'. rewrite al_get_set.
  destruct (str_eqb o' o); [reflexivity|]. destruct (al_get p (paths s sd)); reflexivity.
Qed.
Lemma oids_slot_set s sd p o e sd' : oids (slot_set s sd p o e) sd' = oids s sd'.
Proof. unfold slot_set. apply oids_st_paths. Qed.
Lemma ents_slot_set s sd p o e : ents (slot_set s sd p o e) = ents s.
Proof. unfold slot_set. apply ents_st_paths. Qed.

Lemma slot_get_slot_pop s sd p k sd' p' o' :
  slot_get (slot_pop s sd p (Some k)) sd' p' o' =
  if Bool.eqb sd' sd && str_eqb p' p && str_eqb o' k then None else slot_get s sd' p' o'.
Proof.
  unfold slot_get, slot_pop.
  destruct (al_get p (paths s sd)) as [d|] eqn:Ed.
  - destruct (al_del k d) as [|a d'] eqn:Edel.
    + rewrite paths_st_paths. destruct (Bool.eqb sd' sd) eqn:Es; simpl; [|reflexivity].
      apply Bool.eqb_prop in Es. subst sd'. rewrite al_get_del.
      destruct (str_eqb p' p) eqn:Ep; simpl; [|reflexivity].
      apply str_eqb_eq in Ep. subst p'. rewrite Ed.
      destruct (str_eqb o' k) eqn:Eo; [reflexivity|].
      assert (H: al_get o' (al_del k d) = al_get o' d) by (rewrite al_get_del, Eo; reflexivity).
      rewrite Edel in H. simpl in H. exact H.
    + rewrite <- Edel. rewrite paths_st_paths. destruct (Bool.eqb sd' sd) eqn:Es; cbn [andb]; [|reflexivity].
      apply Bool.eqb_prop in Es. subst sd'. rewrite al_get_set.
      destruct (str_eqb p' p) eqn:Ep; cbn [andb]; [|reflexivity].
      apply str_eqb_eq in Ep. subst p'. rewrite Ed, al_get_del. reflexivity.
  - destruct (Bool.eqb sd' sd) eqn:Es; simpl; [|reflexivity].
    apply Bool.eqb_prop in Es. subst sd'.
    destruct (str_eqb p' p) eqn:Ep; simpl; [|reflexivity].
    apply str_eqb_eq in Ep. subst p'. rewrite Ed. destruct (str_eqb o' k); reflexivity.
Qed.
Lemma slot_get_slot_pop_none s sd p sd' p' o' :
  slot_get (slot_pop s sd p None) sd' p' o' = slot_get s sd' p' o'.
Proof.
  unfold slot_get, slot_pop.
  destruct (al_get p (paths s sd)) as [d|] eqn:Ed; [|reflexivity].
  destruct d as [|a d'].
  - rewrite paths_st_paths. destruct (Bool.eqb sd' sd) eqn:Es; simpl; [|reflexivity].
    apply Bool.eqb_prop in Es. subst sd'. rewrite al_get_del.
    destruct (str_eqb p' p) eqn:Ep; simpl; [|reflexivity].
    apply str_eqb_eq in Ep. subst p'. rewrite Ed. reflexivity.
  - rewrite paths_st_paths. destruct (Bool.eqb sd' sd) eqn:Es; simpl; [|reflexivity].
    apply Bool.eqb_prop in Es. subst sd'. rewrite al_get_set.
    destruct (str_eqb p' p) eqn:Ep; simpl; [|reflexivity].
    apply str_eqb_eq in Ep. subst p'. rewrite Ed. reflexivity.
Qed.
Lemma oids_slot_pop s sd p k sd' : oids (slot_pop s sd p k) sd' = oids s sd'.
Proof.
  unfold slot_pop. destruct (al_get p (paths s sd)) as [d|]; [|reflexivity].
  destruct (match k with Some k0 => al_del k0 d | None => d end); apply oids_st_paths.
Qed.
Lemma ents_slot_pop s sd p k : ents (slot_pop s sd p k) = ents s.
Proof.
  unfold slot_pop. destruct (al_get p (paths s sd)) as [d|]; [|reflexivity].
  destruct (match k with Some k0 => al_del k0 d | None => d end); apply ents_st_paths.
Qed.

(* ------------------------------------------------------------------ _change_oid *)
Definition found1 (s : state) (e : eid) (sd : bool) : Prop :=
  forall o, oid_of s e sd = Some o ->
    al_get o (oids s sd) = Some e /\
    (forall p, path_of s e sd = Some p -> p <> [] -> slot_get s sd p o = Some e).
Definition unindexed (s : state) (e : eid) (sd : bool) : Prop :=
  (forall o, al_get o (oids s sd) <> Some e) /\ (forall p o, slot_get s sd p o <> Some e).
(* the invariant while entry e's side sd is being re-indexed *)
Definition IdxX (s : state) (e : eid) (sd : bool) : Prop :=
  (forall e' sd', (e' <> e \/ sd' <> sd) -> found1 s e' sd') /\ idx_slots s /\ (found1 s e sd \/ unindexed s e sd).

Lemma IdxJ_X s e sd : IdxJ s -> IdxX s e sd.
Proof. intros [Hf Hs]. split; [|split]; [intros e' sd' _ o; apply Hf|exact Hs|left; intros o; apply Hf]. Qed.
Lemma IdxX_J s e sd : IdxX s e sd -> found1 s e sd -> IdxJ s.
Proof.
  intros [H1 [Hs _]] Hf. split; [|exact Hs]. intros e' sd' o.
  destruct (Nat.eq_dec e' e) as [->|Hn]; [destruct (Bool.bool_dec sd' sd) as [->|Hn]|]; [apply Hf|apply H1; right; exact Hn|apply H1; left; exact Hn].
Qed.

Lemma IdxX_view s s' e sd : iview s = iview s' -> IdxX s e sd -> IdxX s' e sd.
Proof.
  intros Hv [H1 [[Ho Hp] H5]]. apply iview_eq in Hv as [He [Hoi Hpa]].
  assert (Hsl: forall sd p o, slot_get s sd p o = slot_get s' sd p o) by (intros; apply slot_get_paths; apply Hpa).
  assert (Hf: forall e sd, found1 s e sd -> found1 s' e sd).
  { intros e0 sd0 Hf o H. rewrite <- (proj1 (He e0 sd0)) in H. apply Hf in H as [Ha Hb]. split.
    - rewrite <- Hoi. exact Ha.
    - intros p Hp1 Hp2. rewrite <- Hsl. apply Hb; [rewrite (proj2 (He e0 sd0)); exact Hp1|exact Hp2]. }
  split; [|split; [split|]].
  - intros e' sd' Hn. apply Hf. apply H1. exact Hn.
  - intros sd0 o e0 H. rewrite <- Hoi in H. apply Ho in H. rewrite <- (proj1 (He e0 sd0)). exact H.
  - intros sd0 p o e0 H. rewrite <- Hsl in H. apply Hp in H. rewrite <- (proj1 (He e0 sd0)), <- (proj2 (He e0 sd0)). exact H.
  - destruct H5 as [H5|[Ha Hb]]; [left; apply Hf; exact H5|right]. split.
    + intros o. rewrite <- Hoi. apply Ha.
    + intros p o. rewrite <- Hsl. apply Hb.
Qed.

Lemma slots_unindexed s e sd : idx_slots s -> oid_of s e sd = None -> unindexed s e sd.
Proof.
  intros [Ho Hp] Hn. split.
  - intros o H. apply Ho in H. congruence.
  - intros p o H. apply Hp in H as [H _]. congruence.
Qed.

Definition oid_loop (rec : cmd -> state -> res state) (e : eid) (sd : bool) (old v : option str) (s : state) : res state :=
  let step := oid_step rec e sd in
  if ostr_eqb old v then step old s
  else
    y <- pop_swap s ;;
    let '(sw, s0) := y in
    if sw then (sx <- step v s0 ;; step old sx) else (sx <- step old s0 ;; step v sx).
Definition oid_finish (fin : bool) (e : eid) (sd : bool) (v : option str) (s1 : state) : res state :=
  en1 <- get_ent s1 e ;;
  let s2 := match v with
            | Some o =>
              let sa := st_oids (raw_side s1 e sd (fun y => w_oid y (Some o))) sd (al_set o e (oids s1 sd)) in
              let sb := match s_path (gs en1 sd) with
                        | Some pp => if tstr (Some pp) then slot_set sa sd pp o e else sa
                        | None => sa
                        end in
              if tchg (s_chg (gs en1 sd)) || tchg (s_chg (gs en1 (negb sd))) then cs_add sb e else sb
            | None =>
              if tchg (s_chg (gs en1 sd)) && negb (tchg (s_chg (gs en1 (negb sd)))) then cs_del s1 e else s1
            end in
  let s3 := dirty_add s2 e in
  Ok (if fin then raw_side s3 e sd (fun y => w_oid y v) else s3).
Lemma exec_oid_eq E f fin e sd v s :
  exec E (S f) (COid fin e sd v) s =
  (en <- get_ent s e ;; s1 <- oid_loop (exec E f) e sd (s_oid (gs en sd)) v s ;; oid_finish fin e sd v s1).
Proof. reflexivity. Qed.

Lemma oid_of_some_ent s e sd o : oid_of s e sd = Some o -> exists en, get_ent s e = Ok en /\ s_oid (gs en sd) = Some o.
Proof. unfold oid_of, get_ent. destruct (nth_error (ents s) e) as [en|]; [|discriminate]. intros H. exists en. split; [reflexivity|exact H]. Qed.

(* effect of the tail of _change_oid for oid = None *)
Lemma oid_finish_none e sd s1 s' : oid_finish true e sd None s1 = Ok s' ->
  (forall sd', oids s' sd' = oids s1 sd') /\ (forall sd' p o, slot_get s' sd' p o = slot_get s1 sd' p o) /\
  (forall e' sd', oid_of s' e' sd' = if Nat.eqb e' e && Bool.eqb sd' sd then None else oid_of s1 e' sd') /\
  (forall e' sd', path_of s' e' sd' = path_of s1 e' sd').
Proof.
  unfold oid_finish. intros H. bind_inv H. injection H as <-.
  apply get_ent_ok in E.
  set (s2 := if (tchg (s_chg (gs x sd)) && negb (tchg (s_chg (gs x (negb sd)))))%bool then cs_del s1 e else s1).
  assert (Hv: iview (dirty_add s2 e) = iview s1) by (unfold s2; destruct (_ && _)%bool; reflexivity).
  apply iview_eq in Hv as [He [Ho Hp]].
  assert (Hn: nth_error (ents (dirty_add s2 e)) e = Some x) by (unfold s2; destruct (_ && _)%bool; exact E).
  repeat split.
  - intros sd'. rewrite oids_raw_side. apply Ho.
  - intros sd' p o. rewrite slot_get_raw_side. apply slot_get_paths. apply Hp.
  - intros e' sd'. rewrite oid_of_raw_side, Hn. simpl. destruct (Nat.eqb e' e && Bool.eqb sd' sd)%bool; [reflexivity|apply (proj1 (He e' sd'))].
  - intros e' sd'. rewrite path_of_raw_side, Hn. simpl.
    destruct (Nat.eqb_spec e' e) as [->|Hne]; simpl; [|apply (proj2 (He e' sd'))].
    destruct (Bool.eqb_spec sd' sd) as [->|Hns]; [|apply (proj2 (He e sd'))].
    rewrite <- (proj2 (He e sd)). unfold path_of. rewrite Hn. reflexivity.
Qed.

Lemma oid_step_none rec e sd s : oid_step rec e sd None s = Ok s.
Proof. reflexivity. Qed.
Lemma oid_step_absent rec e sd ro s : al_get ro (oids s sd) = None -> oid_step rec e sd (Some ro) s = Ok s.
Proof. intros H. unfold oid_step. rewrite H. reflexivity. Qed.

Lemma exec_oid_none_unindexed E fuel s pe sd ro s' :
  al_get ro (oids s sd) = None -> oid_of s pe sd = Some ro ->
  exec E fuel (COid true pe sd None) s = Ok s' ->
  (forall sd', oids s' sd' = oids s sd') /\ (forall sd' p o, slot_get s' sd' p o = slot_get s sd' p o) /\
  (forall e' sd', oid_of s' e' sd' = if Nat.eqb e' pe && Bool.eqb sd' sd then None else oid_of s e' sd') /\
  (forall e' sd', path_of s' e' sd' = path_of s e' sd').
Proof.
  intros Habs Ho H. destruct fuel as [|f]; [discriminate|].
  rewrite exec_oid_eq in H. destruct (oid_of_some_ent _ _ _ _ Ho) as [en [Hen Hoe]].
  rewrite Hen in H. simpl in H. rewrite Hoe in H. bind_inv H.
  unfold oid_loop in E0. cbn [ostr_eqb] in E0.
  unfold pop_swap in E0. destruct (tape s) as [|[b|l] r]; try discriminate. cbn [bind] in E0.
  assert (Hx: x = st_tape s r).
  { assert (Ha: al_get ro (oids (st_tape s r) sd) = None) by (destruct sd; exact Habs).
    destruct b.
    - rewrite oid_step_none in E0. cbn [bind] in E0. rewrite (oid_step_absent _ _ _ _ _ Ha) in E0. injection E0 as <-. reflexivity.
    - rewrite (oid_step_absent _ _ _ _ _ Ha) in E0. cbn [bind] in E0. rewrite oid_step_none in E0. injection E0 as <-. reflexivity. }
  subst x. apply oid_finish_none in H as [H1 [H2 [H3 H4]]].
  repeat split.
  - intros sd'. rewrite H1. destruct sd'; reflexivity.
  - intros sd' p o. rewrite H2. reflexivity.
  - intros e' sd'. rewrite H3. reflexivity.
  - intros e' sd'. rewrite H4. reflexivity.
Qed.

Lemma IdxX_shrink s s' e sd :
  IdxX s e sd ->
  (forall sd' k z, al_get k (oids s' sd') = Some z -> al_get k (oids s sd') = Some z /\ oid_of s' z sd' = oid_of s z sd') ->
  (forall sd' p o z, slot_get s' sd' p o = Some z -> slot_get s sd' p o = Some z /\ oid_of s' z sd' = oid_of s z sd') ->
  (forall e' sd', path_of s' e' sd' = path_of s e' sd') ->
  (forall e' sd' o, (e' <> e \/ sd' <> sd) -> oid_of s' e' sd' = Some o ->
     oid_of s e' sd' = Some o /\ al_get o (oids s' sd') = al_get o (oids s sd') /\
     forall p, slot_get s' sd' p o = slot_get s sd' p o) ->
  (found1 s e sd -> found1 s' e sd \/ unindexed s' e sd) ->
  IdxX s' e sd.
Proof.
  intros [H1 [[Ho Hp] H5]] HO HP Hpath Hkeep Hfe. split; [|split; [split|]].
  - intros e' sd' Hn o Hoid. destruct (Hkeep _ _ _ Hn Hoid) as [Ha [Hb Hc]].
    destruct (H1 _ _ Hn _ Ha) as [Hd He]. split.
    + rewrite Hb. exact Hd.
    + intros p Hp1 Hp2. rewrite Hc. apply He; [rewrite <- Hpath; exact Hp1|exact Hp2].
  - intros sd' o z H. apply HO in H as [Ha Hb]. rewrite Hb. apply Ho. exact Ha.
  - intros sd' p o z H. apply HP in H as [Ha Hb]. rewrite Hb, Hpath. apply Hp. exact Ha.
  - destruct H5 as [H5|[Ha Hb]]; [apply Hfe; exact H5|right]. split.
    + intros o H. apply HO in H as [H _]. apply (Ha _ H).
    + intros p o H. apply HP in H as [H _]. apply (Hb _ _ H).
Qed.

Lemma bool_eqb_refl b : Bool.eqb b b = true.
Proof. destruct b; reflexivity. Qed.

Lemma oid_step_spec E f e sd ro s s' :
  IdxX s e sd -> oid_step (exec E f) e sd (Some ro) s = Ok s' ->
  IdxX s' e sd /\ al_get ro (oids s' sd) = None /\
  oid_of s' e sd = oid_of s e sd /\ path_of s' e sd = path_of s e sd /\
  (oid_of s e sd = Some ro -> unindexed s' e sd) /\
  (unindexed s e sd -> unindexed s' e sd) /\
  (forall k, al_get k (oids s sd) = None -> al_get k (oids s' sd) = None).
Proof.
  intros HX H. unfold oid_step in H.
  destruct (al_get ro (oids s sd)) as [pe|] eqn:Epe.
  2:{ injection H as <-.
      split; [exact HX|]. split; [exact Epe|]. split; [reflexivity|]. split; [reflexivity|].
      split; [|split; [auto|auto]].
      intros Hoe. destruct HX as [_ [_ [Hf|Hu]]]; [|exact Hu].
      destruct (Hf _ Hoe) as [Ha _]. congruence. }
  bind_inv H. rename x into pn. apply get_ent_ok in E0. rewrite ents_st_oids in E0.
  destruct HX as [H1 [[Ho Hp] H5]].
  assert (Hpe: oid_of s pe sd = Some ro) by (apply Ho; exact Epe).
  set (s1 := st_oids s sd (al_del ro (oids s sd))) in *.
  set (s2 := match s_path (gs pn sd) with
             | Some pp => if tstr (Some pp) then slot_pop s1 sd pp (Some ro) else s1
             | None => s1 end) in *.
  (* facts about s2 *)
  assert (HO2: forall sd' k, al_get k (oids s2 sd') = if Bool.eqb sd' sd && str_eqb k ro then None else al_get k (oids s sd')).
  { intros sd' k. assert (Hx: oids s2 sd' = oids s1 sd').
    { unfold s2. destruct (s_path (gs pn sd)) as [pp|]; [|reflexivity]. destruct (tstr (Some pp)); [apply oids_slot_pop|reflexivity]. }
    rewrite Hx. unfold s1. rewrite oids_st_oids. destruct (Bool.eqb sd' sd) eqn:Es; [|reflexivity].
    apply Bool.eqb_prop in Es. subst sd'. simpl. rewrite al_get_del. reflexivity. }
  assert (Hents: ents s2 = ents s).
  { unfold s2. destruct (s_path (gs pn sd)) as [pp|]; [|apply ents_st_oids]. destruct (tstr (Some pp)); [rewrite ents_slot_pop|]; apply ents_st_oids. }
  assert (Hoid2: forall e' sd', oid_of s2 e' sd' = oid_of s e' sd') by (intros; unfold oid_of; rewrite Hents; reflexivity).
  assert (Hpath2: forall e' sd', path_of s2 e' sd' = path_of s e' sd') by (intros; unfold path_of; rewrite Hents; reflexivity).
  assert (Hppe: path_of s pe sd = s_path (gs pn sd)) by (unfold path_of; rewrite E0; reflexivity).
  assert (HP2: forall sd' p o z, slot_get s2 sd' p o = Some z -> slot_get s sd' p o = Some z /\ ~ (sd' = sd /\ o = ro /\ z = pe)).
  { intros sd' p o z Hz. unfold s2 in Hz. destruct (s_path (gs pn sd)) as [pp|] eqn:Epp.
    - destruct (tstr (Some pp)) eqn:Et.
      + rewrite slot_get_slot_pop in Hz. unfold s1 in Hz. rewrite slot_get_st_oids in Hz.
        destruct (Bool.eqb sd' sd && str_eqb p pp && str_eqb o ro)%bool eqn:Ec; [discriminate|].
        split; [exact Hz|]. intros [-> [-> ->]]. apply Hp in Hz as [_ [Hz _]]. rewrite Hppe in Hz. injection Hz as ->.
        rewrite bool_eqb_refl, !str_eqb_refl in Ec. discriminate.
      + unfold s1 in Hz. rewrite slot_get_st_oids in Hz. split; [exact Hz|]. intros [-> [-> ->]].
        apply Hp in Hz as [_ [Hz Hne]]. rewrite Hppe in Hz. injection Hz as ->. destruct p; [apply Hne; reflexivity|discriminate].
    - unfold s1 in Hz. rewrite slot_get_st_oids in Hz. split; [exact Hz|]. intros [-> [-> ->]].
      apply Hp in Hz as [_ [Hz _]]. rewrite Hppe in Hz. discriminate. }
  assert (HP2k: forall sd' p o, ~ (sd' = sd /\ o = ro) -> slot_get s2 sd' p o = slot_get s sd' p o).
  { intros sd' p o Hn. unfold s2. destruct (s_path (gs pn sd)) as [pp|]; [destruct (tstr (Some pp))|]; unfold s1;
      try (rewrite slot_get_slot_pop); rewrite ?slot_get_st_oids; try reflexivity.
    destruct (Bool.eqb_spec sd' sd) as [->|]; simpl; [|reflexivity].
    destruct (str_eqb p pp); simpl; [|reflexivity].
    destruct (str_eqb_spec o ro) as [->|]; [exfalso; apply Hn; split; reflexivity|reflexivity]. }
  (* who else can carry ro on side sd?  nobody but pe, as long as it is found *)
  assert (Hother: forall e', (e' <> e \/ sd <> sd) -> oid_of s e' sd = Some ro -> e' = pe).
  { intros e' Hn Hoe. destruct (H1 _ _ Hn _ Hoe) as [Ha _]. congruence. }
  destruct (Nat.eqb_spec pe e) as [->|Hne].
  - (* the entry itself *)
    injection H as <-.
    assert (Hun: unindexed s2 e sd).
    { split.
      - intros o Hc. rewrite HO2, bool_eqb_refl in Hc. cbn [andb] in Hc.
        destruct (str_eqb o ro) eqn:Eo; [discriminate|].
        apply Ho in Hc. rewrite Hpe in Hc. injection Hc as Hc. subst o. rewrite str_eqb_refl in Eo. discriminate.
      - intros p o Hc. apply HP2 in Hc as [Hc Hn]. apply Hn. split; [reflexivity|split; [|reflexivity]].
        apply Hp in Hc as [Hc _]. congruence. }
    split; [|split; [|split; [|split; [|split; [|split]]]]].
    + apply (IdxX_shrink s); [split; [exact H1|split; [split; assumption|exact H5]]| | | | |].
      * intros sd' k z Hz. rewrite HO2 in Hz. destruct (Bool.eqb sd' sd && str_eqb k ro)%bool; [discriminate|].
        split; [exact Hz|apply Hoid2].
      * intros sd' p o z Hz. apply HP2 in Hz as [Hz _]. split; [exact Hz|apply Hoid2].
      * exact Hpath2.
      * intros e' sd' o Hn Hoe. rewrite Hoid2 in Hoe. split; [exact Hoe|].
        assert (Hk: ~ (sd' = sd /\ o = ro)).
        { intros [-> ->]. pose proof (Hother _ Hn Hoe) as Heq. subst e'.
          destruct Hn as [Hn|Hn]; apply Hn; reflexivity. }
        split.
        -- rewrite HO2. destruct (Bool.eqb_spec sd' sd) as [->|]; simpl; [|reflexivity].
           destruct (str_eqb_spec o ro) as [->|]; [exfalso; apply Hk; split; reflexivity|reflexivity].
        -- intros p. apply HP2k. exact Hk.
      * intros _. right. exact Hun.
    + rewrite HO2, bool_eqb_refl, str_eqb_refl. reflexivity.
    + apply Hoid2.
    + apply Hpath2.
    + intros _. exact Hun.
    + intros _. exact Hun.
    + intros k Hk. rewrite HO2, Hk. destruct (_ && _)%bool; reflexivity.
  - (* another entry holds ro: it loses its id through the intercepted setter *)
    assert (Habs: al_get ro (oids s2 sd) = None) by (rewrite HO2, bool_eqb_refl, str_eqb_refl; reflexivity).
    assert (Hpe2: oid_of s2 pe sd = Some ro) by (rewrite Hoid2; exact Hpe).
    destruct (exec_oid_none_unindexed _ _ _ _ _ _ _ Habs Hpe2 H) as [HO3 [HP3 [Hoid3 Hpath3]]].
    assert (Hoe: forall sd', oid_of s' e sd' = oid_of s e sd').
    { intros sd'. rewrite Hoid3, Hoid2. destruct (Nat.eqb_spec e pe) as [->|]; [contradiction|reflexivity]. }
    assert (HXs: IdxX s' e sd).
    { apply (IdxX_shrink s); [split; [exact H1|split; [split; assumption|exact H5]]| | | | |].
      - intros sd' k z Hz. rewrite HO3, HO2 in Hz. destruct (Bool.eqb sd' sd && str_eqb k ro)%bool eqn:Ec; [discriminate|].
        split; [exact Hz|]. rewrite Hoid3, Hoid2.
        destruct (Nat.eqb_spec z pe) as [->|]; simpl; [|reflexivity].
        destruct (Bool.eqb_spec sd' sd) as [->|]; [|reflexivity].
        apply Ho in Hz. rewrite Hpe in Hz. injection Hz as <-. simpl in Ec. rewrite str_eqb_refl in Ec. discriminate.
      - intros sd' p o z Hz. rewrite HP3 in Hz. apply HP2 in Hz as [Hz Hn]. split; [exact Hz|].
        rewrite Hoid3, Hoid2. destruct (Nat.eqb_spec z pe) as [->|]; simpl; [|reflexivity].
        destruct (Bool.eqb_spec sd' sd) as [->|]; [|reflexivity].
        exfalso. apply Hn. split; [reflexivity|split; [|reflexivity]].
        apply Hp in Hz as [Hz _]. congruence.
      - intros e' sd'. rewrite Hpath3. apply Hpath2.
      - intros e' sd' o Hn Hoe'. rewrite Hoid3, Hoid2 in Hoe'.
        destruct (Nat.eqb e' pe && Bool.eqb sd' sd)%bool eqn:Ec; [discriminate|].
        split; [exact Hoe'|].
        assert (Hk: ~ (sd' = sd /\ o = ro)).
        { intros [-> ->]. assert (e' = pe).
          { destruct (H1 _ _ Hn _ Hoe') as [Ha _]. congruence. }
          subst e'. rewrite Nat.eqb_refl, bool_eqb_refl in Ec. discriminate. }
        split.
        + rewrite HO3, HO2. destruct (Bool.eqb_spec sd' sd) as [->|]; simpl; [|reflexivity].
          destruct (str_eqb_spec o ro) as [->|]; [exfalso; apply Hk; split; reflexivity|reflexivity].
        + intros p. rewrite HP3. apply HP2k. exact Hk.
      - intros Hf. left. intros o Hoo. rewrite Hoe in Hoo. destruct (Hf _ Hoo) as [Ha Hb].
        assert (Hk: ~ (sd = sd /\ o = ro)) by (intros [_ ->]; congruence).
        split.
        + rewrite HO3, HO2, bool_eqb_refl. simpl. destruct (str_eqb_spec o ro) as [->|]; [exfalso; apply Hk; split; reflexivity|exact Ha].
        + intros p Hp1 Hp2. rewrite HP3, (HP2k _ _ _ Hk). apply Hb; [|exact Hp2].
          rewrite Hpath3, Hpath2 in Hp1. exact Hp1. }
    assert (Hunp: unindexed s e sd -> unindexed s' e sd).
    { intros [Ha Hb]. split.
      - intros o Hc. rewrite HO3, HO2 in Hc. destruct (_ && _)%bool; [discriminate|]. apply (Ha _ Hc).
      - intros p o Hc. rewrite HP3 in Hc. apply HP2 in Hc as [Hc _]. apply (Hb _ _ Hc). }
    split; [|split; [|split; [|split; [|split; [|split]]]]].
    + exact HXs.
    + rewrite HO3. exact Habs.
    + apply Hoe.
    + rewrite Hpath3. apply Hpath2.
    + intros Hc. destruct H5 as [Hf|Hu]; [|apply Hunp; exact Hu].
      destruct (Hf _ Hc) as [Ha _]. congruence.
    + exact Hunp.
    + intros k Hk. rewrite HO3, HO2, Hk. destruct (_ && _)%bool; reflexivity.
Qed.

Lemma oid_step_spec_opt E f e sd r s s' :
  IdxX s e sd -> oid_step (exec E f) e sd r s = Ok s' ->
  IdxX s' e sd /\ (forall ro, r = Some ro -> al_get ro (oids s' sd) = None) /\
  oid_of s' e sd = oid_of s e sd /\ path_of s' e sd = path_of s e sd /\
  (oid_of s e sd = r -> r <> None -> unindexed s' e sd) /\
  (unindexed s e sd -> unindexed s' e sd) /\
  (forall k, al_get k (oids s sd) = None -> al_get k (oids s' sd) = None).
Proof.
  intros HX H. destruct r as [ro|].
  - destruct (oid_step_spec _ _ _ _ _ _ _ HX H) as [A [B [C [D [F [G I]]]]]].
    split; [exact A|]. split; [intros ro' Hr; injection Hr as <-; exact B|]. split; [exact C|]. split; [exact D|].
    split; [intros Hr _; apply F; exact Hr|]. split; [exact G|exact I].
  - injection H as <-. split; [exact HX|]. split; [intros ro Hr; discriminate|]. split; [reflexivity|]. split; [reflexivity|].
    split; [intros _ Hn; exfalso; apply Hn; reflexivity|]. split; auto.
Qed.

Lemma ostr_eqb_eq a b : ostr_eqb a b = true <-> a = b.
Proof.
  destruct a as [a|], b as [b|]; simpl; split; intros H; try discriminate; try reflexivity.
  - apply str_eqb_eq in H. congruence.
  - injection H as ->. apply str_eqb_refl.
Qed.

Lemma oid_loop_spec E f e sd old v s s1 :
  IdxJ s -> oid_of s e sd = old -> oid_loop (exec E f) e sd old v s = Ok s1 ->
  IdxX s1 e sd /\ unindexed s1 e sd /\ oid_of s1 e sd = old /\ path_of s1 e sd = path_of s e sd /\
  (forall o, v = Some o -> al_get o (oids s1 sd) = None).
Proof.
  intros HJ Hold H. pose proof (IdxJ_X _ e sd HJ) as HX.
  assert (Hu0: old = None -> unindexed s e sd).
  { intros ->. apply slots_unindexed; [apply HJ|exact Hold]. }
  unfold oid_loop in H. destruct (ostr_eqb old v) eqn:Eq.
  - apply ostr_eqb_eq in Eq. subst v.
    destruct (oid_step_spec_opt _ _ _ _ _ _ _ HX H) as [A [B [C [D [F [G I]]]]]].
    split; [exact A|]. split.
    + destruct old as [ro|]; [apply F; [exact Hold|discriminate]|apply G; apply Hu0; reflexivity].
    + split; [rewrite C; exact Hold|]. split; [exact D|exact B].
  - bind_inv H. destruct x as [sw s0]. unfold pop_swap in E0.
    destruct (tape s) as [|[b|l] r]; try discriminate. injection E0 as <- <-.
    assert (HX0: IdxX (st_tape s r) e sd) by (apply (IdxX_view s); [reflexivity|exact HX]).
    assert (Hold0: oid_of (st_tape s r) e sd = old) by exact Hold.
    assert (Hu00: old = None -> unindexed (st_tape s r) e sd).
    { intros Hn. destruct (Hu0 Hn) as [Ha Hb]. split; [intros o; destruct sd; apply Ha|intros p o; destruct sd; apply Hb]. }
    assert (Hp0: path_of (st_tape s r) e sd = path_of s e sd) by reflexivity.
    destruct b; bind_inv H.
    + (* new id first *)
      destruct (oid_step_spec_opt _ _ _ _ _ _ _ HX0 E0) as [A [B [C [D [F [G I]]]]]].
      destruct (oid_step_spec_opt _ _ _ _ _ _ _ A H) as [A' [B' [C' [D' [F' [G' I']]]]]].
      split; [exact A'|]. split.
      * destruct old as [ro|]; [apply F'; [rewrite C; exact Hold0|discriminate]|apply G'; apply G; apply Hu00; reflexivity].
      * split; [rewrite C', C; exact Hold0|]. split; [rewrite D', D; exact Hp0|].
        intros o Hv. apply I'. apply B. exact Hv.
    + destruct (oid_step_spec_opt _ _ _ _ _ _ _ HX0 E0) as [A [B [C [D [F [G I]]]]]].
      destruct (oid_step_spec_opt _ _ _ _ _ _ _ A H) as [A' [B' [C' [D' [F' [G' I']]]]]].
      split; [exact A'|]. split.
      * apply G'. destruct old as [ro|]; [apply F; [exact Hold0|discriminate]|apply G; apply Hu00; reflexivity].
      * split; [rewrite C', C; exact Hold0|]. split; [rewrite D', D; exact Hp0|].
        intros o Hv. apply B'. exact Hv.
Qed.

Lemma oid_finish_some e sd o s1 s' : oid_finish true e sd (Some o) s1 = Ok s' ->
  (forall sd' k, al_get k (oids s' sd') = if Bool.eqb sd' sd && str_eqb k o then Some e else al_get k (oids s1 sd')) /\
  (forall sd' p k, slot_get s' sd' p k =
     match path_of s1 e sd with
     | Some pp => if tstr (Some pp) && Bool.eqb sd' sd && str_eqb p pp && str_eqb k o then Some e else slot_get s1 sd' p k
     | None => slot_get s1 sd' p k
     end) /\
  (forall e' sd', oid_of s' e' sd' = if Nat.eqb e' e && Bool.eqb sd' sd then Some o else oid_of s1 e' sd') /\
  (forall e' sd', path_of s' e' sd' = path_of s1 e' sd').
Proof.
  unfold oid_finish. intros H. destruct (get_ent s1 e) as [x|] eqn:E; cbn [bind] in H; [|discriminate].
  cbv beta zeta iota in H. injection H as <-. apply get_ent_ok in E.
  set (sa := st_oids (raw_side s1 e sd (fun y => w_oid y (Some o))) sd (al_set o e (oids s1 sd))).
  set (sb := match s_path (gs x sd) with
             | Some pp => if match pp with [] => false | _ :: _ => true end then slot_set sa sd pp o e else sa
             | None => sa end).
  set (sc := if (tchg (s_chg (gs x sd)) || tchg (s_chg (gs x (negb sd))))%bool then cs_add sb e else sb).
  assert (Hpx: path_of s1 e sd = s_path (gs x sd)) by (unfold path_of; rewrite E; reflexivity).
  assert (Hvc: iview (dirty_add sc e) = iview sb) by (unfold sc; destruct (_ || _)%bool; reflexivity).
  apply iview_eq in Hvc as [Hec [Hoc Hpc]].
  assert (Hentsb: ents sb = ents (raw_side s1 e sd (fun y => w_oid y (Some o)))).
  { unfold sb. destruct (s_path (gs x sd)) as [pp|]; [destruct (match pp with [] => false | _ :: _ => true end); [rewrite ents_slot_set|]|]; unfold sa; apply ents_st_oids. }
  assert (Hoidb: forall e' sd', oid_of sb e' sd' = if Nat.eqb e' e && Bool.eqb sd' sd then Some o else oid_of s1 e' sd').
  { intros e' sd'. unfold oid_of at 1. rewrite Hentsb. fold (oid_of (raw_side s1 e sd (fun y => w_oid y (Some o))) e' sd').
    rewrite oid_of_raw_side, E. reflexivity. }
  assert (Hpathb: forall e' sd', path_of sb e' sd' = path_of s1 e' sd').
  { intros e' sd'. unfold path_of at 1. rewrite Hentsb. fold (path_of (raw_side s1 e sd (fun y => w_oid y (Some o))) e' sd').
    rewrite path_of_raw_side, E. simpl.
    destruct (Nat.eqb_spec e' e) as [->|]; simpl; [|reflexivity].
    destruct (Bool.eqb_spec sd' sd) as [->|]; [|reflexivity]. symmetry. exact Hpx. }
  assert (HOb: forall sd' k, al_get k (oids sb sd') = if Bool.eqb sd' sd && str_eqb k o then Some e else al_get k (oids s1 sd')).
  { intros sd' k. assert (Hx: oids sb sd' = oids sa sd').
    { unfold sb. destruct (s_path (gs x sd)) as [pp|]; [destruct (match pp with [] => false | _ :: _ => true end); [apply oids_slot_set|]|]; reflexivity. }
    rewrite Hx. unfold sa. rewrite oids_st_oids. destruct (Bool.eqb sd' sd) eqn:Es; simpl.
    - apply Bool.eqb_prop in Es. subst sd'. rewrite al_get_set. reflexivity.
    - rewrite oids_raw_side. reflexivity. }
  assert (HPb: forall sd' p k, slot_get sb sd' p k =
     match path_of s1 e sd with
     | Some pp => if tstr (Some pp) && Bool.eqb sd' sd && str_eqb p pp && str_eqb k o then Some e else slot_get s1 sd' p k
     | None => slot_get s1 sd' p k
     end).
  { intros sd' p k. rewrite Hpx. unfold sb. destruct (s_path (gs x sd)) as [pp|].
    - destruct pp as [|c pp']; cbn [tstr andb].
      + unfold sa. rewrite slot_get_st_oids, slot_get_raw_side. reflexivity.
      + rewrite slot_get_slot_set. unfold sa. rewrite slot_get_st_oids, slot_get_raw_side. reflexivity.
    - unfold sa. rewrite slot_get_st_oids, slot_get_raw_side. reflexivity. }
  assert (Hn: exists x', nth_error (ents (dirty_add sc e)) e = Some x' /\ s_path (gs x' sd) = s_path (gs x sd)).
  { assert (Hd: ents (dirty_add sc e) = ents sb) by (unfold sc; destruct (_ || _)%bool; reflexivity).
    rewrite Hd, Hentsb. unfold raw_side. rewrite E. simpl. rewrite nth_list_upd, Nat.eqb_refl, E.
    eexists. split; [reflexivity|]. rewrite gs_ss, bool_eqb_refl. reflexivity. }
  destruct Hn as [x' [Hn Hpx']].
  split; [|split; [|split]].
  - intros sd' k. rewrite oids_raw_side, Hoc. apply HOb.
  - intros sd' p k. rewrite slot_get_raw_side. rewrite (slot_get_paths _ sb); [apply HPb|apply Hpc].
  - intros e' sd'. rewrite oid_of_raw_side, Hn. simpl.
    destruct (Nat.eqb e' e && Bool.eqb sd' sd)%bool eqn:Ec; [reflexivity|].
    rewrite (proj1 (Hec e' sd')), Hoidb, Ec. reflexivity.
  - intros e' sd'. rewrite path_of_raw_side, Hn. simpl.
    destruct (Nat.eqb_spec e' e) as [->|]; simpl; [|rewrite (proj2 (Hec e' sd')); apply Hpathb].
    destruct (Bool.eqb_spec sd' sd) as [->|]; [|rewrite (proj2 (Hec e sd')); apply Hpathb].
    rewrite Hpx', <- Hpx. reflexivity.
Qed.

(* _change_oid through the intercepted setter keeps the index invariant *)
Lemma exec_oid_pres E f e sd v s s' :
  IdxJ s -> exec E (S f) (COid true e sd v) s = Ok s' -> IdxJ s'.
Proof.
  intros HJ H. rewrite exec_oid_eq in H. bind_inv H. bind_inv H.
  apply get_ent_ok in E0.
  assert (Hold: oid_of s e sd = s_oid (gs x sd)) by (unfold oid_of; rewrite E0; reflexivity).
  destruct (oid_loop_spec _ _ _ _ _ _ _ _ HJ Hold E1) as [HX [Hun [Ho1 [Hp1 Hv]]]].
  destruct HX as [H1 [[Hso Hsp] _]]. destruct Hun as [Hu1 Hu2].
  destruct v as [o|].
  - apply oid_finish_some in H as [HO [HP [Hoid Hpath]]].
    specialize (Hv o eq_refl).
    split; [|split].
    + intros e' sd' o' Hoe. rewrite Hoid in Hoe.
      destruct (Nat.eqb_spec e' e) as [->|Hne]; simpl in Hoe.
      * destruct (Bool.eqb_spec sd' sd) as [->|Hns].
        -- injection Hoe as <-. split.
           ++ rewrite HO, bool_eqb_refl, str_eqb_refl. reflexivity.
           ++ intros p Hpp Hpn. rewrite Hpath in Hpp. rewrite HP, Hpp.
              assert (Ht: tstr (Some p) = true) by (destruct p; [contradiction|reflexivity]).
              rewrite Ht, bool_eqb_refl, !str_eqb_refl. reflexivity.
        -- destruct (H1 e sd' (or_intror Hns) _ Hoe) as [Ha Hb]. split.
           ++ rewrite HO. destruct (Bool.eqb_spec sd' sd); [contradiction|exact Ha].
           ++ intros p Hpp Hpn. rewrite Hpath in Hpp. rewrite HP.
              destruct (path_of x0 e sd) as [pp|]; [|apply Hb; assumption].
              destruct (Bool.eqb_spec sd' sd); [contradiction|]. rewrite andb_false_r. simpl. apply Hb; assumption.
      * destruct (H1 e' sd' (or_introl Hne) _ Hoe) as [Ha Hb].
        assert (Hk: ~ (sd' = sd /\ o' = o)) by (intros [-> ->]; congruence).
        split.
        -- rewrite HO. destruct (Bool.eqb_spec sd' sd) as [->|]; simpl; [|exact Ha].
           destruct (str_eqb_spec o' o) as [->|]; [exfalso; apply Hk; split; reflexivity|exact Ha].
        -- intros p Hpp Hpn. rewrite Hpath in Hpp. rewrite HP.
           destruct (path_of x0 e sd) as [pp|]; [|apply Hb; assumption].
           destruct (Bool.eqb_spec sd' sd) as [->|]; [|rewrite andb_false_r; simpl; apply Hb; assumption].
           destruct (str_eqb_spec o' o) as [->|]; [exfalso; apply Hk; split; reflexivity|].
           rewrite andb_false_r. apply Hb; assumption.
    + intros sd' k z Hz. rewrite HO in Hz. rewrite Hoid.
      destruct (Bool.eqb_spec sd' sd) as [->|Hns]; simpl in Hz.
      * destruct (str_eqb_spec k o) as [->|Hnk].
        -- injection Hz as <-. rewrite Nat.eqb_refl. reflexivity.
        -- destruct (Nat.eqb_spec z e) as [->|]; [exfalso; apply (Hu1 _ Hz)|]. simpl. apply Hso. exact Hz.
      * rewrite andb_false_r. apply Hso. exact Hz.
    + intros sd' p k z Hz. rewrite HP in Hz. rewrite Hoid, Hpath.
      assert (Hold': forall z, slot_get x0 sd' p k = Some z ->
                (if Nat.eqb z e && Bool.eqb sd' sd then Some o else oid_of x0 z sd') = Some k /\ path_of x0 z sd' = Some p /\ p <> []).
      { intros z0 Hz0. destruct (Nat.eqb_spec z0 e) as [->|]; simpl; [|apply Hsp; exact Hz0].
        destruct (Bool.eqb_spec sd' sd) as [->|]; [exfalso; apply (Hu2 _ _ Hz0)|apply Hsp; exact Hz0]. }
      destruct (path_of x0 e sd) as [pp|] eqn:Epp; [|apply Hold'; exact Hz].
      destruct (tstr (Some pp) && Bool.eqb sd' sd && str_eqb p pp && str_eqb k o)%bool eqn:Ec; [|apply Hold'; exact Hz].
      injection Hz as <-. apply andb_prop in Ec as [Ec Ek]. apply andb_prop in Ec as [Ec Ep]. apply andb_prop in Ec as [Et Es].
      apply Bool.eqb_prop in Es. subst sd'. apply str_eqb_eq in Ep, Ek. subst p k.
      rewrite Nat.eqb_refl, bool_eqb_refl. simpl. split; [reflexivity|]. split; [exact Epp|].
      destruct pp; [discriminate|discriminate].
  - apply oid_finish_none in H as [HO [HP [Hoid Hpath]]].
    split; [|split].
    + intros e' sd' o' Hoe. rewrite Hoid in Hoe.
      destruct (Nat.eqb e' e && Bool.eqb sd' sd)%bool eqn:Ec; [discriminate|].
      assert (Hn: e' <> e \/ sd' <> sd).
      { destruct (Nat.eqb_spec e' e) as [->|]; [|left; assumption]. destruct (Bool.eqb_spec sd' sd) as [->|]; [discriminate|right; assumption]. }
      destruct (H1 _ _ Hn _ Hoe) as [Ha Hb]. split.
      * rewrite HO. exact Ha.
      * intros p Hpp Hpn. rewrite Hpath in Hpp. rewrite HP. apply Hb; assumption.
    + intros sd' k z Hz. rewrite HO in Hz. rewrite Hoid.
      destruct (Nat.eqb_spec z e) as [->|]; simpl; [|apply Hso; exact Hz].
      destruct (Bool.eqb_spec sd' sd) as [->|]; [exfalso; apply (Hu1 _ Hz)|apply Hso; exact Hz].
    + intros sd' p k z Hz. rewrite HP in Hz. rewrite Hoid, Hpath.
      destruct (Nat.eqb_spec z e) as [->|]; simpl; [|apply Hsp; exact Hz].
      destruct (Bool.eqb_spec sd' sd) as [->|]; [exfalso; apply (Hu2 _ _ Hz)|apply Hsp; exact Hz].
Qed.

(* ------------------------------------------------------------------ operations proved to keep clauses (i)-(iii) *)
Lemma set_oid_pres E s e sd v s' : IdxJ s -> set_oid E s e sd v = Ok s' -> IdxJ s'.
Proof.
  unfold set_oid, run_cmd, fuel_of. intros HJ H.
  replace (2 * length (ents s) + 8) with (S (2 * length (ents s) + 7)) in H by lia.
  eapply exec_oid_pres; eassumption.
Qed.

Lemma run_flag_pres E c s s' : flag_cmd c = true -> IdxJ s -> run_cmd E c s = Ok s' -> IdxJ s'.
Proof.
  intros Hc HJ H. unfold run_cmd in H. apply exec_flag_view in H as [Hv _]; [|exact Hc].
  apply (IdxJ_view s); [symmetry; exact Hv|exact HJ].
Qed.
Lemma set_changed_pres E s e sd v s' : IdxJ s -> set_changed E s e sd v = Ok s' -> IdxJ s'.
Proof. intros HJ H. eapply (run_flag_pres E (CChg true e sd v)); [reflexivity|exact HJ|exact H]. Qed.
Lemma set_priority_pres E s e v s' : IdxJ s -> set_priority E s e v = Ok s' -> IdxJ s'.
Proof. intros HJ H. eapply (run_flag_pres E (CPrio e v)); [reflexivity|exact HJ|exact H]. Qed.

Lemma set_plain_pres s e sd f s' :
  (forall x, s_oid (f x) = s_oid x /\ s_path (f x) = s_path x) ->
  IdxJ s -> set_plain s e sd f = Ok s' -> IdxJ s'.
Proof.
  intros Hf HJ H. unfold set_plain in H. bind_inv H. injection H as <-.
  apply (IdxJ_view s); [|exact HJ]. rewrite iview_raw_side; [reflexivity|exact Hf].
Qed.

Lemma set_ignored_view s e v s' : set_ignored s e v = Ok s' -> iview s' = iview s.
Proof.
  unfold set_ignored. intros H. bind_inv H. destruct (ign_eqb (e_ign x) v); [injection H as <-; reflexivity|].
  destruct v; simpl in H;
    match type of H with
    | match nth_error ?l e with _ => _ end = _ => destruct (nth_error l e) as [en2|] eqn:E2; [|discriminate]
    end;
    injection H as <-; (rewrite (iview_put_ent _ _ en2); [|exact E2|reflexivity]); try reflexivity.
  transitivity (iview (raw_side (raw_side s e false (fun y => w_chg y CFalse)) e true (fun y => w_chg y CFalse))); [reflexivity|].
  rewrite !iview_raw_side; [reflexivity| |]; intros y; split; reflexivity.
Qed.
Lemma set_ignored_pres s e v s' : IdxJ s -> set_ignored s e v = Ok s' -> IdxJ s'.
Proof. intros HJ H. apply set_ignored_view in H. apply (IdxJ_view s); [symmetry; exact H|exact HJ]. Qed.

Lemma mark_changed_pres E s e sd s' : IdxJ s -> mark_changed E s e sd = Ok s' -> IdxJ s'.
Proof.
  intros HJ H. unfold mark_changed in H. bind_inv H. bind_inv H. bind_inv H.
  assert (H0: IdxJ (st_now s (now s + 1000)%N)) by (apply (IdxJ_view s); [reflexivity|exact HJ]).
  pose proof (set_changed_pres _ _ _ _ _ _ H0 E0) as H1.
  assert (H2: IdxJ x0).
  { destruct (N.leb (now s + 1000) (lastch x)); [eapply set_changed_pres; eassumption|injection E1 as <-; exact H1]. }
  destruct (s_chg (gs x1 sd)); try discriminate. injection H as <-.
  apply (IdxJ_view x0); [reflexivity|exact H2].
Qed.

Lemma finished_pres E s e s' : IdxJ s -> finished E s e = Ok s' -> IdxJ s'.
Proof.
  intros HJ H. unfold finished in H. bind_inv H. bind_inv H. bind_inv H.
  assert (H1: IdxJ x0).
  { destruct (tchg (s_chg (e_l x))); [injection E1 as <-; exact HJ|].
    eapply set_plain_pres; [|exact HJ|exact E1]. intros y; split; reflexivity. }
  assert (H2: IdxJ x1).
  { destruct (tchg (s_chg (e_r x))); [injection E2 as <-; exact H1|].
    eapply set_plain_pres; [|exact H1|exact E2]. intros y; split; reflexivity. }
  destruct (tchg (s_chg (e_l x)) || tchg (s_chg (e_r x)))%bool; [injection H as <-; exact H2|].
  match type of H with
  | ?f ?L ?S = Ok _ =>
    assert (H3: IdxJ S) by (apply (IdxJ_view x1); [reflexivity|exact H2]);
    revert H H3; generalize S; generalize L
  end.
  intros l. induction l as [|a l IH]; intros s0 H H3.
  - simpl in H. injection H as <-. exact H3.
  - simpl in H. bind_inv H. bind_inv H. bind_inv H. apply (IH x4); [exact H|].
    destruct (N.ltb 0 (e_prio x2) && is_related E x3 x2)%bool; [eapply set_priority_pres; eassumption|injection E5 as <-; exact H3].
Qed.

Definition fieldw_covered (w : fieldw) : bool := match w with FPath _ => false | _ => true end.
(* operations whose effect on the indexes is covered by the proof below *)
Definition op_covered (o : op) : bool :=
  match o with
  | OSet _ _ w => fieldw_covered w
  | OIgn _ _ | OPrio _ _ | OFinished _ | OMark _ _ | ODiscard _ => true
  | _ => false
  end.

Lemma apply_op_pres E s o s' : op_covered o = true -> IdxJ s -> apply_op E s o = Ok s' -> IdxJ s'.
Proof.
  intros Hc HJ H. destruct o; try discriminate; simpl in H.
  - destruct w; try discriminate.
    + eapply set_oid_pres; eassumption.
    + eapply set_changed_pres; eassumption.
    + eapply set_plain_pres; [|exact HJ|exact H]; intros y; split; reflexivity.
    + eapply set_plain_pres; [|exact HJ|exact H]; intros y; split; reflexivity.
    + eapply set_plain_pres; [|exact HJ|exact H]; intros y; split; reflexivity.
    + eapply set_plain_pres; [|exact HJ|exact H]; intros y; split; reflexivity.
    + eapply set_plain_pres; [|exact HJ|exact H]; intros y; split; reflexivity.
    + eapply set_plain_pres; [|exact HJ|exact H]; intros y; split; reflexivity.
  - eapply set_ignored_pres; eassumption.
  - eapply set_priority_pres; eassumption.
  - eapply finished_pres; eassumption.
  - eapply mark_changed_pres; eassumption.
  - eapply set_ignored_pres; eassumption.
Qed.

Lemma step_pres E s ot s' : op_covered (fst ot) = true -> IdxJ s -> step E s ot = Ok s' -> IdxJ s'.
Proof.
  intros Hc HJ H. unfold step in H. bind_inv H. destruct (tape x); [|discriminate]. injection H as <-.
  eapply apply_op_pres; [exact Hc| |exact E0]. apply (IdxJ_view s); [reflexivity|exact HJ].
Qed.

(* any state, not only a reachable one: every covered operation keeps (i)-(iii) *)
Lemma idx_run_partial E : forall ops s s',
  forallb (fun ot => op_covered (fst ot)) ops = true -> IdxJ s -> run_ops E s ops = Ok s' -> IdxJ s'.
Proof.
  induction ops as [|o ops IH]; intros s s' Hc HJ H; simpl in H.
  - injection H as <-. exact HJ.
  - simpl in Hc. apply andb_prop in Hc as [Hc1 Hc2]. bind_inv H.
    apply (IH x _ Hc2); [|exact H]. eapply step_pres; eassumption.
Qed.

Lemma idx_partial : forall E ops s s',
  forallb (fun ot => op_covered (fst ot)) ops = true -> IdxJ s -> run_ops E s ops = Ok s' ->
  idx_found s' /\ idx_slots s' /\ idx_unique s'.
Proof.
  intros E ops s s' Hc HJ H. pose proof (idx_run_partial E ops s s' Hc HJ H) as [Hf Hs].
  split; [exact Hf|]. split; [exact Hs|]. exact (idx_found_unique s' Hf).
Qed.

(* ------------------------------------------------------------------ termination facts about the code as it is *)
(* ccb41ee: the write of `changed` no longer re-enters itself: one unit of fuel is enough *)
Lemma set_changed_total E f fin e sd v s :
  legacy E = false -> e < length (ents s) -> exists s', exec E (S f) (CChg fin e sd v) s = Ok s'.
Proof.
  intros Hl He. simpl. unfold get_ent. destruct (nth_error (ents s) e) as [en|] eqn:En.
  2:{ apply nth_error_None in En. lia. }
  simpl. rewrite Hl.
  destruct ((tchg v && tstr (s_oid (gs en sd)) || tchg (s_chg (gs en (negb sd))) && tstr (s_oid (gs en (negb sd))))%bool);
    [simpl; eexists; reflexivity|].
  destruct (tchg (s_chg (gs en (negb sd))) && negb (tstr (s_oid (gs en (negb sd)))))%bool; simpl; eexists; reflexivity.
Qed.
(* 029c8f6: the renamed folder is not treated as its own child *)
Lemma kid_step_self E rec e sd pp p s en :
  legacy E = false -> get_ent s e = Ok en -> kid_step E rec e sd pp p e s = Ok s.
Proof.
  intros Hl He. unfold kid_step. rewrite He. simpl.
  destruct (s_path (gs en sd)) as [sp|]; [|reflexivity].
  destruct sp as [|c sp]; [reflexivity|]. simpl.
  destruct (is_subpath (cvs E sd) pp (c :: sp) true) as [|[|c0 r0]]; try reflexivity.
  rewrite Hl, Nat.eqb_refl. reflexivity.
Qed.
