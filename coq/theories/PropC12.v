(* PropC12.v — C12: root confinement. *)
From Coq Require Import NArith List Bool.
From CS Require Import Sx TreeModel Monitor MonitorProofs MonitorExamples.
Import ListNotations.

Theorem C12_engine_confined : forall cfg l r tr m',
  accept cfg l r tr = inl m' ->
  forall pre x post s ts, tr = pre ++ x :: post -> o_ev x = EEng s ts ->
    (forall t, In t ts -> is_prefix (root_of cfg s) t = true) /\
    exists ma, run_of cfg (init_state cfg l r) pre ma /\
      same_tree (outside (rootL cfg) (tL ma)) (outside (rootL cfg) (o_L x)) = true /\
      same_tree (outside (rootR cfg) (tR ma)) (outside (rootR cfg) (o_R x)) = true.
Proof. exact engine_confined. Qed.
Print Assumptions C12_engine_confined.

Theorem C12_example_rejected_outside_write :
  accept (ex_cfg None) ex_l0 ex_r0
    [ {| o_ev := EUser false (Create [1; 3] 7)%N; o_L := ex_l1; o_R := ex_r0 |};
      {| o_ev := EEng false [[5; 3]%N]; o_L := ex_l1 ++ [([5; 3]%N, File 7%N)]; o_R := ex_r0 |} ] = inr (1%nat, G_CONFINED).
Proof. exact ex_rejected_confined. Qed.
Print Assumptions C12_example_rejected_outside_write.
