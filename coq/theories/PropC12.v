(* PropC12.v — C12: root confinement. *)
From Coq Require Import NArith List Bool.
From CS Require Import Sx TreeModel Monitor MonitorProofs MonitorExamples.
Import ListNotations.

Theorem C12_engine_confined : forall cfg l r tr m',
  accept cfg l r tr = inl m' ->
  forall pre x post s ts, tr = pre ++ x :: post -> o_ev x = EEng s ts ->
    (forall t, In t ts -> is_prefix (root_of cfg s) t = true) /\
    exists ma, run_of cfg (init_state cfg l r) pre ma /\
      same_tree (outside (rootL cfg) (tL ma)) (outside (rootL cfg) (o_L x)) = true /\
      same_tree (outside (rootR cfg) (tR ma)) (outside (rootR cfg) (o_R x)) = true.
Proof. exact engine_confined. Qed.
Print Assumptions C12_engine_confined.

Theorem C12_example_rejected_outside_write :
  accept (ex_cfg None) ex_l0 ex_r0
    [ {| o_ev := EUser false (Create [1; 3] 7)%N; o_L := ex_l1; o_R := ex_r0 |};
      {| o_ev := EEng false [[5; 3]%N]; o_L := ex_l1 ++ [([5; 3]%N, File 7%N)]; o_R := ex_r0 |} ] = inr (1%nat, G_CONFINED).
Proof. exact ex_rejected_confined. Qed.
Print Assumptions C12_example_rejected_outside_write.

(* paths the application's translate function declines are left alone: no engine action of an accepted
   trace addresses a path with a declined component *)
Theorem C12_declined_left_alone : forall cfg l r tr m',
  accept cfg l r tr = inl m' ->
  forall pre x post s ts, tr = pre ++ x :: post -> o_ev x = EEng s ts ->
    forall t n, In t ts -> In n t -> ~ In n (declined cfg).
Proof. exact engine_declined_left_alone. Qed.
Print Assumptions C12_declined_left_alone.

Theorem C12_example_rejected_declined :
  accept (ex_cfg None) ex_l0 ex_r0
    [ {| o_ev := EUser false (Create [1; 3] 7)%N; o_L := ex_l1; o_R := ex_r0 |};
      {| o_ev := EEng true [[2; 77]%N]; o_L := ex_l1; o_R := ex_r0 ++ [([2; 77]%N, Dir)] |} ] = inr (1%nat, G_DECLINED).
Proof. exact ex_rejected_declined. Qed.
Print Assumptions C12_example_rejected_declined.

(* ------------------------------------------------------------------ moves across the root boundary
   (one-sided runs: origin cfg = Some s0, users act on side s0; lemmas in MonitorBoundary.v) *)
From CS Require Import TreeLookup TreeProofs MonitorBoundary.

(* the entries strictly below a root (view) and all the others (outside) determine the tree: an engine
   action that passes the ORIGIN and OUTSIDE guards leaves the whole origin-side tree as it was *)
Theorem C12_view_and_outside_determine_tree : forall root a b,
  NoDup (map fst a) ->
  same_tree (view root a) (view root b) = true ->
  same_tree (outside root a) (outside root b) = true ->
  same_tree a b = true.
Proof. exact tree_from_parts. Qed.
Print Assumptions C12_view_and_outside_determine_tree.

(* (1) after any prefix of an accepted one-sided run the origin side's tree is the initial tree with
   the user's ABSOLUTE operations applied: no engine action ever changed it, inside or outside the root *)
Theorem C12_origin_tree_is_history : forall cfg l r s0,
  origin cfg = Some s0 -> wf (side_tree s0 l r) ->
  forall pre ma, run_of cfg (init_state cfg l r) pre ma ->
    same_tree (tree_of ma s0) (apply_ops (side_tree s0 l r) (abs_user_ops s0 pre)) = true.
Proof. exact origin_tree_is_history. Qed.
Print Assumptions C12_origin_tree_is_history.

(* the same, about the observations themselves *)
Theorem C12_origin_tree_observed : forall cfg l r tr m' s0,
  origin cfg = Some s0 -> wf (side_tree s0 l r) ->
  accept cfg l r tr = inl m' ->
  forall pre x post, tr = pre ++ x :: post ->
    same_tree (obs_tree x s0) (apply_ops (side_tree s0 l r) (abs_user_ops s0 (pre ++ [x]))) = true.
Proof. exact origin_tree_observed. Qed.
Print Assumptions C12_origin_tree_observed.

(* (2) at every quiet report of an accepted one-sided run without conflicted names, the peer's view is
   the root view of the origin tree after ALL user operations so far, renames with one end outside
   the root included *)
Theorem C12_boundary_moves_mirror : forall cfg l r tr m' s0,
  origin cfg = Some s0 -> no_conflicted cfg = true -> wf (side_tree s0 l r) ->
  accept cfg l r tr = inl m' ->
  forall pre x post, tr = pre ++ x :: post -> o_ev x = EQuiet ->
    same_tree (view (root_of cfg (negb s0)) (obs_tree x (negb s0)))
              (view (root_of cfg s0) (apply_ops (side_tree s0 l r) (abs_user_ops s0 pre))) = true.
Proof. exact boundary_moves_mirror. Qed.
Print Assumptions C12_boundary_moves_mirror.

(* applicability of a rename, in terms of the tree's own lookup *)
Theorem C12_rename_applicable : forall t p q n,
  lookup t p = Some n -> is_prefix p q = false -> parent_ok t q = true -> lookup t q = None ->
  rename_ok t p q = true.
Proof. exact rename_applicable. Qed.
Print Assumptions C12_rename_applicable.

(* (3a) moving a synchronised object out of the root is a deletion for the peer: when an applicable
   Rename p q with p strictly inside the root and q not is the last user operation before a quiet
   report, the peer's view at that report has nothing at or below p's root-relative path, and is the
   origin's previous root view everywhere else *)
Theorem C12_move_out_is_delete : forall cfg l r tr m' s0,
  origin cfg = Some s0 -> no_conflicted cfg = true -> wf (side_tree s0 l r) ->
  accept cfg l r tr = inl m' ->
  forall pre u mid x post p q,
    tr = pre ++ u :: mid ++ x :: post ->
    o_ev u = EUser s0 (Rename p q) -> abs_user_ops s0 mid = [] -> o_ev x = EQuiet ->
    rename_ok (apply_ops (side_tree s0 l r) (abs_user_ops s0 pre)) p q = true ->
    forall rp, rel_path (root_of cfg s0) p = Some rp -> rel_path (root_of cfg s0) q = None ->
      (forall s, lookup (view (root_of cfg (negb s0)) (obs_tree x (negb s0))) (rp ++ s) = None) /\
      (forall k, is_prefix rp k = false ->
         lookup (view (root_of cfg (negb s0)) (obs_tree x (negb s0))) k =
         lookup (view (root_of cfg s0) (apply_ops (side_tree s0 l r) (abs_user_ops s0 pre))) k).
Proof. exact move_out_is_delete. Qed.
Print Assumptions C12_move_out_is_delete.

(* (3b) moving an object into the root is a creation for the peer: the peer's view has at q's
   root-relative path, and below it, exactly what the origin tree had at p and below before the move,
   and is the origin's previous root view everywhere else *)
Theorem C12_move_in_is_create : forall cfg l r tr m' s0,
  origin cfg = Some s0 -> no_conflicted cfg = true -> wf (side_tree s0 l r) ->
  accept cfg l r tr = inl m' ->
  forall pre u mid x post p q,
    tr = pre ++ u :: mid ++ x :: post ->
    o_ev u = EUser s0 (Rename p q) -> abs_user_ops s0 mid = [] -> o_ev x = EQuiet ->
    rename_ok (apply_ops (side_tree s0 l r) (abs_user_ops s0 pre)) p q = true ->
    forall rq, rel_path (root_of cfg s0) p = None -> rel_path (root_of cfg s0) q = Some rq ->
      (forall s, lookup (view (root_of cfg (negb s0)) (obs_tree x (negb s0))) (rq ++ s) =
                 lookup (apply_ops (side_tree s0 l r) (abs_user_ops s0 pre)) (p ++ s)) /\
      (forall k, is_prefix rq k = false ->
         lookup (view (root_of cfg (negb s0)) (obs_tree x (negb s0))) k =
         lookup (view (root_of cfg s0) (apply_ops (side_tree s0 l r) (abs_user_ops s0 pre))) k).
Proof. exact move_in_is_create. Qed.
Print Assumptions C12_move_in_is_create.

(* (4) non-vacuity: an accepted one-sided trace with a move out (/1/3 -> /5/3) and a move in
   (/5/4 with its file -> /1/4); its initial origin tree is well-formed; the corollaries instantiated *)
Theorem C12_example_boundary_trace_accepted :
  accepted exb_cfg exb_l0 exb_r0 exb_trace = true /\ wf (side_tree false exb_l0 exb_r0) /\
  origin exb_cfg = Some false /\ no_conflicted exb_cfg = true /\
  abs_user_ops false exb_trace = [Rename [1; 3] [5; 3]; Rename [5; 4] [1; 4]]%N.
Proof. exact (conj exb_accepted (conj exb_wf (conj eq_refl (conj eq_refl eq_refl)))). Qed.
Print Assumptions C12_example_boundary_trace_accepted.

Theorem C12_example_move_out :
  (forall s, lookup (view [2]%N exb_r1) ([3]%N ++ s) = None) /\
  (forall k, is_prefix [3]%N k = false -> lookup (view [2]%N exb_r1) k = lookup (view [1]%N exb_l0) k).
Proof. exact exb_move_out. Qed.
Print Assumptions C12_example_move_out.

Theorem C12_example_move_in :
  (forall s, lookup (view [2]%N exb_r3) ([4]%N ++ s) = lookup exb_l1 ([5; 4]%N ++ s)) /\
  (forall k, is_prefix [4]%N k = false -> lookup (view [2]%N exb_r3) k = lookup (view [1]%N exb_l1) k).
Proof. exact exb_move_in. Qed.
Print Assumptions C12_example_move_in.

(* leaving the moved-out file on the peer is rejected at the quiet report (CONVERGE); an engine action
   that undoes the move on the origin side, outside its root, is rejected (OUTSIDE) *)
Theorem C12_example_rejected_move_out_not_deleted :
  accept exb_cfg exb_l0 exb_r0
    [ exb_u1; {| o_ev := EStep; o_L := exb_l1; o_R := exb_r0 |}; {| o_ev := EQuiet; o_L := exb_l1; o_R := exb_r0 |} ]
  = inr (2%nat, G_CONVERGE).
Proof. exact exb_rejected_not_deleted. Qed.
Print Assumptions C12_example_rejected_move_out_not_deleted.
