(* StateUpdateProofs.v — event application keeps the index invariant:
   SyncState.update_entry and SyncState.update (all branches: prior_oid / rename detection, reuse of a
   discarded entry, merge of two entries through SyncEntry.__setitem__, stale path lookups, new entry),
   SyncEntry.__setitem__ (move a side), SyncState.split, and every sequence of operations of the
   modelled alphabet from the empty state. *)
From Coq Require Import NArith List Bool Arith Lia.
From CS Require Import Sx Str PathModel PathLaws StateModel StateProofs StatePathProofs StateGuardModel StateFolderProofs.
Import ListNotations.

Ltac bind_inv' H :=
  match type of H with
  | bind ?r _ = Ok _ => let x := fresh "x" in let E := fresh "E" in destruct r as [x|] eqn:E; cbn [bind] in H; [|discriminate]
  end.

Ltac bind_inv2 H x E :=
  match type of H with
  | bind ?r _ = Ok _ => destruct r as [x|] eqn:E; cbn [bind] in H; [|discriminate]
  end.

(* ------------------------------------------------------------------ what the invariant can see of a state *)
Definition obs_eq (s s' : state) : Prop :=
  (forall e sd, oid_of s' e sd = oid_of s e sd) /\ (forall e sd, path_of s' e sd = path_of s e sd) /\
  (forall sd k, al_get k (oids s' sd) = al_get k (oids s sd)) /\
  (forall sd p o, slot_get s' sd p o = slot_get s sd p o).

Lemma IdxJ_obs s s' : obs_eq s s' -> IdxJ s -> IdxJ s'.
Proof.
  intros [Ho [Hp [HO HP]]] [Hf [Hso Hsp]]. split; [|split].
  - intros e sd o H. rewrite Ho in H. apply Hf in H as [H1 H2]. split; [rewrite HO; exact H1|].
    intros p Hp1 Hp2. rewrite HP. apply H2; [rewrite <- Hp; exact Hp1|exact Hp2].
  - intros sd o e H. rewrite HO in H. rewrite Ho. apply Hso. exact H.
  - intros sd p o e H. rewrite HP in H. rewrite Ho, Hp. apply Hsp. exact H.
Qed.
Lemma obs_eq_refl s : obs_eq s s.
Proof. repeat split. Qed.
Lemma obs_eq_sym a b : obs_eq a b -> obs_eq b a.
Proof. intros [A [B [C D]]]. split; [|split; [|split]]; intros; symmetry; [apply A|apply B|apply C|apply D]. Qed.
Lemma obs_eq_trans a b c : obs_eq a b -> obs_eq b c -> obs_eq a c.
Proof.
  intros [A1 [A2 [A3 A4]]] [B1 [B2 [B3 B4]]]. split; [|split; [|split]]; intros.
  - rewrite B1. apply A1.
  - rewrite B2. apply A2.
  - rewrite B3. apply A3.
  - rewrite B4. apply A4.
Qed.
Lemma iview_obs s s' : iview s' = iview s -> obs_eq s s'.
Proof.
  intros H. apply iview_eq in H as [He [Ho Hp]]. split; [|split; [|split]]; intros.
  - apply (proj1 (He e sd)).
  - apply (proj2 (He e sd)).
  - rewrite Ho. reflexivity.
  - apply slot_get_paths. apply Hp.
Qed.

(* ------------------------------------------------------------------ a fresh entry *)
Lemma nth_error_snoc {T} (l : list T) x e :
  nth_error (l ++ [x]) e = if Nat.eqb e (length l) then Some x else nth_error l e.
Proof.
  destruct (Nat.eqb_spec e (length l)) as [->|Hn].
  - rewrite nth_error_app2 by lia. rewrite Nat.sub_diag. reflexivity.
  - destruct (Nat.lt_ge_cases e (length l)) as [Hl|Hl].
    + apply nth_error_app1. exact Hl.
    + rewrite nth_error_app2 by lia. destruct (e - length l) as [|n] eqn:En; [lia|]. simpl.
      destruct n; simpl; symmetry; apply nth_error_None; lia.
Qed.

Lemma add_entry_obs s t : obs_eq s (fst (add_entry s t)).
Proof.
  unfold add_entry. simpl. split; [|split; [|split]]; intros; try reflexivity.
  - unfold oid_of. simpl. rewrite nth_error_snoc. destruct (Nat.eqb_spec e (length (ents s))) as [->|]; [|reflexivity].
    assert (Hn: nth_error (ents s) (length (ents s)) = None) by (apply nth_error_None; lia). rewrite Hn. destruct sd; reflexivity.
  - unfold path_of. simpl. rewrite nth_error_snoc. destruct (Nat.eqb_spec e (length (ents s))) as [->|]; [|reflexivity].
    assert (Hn: nth_error (ents s) (length (ents s)) = None) by (apply nth_error_None; lia). rewrite Hn. destruct sd; reflexivity.
Qed.
Lemma add_entry_pres s t : IdxJ s -> IdxJ (fst (add_entry s t)).
Proof. apply IdxJ_obs. apply add_entry_obs. Qed.
Lemma add_entry_fresh s t sd : path_of (fst (add_entry s t)) (snd (add_entry s t)) sd = None.
Proof.
  unfold add_entry, path_of. simpl. rewrite nth_error_snoc, Nat.eqb_refl. destruct sd; reflexivity.
Qed.
Lemma add_entry_old s t e sd : e <> length (ents s) ->
  path_of (fst (add_entry s t)) e sd = path_of s e sd /\ otype_of (fst (add_entry s t)) e sd = otype_of s e sd.
Proof.
  intros Hn. unfold add_entry, path_of, otype_of. simpl. rewrite nth_error_snoc.
  destruct (Nat.eqb_spec e (length (ents s))); [contradiction|split; reflexivity].
Qed.

(* ------------------------------------------------------------------ plain field writes *)
Lemma set_plain_view s e sd f s' :
  (forall x, s_oid (f x) = s_oid x /\ s_path (f x) = s_path x) -> set_plain s e sd f = Ok s' -> iview s' = iview s.
Proof.
  intros Hf H. unfold set_plain in H. bind_inv' H. injection H as <-. rewrite iview_raw_side; [reflexivity|exact Hf].
Qed.
Lemma set_plain_otype s e sd t s' : set_plain s e sd (fun y => w_otype y t) = Ok s' -> otype_of s' e sd = Some t.
Proof.
  intros H. unfold set_plain in H. bind_inv' H. injection H as <-. apply get_ent_ok in E.
  unfold otype_of, raw_side. simpl. rewrite E. simpl. rewrite nth_list_upd, Nat.eqb_refl, E, gs_ss, bool_eqb_refl. reflexivity.
Qed.

(* ------------------------------------------------------------------ SyncState.update_entry *)

Lemma otype_eqb_eq a b : otype_eqb a b = true -> a = b.
Proof. destruct a, b; simpl; intros H; try discriminate; reflexivity. Qed.

Lemma update_entry_pres E s e sd oid path h ex changed ot s' :
  env_ok E -> IdxJ s -> ue_guardb E s e sd oid path ot = true ->
  update_entry E s e sd oid path h ex changed ot = Ok s' -> IdxJ s'.
Proof.
  intros HE HJ Hg H. unfold update_entry in H.
  bind_inv' H. rename x into en0. pose proof (get_ent_ok _ _ _ E0) as Hen0.
  bind_inv' H. destruct x as [s1 e1]. cbv beta iota in H.
  (* the id *)
  assert (C1: IdxJ s1 /\
              ((e1 = e /\ pview s1 = pview s) \/
               (path_of s1 e1 sd = None /\
                (match oid, ot with Some _, Some _ => is_discarded (e_ign en0) && oip E sd && tstr path | _, _ => false end)%bool = true))).
  { destruct oid as [o|]; [|injection E1 as <- <-; split; [exact HJ|left; split; reflexivity]].
    destruct (is_discarded (e_ign en0) && oip E sd && tstr path)%bool eqn:Ec.
    - destruct ot as [t|].
      + destruct (add_entry s t) as [s0 e0] eqn:Ea. bind_inv' E1. injection E1 as <- <-.
        assert (H0: IdxJ s0) by (pose proof (add_entry_pres s t HJ) as Hx; rewrite Ea in Hx; exact Hx).
        split; [eapply set_oid_pres; eassumption|]. right. split; [|reflexivity].
        unfold set_oid, run_cmd in E2. apply exec_oid_pview in E2. rewrite (proj1 (pview_eq _ _ E2 e0 sd)).
        pose proof (add_entry_fresh s t sd) as Hx. rewrite Ea in Hx. exact Hx.
      + bind_inv' E1. injection E1 as <- <-. split; [eapply set_oid_pres; eassumption|]. left. split; [reflexivity|].
        unfold set_oid, run_cmd in E2. eapply exec_oid_pview; exact E2.
    - bind_inv' E1. injection E1 as <- <-. split; [eapply set_oid_pres; eassumption|]. left. split; [reflexivity|].
      unfold set_oid, run_cmd in E2. eapply exec_oid_pview; exact E2. }
  destruct C1 as [HJ1 C1].
  bind_inv' H. rename x into en1. bind_inv' H. rename x into s2.
  (* the object type *)
  assert (C2: IdxJ s2 /\ (forall x sd', path_of s2 x sd' = path_of s1 x sd') /\
              otype_of s2 e1 sd = match ot with Some t => Some t | None => otype_of s1 e1 sd end).
  { apply get_ent_ok in E2.
    assert (Hcur: otype_of s1 e1 sd = Some (s_otype (gs en1 sd))) by (unfold otype_of; rewrite E2; reflexivity).
    destruct ot as [t|]; [|injection E3 as <-; split; [exact HJ1|split; reflexivity]].
    destruct (otype_eqb t (s_otype (gs en1 sd))) eqn:Et.
    - injection E3 as <-. split; [exact HJ1|]. split; [reflexivity|]. apply otype_eqb_eq in Et. rewrite Hcur, Et. reflexivity.
    - assert (Hv: iview s2 = iview s1) by (eapply set_plain_view; [|exact E3]; intros y; split; reflexivity).
      split; [apply (IdxJ_view s1); [symmetry; exact Hv|exact HJ1]|]. split.
      + intros x sd'. apply iview_eq in Hv as [He _]. apply (proj2 (He x sd')).
      + eapply set_plain_otype; exact E3. }
  destruct C2 as [HJ2 [Hp2 Ho2]].
  destruct (match ot with Some NotKnown => match ex with Some true => true | _ => false end | _ => false end); [discriminate|].
  bind_inv' H. rename x into s3.
  (* the path *)
  assert (HJ3: IdxJ s3).
  { destruct path as [p|]; [|injection E4 as <-; exact HJ2].
    bind_inv' E4. rename x into en2. apply get_ent_ok in E5.
    destruct (ostr_eqb (Some (nps (cvs E sd) p)) (s_path (gs en2 sd))); [injection E4 as <-; exact HJ2|].
    eapply set_path_pres; [exact HE|exact HJ2| |exact E4].
    unfold path_guardb. rewrite E5.
    assert (Hpa: path_of s2 e1 sd = s_path (gs en2 sd)) by (unfold path_of; rewrite E5; reflexivity).
    assert (Hot: otype_of s2 e1 sd = Some (s_otype (gs en2 sd))) by (unfold otype_of; rewrite E5; reflexivity).
    destruct C1 as [[-> Hpv]|[Hnew Hc]].
    - destruct (pview_eq _ _ Hpv e sd) as [Hq1 Hq2].
      unfold ue_guardb in Hg. rewrite Hen0 in Hg.
      rewrite <- Hpa, Hp2, Hq1. unfold path_of at 1. rewrite Hen0.
      assert (Hty: s_otype (gs en2 sd) = match ot with Some t => t | None => s_otype (gs en0 sd) end).
      { rewrite Hot in Ho2. destruct ot as [t|]; [injection Ho2 as ->; reflexivity|].
        rewrite Hq2 in Ho2. unfold otype_of in Ho2. rewrite Hen0 in Ho2. injection Ho2 as ->. reflexivity. }
      rewrite Hty.
      destruct (match oid, ot with Some _, Some _ => is_discarded (e_ign en0) && oip E sd && tstr (Some p) | _, _ => false end)%bool eqn:Ec.
      + (* the guard did not look: then the entry is not replaced only if ... it is: contradiction is not needed, the branch of C1 decides *)
        destruct oid as [o|]; [|discriminate]. destruct ot as [t|]; [|discriminate].
        (* the entry would have been replaced: e1 is the fresh serial, not e *)
        exfalso. rewrite Ec in E1. destruct (add_entry s t) as [s0 e0] eqn:Ea. bind_inv' E1. injection E1 as _ He.
        unfold add_entry in Ea. injection Ea as _ <-. assert (Hlt: e < length (ents s)) by (apply nth_error_Some; rewrite Hen0; discriminate). lia.
      + exact Hg.
    - rewrite <- Hpa, Hp2, Hnew. destruct (s_otype (gs en2 sd)); reflexivity. }
  bind_inv' H. rename x into en3. bind_inv' H. rename x into s4. bind_inv' H. rename x into s5.
  assert (HJ4: IdxJ s4).
  { destruct h as [hv|]; [|injection E6 as <-; exact HJ3].
    destruct (oN_eqb (Some hv) (s_hash (gs en3 sd))); [injection E6 as <-; exact HJ3|].
    eapply set_plain_pres; [|exact HJ3|exact E6]. intros y; split; reflexivity. }
  assert (HJ5: IdxJ s5).
  { destruct (s_ex (gs en3 sd)); try (eapply set_plain_pres; [|exact HJ4|exact E7]; intros y; split; reflexivity).
    destruct ex as [[|]|]; eapply set_plain_pres; try exact HJ4; try exact E7; intros y; split; reflexivity. }
  destruct changed; [|injection H as <-; exact HJ5].
  bind_inv' H. destruct (tstr (s_path (gs x sd)) || tstr (s_oid (gs x sd)))%bool; [|discriminate].
  eapply mark_changed_pres; eassumption.
Qed.

(* ------------------------------------------------------------------ pieces of SyncEntry.__setitem__ *)
(* the intercepted write is the index update followed by the field write *)
Lemma exec_oid_fin E f e sd v s :
  exec E f (COid true e sd v) s = (s' <- exec E f (COid false e sd v) s ;; Ok (raw_side s' e sd (fun y => w_oid y v))).
Proof.
  destruct f as [|f]; [reflexivity|]. rewrite !exec_oid_eq.
  destruct (get_ent s e) as [en|]; [|reflexivity]. cbn [bind].
  destruct (oid_loop (exec E f) e sd (s_oid (gs en sd)) v s) as [s1|]; [|reflexivity]. cbn [bind].
  unfold oid_finish. destruct (get_ent s1 e); reflexivity.
Qed.

Lemma obs_eq_raw_same s e sd f :
  (forall en, nth_error (ents s) e = Some en ->
     s_oid (f (gs en sd)) = s_oid (gs en sd) /\ s_path (f (gs en sd)) = s_path (gs en sd)) ->
  obs_eq s (raw_side s e sd f).
Proof.
  intros Hf. split; [|split; [|split]]; intros.
  - rewrite oid_of_raw_side. destruct (Nat.eqb_spec e0 e) as [->|]; simpl; [|reflexivity].
    destruct (Bool.eqb_spec sd0 sd) as [->|]; [|reflexivity].
    unfold oid_of. destruct (nth_error (ents s) e) as [en|] eqn:En; [|reflexivity]. apply (Hf en eq_refl).
  - rewrite path_of_raw_side. destruct (Nat.eqb_spec e0 e) as [->|]; simpl; [|reflexivity].
    destruct (Bool.eqb_spec sd0 sd) as [->|]; [|reflexivity].
    unfold path_of. destruct (nth_error (ents s) e) as [en|] eqn:En; [|reflexivity]. apply (Hf en eq_refl).
  - rewrite oids_raw_side. reflexivity.
  - apply slot_get_raw_side.
Qed.

(* updated(side, "oid", o) for an id: the field is written by _change_oid itself *)
Lemma exec_oid_false_some E f e sd o s s' :
  exec E f (COid false e sd (Some o)) s = Ok s' -> oid_of s' e sd = Some o.
Proof.
  intros H. destruct f as [|f]; [discriminate|]. rewrite exec_oid_eq in H. bind_inv' H. bind_inv' H.
  unfold oid_finish in H. bind_inv' H. cbv zeta in H. injection H as <-. apply get_ent_ok in E2.
  match goal with |- oid_of (dirty_add (if ?c then cs_add ?SB e else _) e) e sd = _ =>
    set (sb := SB); transitivity (oid_of sb e sd); [destruct c; reflexivity|] end.
  assert (Hents: ents sb = ents (raw_side x0 e sd (fun y => w_oid y (Some o)))).
  { unfold sb. destruct (s_path (gs x1 sd)) as [[|c pp]|]; [|rewrite ents_slot_set|]; apply ents_st_oids. }
  unfold oid_of at 1. rewrite Hents. fold (oid_of (raw_side x0 e sd (fun y => w_oid y (Some o))) e sd).
  rewrite oid_of_raw_side, E2, Nat.eqb_refl, bool_eqb_refl. reflexivity.
Qed.

Lemma exec_oid_false_some_pres E f e sd o s s' :
  IdxJ s -> exec E f (COid false e sd (Some o)) s = Ok s' -> IdxJ s'.
Proof.
  intros HJ H. pose proof (exec_oid_false_some _ _ _ _ _ _ _ H) as Ho.
  assert (Ht: exec E f (COid true e sd (Some o)) s = Ok (raw_side s' e sd (fun y => w_oid y (Some o)))).
  { rewrite exec_oid_fin, H. reflexivity. }
  destruct f as [|f]; [discriminate|]. apply exec_oid_pres in Ht; [|exact HJ].
  assert (Hobs: obs_eq s' (raw_side s' e sd (fun y => w_oid y (Some o)))).
  { apply obs_eq_raw_same. intros en Hn. split; [|reflexivity]. simpl. unfold oid_of in Ho. rewrite Hn in Ho. symmetry. exact Ho. }
  apply (IdxJ_obs _ s' (obs_eq_sym _ _ Hobs) Ht).
Qed.

(* a path assignment to None / '' touches nothing but the entry's own slot *)
Lemma exec_path_falsy_frame E f fin k sd v s s' :
  tstr v = false -> exec E f (CPath fin k sd v) s = Ok s' ->
  (forall x sd', path_of s' x sd' = if fin && Nat.eqb x k && Bool.eqb sd' sd then v else path_of s x sd') /\
  (forall x sd', otype_of s' x sd' = otype_of s x sd') /\
  (forall x sd', oid_of s' x sd' = oid_of s x sd').
Proof.
  intros Hv H. destruct f as [|f]; [discriminate|]. rewrite exec_path_eq in H. bind_inv' H. cbv zeta in H.
  destruct (tstr v && negb (tstr (s_oid (gs x sd))))%bool; [discriminate|]. bind_inv' H. injection H as <-.
  apply get_ent_ok in E0.
  assert (He: ents x0 = ents s).
  { unfold path_main in E1. destruct (ostr_eqb (s_path (gs x sd)) v); [injection E1 as <-; reflexivity|].
    assert (Hx: x0 = match s_path (gs x sd) with
                     | Some pp => if tstr (s_path (gs x sd)) then slot_pop s sd pp (s_oid (gs x sd)) else s
                     | None => s end).
    { destruct v as [p|]; [|destruct (s_oid (gs x sd)); injection E1 as <-; reflexivity].
      destruct (s_oid (gs x sd)); [|injection E1 as <-; reflexivity]. rewrite Hv in E1. injection E1 as <-. reflexivity. }
    rewrite Hx. destruct (s_path (gs x sd)) as [pp|]; [destruct (tstr (Some pp)); [apply ents_slot_pop|]|]; reflexivity. }
  assert (Hn: nth_error (ents (dirty_add x0 k)) k = Some x) by (simpl; rewrite He; exact E0).
  destruct fin; cbn [andb].
  - split; [|split]; intros x1 sd'.
    + rewrite path_of_raw_side, Hn. simpl. destruct (Nat.eqb x1 k && Bool.eqb sd' sd)%bool; [reflexivity|].
      unfold path_of. simpl. rewrite He. reflexivity.
    + unfold otype_of, raw_side. rewrite Hn. simpl. rewrite nth_list_upd, He.
      destruct (Nat.eqb_spec x1 k) as [->|]; [|reflexivity]. rewrite E0, gs_ss.
      destruct (Bool.eqb sd' sd) eqn:Es; [apply Bool.eqb_prop in Es; subst sd'|]; reflexivity.
    + rewrite oid_of_raw_side, Hn. simpl. destruct (Nat.eqb_spec x1 k) as [->|]; simpl; [|unfold oid_of; simpl; rewrite He; reflexivity].
      destruct (Bool.eqb_spec sd' sd) as [->|]; [unfold oid_of; rewrite E0; reflexivity|unfold oid_of; simpl; rewrite He; reflexivity].
  - split; [|split]; intros x1 sd'; [unfold path_of|unfold otype_of|unfold oid_of]; simpl; rewrite He; reflexivity.
Qed.

(* the last line of __setitem__: the whole side is replaced *)
Lemma put_side_obs s e sd en val :
  nth_error (ents s) e = Some en ->
  let t := put_ent s e (ss en sd val) in
  (forall x sd', oid_of t x sd' = if Nat.eqb x e && Bool.eqb sd' sd then s_oid val else oid_of s x sd') /\
  (forall x sd', path_of t x sd' = if Nat.eqb x e && Bool.eqb sd' sd then s_path val else path_of s x sd') /\
  (forall sd' k, al_get k (oids t sd') = al_get k (oids s sd')) /\
  (forall sd' p o, slot_get t sd' p o = slot_get s sd' p o).
Proof.
  intros Hn t. split; [|split; [|split]]; intros.
  - unfold t, oid_of, put_ent. simpl. rewrite nth_list_upd, Hn.
    destruct (Nat.eqb_spec x e) as [->|]; simpl; [|reflexivity]. rewrite gs_ss.
    destruct (Bool.eqb sd' sd); [reflexivity|rewrite Hn; reflexivity].
  - unfold t, path_of, put_ent. simpl. rewrite nth_list_upd, Hn.
    destruct (Nat.eqb_spec x e) as [->|]; simpl; [|reflexivity]. rewrite gs_ss.
    destruct (Bool.eqb sd' sd); [reflexivity|rewrite Hn; reflexivity].
  - destruct sd'; reflexivity.
  - unfold slot_get. destruct sd'; reflexivity.
Qed.

Lemma get_ent_nth s e en : nth_error (ents s) e = Some en -> get_ent s e = Ok en.
Proof. unfold get_ent. intros ->. reflexivity. Qed.

(* updated(side, "oid", None) on an entry without an id: nothing to remove *)
Lemma exec_oid_none_noid E f fin e sd s s' :
  oid_of s e sd = None -> exec E f (COid fin e sd None) s = Ok s' -> iview s' = iview s.
Proof.
  intros Ho H. destruct f as [|f]; [discriminate|]. rewrite exec_oid_eq in H. bind_inv' H. bind_inv' H.
  apply get_ent_ok in E0.
  assert (Hx: s_oid (gs x sd) = None) by (unfold oid_of in Ho; rewrite E0 in Ho; exact Ho).
  rewrite Hx in E1. unfold oid_loop in E1. cbn [ostr_eqb] in E1. rewrite oid_step_none in E1. injection E1 as <-.
  unfold oid_finish in H. rewrite (get_ent_nth _ _ _ E0) in H. cbn [bind] in H. cbv zeta in H. injection H as <-.
  destruct fin.
  - rewrite (iview_raw_side_at _ _ _ _ x).
    + destruct (_ && _)%bool; reflexivity.
    + destruct (_ && _)%bool; exact E0.
    + simpl. symmetry. exact Hx.
    + reflexivity.
  - destruct (_ && _)%bool; reflexivity.
Qed.

Lemma oid_finish_none_gen fin e sd s1 s' : oid_finish fin e sd None s1 = Ok s' ->
  (forall sd', oids s' sd' = oids s1 sd') /\ (forall sd' p o, slot_get s' sd' p o = slot_get s1 sd' p o) /\
  (forall e' sd', oid_of s' e' sd' = if fin && Nat.eqb e' e && Bool.eqb sd' sd then None else oid_of s1 e' sd') /\
  (forall e' sd', path_of s' e' sd' = path_of s1 e' sd').
Proof.
  destruct fin; [apply oid_finish_none|]. unfold oid_finish. intros H. bind_inv' H. cbv zeta in H. injection H as <-.
  assert (Hv: iview (dirty_add (if (tchg (s_chg (gs x sd)) && negb (tchg (s_chg (gs x (negb sd)))))%bool then cs_del s1 e else s1) e) = iview s1)
    by (destruct (_ && _)%bool; reflexivity).
  apply iview_eq in Hv as [He [Ho Hp]]. cbn [andb]. repeat split.
  - exact Ho.
  - intros sd' p o. apply slot_get_paths. apply Hp.
  - intros e' sd'. apply (proj1 (He e' sd')).
  - intros e' sd'. apply (proj2 (He e' sd')).
Qed.

(* updated(side, "oid", None) on an entry that is found under its id o: the id and the entry's slot go *)
Lemma exec_oid_none_self E f fin e sd s s' o :
  oid_of s e sd = Some o -> al_get o (oids s sd) = Some e ->
  exec E f (COid fin e sd None) s = Ok s' ->
  (forall x sd', oid_of s' x sd' = if fin && Nat.eqb x e && Bool.eqb sd' sd then None else oid_of s x sd') /\
  (forall x sd', path_of s' x sd' = path_of s x sd') /\
  (forall sd' k, al_get k (oids s' sd') = if Bool.eqb sd' sd && str_eqb k o then None else al_get k (oids s sd')) /\
  (forall sd' p k, slot_get s' sd' p k = slot_get s sd' p k \/ (sd' = sd /\ k = o /\ slot_get s' sd' p k = None)) /\
  (forall p, path_of s e sd = Some p -> p <> [] -> slot_get s' sd p o = None).
Proof.
  intros Ho Hidx H. destruct f as [|f]; [discriminate|]. rewrite exec_oid_eq in H.
  destruct (oid_of_some_ent _ _ _ _ Ho) as [en [Hen Hoe]]. rewrite Hen in H. cbn [bind] in H. rewrite Hoe in H.
  bind_inv' H. rename x into s1.
  unfold oid_loop in E0. cbn [ostr_eqb] in E0. unfold pop_swap in E0.
  destruct (tape s) as [|[b|l] r]; try discriminate. cbn [bind] in E0.
  set (s0 := st_tape s r) in *.
  assert (Hst: oid_step (exec E f) e sd (Some o) s0 = Ok s1).
  { destruct b.
    - rewrite oid_step_none in E0. cbn [bind] in E0. exact E0.
    - destruct (oid_step (exec E f) e sd (Some o) s0) as [y|] eqn:Ey; cbn [bind] in E0; [|discriminate].
      rewrite oid_step_none in E0. exact E0. }
  clear E0. unfold oid_step in Hst.
  assert (Ho0: oids s0 sd = oids s sd) by (destruct sd; reflexivity).
  rewrite Ho0, Hidx in Hst.
  assert (Hen1: get_ent (st_oids s0 sd (al_del o (oids s sd))) e = Ok en).
  { unfold get_ent in *. rewrite ents_st_oids. exact Hen. }
  rewrite Hen1 in Hst. cbn [bind] in Hst. rewrite Nat.eqb_refl in Hst. injection Hst as Hs1.
  apply get_ent_ok in Hen.
  assert (Hpe: path_of s e sd = s_path (gs en sd)) by (unfold path_of; rewrite Hen; reflexivity).
  set (sq := st_oids s0 sd (al_del o (oids s sd))) in *.
  assert (He1: ents s1 = ents s).
  { rewrite <- Hs1. destruct (s_path (gs en sd)) as [[|c pp]|]; [|rewrite ents_slot_pop|]; unfold sq; rewrite ents_st_oids; reflexivity. }
  assert (HO1: forall sd' k, al_get k (oids s1 sd') = if Bool.eqb sd' sd && str_eqb k o then None else al_get k (oids s sd')).
  { intros sd' k. assert (Hx: oids s1 sd' = oids sq sd').
    { rewrite <- Hs1. destruct (s_path (gs en sd)) as [[|c pp]|]; [|apply oids_slot_pop|]; reflexivity. }
    rewrite Hx. unfold sq. rewrite oids_st_oids. destruct (Bool.eqb sd' sd) eqn:Es; cbn [andb].
    - apply Bool.eqb_prop in Es. subst sd'. rewrite al_get_del. reflexivity.
    - destruct sd'; reflexivity. }
  assert (Hsq: forall sd' p k, slot_get sq sd' p k = slot_get s sd' p k).
  { intros. unfold sq. rewrite slot_get_st_oids. unfold slot_get. destruct sd'; reflexivity. }
  assert (HP1: forall sd' p k, slot_get s1 sd' p k = slot_get s sd' p k \/ (sd' = sd /\ k = o /\ slot_get s1 sd' p k = None)).
  { intros sd' p k. rewrite <- Hs1. destruct (s_path (gs en sd)) as [[|c pp]|]; [left; apply Hsq| |left; apply Hsq].
    rewrite slot_get_slot_pop, Hsq.
    destruct (Bool.eqb sd' sd && str_eqb p (c :: pp) && str_eqb k o)%bool eqn:Ec; [|left; reflexivity].
    right. apply andb_prop in Ec as [Ec Ek]. apply andb_prop in Ec as [Es _].
    apply Bool.eqb_prop in Es. apply str_eqb_eq in Ek. repeat split; assumption. }
  assert (HP1b: forall p, path_of s e sd = Some p -> p <> [] -> slot_get s1 sd p o = None).
  { intros p Hp Hpn. rewrite Hpe in Hp. rewrite <- Hs1, Hp. destruct p as [|c p]; [contradiction|].
    rewrite slot_get_slot_pop, bool_eqb_refl, !str_eqb_refl. reflexivity. }
  apply oid_finish_none_gen in H as [F1 [F2 [F3 F4]]].
  split; [|split; [|split; [|split]]].
  - intros x sd'. rewrite F3. destruct (fin && Nat.eqb x e && Bool.eqb sd' sd)%bool; [reflexivity|]. unfold oid_of. rewrite He1. reflexivity.
  - intros x sd'. rewrite F4. unfold path_of. rewrite He1. reflexivity.
  - intros sd' k. rewrite F1. apply HO1.
  - intros sd' p k. rewrite F2. apply HP1.
  - intros p Hp Hpn. rewrite F2. apply HP1b; assumption.
Qed.

(* abstractly: entry d gives up its id o *)
Lemma idx_unindex u t d sd o :
  IdxJ u -> oid_of u d sd = Some o ->
  (forall x sd', oid_of t x sd' = if Nat.eqb x d && Bool.eqb sd' sd then None else oid_of u x sd') ->
  (forall x sd', path_of t x sd' = path_of u x sd') ->
  (forall sd' k, al_get k (oids t sd') = if Bool.eqb sd' sd && str_eqb k o then None else al_get k (oids u sd')) ->
  (forall sd' p k, slot_get t sd' p k = slot_get u sd' p k \/ (sd' = sd /\ k = o /\ slot_get t sd' p k = None)) ->
  (forall p, path_of u d sd = Some p -> p <> [] -> slot_get t sd p o = None) ->
  IdxJ t.
Proof.
  intros [Hf [Hso Hsp]] Hod Hoid Hpath HO HP HPd.
  assert (Huniq: forall x, oid_of u x sd = Some o -> x = d).
  { intros x Hx. destruct (Hf _ _ _ Hx) as [Ha _]. destruct (Hf _ _ _ Hod) as [Hb _]. congruence. }
  split; [|split].
  - intros x sd' k Hk. rewrite Hoid in Hk.
    destruct (Nat.eqb x d && Bool.eqb sd' sd)%bool eqn:Ec; [discriminate|].
    assert (Hn: ~ (sd' = sd /\ k = o)).
    { intros [-> ->]. apply Huniq in Hk. subst x. rewrite Nat.eqb_refl, bool_eqb_refl in Ec. discriminate. }
    destruct (Hf _ _ _ Hk) as [Ha Hb]. split.
    + rewrite HO. destruct (Bool.eqb_spec sd' sd) as [->|]; cbn [andb]; [|exact Ha].
      destruct (str_eqb_spec k o) as [->|]; [exfalso; apply Hn; split; reflexivity|exact Ha].
    + intros p Hp Hpn. rewrite Hpath in Hp. destruct (HP sd' p k) as [He|[Hs [Hk' _]]].
      * rewrite He. apply Hb; assumption.
      * exfalso. apply Hn. split; assumption.
  - intros sd' k z Hz. rewrite HO in Hz. rewrite Hoid.
    destruct (Bool.eqb sd' sd && str_eqb k o)%bool eqn:Ec; [discriminate|].
    pose proof (Hso _ _ _ Hz) as Hoz.
    destruct (Nat.eqb_spec z d) as [->|]; cbn [andb]; [|exact Hoz].
    destruct (Bool.eqb_spec sd' sd) as [->|]; [|exact Hoz].
    exfalso. rewrite Hod in Hoz. injection Hoz as <-. rewrite ?bool_eqb_refl, str_eqb_refl in Ec. discriminate.
  - intros sd' p k z Hz. destruct (HP sd' p k) as [He|[_ [_ Hn]]]; [|congruence].
    rewrite He in Hz. destruct (Hsp _ _ _ _ Hz) as [Ha [Hb Hc]]. rewrite Hoid, Hpath.
    destruct (Nat.eqb_spec z d) as [->|]; cbn [andb]; [|split; [exact Ha|split; [exact Hb|exact Hc]]].
    destruct (Bool.eqb_spec sd' sd) as [->|]; [|split; [exact Ha|split; [exact Hb|exact Hc]]].
    exfalso. rewrite Hod in Ha. injection Ha as <-. rewrite (HPd _ Hb Hc) in He. rewrite <- He in Hz. discriminate.
Qed.

Lemma iview_len s s' : iview s = iview s' -> length (ents s) = length (ents s').
Proof.
  unfold iview. intros H. injection H as H _ _ _ _. apply (f_equal (@length _)) in H. rewrite !map_length in H. exact H.
Qed.
Lemma iview_nth_some s s' e en : iview s = iview s' -> nth_error (ents s) e = Some en -> nth_error (ents s') e <> None.
Proof.
  intros Hv Hn Hc. apply nth_error_None in Hc. rewrite <- (iview_len _ _ Hv) in Hc.
  assert (e < length (ents s)) by (apply nth_error_Some; rewrite Hn; discriminate). lia.
Qed.

(* ------------------------------------------------------------------ SyncEntry.__setitem__: dst[side] = src[side] *)

Lemma move_side_spec E s dst src sd s' :
  env_ok E -> IdxJ s -> mv_guardb E s dst src sd = true -> move_side E s dst src sd = Ok s' ->
  IdxJ s' /\ forall x, path_of s' x (negb sd) = path_of s x (negb sd).
Proof.
  intros HE HJ Hg H. pose proof HE as [Hl Hok]. unfold move_side in H.
  bind_inv' H. rename x into sn. bind_inv' H. rename x into s1. bind_inv' H. rename x into s2.
  bind_inv' H. rename x into sn2. bind_inv' H. rename x into s3. bind_inv' H. rename x into s4.
  bind_inv' H. rename x into dn. injection H as <-.
  apply get_ent_ok in E0.
  assert (Hsp: path_of s src sd = s_path (gs sn sd)) by (unfold path_of; rewrite E0; reflexivity).
  assert (Hso: oid_of s src sd = s_oid (gs sn sd)) by (unfold oid_of; rewrite E0; reflexivity).
  set (np := s_path (gs sn sd)) in *. set (no := s_oid (gs sn sd)) in *.
  set (val := w_oid (w_path (gs sn2 sd) np) no) in *.
  (* the source side is taken out *)
  assert (HJ1: IdxJ s1).
  { eapply set_path_pres; [exact HE|exact HJ| |exact E1]. unfold path_guardb. destruct (nth_error (ents s) src); reflexivity. }
  destruct (exec_path_falsy_frame E _ true src sd None s s1 eq_refl E1) as [P1 [T1 _]].
  assert (HJ2: IdxJ s2) by (eapply set_oid_pres; eassumption).
  assert (Hpv2: pview s2 = pview s1) by (unfold set_oid, run_cmd in E2; eapply exec_oid_pview; exact E2).
  assert (P2: forall x sd', path_of s2 x sd' = if Nat.eqb x src && Bool.eqb sd' sd then None else path_of s x sd').
  { intros. rewrite (proj1 (pview_eq _ _ Hpv2 x sd')), P1. reflexivity. }
  assert (T2: forall x sd', otype_of s2 x sd' = otype_of s x sd').
  { intros. rewrite (proj2 (pview_eq _ _ Hpv2 x sd')). apply T1. }
  (* the guard, for dst in any later state with the same paths and types *)
  assert (HG: forall t en, (forall x sd', path_of t x sd' = path_of s2 x sd') ->
              (forall x sd', otype_of t x sd' = otype_of s2 x sd') -> get_ent t dst = Ok en ->
              gd E sd (s_otype (gs en sd)) (s_path (gs en sd)) np /\
              (no <> None -> oip E sd = false \/ s_otype (gs en sd) <> Dir \/ s_path (gs en sd) = None)).
  { intros t en Hp Ht Hen. apply get_ent_ok in Hen.
    assert (Hpa: s_path (gs en sd) = path_of s2 dst sd) by (rewrite <- Hp; unfold path_of; rewrite Hen; reflexivity).
    assert (Hta: Some (s_otype (gs en sd)) = otype_of s dst sd) by (rewrite <- T2, <- Ht; unfold otype_of; rewrite Hen; reflexivity).
    rewrite P2 in Hpa. destruct (Nat.eqb_spec dst src) as [Heq|Hneq].
    - rewrite bool_eqb_refl in Hpa. cbn in Hpa. split; [intros _ qq p Hq; rewrite Hpa in Hq; discriminate|intros _; right; right; exact Hpa].
    - cbn [andb] in Hpa. unfold mv_guardb in Hg. destruct (Nat.eqb_spec dst src); [contradiction|]. cbn [orb] in Hg.
      rewrite <- Hta, <- Hpa in Hg.
      destruct (s_otype (gs en sd)); try (split; [intros Hd; discriminate|intros _; right; left; discriminate]).
      destruct (s_path (gs en sd)) as [pp|]; [|split; [intros _ qq p Hq; discriminate|intros _; right; right; reflexivity]].
      apply andb_prop in Hg as [Hg1 Hg2]. split.
      + intros _ qq p Hq Hp' Hb. injection Hq as <-. rewrite Hsp, Hp' in Hg1. apply belowb_spec in Hb. rewrite Hb in Hg1. discriminate.
      + intros Hno. left. rewrite Hso in Hg2. destruct no; [|contradiction]. apply negb_true_iff in Hg2. exact Hg2. }
  (* the last two steps: the flag, and the replacement of the whole side *)
  unfold run_cmd in E5. apply exec_flag_view in E5 as [Hv4 _]; [|reflexivity].
  apply get_ent_ok in E6.
  pose proof (put_side_obs s4 dst sd dn val E6) as [Ot [Pt [OOt PPt]]]. cbv zeta in Ot, Pt, OOt, PPt.
  change (s_oid val) with no in Ot. change (s_path val) with np in Pt.
  destruct (iview_eq _ _ Hv4) as [He4 [Ho4 Hp4]].
  assert (Hn3: nth_error (ents s3) dst <> None) by (apply (iview_nth_some s4 s3 dst dn); [exact Hv4|exact E6]).
  destruct no as [o|] eqn:Eno.
  - (* an id comes along: id first, then path *)
    bind_inv2 E4 sa E7. unfold run_cmd in E7, E4.
    pose proof (exec_oid_false_some_pres _ _ _ _ _ _ _ HJ2 E7) as HJa.
    pose proof (exec_oid_false_some _ _ _ _ _ _ _ E7) as Hoa.
    pose proof (exec_oid_pview _ _ _ _ _ _ _ _ E7) as Hpva.
    destruct (oid_of_some_ent _ _ _ _ Hoa) as [ena [Hena _]].
    destruct (HG sa ena (fun x sd' => proj1 (pview_eq _ _ Hpva x sd')) (fun x sd' => proj2 (pview_eq _ _ Hpva x sd')) Hena) as [Hgd Hkeep].
    destruct (exec_path_false_pres E Hl Hok _ _ _ _ _ _ _ HJa Hena Hgd E4) as [A [B [_ D]]].
    specialize (D (Hkeep ltac:(discriminate))).
    split.
    2:{ intros x. rewrite Pt. destruct (Bool.eqb_spec (negb sd) sd) as [Hc|_]; [destruct sd; discriminate|]. rewrite andb_false_r.
        rewrite (proj2 (He4 x (negb sd))).
        destruct (B x (negb sd)) as [B1|[Hc _]]; [|destruct sd; discriminate].
        rewrite path_of_raw_side in B1. destruct (Bool.eqb_spec (negb sd) sd) as [Hc|_]; [destruct sd; discriminate|]. rewrite andb_false_r in B1.
        rewrite B1, (proj1 (pview_eq _ _ Hpva x (negb sd))), P2.
        destruct (Bool.eqb_spec (negb sd) sd) as [Hc|_]; [destruct sd; discriminate|]. rewrite andb_false_r. reflexivity. }
    apply (IdxJ_obs (raw_side s3 dst sd (fun y => w_path y np))); [|exact A].
    split; [|split; [|split]].
    + intros x sd'. rewrite Ot, D.
      destruct (Nat.eqb_spec x dst) as [->|]; cbn [andb]; [|rewrite (proj1 (He4 x sd')), <- D, oid_of_raw_side; destruct (Nat.eqb_spec x dst); [contradiction|reflexivity]].
      destruct (Bool.eqb_spec sd' sd) as [->|Hns]; [symmetry; exact Hoa|].
      rewrite (proj1 (He4 dst sd')), <- D, oid_of_raw_side. destruct (Bool.eqb_spec sd' sd); [contradiction|rewrite andb_false_r; reflexivity].
    + intros x sd'. rewrite Pt, path_of_raw_side. destruct (nth_error (ents s3) dst) as [en3|]; [|contradiction].
      destruct (Nat.eqb x dst && Bool.eqb sd' sd)%bool; [reflexivity|apply (proj2 (He4 x sd'))].
    + intros sd' k. rewrite OOt, oids_raw_side, Ho4. reflexivity.
    + intros sd' p k. rewrite PPt, slot_get_raw_side. apply slot_get_paths. apply Hp4.
  - (* no id: path first, then the removal of dst's own id *)
    bind_inv2 E4 sa E7. unfold run_cmd in E7, E4.
    destruct (get_ent s2 dst) as [en2|] eqn:Hen2.
    2:{ destruct (fuel_of s2); [discriminate|]. simpl in E7. rewrite Hen2 in E7. discriminate. }
    destruct (HG s2 en2 (fun _ _ => eq_refl) (fun _ _ => eq_refl) Hen2) as [Hgd _].
    destruct (exec_path_false_pres E Hl Hok _ _ _ _ _ _ _ HJ2 Hen2 Hgd E7) as [A [B [C _]]].
    set (u := raw_side sa dst sd (fun y => w_path y np)) in *.
    assert (Hns: Bool.eqb (negb sd) sd = false) by (destruct sd; reflexivity).
    assert (Hfr: forall x, path_of sa x (negb sd) = path_of s x (negb sd)).
    { intros x. destruct (B x (negb sd)) as [B1|[Hc _]]; [|destruct sd; discriminate].
      unfold u in B1. rewrite path_of_raw_side, Hns, andb_false_r in B1. rewrite B1, P2, Hns, andb_false_r. reflexivity. }
    assert (Hna: nth_error (ents sa) dst <> None).
    { intros Hc. destruct (fuel_of sa); [discriminate|]. simpl in E4. unfold get_ent in E4. rewrite Hc in E4. discriminate. }
    assert (Uo: forall x sd', oid_of u x sd' = oid_of sa x sd').
    { intros. unfold u. rewrite oid_of_raw_side. destruct (Nat.eqb_spec x dst) as [->|]; cbn [andb]; [|reflexivity].
      destruct (Bool.eqb_spec sd' sd) as [->|]; [|reflexivity]. unfold oid_of. destruct (nth_error (ents sa) dst); reflexivity. }
    assert (Up: forall x sd', path_of u x sd' = if Nat.eqb x dst && Bool.eqb sd' sd then np else path_of sa x sd').
    { intros. unfold u. rewrite path_of_raw_side. destruct (nth_error (ents sa) dst); [reflexivity|contradiction]. }
    assert (UO: forall sd' k, al_get k (oids u sd') = al_get k (oids sa sd')) by (intros; unfold u; rewrite oids_raw_side; reflexivity).
    assert (UP: forall sd' p k, slot_get u sd' p k = slot_get sa sd' p k) by (intros; unfold u; apply slot_get_raw_side).
    destruct (oid_of sa dst sd) as [o|] eqn:Eod.
    + (* dst owned an id *)
      assert (Hidx: al_get o (oids sa sd) = Some dst).
      { rewrite <- UO. apply (proj1 A dst sd o). rewrite Uo. exact Eod. }
      destruct (exec_oid_none_self _ _ _ _ _ _ _ _ Eod Hidx E4) as [F1 [F2 [F3 [F4 F5]]]]. cbn [andb] in F1.
      split.
      2:{ intros x. rewrite Pt, Hns, andb_false_r, (proj2 (He4 x (negb sd))), F2. apply Hfr. }
      apply (idx_unindex u _ dst sd o A); [rewrite Uo; exact Eod| | | | |].
      * intros x sd'. rewrite Ot. destruct (Nat.eqb x dst && Bool.eqb sd' sd)%bool; [reflexivity|].
        rewrite (proj1 (He4 x sd')), F1, Uo. reflexivity.
      * intros x sd'. rewrite Pt, Up. destruct (Nat.eqb x dst && Bool.eqb sd' sd)%bool; [reflexivity|].
        rewrite (proj2 (He4 x sd')), F2. reflexivity.
      * intros sd' k. rewrite OOt, Ho4, F3, UO. reflexivity.
      * intros sd' p k. rewrite PPt, (slot_get_paths s4 s3 sd' (Hp4 sd')), UP. apply F4.
      * intros p Hp Hpn. rewrite PPt, (slot_get_paths s4 s3 sd (Hp4 sd)). apply F5; [|exact Hpn].
        rewrite Up, Nat.eqb_refl, bool_eqb_refl in Hp. cbn [andb] in Hp.
        rewrite <- Hp. apply C. rewrite Hp. destruct p; [contradiction|reflexivity].
    + (* dst had no id *)
      pose proof (exec_oid_none_noid _ _ _ _ _ _ _ Eod E4) as Hv3.
      destruct (iview_eq _ _ Hv3) as [He3 [Ho3 Hp3]].
      split.
      2:{ intros x. rewrite Pt, Hns, andb_false_r, (proj2 (He4 x (negb sd))), (proj2 (He3 x (negb sd))). apply Hfr. }
      apply (IdxJ_obs u); [|exact A]. split; [|split; [|split]].
      * intros x sd'. rewrite Ot, Uo. destruct (Nat.eqb_spec x dst) as [->|]; cbn [andb]; [|rewrite (proj1 (He4 x sd')); apply (proj1 (He3 x sd'))].
        destruct (Bool.eqb_spec sd' sd) as [->|]; [symmetry; exact Eod|rewrite (proj1 (He4 dst sd')); apply (proj1 (He3 dst sd'))].
      * intros x sd'. rewrite Pt, Up. destruct (Nat.eqb x dst && Bool.eqb sd' sd)%bool; [reflexivity|].
        rewrite (proj2 (He4 x sd')). apply (proj2 (He3 x sd')).
      * intros sd' k. rewrite OOt, Ho4, Ho3, UO. reflexivity.
      * intros sd' p k. rewrite PPt, UP, (slot_get_paths s4 s3 sd' (Hp4 sd')). apply slot_get_paths. apply Hp3.
Qed.

Lemma move_side_pres E s dst src sd s' :
  env_ok E -> IdxJ s -> mv_guardb E s dst src sd = true -> move_side E s dst src sd = Ok s' -> IdxJ s'.
Proof. intros HE HJ Hg H. apply (move_side_spec _ _ _ _ _ _ HE HJ Hg H). Qed.

(* ------------------------------------------------------------------ SideState.clear and SyncState.split *)
Lemma path_guardb_none E s e sd : path_guardb E s e sd None = true.
Proof. unfold path_guardb. destruct (nth_error (ents s) e); reflexivity. Qed.

Lemma clear_side_pres E s e sd s' : env_ok E -> IdxJ s -> clear_side E s e sd = Ok s' -> IdxJ s'.
Proof.
  intros HE HJ H. unfold clear_side in H.
  bind_inv2 H s1 E1. bind_inv2 H s2 E2. bind_inv2 H s3 E3. bind_inv2 H s4 E4. bind_inv2 H s5 E5.
  bind_inv2 H s6 E6. bind_inv2 H s7 E7. injection H as <-.
  assert (H1: IdxJ s1) by (eapply set_plain_pres; [|exact HJ|exact E1]; intros y; split; reflexivity).
  assert (H2: IdxJ s2) by (eapply set_changed_pres; eassumption).
  assert (H3: IdxJ s3) by (eapply set_plain_pres; [|exact H2|exact E3]; intros y; split; reflexivity).
  assert (H4: IdxJ s4) by (eapply set_plain_pres; [|exact H3|exact E4]; intros y; split; reflexivity).
  assert (H5: IdxJ s5) by (eapply set_plain_pres; [|exact H4|exact E5]; intros y; split; reflexivity).
  assert (H6: IdxJ s6) by (eapply set_path_pres; [exact HE|exact H5|apply path_guardb_none|exact E6]).
  assert (H7: IdxJ s7) by (eapply set_oid_pres; eassumption).
  apply (IdxJ_view s7); [reflexivity|exact H7].
Qed.

Lemma split_pres E s e s' : env_ok E -> IdxJ s -> split E s e = Ok s' -> IdxJ s'.
Proof.
  intros HE HJ H. unfold split in H. bind_inv2 H en E0.
  destruct (add_entry s (s_otype (e_l en))) as [s0 re] eqn:Ea.
  destruct (negb (tstr (s_oid (e_l en)))); [discriminate|].
  bind_inv2 H s1 E1. bind_inv2 H rn E2.
  destruct (negb (tstr (s_oid (e_l rn)))); [discriminate|].
  bind_inv2 H en1 E3. bind_inv2 H s1a E4.
  match type of H with (if ?c then _ else _) = _ => destruct c; [discriminate|] end.
  bind_inv2 H s2 E5. bind_inv2 H y E6. destruct y as [l2 s2b].
  destruct (negb (set_mem re (get_all s2))); [discriminate|].
  bind_inv2 H s3 E7. bind_inv2 H s4 E8. bind_inv2 H s5 E9.
  assert (H0: IdxJ s0) by (pose proof (add_entry_pres s (s_otype (e_l en)) HJ) as Hx; rewrite Ea in Hx; exact Hx).
  assert (Hfresh: path_of s0 re false = None) by (pose proof (add_entry_fresh s (s_otype (e_l en)) false) as Hx; rewrite Ea in Hx; exact Hx).
  assert (H1: IdxJ s1).
  { eapply move_side_pres; [exact HE|exact H0| |exact E1]. unfold mv_guardb. rewrite Hfresh.
    destruct (Nat.eqb re e); [reflexivity|]. destruct (otype_of s0 re false) as [[| |]|]; reflexivity. }
  assert (H1a: IdxJ s1a).
  { destruct (s_oid (e_l en1)); [|injection E4 as <-; exact H1].
    bind_inv2 E4 y E10. destruct y as [l1 sx]. destruct (set_mem re (get_all s1)); [|discriminate]. injection E4 as <-.
    apply (IdxJ_view s1); [symmetry; eapply get_all_ordered_view; exact E10|exact H1]. }
  assert (H2: IdxJ s2) by (eapply clear_side_pres; eassumption).
  assert (H2b: IdxJ s2b) by (apply (IdxJ_view s2); [symmetry; eapply get_all_ordered_view; exact E6|exact H2]).
  assert (H3: IdxJ s3) by (eapply mark_changed_pres; eassumption).
  assert (H4: IdxJ s4) by (eapply mark_changed_pres; eassumption).
  assert (H5: IdxJ s5) by (eapply set_plain_pres; [|exact H4|exact E9]; intros y; split; reflexivity).
  eapply set_plain_pres; [|exact H5|exact H]; intros y; split; reflexivity.
Qed.

(* ------------------------------------------------------------------ SyncState.update: one provider event *)
Lemma set_ignored_pview s e v s' : set_ignored s e v = Ok s' -> pview s' = pview s.
Proof.
  unfold set_ignored. intros H. bind_inv2 H en E0. destruct (ign_eqb (e_ign en) v); [injection H as <-; reflexivity|].
  cbv zeta in H.
  match type of H with match nth_error (ents (dirty_add ?S1 e)) e with _ => _ end = _ => set (s1 := S1) in *; assert (H1: pview s1 = pview s) end.
  { unfold s1. destruct v; try reflexivity.
    transitivity (pview (raw_side (raw_side s e false (fun y => w_chg y CFalse)) e true (fun y => w_chg y CFalse))); [reflexivity|].
    rewrite !pview_raw_side; [reflexivity| |]; intros y; split; reflexivity. }
  destruct (nth_error (ents (dirty_add s1 e)) e) as [en2|] eqn:E2; [|discriminate]. injection H as <-.
  rewrite <- H1. unfold pview, put_ent. simpl. apply (map_list_upd pkey _ _ _ _ E2). reflexivity.
Qed.

(* the lookup_path(stale=True) loop of update, by name *)
Definition stale_loop : list eid -> state -> option eid -> res (state * option eid) :=
  fix loop (l : list eid) (s : state) (cur : option eid) {struct l} : res (state * option eid) :=
    match l with
    | [] => Ok (s, cur)
    | pe' :: r =>
      match ign_of s pe' with
      | IDiscarded | INone => (s' <- set_ignored s pe' INone ;; loop r s' (Some pe'))
      | _ => Err EAssert
      end
    end.

Lemma stale_loop_spec : forall l s cur s' cur', stale_loop l s cur = Ok (s', cur') ->
  iview s' = iview s /\ pview s' = pview s /\ (cur' = cur \/ exists x, cur' = Some x /\ In x l).
Proof.
  induction l as [|a l IH]; intros s cur s' cur' H; simpl in H.
  - injection H as <- <-. split; [reflexivity|]. split; [reflexivity|left; reflexivity].
  - assert (Hgo: (s2 <- set_ignored s a INone ;; stale_loop l s2 (Some a)) = Ok (s', cur')).
    { destruct (ign_of s a); try discriminate; exact H. }
    clear H. bind_inv2 Hgo s2 E2. apply IH in Hgo as [A [B C]].
    split; [rewrite A; eapply set_ignored_view; exact E2|]. split; [rewrite B; eapply set_ignored_pview; exact E2|].
    right. destruct C as [->|[x [-> Hx]]]; [exists a; split; [reflexivity|left; reflexivity]|exists x; split; [reflexivity|right; exact Hx]].
Qed.

(* first half of update: which entry does the event land on *)
Definition upd_phase1 (E : env) (s : state) (sd : bool) (oid path prior : option str) : res (state * option eid) :=
  let ent0 := lookup_oid s sd oid in
  if tstr prior && negb (ostr_eqb prior oid) then
    let pr := lookup_oid s sd prior in
    y1 <- (match ent0, pr with
           | None, Some pe =>
             pn <- get_ent s pe ;;
             if is_discarded (e_ign pn) &&
                (match s_ex (gs pn sd) with ExTrashed | ExMissing => true | _ => false end)
             then (s' <- set_ignored s pe INone ;; Ok (s', Some pe))
             else Ok (s, ent0)
           | _, _ => Ok (s, ent0)
           end) ;;
    let '(s1, ent1) := y1 in
    match pr with
    | Some pe =>
      pn <- get_ent s1 pe ;;
      if negb (is_discarded (e_ign pn)) then
        match ent1 with
        | None => Ok (s1, Some pe)
        | Some e1 =>
          n1 <- get_ent s1 e1 ;;
          if negb (is_conflicted (e_ign n1)) &&
             (thash (s_shash (gs pn sd)) || negb (thash (s_shash (gs n1 sd)))) then
            if tstr (s_oid (gs n1 (negb sd))) && negb (tstr (s_oid (gs pn (negb sd)))) then
              (s' <- move_side E s1 pe e1 (negb sd) ;; Ok (s', Some pe))
            else Ok (s1, Some pe)
          else Ok (s1, ent1)
        end
      else
        match ent1 with
        | Some _ => Ok (s1, ent1)
        | None => stale_loop (lookup_path_stale s1 sd path) s1 None
        end
    | None =>
      match ent1 with
      | Some _ => Ok (s1, ent1)
      | None => stale_loop (lookup_path_stale s1 sd path) s1 None
      end
    end
  else Ok (s, ent0).

Definition upd_rest (E : env) (sd : bool) (ot : option otype) (oid path : option str) (h : option N) (ex : option bool)
           (y : state * option eid) : res state :=
  let '(s1, ent) := y in
  y2 <- (match ent with
         | Some e => Ok (s1, e)
         | None => match ot with Some t => Ok (add_entry s1 t) | None => Err EAssert end
         end) ;;
  let '(s2, e) := y2 in
  let s3 := st_now s2 (now s2 + 1000)%N in
  update_entry E s3 e sd oid path h ex true ot.

Lemma update_eq E s sd ot oid path h ex prior :
  update E s sd ot oid path h ex prior = (y <- upd_phase1 E s sd oid path prior ;; upd_rest E sd ot oid path h ex y).
Proof. reflexivity. Qed.


Definition cand_ok (E : env) (s : state) (sd : bool) (ot : option otype) (path : option str) (e : eid) : Prop :=
  forall pp p, path_of s e sd = Some pp -> path = Some p ->
    (match ot with Some t => otype_eqb t Dir | None => true end) = true ->
    belowb (cvs E sd) pp (nps (cvs E sd) p) = false.
Lemma candb_ok E s sd ot path e : candb E s sd ot path e = true -> cand_ok E s sd ot path e.
Proof.
  unfold candb. intros H pp p Hpp Hp Hc. rewrite Hpp, Hp, Hc in H. cbn [andb] in H. apply negb_true_iff in H. exact H.
Qed.

Lemma mv_guardb_ext E s s1 d sr sd :
  (forall x sd', otype_of s1 x sd' = otype_of s x sd') -> (forall x sd', path_of s1 x sd' = path_of s x sd') ->
  (forall x sd', oid_of s1 x sd' = oid_of s x sd') -> mv_guardb E s1 d sr sd = mv_guardb E s d sr sd.
Proof. intros Ht Hp Ho. unfold mv_guardb. rewrite !Ht, !Hp, !Ho. reflexivity. Qed.

Lemma upd_phase1_spec E s sd ot oid path prior s1 ent :
  env_ok E -> IdxJ s -> upd_guardb E s sd ot oid path prior = true ->
  upd_phase1 E s sd oid path prior = Ok (s1, ent) ->
  IdxJ s1 /\ (forall x, path_of s1 x sd = path_of s x sd) /\ (forall e, ent = Some e -> cand_ok E s sd ot path e).
Proof.
  intros HE HJ Hg H. unfold upd_guardb in Hg.
  apply andb_prop in Hg as [Hg Hgm]. apply andb_prop in Hg as [Hg Hgs]. apply andb_prop in Hg as [Hgo Hgp].
  assert (Cent0: forall e, lookup_oid s sd oid = Some e -> cand_ok E s sd ot path e).
  { intros e He. rewrite He in Hgo. apply candb_ok. exact Hgo. }
  assert (Cpr: forall e, lookup_oid s sd prior = Some e -> cand_ok E s sd ot path e).
  { intros e He. rewrite He in Hgp. apply candb_ok. exact Hgp. }
  assert (Cst: forall e, In e (lookup_path_stale s sd path) -> cand_ok E s sd ot path e).
  { intros e He. apply candb_ok. rewrite forallb_forall in Hgs. apply Hgs. exact He. }
  unfold upd_phase1 in H. cbv zeta in H.
  destruct (tstr prior && negb (ostr_eqb prior oid))%bool.
  2:{ injection H as <- <-. split; [exact HJ|]. split; [reflexivity|exact Cent0]. }
  bind_inv2 H y1 E1. destruct y1 as [s1' ent1].
  (* the re-use of a discarded entry *)
  assert (Y1: iview s1' = iview s /\ pview s1' = pview s /\
              (ent1 = lookup_oid s sd oid \/ (lookup_oid s sd oid = None /\ ent1 = lookup_oid s sd prior))).
  { destruct (lookup_oid s sd oid) as [e0|] eqn:El0; [injection E1 as <- <-; split; [reflexivity|split; [reflexivity|left; reflexivity]]|].
    destruct (lookup_oid s sd prior) as [pe|] eqn:Elp; [|injection E1 as <- <-; split; [reflexivity|split; [reflexivity|left; reflexivity]]].
    bind_inv2 E1 pn E2.
    destruct (is_discarded (e_ign pn) && match s_ex (gs pn sd) with ExTrashed | ExMissing => true | _ => false end)%bool;
      [|injection E1 as <- <-; split; [reflexivity|split; [reflexivity|left; reflexivity]]].
    bind_inv2 E1 sg E3. injection E1 as <- <-.
    split; [eapply set_ignored_view; exact E3|]. split; [eapply set_ignored_pview; exact E3|right; split; reflexivity]. }
  destruct Y1 as [Hv1 [Hpv1 Hent1]].
  assert (HJ1: IdxJ s1') by (apply (IdxJ_view s); [symmetry; exact Hv1|exact HJ]).
  destruct (iview_eq _ _ Hv1) as [He1 [Ho1 Hp1]].
  assert (Hpa1: forall x sd', path_of s1' x sd' = path_of s x sd') by (intros; apply (proj2 (He1 x sd'))).
  assert (Cent1: forall e, ent1 = Some e -> cand_ok E s sd ot path e).
  { intros e He. destruct Hent1 as [Hx|[_ Hx]]; rewrite Hx in He; [apply Cent0|apply Cpr]; exact He. }
  assert (Hstale: lookup_path_stale s1' sd path = lookup_path_stale s sd path) by (unfold lookup_path_stale; rewrite Hp1; reflexivity).
  assert (Hloop: forall sg cur, stale_loop (lookup_path_stale s1' sd path) s1' None = Ok (sg, cur) ->
            IdxJ sg /\ (forall x, path_of sg x sd = path_of s x sd) /\ (forall e, cur = Some e -> cand_ok E s sd ot path e)).
  { intros sg cur Hl. apply stale_loop_spec in Hl as [A [_ C]].
    split; [apply (IdxJ_view s1'); [symmetry; exact A|exact HJ1]|]. split.
    - intros x. destruct (iview_eq _ _ A) as [Hex _]. rewrite (proj2 (Hex x sd)). apply Hpa1.
    - intros e He. destruct C as [->|[x [-> Hx]]]; [discriminate|]. injection He as <-. apply Cst. rewrite <- Hstale. exact Hx. }
  assert (Hsame: IdxJ s1' /\ (forall x, path_of s1' x sd = path_of s x sd)) by (split; [exact HJ1|intros; apply Hpa1]).
  destruct (lookup_oid s sd prior) as [pe|] eqn:Elp.
  2:{ destruct ent1 as [e1|]; [injection H as <- <-; split; [exact HJ1|split; [intros; apply Hpa1|exact Cent1]]|].
      apply Hloop. exact H. }
  bind_inv2 H pn E2.
  destruct (negb (is_discarded (e_ign pn))).
  2:{ destruct ent1 as [e1|]; [injection H as <- <-; split; [exact HJ1|split; [intros; apply Hpa1|exact Cent1]]|].
      apply Hloop. exact H. }
  assert (Cpe: forall e, Some pe = Some e -> cand_ok E s sd ot path e) by (intros e He; injection He as <-; apply Cpr; reflexivity).
  destruct ent1 as [e1|]; [|injection H as <- <-; split; [exact HJ1|split; [intros; apply Hpa1|exact Cpe]]].
  bind_inv2 H n1 E3.
  destruct (negb (is_conflicted (e_ign n1)) && (thash (s_shash (gs pn sd)) || negb (thash (s_shash (gs n1 sd)))))%bool;
    [|injection H as <- <-; split; [exact HJ1|split; [intros; apply Hpa1|exact Cent1]]].
  destruct (tstr (s_oid (gs n1 (negb sd))) && negb (tstr (s_oid (gs pn (negb sd)))))%bool;
    [|injection H as <- <-; split; [exact HJ1|split; [intros; apply Hpa1|exact Cpe]]].
  (* the merge: the other side of e1 moves to pe *)
  bind_inv2 H sm E4. injection H as <- <-.
  assert (Hmg: mv_guardb E s1' pe e1 (negb sd) = true).
  { rewrite (mv_guardb_ext E s s1').
    - destruct Hent1 as [Hx|[_ Hx]].
      + rewrite <- Hx in Hgm. exact Hgm.
      + injection Hx as ->. unfold mv_guardb. rewrite Nat.eqb_refl. reflexivity.
    - intros x sd'. apply (proj2 (pview_eq _ _ Hpv1 x sd')).
    - intros x sd'. apply Hpa1.
    - intros x sd'. apply (proj1 (He1 x sd')). }
  destruct (move_side_spec _ _ _ _ _ _ HE HJ1 Hmg E4) as [HJm Hfr].
  split; [exact HJm|]. split; [|exact Cpe].
  intros x. specialize (Hfr x). rewrite negb_involutive in Hfr. rewrite Hfr. apply Hpa1.
Qed.

Lemma ue_guardb_of_cand E s e sd oid path ot :
  (forall pp p, path_of s e sd = Some pp -> path = Some p ->
     (match ot with Some t => otype_eqb t Dir | None => true end) = true ->
     belowb (cvs E sd) pp (nps (cvs E sd) p) = false) ->
  ue_guardb E s e sd oid path ot = true.
Proof.
  intros H. unfold ue_guardb. destruct path as [p|]; [|reflexivity].
  destruct (nth_error (ents s) e) as [en|] eqn:En; [|reflexivity].
  match goal with |- (if ?c then _ else _) = _ => destruct c; [reflexivity|] end.
  destruct (match ot with Some t => t | None => s_otype (gs en sd) end) eqn:Et; try reflexivity.
  destruct (s_path (gs en sd)) as [pp|] eqn:Ep; [|reflexivity].
  apply negb_true_iff. apply (H pp p); [unfold path_of; rewrite En; exact Ep|reflexivity|].
  destruct ot as [t|]; [subst t|]; reflexivity.
Qed.

Lemma update_pres E s sd ot oid path h ex prior s' :
  env_ok E -> IdxJ s -> upd_guardb E s sd ot oid path prior = true ->
  update E s sd ot oid path h ex prior = Ok s' -> IdxJ s'.
Proof.
  intros HE HJ Hg H. rewrite update_eq in H. bind_inv2 H y E1. destruct y as [s1 ent].
  destruct (upd_phase1_spec _ _ _ _ _ _ _ _ _ HE HJ Hg E1) as [HJ1 [Hp1 Hc]].
  unfold upd_rest in H. bind_inv2 H y2 E2. destruct y2 as [s2 e]. cbv zeta in H.
  set (s3 := st_now s2 (now s2 + 1000)%N) in *.
  assert (H3: IdxJ s3 /\ forall pp p, path_of s3 e sd = Some pp -> path = Some p ->
                 (match ot with Some t => otype_eqb t Dir | None => true end) = true ->
                 belowb (cvs E sd) pp (nps (cvs E sd) p) = false).
  { destruct ent as [e0|].
    - injection E2 as <- <-. split; [apply (IdxJ_view s1); [reflexivity|exact HJ1]|].
      intros pp p Hpp. change (path_of s3 e0 sd) with (path_of s1 e0 sd) in Hpp. rewrite Hp1 in Hpp.
      apply (Hc e0 eq_refl). exact Hpp.
    - destruct ot as [t|]; [|discriminate]. unfold add_entry in E2. injection E2 as <- <-.
      pose proof (add_entry_pres s1 t HJ1) as Ha. pose proof (add_entry_fresh s1 t sd) as Hf.
      split; [exact (IdxJ_view _ _ (eq_refl _) Ha)|].
      intros pp p Hpp. unfold s3 in Hpp. unfold add_entry in Hf. simpl in Hf.
      change (path_of (st_ents s1 (ents s1 ++ [new_entry t])) (length (ents s1)) sd = Some pp) in Hpp. rewrite Hf in Hpp. discriminate. }
  destruct H3 as [HJ3 Hc3].
  eapply update_entry_pres; [exact HE|exact HJ3| |exact H]. apply ue_guardb_of_cand. exact Hc3.
Qed.

(* ------------------------------------------------------------------ every operation of the alphabet *)

Lemma apply_op_guarded_pres E s o s' :
  env_ok E -> IdxJ s -> op_guardb E s o = true -> apply_op E s o = Ok s' -> IdxJ s'.
Proof.
  intros HE HJ Hg H. destruct o; simpl in H, Hg.
  - eapply update_pres; eassumption.
  - destruct w.
    + eapply set_path_pres; eassumption.
    + eapply set_oid_pres; eassumption.
    + eapply set_changed_pres; eassumption.
    + eapply set_plain_pres; [|exact HJ|exact H]; intros y; split; reflexivity.
    + eapply set_plain_pres; [|exact HJ|exact H]; intros y; split; reflexivity.
    + eapply set_plain_pres; [|exact HJ|exact H]; intros y; split; reflexivity.
    + eapply set_plain_pres; [|exact HJ|exact H]; intros y; split; reflexivity.
    + eapply set_plain_pres; [|exact HJ|exact H]; intros y; split; reflexivity.
    + eapply set_plain_pres; [|exact HJ|exact H]; intros y; split; reflexivity.
  - eapply set_ignored_pres; eassumption.
  - eapply set_priority_pres; eassumption.
  - eapply split_pres; eassumption.
  - eapply finished_pres; eassumption.
  - discriminate.
  - eapply mark_changed_pres; eassumption.
  - eapply move_side_pres; eassumption.
  - eapply update_entry_pres; eassumption.
  - eapply set_ignored_pres; eassumption.
Qed.

(* the guard does not look at the tape *)
Lemma op_guardb_tape E s t o : op_guardb E (st_tape s t) o = op_guardb E s o.
Proof. reflexivity. Qed.

Lemma step_guarded_pres E s ot s' :
  env_ok E -> IdxJ s -> op_guardb E s (fst ot) = true -> step E s ot = Ok s' -> IdxJ s'.
Proof.
  intros HE HJ Hg H. unfold step in H. bind_inv2 H s1 E1. destruct (tape s1); [|discriminate]. injection H as <-.
  eapply apply_op_guarded_pres; [exact HE| |rewrite op_guardb_tape; exact Hg|exact E1].
  apply (IdxJ_view s); [reflexivity|exact HJ].
Qed.


(* what the extracted guard model prints is the hypothesis of the reachability theorem *)
Lemma guard_trace_all E : forall l s, guardedb E s l = forallb (N.eqb 1) (guard_trace E s l).
Proof.
  induction l as [|o l IH]; intros s; simpl; [reflexivity|].
  destruct (op_guardb E s (fst o)); simpl; [|reflexivity].
  destruct (step E s o); [apply IH|reflexivity].
Qed.

Lemma idx_trace E : forall ops s, env_ok E -> IdxJ s -> guardedb E s ops = true ->
  forall s', In (Ok s') (trace_ops E s ops) -> IdxJ s'.
Proof.
  induction ops as [|o ops IH]; intros s HE HJ Hg s' Hin; simpl in Hin; [contradiction|].
  simpl in Hg. apply andb_prop in Hg as [Hg1 Hg2].
  destruct (step E s o) as [s1|er] eqn:Es.
  - pose proof (step_guarded_pres _ _ _ _ HE HJ Hg1 Es) as HJ1.
    destruct Hin as [Hin|Hin]; [injection Hin as <-; exact HJ1|]. eapply IH; eassumption.
  - destruct Hin as [Hin|[]]. discriminate.
Qed.

Lemma idx_run E : forall ops s s', env_ok E -> IdxJ s -> guardedb E s ops = true -> run_ops E s ops = Ok s' -> IdxJ s'.
Proof.
  induction ops as [|o ops IH]; intros s s' HE HJ Hg H; simpl in H.
  - injection H as <-. exact HJ.
  - simpl in Hg. apply andb_prop in Hg as [Hg1 Hg2]. bind_inv2 H s1 E1.
    apply (IH s1); [exact HE| |exact Hg2|exact H]. eapply step_guarded_pres; eassumption.
Qed.

(* headline: every state reached from the empty state, after every operation of a guarded run *)
Lemma idx_reachable E ops s' :
  env_ok E -> guardedb E init_state ops = true -> In (Ok s') (trace_ops E init_state ops) ->
  idx_found s' /\ idx_slots s' /\ idx_unique s'.
Proof.
  intros HE Hg Hin. pose proof (idx_trace E ops init_state HE (proj1 idx_init) Hg s' Hin) as [Hf Hs].
  split; [exact Hf|]. split; [exact Hs|exact (idx_found_unique s' Hf)].
Qed.

(* the executable model's conventions (un_env) satisfy env_ok whenever they describe the code as it is *)
Lemma env_ok_wire oipf csf pf inf :
  env_ok (mkEnv oipf (fun sd => mk_conv (csf sd)) pf inf false).
Proof. split; [reflexivity|]. intros sd. simpl. apply (cv_std_ok (csf sd) false). Qed.

(* ------------------------------------------------------------------ refutations *)
(* forget_oid drops the index slots of an entry that keeps its id *)
Definition forget_preserves_full : Prop :=
  forall s sd o s', IdxJ s -> forget_oid s sd o = Ok s' -> IdxJ s'.
Definition w_forget : list (op * list titem) :=
  [ (OUpdate false (Some File) (Some w_o1) (Some w_pbx) None (Some true) None, [TSwap false]) ].
Lemma E_id_ok : env_ok E_id.
Proof. apply (env_ok_wire (fun _ => false) (fun _ => true) (fun _ => 1000%N) (fun _ _ => None)). Qed.
Lemma forget_refuted : ~ forget_preserves_full.
Proof.
  intros H.
  destruct (run_ops E_id init_state w_forget) as [s|] eqn:R; [|vm_compute in R; discriminate].
  assert (HJ: IdxJ s).
  { eapply (idx_run E_id w_forget init_state); [exact E_id_ok|exact (proj1 idx_init)|vm_compute; reflexivity|exact R]. }
  destruct (forget_oid s false w_o1) as [s'|] eqn:F.
  2:{ vm_compute in R. injection R as <-. vm_compute in F. discriminate. }
  specialize (H _ _ _ _ HJ F). vm_compute in R. injection R as <-. vm_compute in F. injection F as <-.
  destruct H as [Hf _]. destruct (Hf 0 false w_o1 eq_refl) as [Ha _]. vm_compute in Ha. discriminate.
Qed.

(* SyncEntry.__setitem__ without the guard: on a side that takes its ids from the provider, _update_kids (run
   by the "path" announcement) re-keys a child of the destination folder with the id the provider reports for
   the child's new path; when that is the id being moved, the child takes it over (the destination is ousted),
   and the last line of __setitem__ writes the id back into the destination: two entries carry the id, the
   destination is not found under it.  Replayed on the real SyncState: corpus/C11/w5_setitem_rekeyed_child.json *)
Definition setitem_preserves_full : Prop :=
  forall E s dst src sd s', env_ok E -> IdxJ s -> move_side E s dst src sd = Ok s' -> IdxJ s'.
Definition w_sq : str := [47;113]%N.
Definition w_sqk : str := [47;113;47;107]%N.
Definition w_sn : str := [47;110]%N.
Definition w_snk : str := [47;110;47;107]%N.
Definition w_rD : str := [114;68]%N.
(* LOCAL: oid_is_path with info_path(p).oid = p; REMOTE: opaque ids *)
Definition E_pathids : env :=
  mkEnv (fun sd => negb sd) (fun _ => mk_conv true) (fun _ => 1000%N) (fun sd => mk_info (negb sd) []) false.
(* folder /q (also known remotely), its child /q/k, and an entry whose local id '/n/k' and path '/n' are out of step *)
Definition w_setitem_pre : list (op * list titem) :=
  [ (OUpdate false (Some Dir) (Some w_sq) (Some w_sq) None (Some true) None, [TSwap false]);
    (OSet 0 true (FOid (Some w_rD)), [TSwap false]);
    (OUpdate false (Some File) (Some w_sqk) (Some w_sqk) None (Some true) None, [TSwap false]);
    (OUpdate false (Some Dir) (Some w_snk) (Some w_sn) None (Some true) None, [TSwap false]) ].
Definition w_setitem_tape : list titem := [TSwap true; TSwap true; TOrder [0;1]; TSwap true; TSwap true].
Lemma E_pathids_ok : env_ok E_pathids.
Proof. apply (env_ok_wire (fun sd => negb sd) (fun _ => true) (fun _ => 1000%N) (fun sd => mk_info (negb sd) [])). Qed.
Lemma setitem_refuted : ~ setitem_preserves_full.
Proof.
  intros H.
  destruct (run_ops E_pathids init_state w_setitem_pre) as [s|] eqn:R; [|vm_compute in R; discriminate].
  assert (HJ: IdxJ (st_tape s w_setitem_tape)).
  { apply (IdxJ_view s); [reflexivity|].
    eapply (idx_run E_pathids w_setitem_pre init_state); [exact E_pathids_ok|exact (proj1 idx_init)|vm_compute; reflexivity|exact R]. }
  destruct (move_side E_pathids (st_tape s w_setitem_tape) 0 2 false) as [s'|] eqn:M.
  2:{ vm_compute in R. injection R as <-. vm_compute in M. discriminate. }
  specialize (H _ _ _ _ _ _ E_pathids_ok HJ M). vm_compute in R. injection R as <-. vm_compute in M. injection M as <-.
  destruct H as [Hf _]. destruct (Hf 0 false w_snk eq_refl) as [Ha _]. vm_compute in Ha. discriminate.
Qed.
