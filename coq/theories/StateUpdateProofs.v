(* StateUpdateProofs.v — event application keeps the index invariant:
   SyncState.update_entry and SyncState.update (all branches: prior_oid / rename detection, reuse of a
   discarded entry, merge of two entries through SyncEntry.__setitem__, stale path lookups, new entry),
   SyncEntry.__setitem__ (move a side), SyncState.split, and every sequence of operations of the
   modelled alphabet from the empty state. *)
From Coq Require Import NArith List Bool Arith Lia.
From CS Require Import Sx Str PathModel PathLaws StateModel StateProofs StatePathProofs StateFolderProofs.
Import ListNotations.

Ltac bind_inv' H :=
  match type of H with
  | bind ?r _ = Ok _ => let x := fresh "x" in let E := fresh "E" in destruct r as [x|] eqn:E; cbn [bind] in H; [|discriminate]
  end.

(* ------------------------------------------------------------------ what the invariant can see of a state *)
Definition obs_eq (s s' : state) : Prop :=
  (forall e sd, oid_of s' e sd = oid_of s e sd) /\ (forall e sd, path_of s' e sd = path_of s e sd) /\
  (forall sd k, al_get k (oids s' sd) = al_get k (oids s sd)) /\
  (forall sd p o, slot_get s' sd p o = slot_get s sd p o).

Lemma IdxJ_obs s s' : obs_eq s s' -> IdxJ s -> IdxJ s'.
Proof.
  intros [Ho [Hp [HO HP]]] [Hf [Hso Hsp]]. split; [|split].
  - intros e sd o H. rewrite Ho in H. apply Hf in H as [H1 H2]. split; [rewrite HO; exact H1|].
    intros p Hp1 Hp2. rewrite HP. apply H2; [rewrite <- Hp; exact Hp1|exact Hp2].
  - intros sd o e H. rewrite HO in H. rewrite Ho. apply Hso. exact H.
  - intros sd p o e H. rewrite HP in H. rewrite Ho, Hp. apply Hsp. exact H.
Qed.
Lemma obs_eq_refl s : obs_eq s s.
Proof. repeat split. Qed.
Lemma obs_eq_sym a b : obs_eq a b -> obs_eq b a.
Proof. intros [A [B [C D]]]. split; [|split; [|split]]; intros; symmetry; [apply A|apply B|apply C|apply D]. Qed.
Lemma obs_eq_trans a b c : obs_eq a b -> obs_eq b c -> obs_eq a c.
Proof.
  intros [A1 [A2 [A3 A4]]] [B1 [B2 [B3 B4]]]. split; [|split; [|split]]; intros.
  - rewrite B1. apply A1.
  - rewrite B2. apply A2.
  - rewrite B3. apply A3.
  - rewrite B4. apply A4.
Qed.
Lemma iview_obs s s' : iview s' = iview s -> obs_eq s s'.
Proof.
  intros H. apply iview_eq in H as [He [Ho Hp]]. split; [|split; [|split]]; intros.
  - apply (proj1 (He e sd)).
  - apply (proj2 (He e sd)).
  - rewrite Ho. reflexivity.
  - apply slot_get_paths. apply Hp.
Qed.

(* ------------------------------------------------------------------ a fresh entry *)
Lemma nth_error_snoc {T} (l : list T) x e :
  nth_error (l ++ [x]) e = if Nat.eqb e (length l) then Some x else nth_error l e.
Proof.
  destruct (Nat.eqb_spec e (length l)) as [->|Hn].
  - rewrite nth_error_app2 by lia. rewrite Nat.sub_diag. reflexivity.
  - destruct (Nat.lt_ge_cases e (length l)) as [Hl|Hl].
    + apply nth_error_app1. exact Hl.
    + rewrite nth_error_app2 by lia. destruct (e - length l) as [|n] eqn:En; [lia|]. simpl.
      destruct n; simpl; symmetry; apply nth_error_None; lia.
Qed.

Lemma add_entry_obs s t : obs_eq s (fst (add_entry s t)).
Proof.
  unfold add_entry. simpl. split; [|split; [|split]]; intros; try reflexivity.
  - unfold oid_of. simpl. rewrite nth_error_snoc. destruct (Nat.eqb_spec e (length (ents s))) as [->|]; [|reflexivity].
    assert (Hn: nth_error (ents s) (length (ents s)) = None) by (apply nth_error_None; lia). rewrite Hn. destruct sd; reflexivity.
  - unfold path_of. simpl. rewrite nth_error_snoc. destruct (Nat.eqb_spec e (length (ents s))) as [->|]; [|reflexivity].
    assert (Hn: nth_error (ents s) (length (ents s)) = None) by (apply nth_error_None; lia). rewrite Hn. destruct sd; reflexivity.
Qed.
Lemma add_entry_pres s t : IdxJ s -> IdxJ (fst (add_entry s t)).
Proof. apply IdxJ_obs. apply add_entry_obs. Qed.
Lemma add_entry_fresh s t sd : path_of (fst (add_entry s t)) (snd (add_entry s t)) sd = None.
Proof.
  unfold add_entry, path_of. simpl. rewrite nth_error_snoc, Nat.eqb_refl. destruct sd; reflexivity.
Qed.
Lemma add_entry_old s t e sd : e <> length (ents s) ->
  path_of (fst (add_entry s t)) e sd = path_of s e sd /\ otype_of (fst (add_entry s t)) e sd = otype_of s e sd.
Proof.
  intros Hn. unfold add_entry, path_of, otype_of. simpl. rewrite nth_error_snoc.
  destruct (Nat.eqb_spec e (length (ents s))); [contradiction|split; reflexivity].
Qed.

(* ------------------------------------------------------------------ plain field writes *)
Lemma set_plain_view s e sd f s' :
  (forall x, s_oid (f x) = s_oid x /\ s_path (f x) = s_path x) -> set_plain s e sd f = Ok s' -> iview s' = iview s.
Proof.
  intros Hf H. unfold set_plain in H. bind_inv' H. injection H as <-. rewrite iview_raw_side; [reflexivity|exact Hf].
Qed.
Lemma set_plain_otype s e sd t s' : set_plain s e sd (fun y => w_otype y t) = Ok s' -> otype_of s' e sd = Some t.
Proof.
  intros H. unfold set_plain in H. bind_inv' H. injection H as <-. apply get_ent_ok in E.
  unfold otype_of, raw_side. simpl. rewrite E. simpl. rewrite nth_list_upd, Nat.eqb_refl, E, gs_ss, bool_eqb_refl. reflexivity.
Qed.

(* ------------------------------------------------------------------ SyncState.update_entry *)
(* the guard of the path assignment inside update_entry, read off the state before the call:
   (the entry is replaced by a fresh one) or not (a folder after the call, going strictly below its own path) *)
Definition ue_guardb (E : env) (s : state) (e : eid) (sd : bool) (oid path : option str) (ot : option otype) : bool :=
  match path, nth_error (ents s) e with
  | Some p, Some en =>
    if (match oid, ot with Some _, Some _ => is_discarded (e_ign en) && oip E sd && tstr path | _, _ => false end)%bool then true
    else match (match ot with Some t => t | None => s_otype (gs en sd) end), s_path (gs en sd) with
         | Dir, Some pp => negb (belowb (cvs E sd) pp (nps (cvs E sd) p))
         | _, _ => true
         end
  | _, _ => true
  end.

Lemma otype_eqb_eq a b : otype_eqb a b = true -> a = b.
Proof. destruct a, b; simpl; intros H; try discriminate; reflexivity. Qed.

Lemma update_entry_pres E s e sd oid path h ex changed ot s' :
  env_ok E -> IdxJ s -> ue_guardb E s e sd oid path ot = true ->
  update_entry E s e sd oid path h ex changed ot = Ok s' -> IdxJ s'.
Proof.
  intros HE HJ Hg H. unfold update_entry in H.
  bind_inv' H. rename x into en0. pose proof (get_ent_ok _ _ _ E0) as Hen0.
  bind_inv' H. destruct x as [s1 e1]. cbv beta iota in H.
  (* the id *)
  assert (C1: IdxJ s1 /\
              ((e1 = e /\ pview s1 = pview s) \/
               (path_of s1 e1 sd = None /\
                (match oid, ot with Some _, Some _ => is_discarded (e_ign en0) && oip E sd && tstr path | _, _ => false end)%bool = true))).
  { destruct oid as [o|]; [|injection E1 as <- <-; split; [exact HJ|left; split; reflexivity]].
    destruct (is_discarded (e_ign en0) && oip E sd && tstr path)%bool eqn:Ec.
    - destruct ot as [t|].
      + destruct (add_entry s t) as [s0 e0] eqn:Ea. bind_inv' E1. injection E1 as <- <-.
        assert (H0: IdxJ s0) by (pose proof (add_entry_pres s t HJ) as Hx; rewrite Ea in Hx; exact Hx).
        split; [eapply set_oid_pres; eassumption|]. right. split; [|reflexivity].
        unfold set_oid, run_cmd in E2. apply exec_oid_pview in E2. rewrite (proj1 (pview_eq _ _ E2 e0 sd)).
        pose proof (add_entry_fresh s t sd) as Hx. rewrite Ea in Hx. exact Hx.
      + bind_inv' E1. injection E1 as <- <-. split; [eapply set_oid_pres; eassumption|]. left. split; [reflexivity|].
        unfold set_oid, run_cmd in E2. eapply exec_oid_pview; exact E2.
    - bind_inv' E1. injection E1 as <- <-. split; [eapply set_oid_pres; eassumption|]. left. split; [reflexivity|].
      unfold set_oid, run_cmd in E2. eapply exec_oid_pview; exact E2. }
  destruct C1 as [HJ1 C1].
  bind_inv' H. rename x into en1. bind_inv' H. rename x into s2.
  (* the object type *)
  assert (C2: IdxJ s2 /\ (forall x sd', path_of s2 x sd' = path_of s1 x sd') /\
              otype_of s2 e1 sd = match ot with Some t => Some t | None => otype_of s1 e1 sd end).
  { apply get_ent_ok in E2.
    assert (Hcur: otype_of s1 e1 sd = Some (s_otype (gs en1 sd))) by (unfold otype_of; rewrite E2; reflexivity).
    destruct ot as [t|]; [|injection E3 as <-; split; [exact HJ1|split; reflexivity]].
    destruct (otype_eqb t (s_otype (gs en1 sd))) eqn:Et.
    - injection E3 as <-. split; [exact HJ1|]. split; [reflexivity|]. apply otype_eqb_eq in Et. rewrite Hcur, Et. reflexivity.
    - assert (Hv: iview s2 = iview s1) by (eapply set_plain_view; [|exact E3]; intros y; split; reflexivity).
      split; [apply (IdxJ_view s1); [symmetry; exact Hv|exact HJ1]|]. split.
      + intros x sd'. apply iview_eq in Hv as [He _]. apply (proj2 (He x sd')).
      + eapply set_plain_otype; exact E3. }
  destruct C2 as [HJ2 [Hp2 Ho2]].
  destruct (match ot with Some NotKnown => match ex with Some true => true | _ => false end | _ => false end); [discriminate|].
  bind_inv' H. rename x into s3.
  (* the path *)
  assert (HJ3: IdxJ s3).
  { destruct path as [p|]; [|injection E4 as <-; exact HJ2].
    bind_inv' E4. rename x into en2. apply get_ent_ok in E5.
    destruct (ostr_eqb (Some (nps (cvs E sd) p)) (s_path (gs en2 sd))); [injection E4 as <-; exact HJ2|].
    eapply set_path_pres; [exact HE|exact HJ2| |exact E4].
    unfold path_guardb. rewrite E5.
    assert (Hpa: path_of s2 e1 sd = s_path (gs en2 sd)) by (unfold path_of; rewrite E5; reflexivity).
    assert (Hot: otype_of s2 e1 sd = Some (s_otype (gs en2 sd))) by (unfold otype_of; rewrite E5; reflexivity).
    destruct C1 as [[-> Hpv]|[Hnew Hc]].
    - destruct (pview_eq _ _ Hpv e sd) as [Hq1 Hq2].
      unfold ue_guardb in Hg. rewrite Hen0 in Hg.
      rewrite <- Hpa, Hp2, Hq1. unfold path_of at 1. rewrite Hen0.
      assert (Hty: s_otype (gs en2 sd) = match ot with Some t => t | None => s_otype (gs en0 sd) end).
      { rewrite Hot in Ho2. destruct ot as [t|]; [injection Ho2 as ->; reflexivity|].
        rewrite Hq2 in Ho2. unfold otype_of in Ho2. rewrite Hen0 in Ho2. injection Ho2 as ->. reflexivity. }
      rewrite Hty.
      destruct (match oid, ot with Some _, Some _ => is_discarded (e_ign en0) && oip E sd && tstr (Some p) | _, _ => false end)%bool eqn:Ec.
      + (* the guard did not look: then the entry is not replaced only if ... it is: contradiction is not needed, the branch of C1 decides *)
        destruct oid as [o|]; [|discriminate]. destruct ot as [t|]; [|discriminate].
        (* the entry would have been replaced: e1 is the fresh serial, not e *)
        exfalso. rewrite Ec in E1. destruct (add_entry s t) as [s0 e0] eqn:Ea. bind_inv' E1. injection E1 as _ He.
        unfold add_entry in Ea. injection Ea as _ <-. assert (Hlt: e < length (ents s)) by (apply nth_error_Some; rewrite Hen0; discriminate). lia.
      + exact Hg.
    - rewrite <- Hpa, Hp2, Hnew. destruct (s_otype (gs en2 sd)); reflexivity. }
  bind_inv' H. rename x into en3. bind_inv' H. rename x into s4. bind_inv' H. rename x into s5.
  assert (HJ4: IdxJ s4).
  { destruct h as [hv|]; [|injection E6 as <-; exact HJ3].
    destruct (oN_eqb (Some hv) (s_hash (gs en3 sd))); [injection E6 as <-; exact HJ3|].
    eapply set_plain_pres; [|exact HJ3|exact E6]. intros y; split; reflexivity. }
  assert (HJ5: IdxJ s5).
  { destruct (s_ex (gs en3 sd)); try (eapply set_plain_pres; [|exact HJ4|exact E7]; intros y; split; reflexivity).
    destruct ex as [[|]|]; eapply set_plain_pres; try exact HJ4; try exact E7; intros y; split; reflexivity. }
  destruct changed; [|injection H as <-; exact HJ5].
  bind_inv' H. destruct (tstr (s_path (gs x sd)) || tstr (s_oid (gs x sd)))%bool; [|discriminate].
  eapply mark_changed_pres; eassumption.
Qed.

(* ------------------------------------------------------------------ pieces of SyncEntry.__setitem__ *)
(* the intercepted write is the index update followed by the field write *)
Lemma exec_oid_fin E f e sd v s :
  exec E f (COid true e sd v) s = (s' <- exec E f (COid false e sd v) s ;; Ok (raw_side s' e sd (fun y => w_oid y v))).
Proof.
  destruct f as [|f]; [reflexivity|]. rewrite !exec_oid_eq.
  destruct (get_ent s e) as [en|]; [|reflexivity]. cbn [bind].
  destruct (oid_loop (exec E f) e sd (s_oid (gs en sd)) v s) as [s1|]; [|reflexivity]. cbn [bind].
  unfold oid_finish. destruct (get_ent s1 e); reflexivity.
Qed.

Lemma obs_eq_raw_same s e sd f :
  (forall en, nth_error (ents s) e = Some en ->
     s_oid (f (gs en sd)) = s_oid (gs en sd) /\ s_path (f (gs en sd)) = s_path (gs en sd)) ->
  obs_eq s (raw_side s e sd f).
Proof.
  intros Hf. split; [|split; [|split]]; intros.
  - rewrite oid_of_raw_side. destruct (Nat.eqb_spec e0 e) as [->|]; simpl; [|reflexivity].
    destruct (Bool.eqb_spec sd0 sd) as [->|]; [|reflexivity].
    unfold oid_of. destruct (nth_error (ents s) e) as [en|] eqn:En; [|reflexivity]. apply (Hf en eq_refl).
  - rewrite path_of_raw_side. destruct (Nat.eqb_spec e0 e) as [->|]; simpl; [|reflexivity].
    destruct (Bool.eqb_spec sd0 sd) as [->|]; [|reflexivity].
    unfold path_of. destruct (nth_error (ents s) e) as [en|] eqn:En; [|reflexivity]. apply (Hf en eq_refl).
  - rewrite oids_raw_side. reflexivity.
  - apply slot_get_raw_side.
Qed.

(* updated(side, "oid", o) for an id: the field is written by _change_oid itself *)
Lemma exec_oid_false_some E f e sd o s s' :
  exec E f (COid false e sd (Some o)) s = Ok s' -> oid_of s' e sd = Some o.
Proof.
  intros H. destruct f as [|f]; [discriminate|]. rewrite exec_oid_eq in H. bind_inv' H. bind_inv' H.
  unfold oid_finish in H. bind_inv' H. cbv zeta in H. injection H as <-. apply get_ent_ok in E2.
  match goal with |- oid_of (dirty_add (if ?c then cs_add ?SB e else _) e) e sd = _ =>
    set (sb := SB); transitivity (oid_of sb e sd); [destruct c; reflexivity|] end.
  assert (Hents: ents sb = ents (raw_side x0 e sd (fun y => w_oid y (Some o)))).
  { unfold sb. destruct (s_path (gs x1 sd)) as [[|c pp]|]; [|rewrite ents_slot_set|]; apply ents_st_oids. }
  unfold oid_of at 1. rewrite Hents. fold (oid_of (raw_side x0 e sd (fun y => w_oid y (Some o))) e sd).
  rewrite oid_of_raw_side, E2, Nat.eqb_refl, bool_eqb_refl. reflexivity.
Qed.

Lemma exec_oid_false_some_pres E f e sd o s s' :
  IdxJ s -> exec E f (COid false e sd (Some o)) s = Ok s' -> IdxJ s'.
Proof.
  intros HJ H. pose proof (exec_oid_false_some _ _ _ _ _ _ _ H) as Ho.
  assert (Ht: exec E f (COid true e sd (Some o)) s = Ok (raw_side s' e sd (fun y => w_oid y (Some o)))).
  { rewrite exec_oid_fin, H. reflexivity. }
  destruct f as [|f]; [discriminate|]. apply exec_oid_pres in Ht; [|exact HJ].
  assert (Hobs: obs_eq s' (raw_side s' e sd (fun y => w_oid y (Some o)))).
  { apply obs_eq_raw_same. intros en Hn. split; [|reflexivity]. simpl. unfold oid_of in Ho. rewrite Hn in Ho. symmetry. exact Ho. }
  apply (IdxJ_obs _ s' (obs_eq_sym _ _ Hobs) Ht).
Qed.

(* a path assignment to None / '' touches nothing but the entry's own slot *)
Lemma exec_path_falsy_frame E f fin k sd v s s' :
  tstr v = false -> exec E f (CPath fin k sd v) s = Ok s' ->
  (forall x sd', path_of s' x sd' = if fin && Nat.eqb x k && Bool.eqb sd' sd then v else path_of s x sd') /\
  (forall x sd', otype_of s' x sd' = otype_of s x sd') /\
  (forall x sd', oid_of s' x sd' = oid_of s x sd').
Proof.
  intros Hv H. destruct f as [|f]; [discriminate|]. rewrite exec_path_eq in H. bind_inv' H. cbv zeta in H.
  destruct (tstr v && negb (tstr (s_oid (gs x sd))))%bool; [discriminate|]. bind_inv' H. injection H as <-.
  apply get_ent_ok in E0.
  assert (He: ents x0 = ents s).
  { unfold path_main in E1. destruct (ostr_eqb (s_path (gs x sd)) v); [injection E1 as <-; reflexivity|].
    assert (Hx: x0 = match s_path (gs x sd) with
                     | Some pp => if tstr (s_path (gs x sd)) then slot_pop s sd pp (s_oid (gs x sd)) else s
                     | None => s end).
    { destruct v as [p|]; [|destruct (s_oid (gs x sd)); injection E1 as <-; reflexivity].
      destruct (s_oid (gs x sd)); [|injection E1 as <-; reflexivity]. rewrite Hv in E1. injection E1 as <-. reflexivity. }
    rewrite Hx. destruct (s_path (gs x sd)) as [pp|]; [destruct (tstr (Some pp)); [apply ents_slot_pop|]|]; reflexivity. }
  assert (Hn: nth_error (ents (dirty_add x0 k)) k = Some x) by (simpl; rewrite He; exact E0).
  destruct fin; cbn [andb].
  - split; [|split]; intros x1 sd'.
    + rewrite path_of_raw_side, Hn. simpl. destruct (Nat.eqb x1 k && Bool.eqb sd' sd)%bool; [reflexivity|].
      unfold path_of. simpl. rewrite He. reflexivity.
    + unfold otype_of, raw_side. rewrite Hn. simpl. rewrite nth_list_upd, He.
      destruct (Nat.eqb_spec x1 k) as [->|]; [|reflexivity]. rewrite E0, gs_ss.
      destruct (Bool.eqb sd' sd) eqn:Es; [apply Bool.eqb_prop in Es; subst sd'|]; reflexivity.
    + rewrite oid_of_raw_side, Hn. simpl. destruct (Nat.eqb_spec x1 k) as [->|]; simpl; [|unfold oid_of; simpl; rewrite He; reflexivity].
      destruct (Bool.eqb_spec sd' sd) as [->|]; [unfold oid_of; rewrite E0; reflexivity|unfold oid_of; simpl; rewrite He; reflexivity].
  - split; [|split]; intros x1 sd'; [unfold path_of|unfold otype_of|unfold oid_of]; simpl; rewrite He; reflexivity.
Qed.

(* the last line of __setitem__: the whole side is replaced *)
Lemma put_side_obs s e sd en val :
  nth_error (ents s) e = Some en ->
  let t := put_ent s e (ss en sd val) in
  (forall x sd', oid_of t x sd' = if Nat.eqb x e && Bool.eqb sd' sd then s_oid val else oid_of s x sd') /\
  (forall x sd', path_of t x sd' = if Nat.eqb x e && Bool.eqb sd' sd then s_path val else path_of s x sd') /\
  (forall sd' k, al_get k (oids t sd') = al_get k (oids s sd')) /\
  (forall sd' p o, slot_get t sd' p o = slot_get s sd' p o).
Proof.
  intros Hn t. split; [|split; [|split]]; intros.
  - unfold t, oid_of, put_ent. simpl. rewrite nth_list_upd, Hn.
    destruct (Nat.eqb_spec x e) as [->|]; simpl; [|reflexivity]. rewrite gs_ss.
    destruct (Bool.eqb sd' sd); [reflexivity|rewrite Hn; reflexivity].
  - unfold t, path_of, put_ent. simpl. rewrite nth_list_upd, Hn.
    destruct (Nat.eqb_spec x e) as [->|]; simpl; [|reflexivity]. rewrite gs_ss.
    destruct (Bool.eqb sd' sd); [reflexivity|rewrite Hn; reflexivity].
  - destruct sd'; reflexivity.
  - unfold slot_get. destruct sd'; reflexivity.
Qed.
