(* PropC17.v — property theorems for C17 (scheduling laws). *)
From Coq Require Import QArith List Bool.
From CS Require Import Sx SchedModel SchedProofs.
Import ListNotations.
Open Scope Q_scope.

Theorem C17_picked_is_eligible : forall et l x,
  pick_sorted et l = Some x -> In x l /\ eligible et (snd x) = true.
Proof. exact picked_is_eligible. Qed.
Print Assumptions C17_picked_is_eligible.
