(* PropC17.v — property theorems for C17 (scheduling laws) about SchedModel.v.
   Only statements closed by [exact], each followed by Print Assumptions; Examples = non-vacuity.

   Reading guide.  [pick_sorted et l] is SyncState.change() on the change set [l] listed in the set's
   iteration order, [et] = now - age as the code computes it ([earlier_than c now age], one float rounding
   [c_rnd c]); [change] (the table level) uses [threshold c now age last]: now - age, raised to _last_changed_time
   when age <= 0.  Entries are tagged with their identity (position in the table).  [key_le a b] is
   (priority a, max stamp a) <= (priority b, max stamp b) lexicographically.  Theorems about arithmetic
   take the properties of the rounding they need as hypotheses ([bump_ok], [cfg_ok], [exact]); ideal
   arithmetic ([cfg_exact]) satisfies all of them (Examples below); the IEEE-double instance [cfg_float]
   used by the extracted model satisfies [bump_ok] only for clock readings below 2^44 s
   (C17_strictly_increasing_float_refuted). *)
From Coq Require Import QArith ZArith List Bool.
From CS Require Import Sx SchedModel SchedProofs GenSched SchedGenEq.
Import ListNotations.
Open Scope Q_scope.

(* ---- the selection function ---------------------------------------------------------------- *)
(* the code's sorted(...) + first eligible  =  first-occurring minimum among the eligible entries *)
Theorem C17_sort_scan_is_first_min : forall et l, pick_sorted et l = pick_min et l.
Proof. exact pick_sorted_min. Qed.
Print Assumptions C17_sort_scan_is_first_min.

(* complete characterisation of the pick, including the tie rule (stable sort: set order decides) *)
Theorem C17_pick_spec : forall et l x,
  pick_sorted et l = Some x <->
  exists l1 l2, l = l1 ++ x :: l2 /\ eligible et (snd x) = true /\
    (forall y, In y l1 -> eligible et (snd y) = true -> key_lt (snd x) (snd y)) /\
    (forall y, In y l2 -> eligible et (snd y) = true -> key_le (snd x) (snd y)).
Proof. exact pick_spec. Qed.
Print Assumptions C17_pick_spec.

Theorem C17_picked_is_eligible : forall et l x,
  pick_sorted et l = Some x -> In x l /\ eligible et (snd x) = true.
Proof. exact picked_is_eligible. Qed.
Print Assumptions C17_picked_is_eligible.

(* lower priority value first, then the smaller max(changed) *)
Theorem C17_picked_is_min : forall et l x, pick_sorted et l = Some x ->
  forall y, In y l -> eligible et (snd y) = true -> key_le (snd x) (snd y).
Proof. exact picked_is_min. Qed.
Print Assumptions C17_picked_is_min.

Theorem C17_none_iff_nothing_eligible : forall et l,
  pick_sorted et l = None <-> forall y, In y l -> eligible et (snd y) = false.
Proof. exact pick_none. Qed.
Print Assumptions C17_none_iff_nothing_eligible.

(* eligibility = a side with a truthy stamp <= now - age, or a negative priority: the ONLY exception *)
Theorem C17_eligible_iff : forall et e,
  eligible et e = true <-> aged et (chL e) \/ aged et (chR e) \/ pri e < 0.
Proof. exact eligible_iff. Qed.
Print Assumptions C17_eligible_iff.

Theorem C17_negative_priority_immediate : forall et e, pri e < 0 -> eligible et e = true.
Proof. exact negative_priority_immediate. Qed.
Print Assumptions C17_negative_priority_immediate.

(* nothing with priority >= 0 is picked unless one of its sides carries a stamp that has aged *)
Theorem C17_not_before_aged : forall et l x, pick_sorted et l = Some x -> 0 <= pri (snd x) ->
  exists s, aged et (ch s (snd x)).
Proof. exact not_before_aged. Qed.
Print Assumptions C17_not_before_aged.

(* full strength "the LAST notification of the object has aged" (every changed side aged): false *)
Definition not_before_last_notification_full : Prop :=
  forall et l x, pick_sorted et l = Some x -> 0 <= pri (snd x) ->
    forall s, truthy (ch s (snd x)) = true -> orz (ch s (snd x)) <= et.
Theorem C17_not_before_last_notification_refuted : ~ not_before_last_notification_full.
Proof. exact every_side_aged_false. Qed.
Print Assumptions C17_not_before_last_notification_refuted.
(* partial: C17_not_before_aged (one aged side suffices) and C17_history_not_before_aged below *)

(* full strength "within a priority the entry with the OLDEST change first": false, the key is max() *)
Definition oldest_change_first_full : Prop :=
  forall et l x y, pick_sorted et l = Some x -> In y l -> eligible et (snd y) = true ->
    pri (snd y) == pri (snd x) -> oldest (snd x) <= oldest (snd y).
Theorem C17_oldest_change_first_refuted : ~ oldest_change_first_full.
Proof. exact oldest_first_false. Qed.
Print Assumptions C17_oldest_change_first_refuted.
(* partial: C17_picked_is_min ("older" = smaller max(changedL, changedR)) *)

(* ---- ageing zero (SyncState.change since /repo 5c0d808 + ed9e461:
        if age <= 0: earlier_than = max(earlier_than, _last_changed_time)) ------------------------- *)
(* list level: every entry with a truthy stamp <= now is eligible and something is picked *)
Theorem C17_age_zero_all_eligible : forall c now l,
  c_rnd c (now - 0) == now ->
  (forall x, In x l -> exists s q, ch s (snd x) = Some q /\ ~ q == 0 /\ q <= now) ->
  (forall x, In x l -> eligible (earlier_than c now 0) (snd x) = true) /\
  (l <> [] -> exists x, pick_sorted (earlier_than c now 0) l = Some x).
Proof. exact age_zero_all_eligible. Qed.
Print Assumptions C17_age_zero_all_eligible.

(* table level: with ageing <= 0 an entry is eligible as soon as one truthy stamp is <= the last change stamp
   (or <= now - age), whatever the clock reads, and then change() does return an entry *)
Theorem C17_age_zero_eligible : forall c now age s e, age <= 0 ->
  (exists sd q, ch sd e = Some q /\ ~ q == 0 /\ (q <= last s \/ q <= earlier_than c now age)) ->
  eligible (threshold c now age (last s)) e = true.
Proof. exact age_zero_eligible. Qed.
Print Assumptions C17_age_zero_eligible.

Theorem C17_age_zero_change_some : forall c now age order s j e, age <= 0 ->
  order_ok order s = true -> nth_error (ents s) j = Some e -> inset e = true ->
  (exists sd q, ch sd e = Some q /\ ~ q == 0 /\ (q <= last s \/ q <= earlier_than c now age)) ->
  exists i, change c now age order s = Ok (Some i).
Proof. exact age_zero_change_some. Qed.
Print Assumptions C17_age_zero_change_some.

(* history level: a stamp written by mark_changed (= the value _last_changed_time took) stays <= the last
   change stamp for ever, so until it is punted or overwritten its entry is eligible at ageing <= 0 for EVERY
   clock reading: same tick as other notifications, clock gone backwards *)
Theorem C17_age_zero_marked_eligible : forall c sd t i s0 s1 ops s2 now age e2, bump_ok c -> age <= 0 ->
  mark_changed c sd t i s0 = Ok s1 -> steps c ops s1 = Ok s2 ->
  nth_error (ents s2) i = Some e2 -> ch sd e2 = Some (last s1) -> ~ last s1 == 0 ->
  eligible (threshold c now age (last s2)) e2 = true.
Proof. exact age_zero_marked_eligible. Qed.
Print Assumptions C17_age_zero_marked_eligible.

(* the same-tick history (corpus/C17/age_zero_same_tick.json): the pending second change was NOT picked by
   the pre-5c0d808 variant [change_v0] (threshold = now - age) and IS picked by the code now *)
Theorem C17_same_tick_second_change_old_refuted_new_picked :
  exists s, steps (cfg_exact (1 # 4) (1 # 4)) same_tick_history {| ents := []; last := 1 |} = Ok s /\
    member s 1 = true /\
    change_v0 (cfg_exact (1 # 4) (1 # 4)) 5 0 [1%nat] s = Ok None /\
    change (cfg_exact (1 # 4) (1 # 4)) 5 0 [1%nat] s = Ok (Some 1%nat).
Proof. exact same_tick_v0_and_now. Qed.
Print Assumptions C17_same_tick_second_change_old_refuted_new_picked.

(* what stays false BY DESIGN: "every pending change" without the stamp bound -- a punted entry's stamps are
   shifted punt_secs ahead of clock and last change stamp (that is the bounded deferral of
   C17_punt_bounded_delay); witness: create, notify at 5, punt, change(0) at 5 *)
Definition age_zero_every_pending_change_eligible_full : Prop :=
  forall c l0 ops s now order, cfg_ok c -> exact c ->
    steps c ops {| ents := []; last := l0 |} = Ok s -> order_ok order s = true ->
    forall j e, nth_error (ents s) j = Some e -> inset e = true ->
      (exists sd, truthy (ch sd e) = true) ->
      eligible (threshold c now 0 (last s)) e = true.
Theorem C17_age_zero_every_pending_change_eligible_refuted : ~ age_zero_every_pending_change_eligible_full.
Proof. exact age_zero_every_pending_false. Qed.
Print Assumptions C17_age_zero_every_pending_change_eligible_refuted.
(* partial: C17_age_zero_eligible / C17_age_zero_marked_eligible *)

(* ---- change stamps --------------------------------------------------------------------------- *)
(* any two notifications of a history get strictly increasing stamps, each >= its clock reading,
   whatever the clock returns (equal readings, readings going backwards) *)
Theorem C17_change_times_strictly_increase : forall c ops i sd t j sd' t' s0 s1 s2 s3, bump_ok c ->
  mark_changed c sd t i s0 = Ok s1 -> steps c ops s1 = Ok s2 -> mark_changed c sd' t' j s2 = Ok s3 ->
  exists e1 e2 m1 m2,
    nth_error (ents s1) i = Some e1 /\ ch sd e1 = Some m1 /\
    nth_error (ents s3) j = Some e2 /\ ch sd' e2 = Some m2 /\
    m1 < m2 /\ t <= m1 /\ t' <= m2.
Proof. exact change_times_strictly_increase. Qed.
Print Assumptions C17_change_times_strictly_increase.

Example bump_ok_ideal : bump_ok (cfg_exact (1 # 4) (1 # 2)).
Proof. exact (bump_ok_exact (1 # 4) (1 # 2)). Qed.

(* for IEEE doubles the hypothesis fails at clock reading 2^53 (last + 0.001 == last) *)
Theorem C17_strictly_increasing_float_refuted : ~ bump_ok (cfg_float 0 0).
Proof. exact bump_float_false. Qed.
Print Assumptions C17_strictly_increasing_float_refuted.

(* ---- deferral (punt): bounded delay, no starvation ------------------------------------------- *)
Theorem C17_punt_bounded_delay : forall c k e s now age, exact c -> 0 <= c_pL c -> 0 <= c_pR c ->
  healthy e -> 0 <= pri e -> truthy (ch s e) = true ->
  orz (ch s e) + inject_Z (Z.of_nat k) * c_punt c s + age <= now ->
  exists e', punts c k e = Ok e' /\ pri e' == pri e + inject_Z (Z.of_nat k) /\
    orz (ch s e') == orz (ch s e) + inject_Z (Z.of_nat k) * c_punt c s /\
    eligible (earlier_than c now age) e' = true.
Proof. exact punt_bounded_delay. Qed.
Print Assumptions C17_punt_bounded_delay.

(* an entry punted k times never goes before an eligible entry whose priority value is below p0 + k *)
Theorem C17_no_starvation : forall c k e e' et l i y, exact c -> 0 <= c_pL c -> 0 <= c_pR c ->
  healthy e -> 0 <= pri e -> punts c k e = Ok e' ->
  In (i, e') l -> In y l -> eligible et (snd y) = true ->
  pri (snd y) < pri e + inject_Z (Z.of_nat k) ->
  pick_sorted et l <> Some (i, e').
Proof. exact no_starvation. Qed.
Print Assumptions C17_no_starvation.

Theorem C17_smaller_priority_first : forall et l x y, pick_sorted et l = Some x ->
  In y l -> eligible et (snd y) = true -> pri (snd y) < pri (snd x) -> False.
Proof. exact smaller_priority_first. Qed.
Print Assumptions C17_smaller_priority_first.

(* ... and conversely it IS picked once it is eligible and nothing eligible has a key <= its own *)
Theorem C17_picked_when_smallest : forall et l x, In x l -> eligible et (snd x) = true ->
  (forall y, In y l -> y <> x -> eligible et (snd y) = true -> key_lt (snd x) (snd y)) ->
  NoDup l -> pick_sorted et l = Some x.
Proof. exact picked_when_smallest. Qed.
Print Assumptions C17_picked_when_smallest.

(* a punt that leaves the priority <= 0 does not delay: stamps untouched *)
Theorem C17_punt_nonpositive_no_delay : forall c e, exact c -> pri e + 1 <= 0 ->
  punt c e = Ok (with_pri (pri e + 1) e).
Proof. exact punt_nonpositive. Qed.
Print Assumptions C17_punt_nonpositive_no_delay.

Example healthy_example : healthy (mk 0 (Some 10) None) /\ exact (cfg_exact (1 # 4) (1 # 2)).
Proof. split; [intros [] H; simpl in *; [split; [reflexivity|reflexivity]|discriminate]|exact (exact_cfg_exact _ _)]. Qed.

(* ---- the table and histories ----------------------------------------------------------------- *)
(* change() on the table: the pick is a member, eligible, minimal among ALL eligible members, for every
   iteration order of the set *)
Theorem C17_change_min : forall c now age order s i, change c now age order s = Ok (Some i) ->
  exists e, nth_error (ents s) i = Some e /\ inset e = true /\
    eligible (threshold c now age (last s)) e = true /\
    forall j e', nth_error (ents s) j = Some e' -> inset e' = true ->
      eligible (threshold c now age (last s)) e' = true -> key_le e e'.
Proof. exact change_min. Qed.
Print Assumptions C17_change_min.

Theorem C17_change_none : forall c now age order s, change c now age order s = Ok None ->
  forall j e', nth_error (ents s) j = Some e' -> inset e' = true ->
    eligible (threshold c now age (last s)) e' = false.
Proof. exact change_none. Qed.
Print Assumptions C17_change_none.

(* After ANY history of update/mark_changed/punt/priority assignment/finished/set_aged/set_force_sync/raw
   writes/oid changes: a pick with priority >= 0 has a side whose stamp has aged and whose originating
   notification (ghost nt) is >= the ageing interval old.  Exceptions, exactly: negative priority, and sides
   whose stamp was last written by set_aged or a raw assignment (nt = None).  set_force_sync is NOT an
   exception (it re-stamps with the current clock). *)
Theorem C17_history_not_before_aged : forall c l0 ops s now age order i, cfg_ok c ->
  steps c ops {| ents := []; last := l0 |} = Ok s ->
  change c now age order s = Ok (Some i) ->
  exists e, nth_error (ents s) i = Some e /\ inset e = true /\
    (pri e < 0 \/
     exists sd, aged (threshold c now age (last s)) (ch sd e) /\
                forall t, nt sd e = Some t -> t <= threshold c now age (last s)).
Proof. exact history_not_before_aged. Qed.
Print Assumptions C17_history_not_before_aged.

(* a positive ageing interval is measured on the clock itself (threshold = now - age): after ANY history a pick
   with priority >= 0 has a side whose stamp AND originating notification are at least `age` old on the clock,
   even when change stamps run ahead of the clock (several notifications in one tick, clock set back) *)
Theorem C17_history_not_before_aged_clock : forall c l0 ops s now age order i, cfg_ok c -> 0 < age ->
  steps c ops {| ents := []; last := l0 |} = Ok s ->
  change c now age order s = Ok (Some i) ->
  exists e, nth_error (ents s) i = Some e /\ inset e = true /\
    (pri e < 0 \/
     exists sd, aged (earlier_than c now age) (ch sd e) /\
                forall t, nt sd e = Some t -> t <= earlier_than c now age).
Proof. exact history_not_before_aged_clock. Qed.
Print Assumptions C17_history_not_before_aged_clock.

Theorem C17_threshold_positive_age_is_clock : forall c now age lst, 0 < age ->
  threshold c now age lst = earlier_than c now age.
Proof. exact threshold_pos. Qed.
Print Assumptions C17_threshold_positive_age_is_clock.

Example ahead_of_clock :
  exists s, steps (cfg_exact (1 # 4) (1 # 4)) ahead_history {| ents := []; last := 1 |} = Ok s /\
    last s = 5 + (1 # 1000) /\
    change (cfg_exact (1 # 4) (1 # 4)) 5 (1 # 1000) [0%nat; 1%nat] s = Ok None /\
    change (cfg_exact (1 # 4) (1 # 4)) 5 0 [0%nat; 1%nat] s = Ok (Some 0%nat).
Proof. exact ahead_of_clock_example. Qed.

Example cfg_ok_ideal : cfg_ok (cfg_exact (1 # 4) (1 # 2)).
Proof. apply cfg_ok_exact; discriminate. Qed.
Example history_example :
  exists s, steps (cfg_exact (1 # 4) (1 # 2)) demo_history {| ents := []; last := 1 |} = Ok s /\
    change (cfg_exact (1 # 4) (1 # 2)) 13 2 [0%nat; 1%nat] s = Ok (Some 1%nat) /\
    change (cfg_exact (1 # 4) (1 # 2)) 13 3 [1%nat; 0%nat] s = Ok (Some 1%nat).
Proof. exact demo_history_runs. Qed.

(* ---- second tie: the formulas regenerated from the CURRENT source are the model's ------------- *)
Theorem C17_gen_eligible_is_model : forall et e, gen_eligible et e = eligible et e.
Proof. exact gen_eligible_eq. Qed.
Print Assumptions C17_gen_eligible_is_model.

Theorem C17_gen_sort_key_is_model : forall a b, gen_key_ltb a b = key_ltb a b.
Proof. exact gen_key_ltb_eq. Qed.
Print Assumptions C17_gen_sort_key_is_model.

Theorem C17_gen_threshold_is_model : forall et age last_changed,
  gen_threshold_adj et age last_changed = threshold_adj et age last_changed.
Proof. exact gen_threshold_adj_eq. Qed.
Print Assumptions C17_gen_threshold_is_model.
