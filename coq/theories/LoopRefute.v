(* LoopRefute.v — witnesses: the full-strength statements that are FALSE of the faithful model. *)
From Coq Require Import QArith Qminmax List Bool NArith.
From CS Require Import Sx LoopModel LoopProofs LoopInv LoopThms LoopThms2.
Import ListNotations.
Open Scope Q_scope.

Definition p0 : params := {| p_min := 1 # 100; p_max := 1; p_mult := 2; p_sleep := 1 # 1000 |}.
Definition lo : label := LLoop ODid false.
Fixpoint rep (n : nat) (l : label) : list label := match n with O => [] | S m => l :: rep m l end.

(* ---- backoff: mult < 1 *)
Definition backoff_formula_any_mult : Prop := forall p os,
  0 < p_min p -> p_min p <= p_max p -> os <> [] -> forallb is_failure os = true ->
  backoff_after p 0 os == Qmin (p_max p) (p_min p * qpow (p_mult p) (length os - 1)).
Lemma backoff_formula_any_mult_refuted : ~ backoff_formula_any_mult.
Proof.
  intro H. specialize (H {| p_min := 1; p_max := 8; p_mult := 1 # 2; p_sleep := 0 |} [OExc; OExc]).
  assert (E : backoff_after {| p_min := 1; p_max := 8; p_mult := 1 # 2; p_sleep := 0 |} 0 [OExc; OExc] == 1)
    by (vm_compute; reflexivity).
  rewrite E in H. cbn in H.
  assert (C : ~ 1 == Qmin 8 (1 * ((1 # 2) * 1))).
  { destruct (Q.min_spec 8 (1 * ((1 # 2) * 1))) as [[A B]|[A B]]; rewrite B; intro X; vm_compute in X; discriminate. }
  apply C. apply H; try reflexivity; discriminate.
Qed.

(* ---- P-4: stop(forever=True) on a running service, done() never runs.
   start(); the loop runs one do(); stop(True): __stopping := True, wake(); the loop sees __stopping, runs its
   finally block and tests __shutdown (still False); stop: __shutdown := True, join returns. *)
Definition w_lost_cleanup : list label :=
  [LCall CStart; LCont; LCont; LCont] ++ rep 6 lo ++
  [LCall (CStop true true); LCont; LCont] ++ rep 5 lo ++ [LCont; LCont; LCont].

Definition cleanup_exactly_once_stmt (v : variant) : Prop := forall p s,
  reach v p s -> cp s = CIdle (RStopped true true) -> g_live s = true -> g_unfin s = false ->
  count_done (log s) = 1%nat.

Lemma cleanup_exactly_once_refuted : ~ cleanup_exactly_once_stmt faithful.
Proof.
  intro H. specialize (H p0 (exec faithful p0 init w_lost_cleanup) (ex_intro _ w_lost_cleanup eq_refl)).
  assert (E : count_done (log (exec faithful p0 init w_lost_cleanup)) = 0%nat) by (vm_compute; reflexivity).
  rewrite E in H. assert (X : 0%nat = 1%nat) by (apply H; vm_compute; reflexivity). discriminate.
Qed.

Lemma cleanup_exactly_once_swapped_stmt : forall v, v_swap v = true -> cleanup_exactly_once_stmt v.
Proof.
  intros v Hv p s Hr Hc Hl Hu. apply (cleanup_exactly_once_swapped v p s Hv Hr Hl Hu).
  apply (inv1 _ _ (Inv_reach _ _ _ Hr)). rewrite Hc. reflexivity.
Qed.

(* ---- stop(forever=False) after a final stop makes the service startable again; done() can run twice *)
Definition w_restart : list label :=
  [LCall CStart] ++ rep 4 LCont ++ [LCall (CStop true true)] ++ rep 3 LCont ++ rep 12 lo ++ rep 3 LCont ++
  [LCall (CStop false true)] ++ rep 6 LCont ++ [LCall CStart] ++ rep 6 LCont.
Definition w_twice : list label :=
  w_restart ++ rep 8 lo ++ [LCall (CStop true true)] ++ rep 3 LCont ++ rep 12 lo ++ rep 3 LCont.

Definition restart_refused_stmt (v : variant) : Prop := forall p s ls,
  reach v p s -> final_ret (cp s) = true -> started_ok (cp (exec v p s ls)) = false.

Definition w_restart_1 : list label :=
  [LCall CStart] ++ rep 4 LCont ++ [LCall (CStop true true)] ++ rep 3 LCont ++ rep 12 lo ++ rep 3 LCont.
Definition w_restart_2 : list label :=
  [LCall (CStop false true)] ++ rep 6 LCont ++ [LCall CStart] ++ rep 6 LCont.

Lemma restart_refused_refuted : ~ restart_refused_stmt faithful.
Proof.
  intro H. specialize (H p0 (exec faithful p0 init w_restart_1) w_restart_2 (ex_intro _ w_restart_1 eq_refl)).
  assert (E : started_ok (cp (exec faithful p0 (exec faithful p0 init w_restart_1) w_restart_2)) = true)
    by (vm_compute; reflexivity).
  rewrite E in H. assert (X : true = false) by (apply H; vm_compute; reflexivity). discriminate.
Qed.

Definition cleanup_at_most_once_stmt (v : variant) : Prop := forall p s,
  reach v p s -> (count_done (log s) <= 1)%nat.

Lemma cleanup_at_most_once_refuted : ~ cleanup_at_most_once_stmt faithful.
Proof.
  intro H. specialize (H p0 (exec faithful p0 init w_twice) (ex_intro _ w_twice eq_refl)).
  assert (E : count_done (log (exec faithful p0 init w_twice)) = 2%nat) by (vm_compute; reflexivity).
  rewrite E in H. inversion H as [|m H1]. inversion H1.
Qed.

Lemma cleanup_at_most_once_sticky : forall v, v_sticky v = true -> cleanup_at_most_once_stmt v.
Proof.
  intros v Hv p s Hr. apply (cleanup_at_most_once_partial v p s Hr). apply (sticky_never_unfin v p s Hv Hr).
Qed.

(* ---- stop() raises AttributeError: the loop thread clears __interrupt between the two reads of wake() *)
Definition w_stop_raises : list label :=
  [LCall CStart; LCont; LCont; LCont] ++ rep 6 lo ++ [LCall (CStop true true); LCont] ++ rep 5 lo ++ [LCont].

Definition never_raises_stmt (v : variant) : Prop := forall p s, reach v p s -> raisy (cp s) = false.

Lemma never_raises_refuted : ~ never_raises_stmt faithful.
Proof.
  intro H. specialize (H p0 (exec faithful p0 init w_stop_raises) (ex_intro _ w_stop_raises eq_refl)).
  assert (E : cp (exec faithful p0 init w_stop_raises) = CIdle (RStopRaised true)) by (vm_compute; reflexivity).
  rewrite E in H. discriminate.
Qed.

Lemma never_raises_wake1 : forall v, v_wake1 v = true -> never_raises_stmt v.
Proof. intros v Hv p s Hr. apply (stop_wake_never_raise v p s Hv Hr). Qed.

(* the state reached by the stop-raises witness: the service is dead, not shut down, cleanup did not run *)
Lemma stop_raises_state :
  let s := exec faithful p0 init w_stop_raises in
  (alive (lp s), sd s, count_done (log s), g_live s) = (false, false, 0%nat, true).
Proof. vm_compute. reflexivity. Qed.

(* non-vacuity of the swapped theorem: the same calls under the swapped variant *)
Definition w_swapped_ok : list label :=
  [LCall CStart] ++ rep 4 LCont ++ rep 6 lo ++ [LCall (CStop true true)] ++ rep 3 LCont ++ rep 12 lo ++ rep 3 LCont.
Lemma swapped_example :
  let s := exec swapped p0 init w_swapped_ok in
  (cp s, g_live s, g_unfin s, count_done (log s), count_do (log s)) = (CIdle (RStopped true true), true, false, 1%nat, 1%nat).
Proof. vm_compute. reflexivity. Qed.
Lemma faithful_example :
  let s := exec faithful p0 init w_swapped_ok in
  (cp s, g_live s, g_unfin s, count_done (log s), count_do (log s)) = (CIdle (RStopped true true), true, false, 1%nat, 1%nat).
Proof. vm_compute. reflexivity. Qed.
