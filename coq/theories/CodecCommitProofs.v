(* CodecCommitProofs.v — C08: the dirty-set / storage_commit mechanism of CodecModel.v.
   Invariant of the variant that clears storage_id when the row of a trash entry is deleted
   ([clr] = true): commit leaves exactly the serialisations of the live entries in the store,
   whatever the iteration order of the dirty set. *)
From Coq Require Import NArith ZArith List Bool Lia Permutation.
From CS Require Import Sx Str CodecModel CodecProofs.
Import ListNotations.
Local Open Scope N_scope.
Local Arguments ser_entry : simpl never.
Local Arguments tuplify : simpl never.
Local Arguments is_trash : simpl never.

(* ---------------------------------------------------------------- list helpers *)
Lemma nth_set_eq : forall {T} (l : list T) n x y,
  nth_error l n = Some y -> nth_error (set_nth n x l) n = Some x.
Proof.
  induction l as [|a l IH]; intros [|n] x y H; simpl in *; try discriminate; [reflexivity|].
  eapply IH; eauto.
Qed.

Lemma nth_set_neq : forall {T} (l : list T) n m x,
  m <> n -> nth_error (set_nth n x l) m = nth_error l m.
Proof.
  induction l as [|a l IH]; intros [|n] [|m] x H; simpl; try reflexivity; try congruence.
  apply IH. congruence.
Qed.

Lemma set_nth_same : forall {T} (l : list T) n x, nth_error l n = Some x -> set_nth n x l = l.
Proof.
  induction l as [|a l IH]; intros [|n] x H; simpl in *; try discriminate.
  - now injection H as ->.
  - f_equal. now apply IH.
Qed.

Lemma map_set_nth : forall {T U} (f : T -> U) (l : list T) n x,
  map f (set_nth n x l) = set_nth n (f x) (map f l).
Proof.
  induction l as [|a l IH]; intros [|n] x; simpl; try reflexivity. f_equal. apply IH.
Qed.

Lemma nth_map : forall {T U} (f : T -> U) (l : list T) n,
  nth_error (map f l) n = option_map f (nth_error l n).
Proof. induction l as [|a l IH]; intros [|n]; simpl; try reflexivity. apply IH. Qed.

Lemma nth_app_new : forall {T} (l : list T) x, nth_error (l ++ [x]) (length l) = Some x.
Proof. induction l as [|a l IH]; intros x; simpl; [reflexivity|apply IH]. Qed.

Lemma nth_app_old : forall {T} (l : list T) x n y,
  nth_error (l ++ [x]) n = Some y -> n <> length l -> nth_error l n = Some y.
Proof.
  induction l as [|a l IH]; intros x [|n] y H Hn; simpl in *; try congruence.
  - destruct n; discriminate.
  - eapply IH; eauto.
Qed.

Lemma nth_app_l : forall {T} (l : list T) x n y,
  nth_error l n = Some y -> nth_error (l ++ [x]) n = Some y.
Proof. induction l as [|a l IH]; intros x [|n] y H; simpl in *; try discriminate; auto. Qed.

Lemma nth_lt : forall {T} (l : list T) n y, nth_error l n = Some y -> (n < length l)%nat.
Proof. intros T l n y H. apply nth_error_Some. congruence. Qed.

Lemma nodup_snoc : forall (l : list N) k, NoDup l -> ~ In k l -> NoDup (l ++ [k]).
Proof.
  induction l as [|a l IH]; intros k Hn Hk; simpl.
  - constructor; [tauto|constructor].
  - inversion Hn as [|? ? Ha Hn']; subst. constructor.
    + rewrite in_app_iff. simpl in *. intros [H|[H|[]]]; [tauto|]. subst. tauto.
    + apply IH; [assumption|]. simpl in Hk. tauto.
Qed.

Lemma mem_nat_In : forall n l, mem_nat n l = true <-> In n l.
Proof.
  induction l as [|x r IH]; simpl; [split; [discriminate|tauto]|].
  rewrite orb_true_iff, IH, Nat.eqb_eq. tauto.
Qed.

Lemma add_dirty_In : forall n d m, In m (add_dirty n d) <-> m = n \/ In m d.
Proof.
  intros n d m. unfold add_dirty. destruct (mem_nat n d) eqn:E.
  - apply mem_nat_In in E. split; [tauto|]. intros [->|H]; assumption.
  - rewrite in_app_iff. simpl. split; [intros [H|[H|[]]]; auto | intros [H|H]; auto].
Qed.

(* ---------------------------------------------------------------- store helpers *)
Lemma ids_remove : forall i r, ids (remove_id i r) = filter (fun j => negb (N.eqb j i)) (ids r).
Proof.
  induction r as [|[j p] r IH]; simpl; [reflexivity|].
  destruct (N.eqb j i); simpl; now rewrite IH.
Qed.

Lemma in_remove : forall i r j p, In (j, p) (remove_id i r) <-> In (j, p) r /\ j <> i.
Proof.
  intros i r j p. unfold remove_id. rewrite filter_In. simpl.
  rewrite negb_true_iff, N.eqb_neq. tauto.
Qed.

Lemma in_ids_remove : forall i r j, In j (ids (remove_id i r)) <-> In j (ids r) /\ j <> i.
Proof.
  intros i r j. rewrite ids_remove, filter_In, negb_true_iff, N.eqb_neq. tauto.
Qed.

Lemma remove_absent : forall i r, ~ In i (ids r) -> remove_id i r = r.
Proof.
  induction r as [|[j p] r IH]; simpl; intros H; [reflexivity|].
  destruct (N.eqb_spec j i) as [->|Hne]; simpl; [tauto|]. f_equal. apply IH. tauto.
Qed.

Lemma in_ids : forall r i p, In (i, p) r -> In i (ids r).
Proof. intros r i p H. unfold ids. change i with (fst (i, p)). now apply in_map. Qed.

Lemma has_id_In : forall i r, has_id i r = true <-> In i (ids r).
Proof.
  intros i r. unfold has_id. rewrite existsb_exists. unfold ids. rewrite in_map_iff. split.
  - intros [x [Hx He]]. apply N.eqb_eq in He. eauto.
  - intros [x [He Hx]]. exists x. split; [assumption|]. now apply N.eqb_eq.
Qed.

Lemma le_maxid : forall r i, In i (ids r) -> i <= maxid r.
Proof.
  unfold maxid. induction r as [|[j p] r IH]; simpl; intros i H; [tauto|].
  destruct H as [->|H]; [lia|]. specialize (IH _ H). lia.
Qed.

Lemma nodup_payload : forall r i p q, NoDup (ids r) -> In (i, p) r -> In (i, q) r -> p = q.
Proof.
  induction r as [|[j x] r IH]; simpl; intros i p q Hn Hp Hq; [tauto|].
  inversion Hn as [|? ? Hnot Hn']; subst.
  destruct Hp as [Hp|Hp], Hq as [Hq|Hq].
  - congruence.
  - injection Hp as -> ->. exfalso. apply Hnot. eapply in_ids; eauto.
  - injection Hq as -> ->. exfalso. apply Hnot. eapply in_ids; eauto.
  - eapply IH; eauto.
Qed.

Lemma row_of_In : forall r i p, NoDup (ids r) -> In (i, p) r -> row_of i r = Some p.
Proof.
  induction r as [|[j x] r IH]; simpl; intros i p Hn H; [tauto|].
  inversion Hn as [|? ? Hnot Hn']; subst.
  destruct H as [H|H].
  - injection H as -> ->. now rewrite N.eqb_refl.
  - destruct (N.eqb_spec j i) as [->|Hne].
    + exfalso. apply Hnot. eapply in_ids; eauto.
    + now apply IH.
Qed.

Lemma row_of_absent : forall r i, ~ In i (ids r) -> row_of i r = None.
Proof.
  induction r as [|[j x] r IH]; simpl; intros i H; [reflexivity|].
  destruct (N.eqb_spec j i) as [->|Hne]; [tauto|]. apply IH. tauto.
Qed.

Definition upd_rows (i : N) (p : mp) (r : list (N * mp)) : list (N * mp) :=
  map (fun row => if N.eqb (fst row) i then (i, p) else row) r.

Lemma ids_upd : forall i p r, ids (upd_rows i p r) = ids r.
Proof.
  induction r as [|[j x] r IH]; simpl; [reflexivity|].
  destruct (N.eqb_spec j i) as [->|Hne]; simpl; now rewrite IH.
Qed.

Lemma in_upd_self : forall i p r, In i (ids r) -> In (i, p) (upd_rows i p r).
Proof.
  induction r as [|[j x] r IH]; simpl; intros H; [tauto|].
  destruct (N.eqb_spec j i) as [->|Hne]; [now left|]. right. apply IH. destruct H; [congruence|assumption].
Qed.

Lemma in_upd_other : forall i p r j q, j <> i -> In (j, q) r -> In (j, q) (upd_rows i p r).
Proof.
  induction r as [|[k x] r IH]; simpl; intros j q Hne H; [tauto|].
  destruct H as [H|H].
  - injection H as -> ->. destruct (N.eqb_spec j i); [congruence|now left].
  - right. now apply IH.
Qed.

(* ---------------------------------------------------------------- the invariant *)
Definition clean (e : entry) (r : list (N * mp)) : Prop :=
  match e_sid e with
  | Some i => is_trash e = false /\ exists p, pack (ser_entry e) = Some p /\ In (i, p) r
  | None => is_trash e = true
  end.

Record Inv (P : nat -> Prop) (es : list entry) (st : store) : Prop := mkInv {
  I_nodup : NoDup (ids (rows st));
  I_row : forall n i, nth_error (map e_sid es) n = Some (Some i) -> In i (ids (rows st));
  I_inj : forall n m i, nth_error (map e_sid es) n = Some (Some i) ->
                        nth_error (map e_sid es) m = Some (Some i) -> n = m;
  I_own : forall i, In i (ids (rows st)) -> exists n, nth_error (map e_sid es) n = Some (Some i);
  I_clean : forall n e, nth_error es n = Some e -> ~ P n -> clean e (rows st);
  I_ctr : pol st = PMock -> forall i, In i (ids (rows st)) -> i < ctr st
}.

Definition Ser (es : list entry) : Prop := forall e, In e es -> ints_ok (ser_entry e) = true.

Lemma Inv_weaken : forall (P Q : nat -> Prop) es st,
  (forall n, P n -> Q n) -> Inv P es st -> Inv Q es st.
Proof.
  intros P Q es st H [a b c d e f]. constructor; auto.
  intros n x Hn Hq. apply (e n x Hn). intro Hp. apply Hq. auto.
Qed.

Lemma fresh_next : forall P es st, Inv P es st -> ~ In (next_id st) (ids (rows st)).
Proof.
  intros P es st HI Hin. unfold next_id in Hin. destruct (pol st) eqn:Ep.
  - apply le_maxid in Hin. lia.
  - pose proof (I_ctr _ _ _ HI Ep _ Hin). lia.
Qed.

Lemma Ser_set_nth : forall es n e s, Ser es -> nth_error es n = Some e -> Ser (set_nth n (set_sid e s) es).
Proof.
  intros es n e s HS Hn x Hx. apply In_nth_error in Hx. destruct Hx as [m Hm].
  destruct (Nat.eq_dec m n) as [->|Hne].
  - rewrite (nth_set_eq _ _ _ _ Hn) in Hm. injection Hm as <-.
    change (ser_entry (set_sid e s)) with (ser_entry e). apply HS. eapply nth_error_In; eauto.
  - rewrite nth_set_neq in Hm by assumption. apply HS. eapply nth_error_In; eauto.
Qed.

Definition body (e : entry) : entry := set_sid e None.

(* one _storage_update in the variant that clears the id of a deleted trash row *)
Lemma upd_one_inv : forall P es st n e,
  Inv P es st -> Ser es -> nth_error es n = Some e ->
  exists e' st',
    upd_one true e st = (e', st', ENone) /\ body e' = body e /\
    Inv (fun m => P m /\ m <> n) (set_nth n e' es) st'.
Proof.
  intros P es st n e HI HS Hn.
  assert (Hsid : nth_error (map e_sid es) n = Some (e_sid e)) by (rewrite nth_map, Hn; reflexivity).
  assert (Hser : ints_ok (ser_entry e) = true) by (apply HS; eapply nth_error_In; eauto).
  destruct HI as [Hnd Hrow Hinj Hown Hclean Hctr].
  unfold upd_one. destruct (e_sid e) as [i|] eqn:Esid; destruct (is_trash e) eqn:Etr.
  - (* delete the row of a trash entry, clear its id *)
    exists (set_sid e None), (st_delete i st). split; [reflexivity|]. split; [reflexivity|].
    assert (Hs' : forall m, m <> n ->
              nth_error (map e_sid (set_nth n (set_sid e None) es)) m = nth_error (map e_sid es) m).
    { intros m Hm. rewrite map_set_nth. now apply nth_set_neq. }
    assert (Hsn : nth_error (map e_sid (set_nth n (set_sid e None) es)) n = Some None).
    { rewrite map_set_nth. eapply nth_set_eq; eauto. }
    constructor; simpl.
    + rewrite ids_remove. now apply NoDup_filter.
    + intros m j Hm. destruct (Nat.eq_dec m n) as [->|Hne]; [rewrite Hsn in Hm; discriminate|].
      rewrite Hs' in Hm by assumption. apply in_ids_remove. split; [eapply Hrow; eauto|].
      intros ->. apply Hne. eapply Hinj; eauto.
    + intros m m' j Hm Hm'.
      destruct (Nat.eq_dec m n) as [->|Hne]; [rewrite Hsn in Hm; discriminate|].
      destruct (Nat.eq_dec m' n) as [->|Hne']; [rewrite Hsn in Hm'; discriminate|].
      rewrite Hs' in Hm, Hm' by assumption. eapply Hinj; eauto.
    + intros j Hj. apply in_ids_remove in Hj. destruct Hj as [Hj Hji].
      destruct (Hown _ Hj) as [m Hm]. exists m. rewrite Hs'; [assumption|].
      intros ->. rewrite Hsid in Hm. congruence.
    + intros m x Hm HP. destruct (Nat.eq_dec m n) as [->|Hne].
      * rewrite (nth_set_eq _ _ _ _ Hn) in Hm. injection Hm as <-. unfold clean. simpl. exact Etr.
      * rewrite nth_set_neq in Hm by assumption.
        assert (Hc : clean x (rows st)) by (apply (Hclean m x Hm); tauto).
        unfold clean in *. destruct (e_sid x) as [j|] eqn:Ex; [|assumption].
        destruct Hc as [Ht [p [Hp Hin]]]. split; [assumption|]. exists p. split; [assumption|].
        apply in_remove. split; [assumption|]. intros ->. apply Hne.
        apply (Hinj m n i); [rewrite nth_map, Hm; simpl; now rewrite Ex|assumption].
    + intros Hp j Hj. apply in_ids_remove in Hj. destruct Hj as [Hj _]. now apply Hctr.
  - (* update the row of a live entry *)
    unfold pack. rewrite Hser.
    assert (Hin : In i (ids (rows st))) by (eapply Hrow; eauto).
    unfold st_update. rewrite (proj2 (has_id_In i (rows st)) Hin).
    eexists e, _. split; [reflexivity|]. split; [reflexivity|].
    rewrite (set_nth_same _ _ _ Hn).
    fold (upd_rows i (tuplify (ser_entry e)) (rows st)).
    constructor; simpl.
    + now rewrite ids_upd.
    + intros m j Hm. rewrite ids_upd. eapply Hrow; eauto.
    + exact Hinj.
    + intros j Hj. rewrite ids_upd in Hj. now apply Hown.
    + intros m x Hm HP. destruct (Nat.eq_dec m n) as [->|Hne].
      * rewrite Hn in Hm. injection Hm as <-. unfold clean. rewrite Esid. split; [assumption|].
        exists (tuplify (ser_entry e)). split; [unfold pack; now rewrite Hser|].
        now apply in_upd_self.
      * assert (Hc : clean x (rows st)) by (apply (Hclean m x Hm); tauto).
        unfold clean in *. destruct (e_sid x) as [j|] eqn:Ex; [|assumption].
        destruct Hc as [Ht [p [Hp Hin']]]. split; [assumption|]. exists p. split; [assumption|].
        apply in_upd_other; [|assumption]. intros ->. apply Hne.
        apply (Hinj m n i); [rewrite nth_map, Hm; simpl; now rewrite Ex|assumption].
    + intros Hp j Hj. rewrite ids_upd in Hj. now apply Hctr.
  - (* a trash entry that never had a row *)
    exists e, st. split; [reflexivity|]. split; [reflexivity|].
    rewrite (set_nth_same _ _ _ Hn).
    constructor; auto.
    intros m x Hm HP. destruct (Nat.eq_dec m n) as [->|Hne].
    + rewrite Hn in Hm. injection Hm as <-. unfold clean. now rewrite Esid.
    + apply (Hclean m x Hm). tauto.
  - (* create the row of a new live entry *)
    unfold pack. rewrite Hser.
    pose proof (fresh_next P es st (mkInv _ _ _ Hnd Hrow Hinj Hown Hclean Hctr)) as Hfresh.
    set (k := next_id st) in *.
    unfold st_create. fold k. rewrite (remove_absent _ _ Hfresh).
    eexists (set_sid e (Some k)), _. split; [reflexivity|]. split; [reflexivity|].
    assert (Hs' : forall m, m <> n ->
              nth_error (map e_sid (set_nth n (set_sid e (Some k)) es)) m = nth_error (map e_sid es) m).
    { intros m Hm. rewrite map_set_nth. now apply nth_set_neq. }
    assert (Hsn : nth_error (map e_sid (set_nth n (set_sid e (Some k)) es)) n = Some (Some k)).
    { rewrite map_set_nth. eapply nth_set_eq; eauto. }
    assert (Hids : ids (rows st ++ [(k, tuplify (ser_entry e))]) = ids (rows st) ++ [k]).
    { unfold ids. now rewrite map_app. }
    constructor; simpl; rewrite ?Hids.
    + apply nodup_snoc; assumption.
    + intros m j Hm. apply in_app_iff. destruct (Nat.eq_dec m n) as [->|Hne].
      * rewrite Hsn in Hm. injection Hm as <-. right. now left.
      * rewrite Hs' in Hm by assumption. left. eapply Hrow; eauto.
    + intros m m' j Hm Hm'.
      destruct (Nat.eq_dec m n) as [->|Hne]; destruct (Nat.eq_dec m' n) as [->|Hne']; try reflexivity.
      * rewrite Hsn in Hm. injection Hm as <-. rewrite Hs' in Hm' by assumption.
        exfalso. apply Hfresh. eapply Hrow; eauto.
      * rewrite Hsn in Hm'. injection Hm' as <-. rewrite Hs' in Hm by assumption.
        exfalso. apply Hfresh. eapply Hrow; eauto.
      * rewrite Hs' in Hm, Hm' by assumption. eapply Hinj; eauto.
    + intros j Hj. apply in_app_iff in Hj. destruct Hj as [Hj|[<-|[]]].
      * destruct (Hown _ Hj) as [m Hm]. exists m. rewrite Hs'; [assumption|].
        intros ->. rewrite Hsid in Hm. discriminate.
      * exists n. exact Hsn.
    + intros m x Hm HP. destruct (Nat.eq_dec m n) as [->|Hne].
      * rewrite (nth_set_eq _ _ _ _ Hn) in Hm. injection Hm as <-. unfold clean. simpl.
        split; [assumption|]. exists (tuplify (ser_entry e)).
        split; [unfold pack; change (ser_entry (set_sid e (Some k))) with (ser_entry e); now rewrite Hser|].
        apply in_app_iff. right. now left.
      * rewrite nth_set_neq in Hm by assumption.
        assert (Hc : clean x (rows st)) by (apply (Hclean m x Hm); tauto).
        unfold clean in *. destruct (e_sid x) as [j|] eqn:Ex; [|assumption].
        destruct Hc as [Ht [p [Hp Hin']]]. split; [assumption|]. exists p. split; [assumption|].
        apply in_app_iff. now left.
    + intros Hp j Hj. rewrite Hp. apply in_app_iff in Hj. destruct Hj as [Hj|[<-|[]]].
      * specialize (Hctr Hp _ Hj). lia.
      * unfold k, next_id. rewrite Hp. lia.
Qed.

(* ---------------------------------------------------------------- the commit loop *)
Lemma Inv_weaken_in : forall (P Q : nat -> Prop) es st,
  (forall n e, nth_error es n = Some e -> P n -> Q n) -> Inv P es st -> Inv Q es st.
Proof.
  intros P Q es st H [a b c d e f]. constructor; auto.
  intros n x Hn Hq. apply (e n x Hn). intro Hp. apply Hq. eauto.
Qed.

Lemma body_ser : forall e e', body e' = body e -> ser_entry e' = ser_entry e.
Proof.
  intros e e' H. change (ser_entry (body e') = ser_entry (body e)). now rewrite H.
Qed.

Lemma body_trash : forall e e', body e' = body e -> is_trash e' = is_trash e.
Proof.
  intros e e' H. change (is_trash (body e') = is_trash (body e)). now rewrite H.
Qed.

Lemma Ser_set_body : forall es n e e', Ser es -> nth_error es n = Some e -> body e' = body e ->
  Ser (set_nth n e' es).
Proof.
  intros es n e e' HS Hn Hb x Hx. apply In_nth_error in Hx. destruct Hx as [m Hm].
  destruct (Nat.eq_dec m n) as [->|Hne].
  - rewrite (nth_set_eq _ _ _ _ Hn) in Hm. injection Hm as <-.
    rewrite (body_ser _ _ Hb). apply HS. eapply nth_error_In; eauto.
  - rewrite nth_set_neq in Hm by assumption. apply HS. eapply nth_error_In; eauto.
Qed.

Lemma commit_loop_inv : forall ord P es st,
  Inv P es st -> Ser es ->
  exists es' st', commit_loop true ord es st = (es', st', ENone) /\
    map body es' = map body es /\ Ser es' /\ Inv (fun m => P m /\ ~ In m ord) es' st'.
Proof.
  induction ord as [|n r IH]; intros P es st HI HS.
  - exists es, st. refine (conj eq_refl (conj eq_refl (conj HS _))).
    eapply Inv_weaken_in; [|exact HI]. simpl. tauto.
  - simpl. destruct (nth_error es n) as [e|] eqn:En.
    + destruct (upd_one_inv P es st n e HI HS En) as [e' [st' [Hu [Hb HI']]]].
      rewrite Hu.
      assert (HS' : Ser (set_nth n e' es)) by (eapply Ser_set_body; eauto).
      destruct (IH _ _ _ HI' HS') as [es2 [st2 [Hc [Hb2 [HS2 HI2]]]]].
      exists es2, st2. refine (conj Hc (conj _ (conj HS2 _))).
      * rewrite Hb2, map_set_nth, Hb. apply set_nth_same. now rewrite nth_map, En.
      * eapply Inv_weaken_in; [|exact HI2]. simpl. intros m x _ [[Hp Hne] Hr].
        split; [assumption|]. intros [->|H]; tauto.
    + destruct (IH _ _ _ HI HS) as [es2 [st2 [Hc [Hb2 [HS2 HI2]]]]].
      exists es2, st2. refine (conj Hc (conj Hb2 (conj HS2 _))).
      eapply Inv_weaken_in; [|exact HI2]. simpl. intros m x Hm [Hp Hr].
      split; [assumption|]. intros [<-|H]; [|tauto].
      assert (Hl : length (map body es2) = length (map body es)) by now rewrite Hb2.
      rewrite !map_length in Hl. apply nth_lt in Hm. apply nth_error_None in En. lia.
Qed.

(* ---------------------------------------------------------------- histories *)
Definition G (ps : pstate) : Prop :=
  Inv (fun m => In m (dirty ps)) (ents ps) (sto ps) /\ Ser (ents ps).

Definition inclb (a b : list nat) : bool := forallb (fun x => mem_nat x b) a.

Lemma inclb_incl : forall a b, inclb a b = true -> incl a b.
Proof.
  intros a b H x Hx. unfold inclb in H. rewrite forallb_forall in H. apply mem_nat_In. now apply H.
Qed.

(* what the theorems require of one operation: serialisable field values, no write that bypasses
   updated(), no restart, and a commit that iterates over (at least) the whole dirty set *)
Definition hop_okb (h : hop) (ps : pstate) : bool :=
  match h with
  | HNew e => ints_ok (ser_entry e)
  | HSet _ e => ints_ok (ser_entry e)
  | HSilent _ _ => false
  | HCommit ord => inclb (dirty ps) ord
  | HFmax _ => true
  | HLoad => false
  end.
Fixpoint hist_okb (clr : bool) (hs : list hop) (ps : pstate) : bool :=
  match hs with
  | [] => true
  | h :: r => hop_okb h ps && hist_okb clr r (fst (step clr h ps))
  end.

Lemma commit_good : forall ps ord, G ps -> incl (dirty ps) ord ->
  exists ps', commit true ord ps = (ps', ENone) /\ dirty ps' = [] /\
              map body (ents ps') = map body (ents ps) /\ G ps'.
Proof.
  intros ps ord [HI HS] Hinc.
  destruct (commit_loop_inv ord _ _ _ HI HS) as [es' [st' [Hc [Hb [HS' HI']]]]].
  unfold commit. rewrite Hc. eexists. split; [reflexivity|]. simpl.
  refine (conj eq_refl (conj Hb (conj _ HS'))). simpl.
  eapply Inv_weaken_in; [|exact HI']. simpl. intros n e _ [Hd Hn]. apply Hn. now apply Hinc.
Qed.

Lemma G_init : forall pl, G (init pl).
Proof.
  intros pl. split.
  - constructor; simpl.
    + constructor.
    + intros [|n] i H; discriminate.
    + intros [|n] m i H; discriminate.
    + intros i [].
    + intros [|n] e H; discriminate.
    + intros _ i [].
  - intros e [].
Qed.

Lemma step_good : forall h ps, G ps -> hop_okb h ps = true ->
  exists ps', step true h ps = (ps', ENone) /\ G ps'.
Proof.
  intros h ps [HI HS] Hok. destruct h as [e|n e|n e|ord|k|]; cbn [hop_okb] in Hok; try discriminate; cbn [step].
  - (* HNew *)
    eexists. split; [reflexivity|]. destruct HI as [Hnd Hrow Hinj Hown Hclean Hctr].
    assert (Hm : map e_sid (ents ps ++ [set_sid e None]) = map e_sid (ents ps) ++ [None])
      by now rewrite map_app.
    assert (Hlen : length (map e_sid (ents ps)) = length (ents ps)) by apply map_length.
    split; [constructor; simpl; auto|].
    + intros m i H. rewrite Hm in H. apply (Hrow m i). eapply nth_app_old; [exact H|].
      intros ->. rewrite nth_app_new in H. discriminate.
    + intros m m' i H H'. rewrite Hm in H, H'.
      apply (Hinj m m' i); (eapply nth_app_old; [eassumption|]);
        intros ->; match goal with X : nth_error _ (length _) = _ |- _ => rewrite nth_app_new in X; discriminate end.
    + intros i Hi. destruct (Hown _ Hi) as [m Hm']. exists m. rewrite Hm. now apply nth_app_l.
    + intros m x Hx Hd. rewrite add_dirty_In in Hd.
      apply (Hclean m x); [|tauto]. eapply nth_app_old; [exact Hx|]. tauto.
    + intros x Hx. simpl in Hx. apply in_app_iff in Hx. destruct Hx as [Hx|[<-|[]]]; [now apply HS|].
      exact Hok.
  - (* HSet *)
    destruct (nth_error (ents ps) n) as [old|] eqn:En.
    + eexists. split; [reflexivity|]. destruct HI as [Hnd Hrow Hinj Hown Hclean Hctr].
      assert (Hm : map e_sid (set_nth n (set_fields old e) (ents ps)) = map e_sid (ents ps)).
      { rewrite map_set_nth. apply set_nth_same. now rewrite nth_map, En. }
      split; [constructor; simpl; rewrite ?Hm; auto|].
      * intros m x Hx Hd. rewrite add_dirty_In in Hd.
        apply (Hclean m x); [|tauto]. rewrite nth_set_neq in Hx; [assumption|tauto].
      * intros x Hx. simpl in Hx. apply In_nth_error in Hx. destruct Hx as [m Hx].
        destruct (Nat.eq_dec m n) as [->|Hne].
        -- rewrite (nth_set_eq _ _ _ _ En) in Hx. injection Hx as <-. exact Hok.
        -- rewrite nth_set_neq in Hx by assumption. apply HS. eapply nth_error_In; eauto.
    + exists ps. split; [reflexivity|]. split; assumption.
  - (* HCommit *)
    destruct (commit_good ps ord (conj HI HS) (inclb_incl _ _ Hok)) as [ps' [Hc [_ [_ HG]]]].
    exists ps'. split; assumption.
  - (* HFmax *)
    eexists. split; [reflexivity|]. destruct HI as [Hnd Hrow Hinj Hown Hclean Hctr].
    split; [constructor; simpl; auto|exact HS].
Qed.

Lemma exec_good : forall hs ps, G ps -> hist_okb true hs ps = true ->
  G (fst (exec true hs ps)) /\ Forall (fun e => e = ENone) (snd (exec true hs ps)).
Proof.
  induction hs as [|h r IH]; intros ps HG Hok; simpl.
  - split; [assumption|constructor].
  - simpl in Hok. apply andb_true_iff in Hok. destruct Hok as [Hh Hr].
    destruct (step_good h ps HG Hh) as [ps1 [Hs HG1]]. rewrite Hs in *. simpl in Hr.
    destruct (IH ps1 HG1 Hr) as [HG2 Herr].
    destruct (exec true r ps1) as [ps2 errs]. simpl in *. split; [assumption|].
    constructor; [reflexivity|assumption].
Qed.

(* ---------------------------------------------------------------- storage = memory *)
Definition exact (ps : pstate) : Prop :=
  NoDup (ids (rows (sto ps))) /\
  (* no stale and no missing rows: the rows are exactly the serialisations of the live entries *)
  (forall i p, In (i, p) (rows (sto ps)) <->
     exists n e, nth_error (ents ps) n = Some e /\ is_trash e = false /\ e_sid e = Some i /\
                 pack (ser_entry e) = Some p) /\
  (* every live entry has a row id, and live entries do not share one *)
  (forall n e, nth_error (ents ps) n = Some e -> is_trash e = false -> e_sid e <> None) /\
  (forall n m e e' i, nth_error (ents ps) n = Some e -> nth_error (ents ps) m = Some e' ->
     e_sid e = Some i -> e_sid e' = Some i -> n = m).

Lemma exact_of_G : forall ps, G ps -> dirty ps = [] -> exact ps.
Proof.
  intros ps [[Hnd Hrow Hinj Hown Hclean Hctr] HS] Hd. rewrite Hd in Hclean.
  assert (Hc : forall n e, nth_error (ents ps) n = Some e -> clean e (rows (sto ps))).
  { intros n e Hn. apply (Hclean n e Hn). intros []. }
  split; [assumption|]. split; [|split].
  - intros i p. split.
    + intros Hin. destruct (Hown i (in_ids _ _ _ Hin)) as [n Hn].
      rewrite nth_map in Hn. destruct (nth_error (ents ps) n) as [e|] eqn:En; [|discriminate].
      simpl in Hn. injection Hn as Hsid. pose proof (Hc n e En) as Hcl. unfold clean in Hcl.
      rewrite Hsid in Hcl. destruct Hcl as [Ht [q [Hq Hin']]].
      exists n, e. repeat split; try assumption.
      rewrite Hq. f_equal. eapply nodup_payload; eauto.
    + intros [n [e [En [Ht [Hsid Hp]]]]]. pose proof (Hc n e En) as Hcl. unfold clean in Hcl.
      rewrite Hsid in Hcl. destruct Hcl as [_ [q [Hq Hin']]]. congruence.
  - intros n e En Ht Hsid. pose proof (Hc n e En) as Hcl. unfold clean in Hcl.
    rewrite Hsid in Hcl. congruence.
  - intros n m e e' i En Em Hs Hs'. apply (Hinj n m i); rewrite nth_map.
    + rewrite En. simpl. now rewrite Hs.
    + rewrite Em. simpl. now rewrite Hs'.
Qed.

Lemma filter_nil : forall {T} (f : T -> bool) l, (forall x, In x l -> f x = false) -> filter f l = [].
Proof.
  induction l as [|a l IH]; intros H; simpl; [reflexivity|].
  rewrite (H a) by now left. apply IH. intros x Hx. apply H. now right.
Qed.

(* the computable snapshot agrees with the specification *)
Lemma exact_view : forall ps, Ser (ents ps) -> exact ps -> live_view ps = want ps /\ stale ps = [].
Proof.
  intros ps HS [Hnd [Hrows [Hsid Hinj]]]. split.
  - unfold live_view, want. apply map_ext_in. intros e He.
    destruct (is_trash e) eqn:Et; [reflexivity|].
    apply In_nth_error in He. destruct He as [n En].
    destruct (e_sid e) as [i|] eqn:Es; [|exfalso; eapply Hsid; eauto].
    assert (Hp : pack (ser_entry e) = Some (tuplify (ser_entry e))).
    { unfold pack. rewrite (HS e); [reflexivity|]. eapply nth_error_In; eauto. }
    rewrite Hp. apply row_of_In; [assumption|]. apply Hrows. exists n, e. repeat split; assumption.
  - unfold stale. apply filter_nil. intros i Hi. apply negb_false_iff.
    unfold ids in Hi. apply in_map_iff in Hi. destruct Hi as [[j p] [Hj Hin]]. simpl in Hj. subst j.
    apply Hrows in Hin. destruct Hin as [n [e [En [Ht [Hs _]]]]].
    unfold owned_live. apply existsb_exists. exists e. split; [eapply nth_error_In; eauto|].
    rewrite Ht, Hs. simpl. apply N.eqb_refl.
Qed.

(* ---------------------------------------------------------------- the theorems *)
Lemma commit_exact : forall hs ps0 ord,
  G ps0 -> hist_okb true hs ps0 = true ->
  incl (dirty (fst (exec true hs ps0))) ord ->
  snd (commit true ord (fst (exec true hs ps0))) = ENone /\
  exact (fst (commit true ord (fst (exec true hs ps0)))).
Proof.
  intros hs ps0 ord HG Hok Hinc.
  destruct (exec_good hs ps0 HG Hok) as [HG1 _].
  destruct (commit_good _ ord HG1 Hinc) as [ps' [Hc [Hd [_ HG']]]].
  rewrite Hc. simpl. split; [reflexivity|]. now apply exact_of_G.
Qed.

Lemma commit_never_raises : forall hs ps0,
  G ps0 -> hist_okb true hs ps0 = true -> Forall (fun e => e = ENone) (snd (exec true hs ps0)).
Proof. intros hs ps0 HG Hok. now destruct (exec_good hs ps0 HG Hok). Qed.

Definition snapshot (ps : pstate) : list (option mp) * list N := (live_view ps, stale ps).

Lemma want_as_body : forall ps,
  want ps = map (fun b => if is_trash b then None else pack (ser_entry b)) (map body (ents ps)).
Proof. intros ps. unfold want. rewrite map_map. reflexivity. Qed.

Lemma want_body : forall ps ps', map body (ents ps') = map body (ents ps) -> want ps' = want ps.
Proof. intros ps ps' H. rewrite !want_as_body. now rewrite H. Qed.

(* order independence, as a statement about the variant [clr] *)
Definition commit_order_independent_full (clr : bool) : Prop :=
  forall pl hs ord1 ord2,
    hist_okb clr hs (init pl) = true ->
    Permutation ord1 ord2 ->
    incl (dirty (fst (exec clr hs (init pl)))) ord1 ->
    snapshot (fst (commit clr ord1 (fst (exec clr hs (init pl))))) =
    snapshot (fst (commit clr ord2 (fst (exec clr hs (init pl))))).

Definition commit_exact_full (clr : bool) : Prop :=
  forall pl hs ord,
    hist_okb clr hs (init pl) = true ->
    incl (dirty (fst (exec clr hs (init pl)))) ord ->
    snd (commit clr ord (fst (exec clr hs (init pl)))) = ENone /\
    exact (fst (commit clr ord (fst (exec clr hs (init pl))))).

Lemma commit_exact_fixed : commit_exact_full true.
Proof. intros pl hs ord Hok Hinc. apply commit_exact; [apply G_init|assumption|assumption]. Qed.

Lemma commit_order_independent_fixed : commit_order_independent_full true.
Proof.
  intros pl hs ord1 ord2 Hok Hperm Hinc.
  set (ps := fst (exec true hs (init pl))) in *.
  destruct (exec_good hs (init pl) (G_init pl) Hok) as [HG _]. fold ps in HG.
  assert (Hinc2 : incl (dirty ps) ord2).
  { intros x Hx. eapply Permutation_in; [exact Hperm|]. now apply Hinc. }
  destruct (commit_good ps ord1 HG Hinc) as [p1 [Hc1 [Hd1 [Hb1 HG1]]]].
  destruct (commit_good ps ord2 HG Hinc2) as [p2 [Hc2 [Hd2 [Hb2 HG2]]]].
  rewrite Hc1, Hc2. simpl. unfold snapshot.
  destruct (exact_view p1 (proj2 HG1) (exact_of_G p1 HG1 Hd1)) as [V1 S1].
  destruct (exact_view p2 (proj2 HG2) (exact_of_G p2 HG2 Hd2)) as [V2 S2].
  rewrite V1, V2, S1, S2. f_equal. rewrite (want_body ps p1 Hb1), (want_body ps p2 Hb2). reflexivity.
Qed.

(* ---------------------------------------------------------------- the witness (P-9) *)
Definition w_side (oid : mp) : side :=
  mkSide OFile (MInt 0%Z) MNil MNil MNil MNil MNil oid XUnknown MNil MNil MNil None false (MFloat 0).
Definition w_ent (o0 o1 : mp) : entry := mkEntry (w_side o0) (w_side o1) INone (MInt 0%Z) None.
Definition w_a : mp := MStr [97]. Definition w_b : mp := MStr [98]. Definition w_x : mp := MStr [120].
(* two one-sided entries a, b are stored; b loses its id to a (a rename a->b over b on a path-id
   provider): b is trash, its row 2 is deleted, it keeps storage_id 2; then a new entry x is created
   while b is marked dirty once more *)
Definition w_hist : list hop :=
  [ HNew (w_ent w_a MNil); HNew (w_ent w_b MNil); HCommit [0; 1]%nat;
    HSet 1%nat (w_ent MNil MNil); HSet 0%nat (w_ent w_b MNil); HCommit [1; 0]%nat;
    HNew (w_ent MNil w_x); HSet 1%nat (w_ent MNil MNil) ].
Definition w_good : list nat := [1; 2]%nat.      (* trash entry first: harmless *)
Definition w_bad : list nat := [2; 1]%nat.       (* new entry first: it gets rowid 2, then the trash entry deletes row 2 *)

Lemma commit_order_independent_refuted : ~ commit_order_independent_full false.
Proof.
  intros H. specialize (H PSqlite w_hist w_good w_bad).
  assert (Hok : hist_okb false w_hist (init PSqlite) = true) by (vm_compute; reflexivity).
  assert (Hperm : Permutation w_good w_bad) by apply perm_swap.
  assert (Hinc : incl (dirty (fst (exec false w_hist (init PSqlite)))) w_good).
  { apply inclb_incl. vm_compute. reflexivity. }
  specialize (H Hok Hperm Hinc). vm_compute in H. discriminate H.
Qed.

Lemma commit_exact_refuted : ~ commit_exact_full false.
Proof.
  intros H. specialize (H PSqlite w_hist w_bad).
  assert (Hok : hist_okb false w_hist (init PSqlite) = true) by (vm_compute; reflexivity).
  assert (Hinc : incl (dirty (fst (exec false w_hist (init PSqlite)))) w_bad).
  { apply inclb_incl. vm_compute. reflexivity. }
  destruct (H Hok Hinc) as [_ [_ [Hrows _]]].
  (* entry 2 (x) is live with storage_id 2, so a row 2 would have to exist *)
  assert (Hex : exists p, In (2, p) (rows (sto (fst (commit false w_bad (fst (exec false w_hist (init PSqlite)))))))).
  { eexists. apply Hrows. exists 2%nat. eexists. split; [vm_compute; reflexivity|].
    split; [vm_compute; reflexivity|]. split; vm_compute; reflexivity. }
  destruct Hex as [p Hp]. vm_compute in Hp. destruct Hp as [Hp|[]]. discriminate Hp.
Qed.

(* a write that bypasses updated() leaves a stale row even in the repaired variant *)
Definition silent_hist : list hop :=
  [ HNew (w_ent w_a MNil); HCommit [0]%nat; HSilent 0%nat (w_ent w_b MNil) ].

Lemma commit_exact_unconditional_refuted :
  ~ (forall clr pl hs ord, incl (dirty (fst (exec clr hs (init pl)))) ord ->
       exact (fst (commit clr ord (fst (exec clr hs (init pl)))))).
Proof.
  intros H. specialize (H true PSqlite silent_hist []).
  assert (Hinc : incl (dirty (fst (exec true silent_hist (init PSqlite)))) []).
  { apply inclb_incl. vm_compute. reflexivity. }
  destruct (H Hinc) as [_ [Hrows _]].
  assert (Hin : In (1, MNil) (rows (sto (fst (commit true [] (fst (exec true silent_hist (init PSqlite)))))))
                -> False).
  { vm_compute. intros [X|[]]. discriminate X. }
  (* the stored row is the serialisation of the old fields, no live entry serialises to it *)
  pose (r := rows (sto (fst (commit true [] (fst (exec true silent_hist (init PSqlite))))))).
  assert (Hr : exists p, r = [(1, p)] /\ p = tuplify (ser_entry (w_ent w_a MNil))).
  { eexists. split; vm_compute; reflexivity. }
  destruct Hr as [p [Hr Hp]].
  assert (Hi : In (1, p) r) by (rewrite Hr; now left).
  apply Hrows in Hi. destruct Hi as [n [e [En [_ [_ Hpk]]]]].
  destruct n as [|[|n]]; vm_compute in En; try discriminate En.
  injection En as <-. rewrite Hp in Hpk. vm_compute in Hpk. discriminate Hpk.
Qed.

(* ---------------------------------------------------------------- codec witnesses *)
Definition codec_roundtrip_full : Prop :=
  forall sid e e', roundtrip sid e = Some e' -> same_synced e e'.
Definition list_hash_entry : entry :=
  mkEntry (mkSide OFile (MInt 0%Z) (MList [MInt 1%Z]) MNil MNil MNil MNil (MStr [97]) XExists MNil MNil MNil None false (MFloat 0))
          (w_side MNil) INone (MInt 0%Z) None.
Lemma codec_roundtrip_refuted : ~ codec_roundtrip_full.
Proof.
  intros H. specialize (H 1 list_hash_entry _ eq_refl).
  destruct H as [[_ [_ [Hh _]]] _]. vm_compute in Hh. discriminate Hh.
Qed.

Definition intkey_entry : entry :=
  mkEntry (mkSide OFile (MInt 0%Z) (MMap [(MInt 1%Z, MInt 2%Z)]) MNil MNil MNil MNil (MStr [97]) XExists MNil MNil MNil None false (MFloat 0))
          (w_side MNil) INone (MInt 0%Z) None.
Definition written_rows_load : Prop :=
  forall sid e w, pack (ser_entry e) = Some w -> mtime_ok (s_mtime (e_s0 e)) = true ->
                  mtime_ok (s_mtime (e_s1 e)) = true -> load_row sid w <> None.
Lemma written_rows_load_refuted : ~ written_rows_load.
Proof. intros H. apply (H 1 intkey_entry _ eq_refl eq_refl eq_refl). reflexivity. Qed.
