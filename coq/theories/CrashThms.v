(* CrashThms.v — C07: the statements PropC07 exports, assembled from CrashProofs (part A) and CrashRecover (part B),
   plus the refutations of the full-strength statements and the "rows that fail to load are dropped" lemmas. *)
From Coq Require Import NArith List Bool Arith Lia.
From CS Require Import Sx CrashModel CrashProofs CrashRecover.
From CS Require CodecModel CodecReloadProofs.
Import ListNotations.

(* ------------------------------------------------------------------ plan-driven runs are runs of the machine *)
Definition reachable (x : st) : Prop := exists ls, lrun init ls = Some x.

Lemma lrun_app : forall l1 l2 x, lrun x (l1 ++ l2) = match lrun x l1 with Some y => lrun y l2 | None => None end.
Proof. induction l1 as [|l r IH]; intros l2 x; simpl; [reflexivity|]. destruct (lstep x l); auto. Qed.

Lemma run_ops_lrun : forall ms x y, run_ops x ms = Some y -> lrun x (map LOp ms) = Some y.
Proof.
  induction ms as [|m r IH]; intros x y H; simpl in *; [assumption|].
  destruct (mstep x m); [auto|discriminate].
Qed.

Lemma reach_step x l y : reachable x -> lstep x l = Some y -> reachable y.
Proof. intros [ls H] Hs. exists (ls ++ [l]). rewrite lrun_app, H. simpl. now rewrite Hs. Qed.

Lemma reach_ops x ms y : reachable x -> run_ops x ms = Some y -> reachable y.
Proof.
  intros [ls H] Hr. exists (ls ++ map LOp ms). rewrite lrun_app, H. now apply run_ops_lrun.
Qed.

Lemma reach_do_plan x ms : reachable x -> reachable (do_plan x ms).
Proof. intros H. unfold do_plan. destruct (run_ops x ms) eqn:E; [eapply reach_ops; eauto|assumption]. Qed.

Lemma reach_crash x : reachable x -> reachable (crash x).
Proof. intros H. apply (reach_step x LCrash); auto. Qed.

Lemma reach_erun g : forall ls c d, reachable (c_st c) -> erun g c ls = Some d -> reachable (c_st d).
Proof.
  induction ls as [|l ls IH]; intros c d Hc Hr; simpl in Hr.
  - now injection Hr as <-.
  - destruct (estep g c l) as [c1|] eqn:E; [|discriminate]. apply (IH c1); [|assumption].
    destruct l as [u|m|m k]; simpl in E.
    + destruct (g && c_rec c); [discriminate|]. injection E as <-. simpl. apply (reach_step (c_st c) (LUser u)); auto.
    + injection E as <-. simpl. now apply reach_do_plan.
    + injection E as <-. simpl. now apply reach_crash, reach_do_plan.
Qed.

Lemma reach_do_syncs a : forall n x, reachable x -> reachable (do_syncs a x n).
Proof. induction n as [|n IH]; intros x H; simpl; [assumption|]. apply reach_do_plan. auto. Qed.

Lemma reach_recover a x : reachable x -> reachable (recover_with a x).
Proof.
  intros H. unfold recover_with. repeat apply reach_do_plan. apply reach_do_syncs. repeat apply reach_do_plan.
  now apply reach_crash.
Qed.

Lemma reach_init : reachable init.
Proof. exists []. reflexivity. Qed.

(* (a) at every write boundary of every plan-driven run, whole steps or steps cut by a crash, with or without
   users acting during a recovery, and after the recovery: durable never ahead *)
Theorem never_ahead_every_crash_point : forall g ls c, erun g cfg0 ls = Some c ->
  never_ahead (c_st c) = true /\ never_ahead (recover (c_st c)) = true /\
  forall m k, never_ahead (crash (do_plan (c_st c) (firstn k (plan_of true (c_st c) m)))) = true.
Proof.
  intros g ls c H. assert (R : reachable (c_st c)) by (apply (reach_erun g ls cfg0 c); [apply reach_init|exact H]).
  split; [destruct R as [l Hl]; eapply durable_never_ahead; eauto|]. split.
  - destruct (reach_recover true _ R) as [l Hl]. eapply durable_never_ahead; eauto.
  - intros m k. destruct (reach_crash _ (reach_do_plan _ (firstn k (plan_of true (c_st c) m)) R)) as [l Hl].
    eapply durable_never_ahead; eauto.
Qed.

(* ------------------------------------------------------------------ the plans obey the discipline *)
(* in a calm plan-driven run no guard of a planned operation ever fails: the intake of an event and the sync of an
   entry run to their end (the end of an intake is the only step allowed to do nothing) *)
Theorem plans_never_blocked : forall ls c i, erun true cfg0 ls = Some c -> i < length (slots (c_st c)) ->
  run_ops (c_st c) (plan_of true (c_st c) (KMark i)) <> None /\
  run_ops (c_st c) (plan_of true (c_st c) (KSync i)) <> None.
Proof.
  intros ls c i H Hi. pose proof (erun_binv ls cfg0 c binv0 H) as Hb.
  destruct (nth_error (slots (c_st c)) i) as [sl|] eqn:Ei; [|apply nth_error_None in Ei; lia].
  pose proof Hb as (_ & _ & Hf). rewrite Forall_forall in Hf. destruct (Hf sl (nth_error_In _ _ Ei)) as (A & B & _).
  split.
  - destruct (mark_slot_ok (c_rec c) _ (sel (negb (sl_side sl)) (nev (c_st c))) sl A B) as [_ [sl' (Hs & Hbd & Hr & _)]].
    destruct (slot_plan_full c i sl _ sl' _ Hb Ei Hs Hbd Hr) as [y (R1 & _)]. simpl plan_of.
    change [MSlot i SMark; MSlot i SRow] with (map (MSlot i) [SMark; SRow]). congruence.
  - destruct (sync_slot_ok (c_rec c) _ (sel (negb (sl_side sl)) (nev (c_st c))) sl A B (knows_peers (c_st c) sl)) as [_ [sl' [np' (Hs & Hbd & Hr & _)]]].
    destruct (slot_plan_full c i sl _ sl' np' Hb Ei Hs Hbd Hr) as [y (R1 & _)]. simpl plan_of. unfold plan_sync. rewrite Ei. congruence.
Qed.

(* write order of every plan: provider writes, then the row commit (sync); row commits, the cursor last (intake) *)
Lemma writes_of_app a b : writes_of (a ++ b) = writes_of a ++ writes_of b.
Proof. induction a as [|m r IH]; simpl; [reflexivity|]. destruct (wk_of m); simpl; now rewrite IH. Qed.

Lemma shape_sync_rows l : all_rows l = true -> shape_sync l = true.
Proof. destruct l as [|[] r]; simpl; auto; discriminate. Qed.

Theorem sync_plan_write_order : forall adopt x i, shape_ok true (writes_of (plan_sync adopt x i)) = true.
Proof.
  intros adopt x i. unfold plan_sync. destruct (nth_error (slots x) i) as [sl|]; [|reflexivity].
  unfold plan_sync_slot. destruct (sl_mem sl) as [e|]; [|reflexivity].
  destruct (e_disc e); [reflexivity|].
  destruct (negb (os_live (o_now (sl_org sl)))).
  { destruct (s_has (e_peer e)); [|reflexivity]. destruct (nth_error (sl_peers sl) (e_ref e)) as [p|]; [|reflexivity].
    destruct (os_live (o_now p)); reflexivity. }
  destruct (negb (s_has (e_peer e) && s_live (e_peer e))).
  { destruct (first_live_at _ _) as [k|]; [|reflexivity]. destruct (nth_error (sl_peers sl) k) as [p|]; [|reflexivity].
    destruct (adopt && _); reflexivity. }
  destruct (nth_error (sl_peers sl) (e_ref e)) as [p|]; [|reflexivity].
  destruct (opt_eqb (s_spath (e_org e)) _); destruct (opt_eqb (s_shash (e_org e)) _); try reflexivity;
    destruct (_ && kind_eqb _ _); try reflexivity; destruct (os_kind (o_now (sl_org sl))); reflexivity.
Qed.

Lemma plan_marks_rows s c : forall l i, all_rows (writes_of (plan_marks s c l i)) = true.
Proof.
  induction l as [|sl r IH]; intros i; simpl; [reflexivity|].
  destruct (Bool.eqb (sl_side sl) s && Nat.ltb c (o_ev (sl_org sl))); simpl; apply IH.
Qed.

Lemma shape_intake_rows_cursor : forall l, all_rows l = true -> shape_intake (l ++ [WCursor]) = true.
Proof.
  induction l as [|w r IH]; intros H; simpl in *; [reflexivity|].
  destruct w; try discriminate. destruct r; simpl in *; [reflexivity|]. apply IH. assumption.
Qed.

Theorem intake_plan_write_order : forall s x, shape_ok false (writes_of (plan_intake s x)) = true.
Proof.
  intros s x. unfold plan_intake. rewrite writes_of_app. simpl. apply shape_intake_rows_cursor, plan_marks_rows.
Qed.

Theorem step_plan_write_order : forall x m,
  shape_ok (match m with KSync _ => true | _ => false end) (writes_of (plan_of true x m)) = true.
Proof. intros x [i|s|i]; simpl plan_of; [reflexivity|reflexivity|apply sync_plan_write_order]. Qed.

(* a sync that commits before its provider write is not in the language *)
Example commit_before_write_rejected : shape_ok true [WRow; WProv] = false.
Proof. reflexivity. Qed.
Example cursor_before_rows_rejected : shape_ok false [WCursor; WRow] = false.
Proof. reflexivity. Qed.

(* ------------------------------------------------------------------ (b) recoverability *)
(* from every state of a calm plan-driven run — every crash point of every step — the recovery plan reaches a
   settled state: equal views, no ".conflicted" name, one peer per object, the origin objects untouched *)
Theorem half_recorded_recoverable_partial : forall ls c, erun true cfg0 ls = Some c ->
  converged (c_st c) (recover (c_st c)).
Proof. intros ls c H. apply (recover_converges c). eapply erun_binv; [apply binv0|exact H]. Qed.

(* full strength: also when users act between the crash and the end of the recovery *)
Definition half_recorded_recoverable_full : Prop :=
  forall ls c, erun false cfg0 ls = Some c -> converged (c_st c) (recover (c_st c)).

(* witness 1: the process dies right after creating the peer; before the restart the user writes the file again:
   the peer found at the translated path has other content, and is renamed to ".conflicted" *)
Definition witness_user_write_after_crash : list elabel :=
  [EUser (UNew false 1%N (KFile 1%N)); EStep (KMark 0); EStep (KEnd false);
   ECrash (KSync 0) 2; EUser (UWrite 0 2%N)].
(* witness 2: the process dies right after uploading new content; before the restart the user restores the previous
   content: the marks say "nothing to transfer", the recovery does not converge *)
Definition witness_user_revert_after_crash : list elabel :=
  [EUser (UNew false 1%N (KFile 1%N)); EStep (KMark 0); EStep (KEnd false); EStep (KSync 0);
   EUser (UWrite 0 2%N); EStep (KMark 0); EStep (KEnd false); ECrash (KSync 0) 2; EUser (UWrite 0 1%N)].

Definition on_run (g : bool) (ls : list elabel) (f : cfg -> bool) : bool :=
  match erun g cfg0 ls with Some c => f c | None => false end.
Lemma on_run_true g ls f : on_run g ls f = true -> exists c, erun g cfg0 ls = Some c /\ f c = true.
Proof. unfold on_run. destruct (erun g cfg0 ls) as [c|]; [eauto|discriminate]. Qed.

Lemma witness1_conflicted :
  exists c, erun false cfg0 witness_user_write_after_crash = Some c /\ has_conflicted (recover (c_st c)) = true.
Proof. apply (on_run_true false _ (fun c => has_conflicted (recover (c_st c)))). vm_compute. reflexivity. Qed.

Lemma witness2_not_settled :
  exists c, erun false cfg0 witness_user_revert_after_crash = Some c /\ settled (recover (c_st c)) = false.
Proof.
  destruct (on_run_true false witness_user_revert_after_crash (fun c => negb (settled (recover (c_st c))))) as [c [H1 H2]].
  - vm_compute. reflexivity.
  - exists c. split; [assumption|]. now apply negb_true_iff.
Qed.

Theorem half_recorded_recoverable_refuted : ~ half_recorded_recoverable_full.
Proof.
  intros H. destruct witness1_conflicted as [c [Hr Hc]]. destruct (H _ _ Hr) as (_ & _ & Hn & _). congruence.
Qed.

(* the recovery rule matters: without the adoption of an equal-content peer the same crash (no user involved)
   ends with a ".conflicted" copy *)
Definition recoverable_without_adoption : Prop :=
  forall ls c, erun true cfg0 ls = Some c -> has_conflicted (recover_with false (c_st c)) = false.
Theorem recoverable_without_adoption_refuted : ~ recoverable_without_adoption.
Proof.
  intros H.
  assert (E : exists c, erun true cfg0 [EUser (UNew false 1%N (KFile 1%N)); EStep (KMark 0); EStep (KEnd false); ECrash (KSync 0) 2] = Some c /\
                        has_conflicted (recover_with false (c_st c)) = true).
  { apply (on_run_true true _ (fun c => has_conflicted (recover_with false (c_st c)))). vm_compute. reflexivity. }
  destruct E as [c [Hr Hc]]. rewrite (H _ _ Hr) in Hc. discriminate.
Qed.

(* ------------------------------------------------------------------ (c) rows that fail to load are dropped, not fatal *)
(* load_rows is total: a restart over any storage content yields entries and a list of dropped row ids *)
Lemma load_rows_bad : forall rs i,
  In i (snd (CodecModel.load_rows rs)) <-> exists w, In (i, w) rs /\ CodecModel.load_row i w = None.
Proof.
  induction rs as [|[j w] r IH]; intros i; simpl.
  - split; [tauto|]. intros [w [[] _]].
  - destruct (CodecModel.load_rows r) as [es bad] eqn:E. simpl in IH.
    destruct (CodecModel.load_row j w) as [x|] eqn:El; simpl; rewrite ?IH.
    + split.
      * intros [v [Hin Hl]]. exists v. auto.
      * intros [v [[Heq|Hin] Hl]]; [injection Heq as <- <-; congruence|eauto].
    + split.
      * intros [<-|[v [Hin Hl]]]; [exists w; auto|exists v; auto].
      * intros [v [[Heq|Hin] Hl]]; [injection Heq as <- <-; now left|right; eauto].
Qed.

Theorem bad_rows_dropped_not_fatal : forall rs,
  (forall e, In e (fst (CodecModel.load_rows rs)) <-> exists i w, In (i, w) rs /\ CodecModel.load_row i w = Some e) /\
  (forall i, In i (snd (CodecModel.load_rows rs)) <-> exists w, In (i, w) rs /\ CodecModel.load_row i w = None).
Proof. intros rs. split; [apply CodecReloadProofs.load_rows_in|apply load_rows_bad]. Qed.
