From Coq Require Import ExtrOcamlBasic.
From CS Require Import Sx SmartModel.
Definition run := SmartModel.run.
Extraction "extract/smart/model.ml" run.
