(* SchedProofs.v — lemmas about SchedModel (C17). *)
From Coq Require Import QArith Qround ZArith NArith List Bool Lia Lqa Sorting.Sorted.
From CS Require Import Sx SchedModel.
Import ListNotations.
Open Scope Q_scope.

(* ------------------------------------------------------------------ booleans over Q *)
Lemma qltb_true a b : qltb a b = true <-> a < b.
Proof.
  unfold qltb. rewrite negb_true_iff. split; intros H.
  - apply Qnot_le_lt. intros Hle. apply Qle_bool_iff in Hle. congruence.
  - destruct (Qle_bool b a) eqn:E; [|reflexivity]. apply Qle_bool_iff in E. lra.
Qed.
Lemma qltb_false a b : qltb a b = false <-> b <= a.
Proof.
  unfold qltb. rewrite negb_false_iff. apply Qle_bool_iff.
Qed.
Lemma qeqb_true a b : Qeq_bool a b = true <-> a == b.
Proof. apply Qeq_bool_iff. Qed.
Lemma qeqb_false a b : Qeq_bool a b = false <-> ~ a == b.
Proof.
  split; intros H.
  - intros E. apply Qeq_bool_iff in E. congruence.
  - destruct (Qeq_bool a b) eqn:E; [|reflexivity]. apply Qeq_bool_iff in E. contradiction.
Qed.
Lemma qleb_true a b : Qle_bool a b = true <-> a <= b.
Proof. apply Qle_bool_iff. Qed.

Lemma truthy_some c : truthy c = true <-> exists q, c = Some q /\ ~ q == 0.
Proof.
  destruct c as [q|]; simpl; split.
  - intros H. exists q. split; [reflexivity|]. apply negb_true_iff in H. apply qeqb_false. exact H.
  - intros [q' [E H]]. inversion E; subst. apply negb_true_iff. apply qeqb_false. exact H.
  - discriminate.
  - intros [q [E _]]. discriminate.
Qed.

Lemma qmax_ge_l a b : a <= qmax a b.
Proof. unfold qmax. destruct (qltb a b) eqn:E; [apply qltb_true in E; lra|lra]. Qed.
Lemma qmax_ge_r a b : b <= qmax a b.
Proof. unfold qmax. destruct (qltb a b) eqn:E; [lra|apply qltb_false in E; lra]. Qed.
Lemma qmax_cases a b : qmax a b = a \/ qmax a b = b.
Proof. unfold qmax. destruct (qltb a b); auto. Qed.

(* ------------------------------------------------------------------ the key order *)
(* key a < key b,  key a <= key b  for the tuples (priority, max stamp) *)
Definition key_lt (a b : ent) : Prop := pri a < pri b \/ (pri a == pri b /\ tkey a < tkey b).
Definition key_le (a b : ent) : Prop := pri a < pri b \/ (pri a == pri b /\ tkey a <= tkey b).

Lemma key_ltb_true a b : key_ltb a b = true <-> key_lt a b.
Proof.
  unfold key_ltb, key_lt. destruct (Qeq_bool (pri a) (pri b)) eqn:E.
  - apply qeqb_true in E. rewrite qltb_true. split; [intros H; right; split; assumption|].
    intros [H|[_ H]]; [lra|exact H].
  - apply qeqb_false in E. rewrite qltb_true. split; [intros H; left; exact H|].
    intros [H|[H _]]; [exact H|contradiction].
Qed.
Lemma key_ltb_false a b : key_ltb a b = false <-> key_le b a.
Proof.
  unfold key_ltb, key_le. destruct (Qeq_bool (pri a) (pri b)) eqn:E.
  - apply qeqb_true in E. rewrite qltb_false. split.
    + intros H. right. split; [lra|exact H].
    + intros [H|[_ H]]; [lra|exact H].
  - apply qeqb_false in E. rewrite qltb_false. split.
    + intros H. left. destruct (Qlt_le_dec (pri b) (pri a)) as [H1|H1]; [exact H1|]. exfalso. apply E. lra.
    + intros [H|[H _]]; [lra|]. exfalso. apply E. lra.
Qed.

Lemma key_ltb_irrefl a : key_ltb a a = false.
Proof. apply key_ltb_false. right. split; lra. Qed.
Lemma key_ltb_trans a b c : key_ltb a b = true -> key_ltb b c = true -> key_ltb a c = true.
Proof. rewrite !key_ltb_true. unfold key_lt. intros [H1|[H1 H1']] [H2|[H2 H2']]; [left; lra|left; lra|left; lra|right; split; lra]. Qed.
Lemma key_geb_trans a b c : key_ltb b a = false -> key_ltb c b = false -> key_ltb c a = false.
Proof. rewrite !key_ltb_false. unfold key_le. intros [H1|[H1 H1']] [H2|[H2 H2']]; [left; lra|left; lra|left; lra|right; split; lra]. Qed.

(* ------------------------------------------------------------------ stable sort + find = first minimum *)
Section SortLaws.
  Context {T : Type}.
  Variable ltb : T -> T -> bool.
  Hypothesis ltb_irrefl : forall x, ltb x x = false.
  Hypothesis ltb_trans : forall x y z, ltb x y = true -> ltb y z = true -> ltb x z = true.
  Hypothesis geb_trans : forall x y z, ltb y x = false -> ltb z y = false -> ltb z x = false.

  Lemma ltb_asym x y : ltb x y = true -> ltb y x = false.
  Proof.
    intros H. destruct (ltb y x) eqn:E; [|reflexivity].
    pose proof (ltb_trans _ _ _ H E) as Hxx. rewrite ltb_irrefl in Hxx. discriminate.
  Qed.

  Definition nlt (a b : T) : Prop := ltb b a = false.      (* a may stand before b *)

  Lemma insert_forall (P : T -> Prop) x l : P x -> Forall P l -> Forall P (insert ltb x l).
  Proof.
    intros Hx Hl. induction Hl as [|y r Hy Hr IH]; simpl; [constructor; auto|].
    destruct (ltb y x); constructor; auto.
  Qed.

  Lemma insert_sorted x l : StronglySorted nlt l -> StronglySorted nlt (insert ltb x l).
  Proof.
    intros Hs. induction Hs as [|y r Hr IH Hy]; simpl; [constructor; [constructor|constructor]|].
    destruct (ltb y x) eqn:E.
    - constructor; [exact IH|]. apply insert_forall; [|exact Hy]. unfold nlt. apply ltb_asym. exact E.
    - constructor; [constructor; assumption|]. constructor; [exact E|].
      eapply Forall_impl; [|exact Hy]. intros z Hz. unfold nlt in *. eapply geb_trans; eassumption.
  Qed.

  Lemma isort_sorted l : StronglySorted nlt (isort ltb l).
  Proof. induction l as [|x r IH]; simpl; [constructor|apply insert_sorted; exact IH]. Qed.

  Lemma insert_in x l z : In z (insert ltb x l) <-> z = x \/ In z l.
  Proof.
    induction l as [|y r IH]; simpl; [intuition|].
    destruct (ltb y x); simpl; rewrite ?IH; intuition.
  Qed.
  Lemma isort_in l z : In z (isort ltb l) <-> In z l.
  Proof. induction l as [|x r IH]; simpl; [reflexivity|]. rewrite insert_in, IH. intuition. Qed.

  Lemma find_insert p x s : StronglySorted nlt s ->
    find p (insert ltb x s) =
    if p x then match find p s with
                | Some y => if ltb y x then Some y else Some x
                | None => Some x
                end
    else find p s.
  Proof.
    intros Hs. induction Hs as [|y r Hr IH Hy]; simpl; [destruct (p x); reflexivity|].
    destruct (ltb y x) eqn:E; simpl.
    - destruct (p y) eqn:Py.
      + rewrite E. destruct (p x); reflexivity.
      + exact IH.
    - destruct (p x) eqn:Px; [|reflexivity].
      destruct (p y) eqn:Py; [rewrite E; reflexivity|].
      destruct (find p r) as [z|] eqn:F; [|reflexivity].
      apply find_some in F as [Hin _].
      rewrite Forall_forall in Hy. specialize (Hy z Hin). unfold nlt in Hy.
      rewrite (geb_trans _ _ _ E Hy). reflexivity.
  Qed.

  (* sorted(l) scanned for the first element satisfying p  =  first-occurring minimum among those *)
  Theorem find_isort p l : find p (isort ltb l) = first_min ltb p l.
  Proof.
    induction l as [|x r IH]; simpl; [reflexivity|].
    rewrite find_insert by apply isort_sorted. rewrite IH. reflexivity.
  Qed.

  (* x is THE pick of l: it satisfies p, is strictly smaller than every p-element listed before it and
     not larger than every p-element listed after it *)
  Definition is_pick (p : T -> bool) (l : list T) (x : T) : Prop :=
    exists l1 l2, l = l1 ++ x :: l2 /\ p x = true /\
      (forall y, In y l1 -> p y = true -> ltb x y = true) /\
      (forall y, In y l2 -> p y = true -> ltb y x = false).

  Lemma is_pick_min p l x : is_pick p l x -> forall y, In y l -> p y = true -> ltb y x = false.
  Proof.
    intros [l1 [l2 [E [Px [H1 H2]]]]] y Hy Py. subst l. apply in_app_or in Hy as [Hy|[Hy|Hy]].
    - apply ltb_asym. apply H1; assumption.
    - subst. apply ltb_irrefl.
    - apply H2; assumption.
  Qed.

  Lemma first_min_none p l : first_min ltb p l = None <-> forall y, In y l -> p y = false.
  Proof.
    induction l as [|x r IH]; simpl; [split; [intros _ y []|reflexivity]|].
    destruct (p x) eqn:Px.
    - split.
      + destruct (first_min ltb p r) as [y|]; [destruct (ltb y x)|]; discriminate.
      + intros H. rewrite (H x) in Px by auto. discriminate.
    - rewrite IH. split; [intros H y [<-|Hy]; auto|intros H y Hy; apply H; auto].
  Qed.

  Lemma first_min_pick p l x : first_min ltb p l = Some x -> is_pick p l x.
  Proof.
    revert x. induction l as [|x0 r IH]; simpl; intros x H; [discriminate|].
    destruct (p x0) eqn:Px0.
    - destruct (first_min ltb p r) as [y|] eqn:F.
      + specialize (IH y eq_refl).
        destruct (ltb y x0) eqn:E; inversion H; subst; clear H.
        * destruct IH as [l1 [l2 [Er [Px [H1 H2]]]]]. exists (x0 :: l1), l2. subst r.
          split; [reflexivity|]. split; [exact Px|]. split; [|exact H2].
          intros z [<-|Hz] Pz; auto.
        * exists [], r. split; [reflexivity|]. split; [exact Px0|]. split; [intros z []|].
          intros z Hz Pz. pose proof (is_pick_min _ _ _ IH z Hz Pz) as Hm.
          eapply geb_trans; eassumption.
      + inversion H; subst; clear H. exists [], r.
        split; [reflexivity|]. split; [exact Px0|]. split; [intros z []|].
        intros z Hz Pz. rewrite (proj1 (first_min_none p r) F z Hz) in Pz. discriminate.
    - destruct (IH x H) as [l1 [l2 [Er [Px [H1 H2]]]]]. exists (x0 :: l1), l2. subst r.
      split; [reflexivity|]. split; [exact Px|]. split; [|exact H2].
      intros z [<-|Hz] Pz; [congruence|auto].
  Qed.

  Lemma pick_first_min p l x : is_pick p l x -> first_min ltb p l = Some x.
  Proof.
    intros [l1 [l2 [E [Px [H1 H2]]]]]. subst l. induction l1 as [|z l1 IH]; simpl.
    - rewrite Px. destruct (first_min ltb p l2) as [y|] eqn:F; [|reflexivity].
      apply first_min_pick in F. destruct F as [a [b [Eb [Py _]]]].
      rewrite (H2 y); [reflexivity| |exact Py]. subst l2. apply in_or_app. right. left. reflexivity.
    - rewrite IH by (intros y Hy; apply H1; right; exact Hy).
      destruct (p z) eqn:Pz; [|reflexivity]. rewrite (H1 z) by (auto; left; reflexivity). reflexivity.
  Qed.

  Theorem first_min_spec p l x : first_min ltb p l = Some x <-> is_pick p l x.
  Proof. split; [apply first_min_pick|apply pick_first_min]. Qed.
End SortLaws.

(* ------------------------------------------------------------------ change(): the pick *)
Definition elig (et : Q) (x : nat * ent) : bool := eligible et (snd x).

Lemma ikey_irrefl x : ikey_ltb x x = false.
Proof. apply key_ltb_irrefl. Qed.
Lemma ikey_trans x y z : ikey_ltb x y = true -> ikey_ltb y z = true -> ikey_ltb x z = true.
Proof. apply key_ltb_trans. Qed.
Lemma ikey_geb_trans x y z : ikey_ltb y x = false -> ikey_ltb z y = false -> ikey_ltb z x = false.
Proof. apply key_geb_trans. Qed.

(* the code's sort-then-scan equals the direct first-minimum *)
Theorem pick_sorted_min et l : pick_sorted et l = pick_min et l.
Proof. unfold pick_sorted, pick_min. apply find_isort; [apply ikey_irrefl|apply ikey_trans|apply ikey_geb_trans]. Qed.

Definition picked (et : Q) (l : list (nat * ent)) (x : nat * ent) : Prop :=
  exists l1 l2, l = l1 ++ x :: l2 /\ eligible et (snd x) = true /\
    (forall y, In y l1 -> eligible et (snd y) = true -> key_lt (snd x) (snd y)) /\
    (forall y, In y l2 -> eligible et (snd y) = true -> key_le (snd x) (snd y)).

Theorem pick_spec et l x : pick_sorted et l = Some x <-> picked et l x.
Proof.
  rewrite pick_sorted_min. unfold pick_min.
  rewrite (first_min_spec ikey_ltb ikey_irrefl ikey_trans ikey_geb_trans).
  unfold is_pick, picked. split; intros [l1 [l2 [E [Px [H1 H2]]]]]; exists l1, l2; repeat split; auto.
  - intros y Hy Py. apply key_ltb_true. apply (H1 y Hy Py).
  - intros y Hy Py. apply key_ltb_false. apply (H2 y Hy Py).
  - intros y Hy Py. apply key_ltb_true. apply (H1 y Hy Py).
  - intros y Hy Py. apply key_ltb_false. apply (H2 y Hy Py).
Qed.

Theorem pick_none et l : pick_sorted et l = None <-> forall y, In y l -> eligible et (snd y) = false.
Proof. rewrite pick_sorted_min. unfold pick_min. apply first_min_none. Qed.

Lemma key_lt_le a b : key_lt a b -> key_le a b.
Proof. unfold key_lt, key_le. intros [H|[H H']]; [left; exact H|right; split; lra]. Qed.
Lemma key_le_refl a : key_le a a.
Proof. right. split; lra. Qed.

Theorem picked_is_eligible et l x : pick_sorted et l = Some x -> In x l /\ eligible et (snd x) = true.
Proof.
  intros H. apply pick_spec in H as [l1 [l2 [E [Px _]]]]. split; [|exact Px].
  subst l. apply in_or_app. right. left. reflexivity.
Qed.

Theorem picked_is_min et l x : pick_sorted et l = Some x ->
  forall y, In y l -> eligible et (snd y) = true -> key_le (snd x) (snd y).
Proof.
  intros H y Hy Py. apply pick_spec in H as [l1 [l2 [E [Px [H1 H2]]]]]. subst l.
  apply in_app_or in Hy as [Hy|[Hy|Hy]].
  - apply key_lt_le. apply H1; assumption.
  - subst. apply key_le_refl.
  - apply H2; assumption.
Qed.

(* eligibility, spelled out *)
Definition aged (et : Q) (c : stamp) : Prop := exists q, c = Some q /\ ~ q == 0 /\ q <= et.

Lemma side_aged_true et c : side_aged et c = true <-> aged et c.
Proof.
  unfold side_aged, aged. rewrite andb_true_iff, truthy_some, qleb_true. split.
  - intros [[q [E H]] Hle]. subst. exists q. auto.
  - intros [q [E [H Hle]]]. subst. split; [exists q; auto|exact Hle].
Qed.

Theorem eligible_iff et e :
  eligible et e = true <-> aged et (chL e) \/ aged et (chR e) \/ pri e < 0.
Proof.
  unfold eligible. rewrite !orb_true_iff, !side_aged_true, qltb_true. tauto.
Qed.

Theorem negative_priority_immediate et e : pri e < 0 -> eligible et e = true.
Proof. intros H. apply eligible_iff. auto. Qed.

Theorem not_before_aged et l x : pick_sorted et l = Some x -> 0 <= pri (snd x) ->
  exists s, aged et (ch s (snd x)).
Proof.
  intros H Hp. apply picked_is_eligible in H as [_ H]. apply eligible_iff in H as [H|[H|H]].
  - exists SL. exact H.
  - exists SR. exact H.
  - lra.
Qed.

(* age = 0 *)
Theorem age_zero_all_eligible c now l :
  c_rnd c (now - 0) == now ->
  (forall x, In x l -> exists s q, ch s (snd x) = Some q /\ ~ q == 0 /\ q <= now) ->
  (forall x, In x l -> eligible (earlier_than c now 0) (snd x) = true) /\
  (l <> [] -> exists x, pick_sorted (earlier_than c now 0) l = Some x).
Proof.
  intros Hr Hl.
  assert (Hall : forall x, In x l -> eligible (earlier_than c now 0) (snd x) = true).
  { intros x Hx. destruct (Hl x Hx) as [s [q [E [Hq Hle]]]]. apply eligible_iff.
    assert (Ha : aged (earlier_than c now 0) (ch s (snd x))).
    { exists q. repeat split; auto. unfold earlier_than, fsub. rewrite Hr. exact Hle. }
    destruct s; simpl in Ha; auto. }
  split; [exact Hall|]. intros Hne.
  destruct (pick_sorted (earlier_than c now 0) l) as [x|] eqn:P; [exists x; reflexivity|].
  exfalso. destruct l as [|x r]; [congruence|].
  pose proof (proj1 (pick_none _ _) P x (or_introl eq_refl)) as Hn.
  rewrite (Hall x (or_introl eq_refl)) in Hn. discriminate.
Qed.

(* ------------------------------------------------------------------ starvation, at the level of one pick *)
Theorem smaller_priority_first et l x y : pick_sorted et l = Some x ->
  In y l -> eligible et (snd y) = true -> pri (snd y) < pri (snd x) -> False.
Proof.
  intros H Hy Py Hlt. pose proof (picked_is_min _ _ _ H y Hy Py) as [Hk|[Hk _]]; lra.
Qed.

Theorem picked_when_smallest et l x : In x l -> eligible et (snd x) = true ->
  (forall y, In y l -> y <> x -> eligible et (snd y) = true -> key_lt (snd x) (snd y)) ->
  NoDup l -> pick_sorted et l = Some x.
Proof.
  intros Hin Px Hall Hnd. apply pick_spec. apply in_split in Hin as [l1 [l2 E]]. subst l.
  exists l1, l2. split; [reflexivity|]. split; [exact Px|].
  apply NoDup_remove_2 in Hnd.
  split; intros y Hy Py.
  - apply Hall; auto; [apply in_or_app; left; exact Hy|]. intros ->. apply Hnd. apply in_or_app. left. exact Hy.
  - apply key_lt_le. apply Hall; auto; [apply in_or_app; right; right; exact Hy|].
    intros ->. apply Hnd. apply in_or_app. right. exact Hy.
Qed.

(* ------------------------------------------------------------------ the `changed` setter *)
Lemma other_other s : other (other s) = s.
Proof. destruct s; reflexivity. Qed.

Lemma set_changed_ok s v e e' : set_changed s v e = Ok e' ->
  ch s e' = v /\ (ch (other s) e' = ch (other s) e \/ ch (other s) e' = Some 0) /\
  pri e' = pri e /\ (forall s', nt s' e' = nt s' e) /\ (forall s', oid s' e' = oid s' e).
Proof.
  unfold set_changed. intros H.
  repeat match type of H with
         | (if ?b then _ else _) = _ => destruct b
         end; inversion H; subst; clear H; destruct s; simpl;
  (split; [reflexivity|split; [auto|split; [reflexivity|split; intros []; reflexivity]]]).
Qed.

Lemma set_changed_simple s v e : truthy v = true -> oid s e = true ->
  set_changed s v e = Ok (with_ch s v (with_in true e)).
Proof. intros Hv Ho. unfold set_changed. rewrite Hv, Ho. reflexivity. Qed.

(* ------------------------------------------------------------------ mark_changed: strictly increasing stamps *)
Definition bump_ok (c : cfg) : Prop := forall x, x < c_rnd c (x + c_eps c).

Lemma nth_error_upd_same {T} i (x y : T) l : nth_error l i = Some y -> nth_error (upd i x l) i = Some x.
Proof.
  revert i. induction l as [|z l IH]; intros [|i]; simpl; intros H; try discriminate; [reflexivity|apply IH; exact H].
Qed.
Lemma nth_error_upd_other {T} i j (x : T) l : i <> j -> nth_error (upd i x l) j = nth_error l j.
Proof.
  revert i j. induction l as [|z l IH]; intros [|i] [|j] H; simpl; try reflexivity; [congruence|apply IH; congruence].
Qed.
Lemma upd_length {T} i (x : T) l : length (upd i x l) = length l.
Proof. revert i. induction l as [|z l IH]; intros [|i]; simpl; auto. Qed.

Theorem mark_changed_stamp c sd clock i s s' : bump_ok c -> mark_changed c sd clock i s = Ok s' ->
  last s < last s' /\ clock <= last s' /\
  exists e', nth_error (ents s') i = Some e' /\ ch sd e' = Some (last s').
Proof.
  intros Hb. unfold mark_changed. destruct (nth_error (ents s) i) as [e|] eqn:En; [|discriminate].
  destruct (set_changed sd (Some clock) (with_nt sd (Some clock) e)) as [e1|] eqn:E1; simpl; try discriminate.
  destruct (Qle_bool clock (last s)) eqn:Ec.
  - destruct (set_changed sd (Some (fadd c (last s) (c_eps c))) e1) as [e2|] eqn:E2; simpl; try discriminate.
    intros H. inversion H; subst; clear H. simpl.
    apply qleb_true in Ec. pose proof (Hb (last s)) as Hlt. unfold fadd.
    split; [exact Hlt|]. split; [lra|].
    exists e2. split; [eapply nth_error_upd_same; exact En|].
    apply set_changed_ok in E2. tauto.
  - intros H. inversion H; subst; clear H. simpl.
    assert (Hlt : last s < clock).
    { apply Qnot_le_lt. intros Hle. apply qleb_true in Hle. congruence. }
    split; [exact Hlt|]. split; [lra|].
    exists e1. split; [eapply nth_error_upd_same; exact En|].
    apply set_changed_ok in E1. tauto.
Qed.

Lemma on_ent_last i f s s' : on_ent i f s = Ok s' -> last s' = last s.
Proof.
  unfold on_ent. destruct (nth_error (ents s) i); [|discriminate].
  destruct (f e); simpl; try discriminate. intros H. inversion H. reflexivity.
Qed.
Lemma finished_last c sd rel i s s' : finished c sd rel i s = Ok s' -> last s' = last s.
Proof.
  unfold finished. destruct (nth_error (ents s) i); [|discriminate].
  destruct (set_changed sd (Some 0) e); simpl; try discriminate.
  destruct (truthy (chR x) || truthy (chL x)).
  - intros H. inversion H. reflexivity.
  - destruct (reset_related c rel _); simpl; try discriminate. intros H. inversion H. reflexivity.
Qed.

Lemma step_last c o s s' p : bump_ok c -> step c o s = Ok (s', p) -> last s <= last s'.
Proof.
  intros Hb. destruct o; simpl.
  - intros H. inversion H. simpl. lra.
  - destruct (mark_changed c s0 clock i s) eqn:E; simpl; try discriminate.
    intros H. inversion H; subst. apply mark_changed_stamp in E; [lra|exact Hb].
  - destruct (on_ent i (punt c) s) eqn:E; simpl; try discriminate. intros H. inversion H; subst.
    rewrite (on_ent_last _ _ _ _ E). lra.
  - destruct (on_ent i (set_priority c v) s) eqn:E; simpl; try discriminate. intros H. inversion H; subst.
    rewrite (on_ent_last _ _ _ _ E). lra.
  - destruct (finished c s0 rel i s) eqn:E; simpl; try discriminate. intros H. inversion H; subst.
    rewrite (finished_last _ _ _ _ _ _ E). lra.
  - destruct (on_ent i (set_aged s0) s) eqn:E; simpl; try discriminate. intros H. inversion H; subst.
    rewrite (on_ent_last _ _ _ _ E). lra.
  - destruct (on_ent i (set_force_sync s0 clock) s) eqn:E; simpl; try discriminate. intros H. inversion H; subst.
    rewrite (on_ent_last _ _ _ _ E). lra.
  - destruct (on_ent i (raw_changed s0 v) s) eqn:E; simpl; try discriminate. intros H. inversion H; subst.
    rewrite (on_ent_last _ _ _ _ E). lra.
  - destruct (on_ent i _ s) eqn:E; simpl; try discriminate. intros H. inversion H; subst.
    rewrite (on_ent_last _ _ _ _ E). lra.
  - destruct (on_ent i _ s) eqn:E; simpl; try discriminate. intros H. inversion H; subst.
    rewrite (on_ent_last _ _ _ _ E). lra.
  - destruct (change c now age order s); simpl; try discriminate. intros H. inversion H; subst. lra.
  - destruct (on_ent i _ s) eqn:E; simpl; try discriminate. intros H. inversion H; subst.
    rewrite (on_ent_last _ _ _ _ E). lra.
Qed.

Lemma steps_last c ops s s' : bump_ok c -> steps c ops s = Ok s' -> last s <= last s'.
Proof.
  intros Hb. revert s. induction ops as [|o r IH]; simpl; intros s H.
  - inversion H. lra.
  - destruct (step c o s) as [[s1 p]|] eqn:E; simpl in H; try discriminate.
    apply step_last in E; [|exact Hb]. apply IH in H. simpl in H. lra.
Qed.

(* two notifications anywhere in a history get strictly increasing stamps, whatever the clock says *)
Theorem change_times_strictly_increase c ops i sd t j sd' t' s0 s1 s2 s3 : bump_ok c ->
  mark_changed c sd t i s0 = Ok s1 -> steps c ops s1 = Ok s2 -> mark_changed c sd' t' j s2 = Ok s3 ->
  exists e1 e2 m1 m2,
    nth_error (ents s1) i = Some e1 /\ ch sd e1 = Some m1 /\
    nth_error (ents s3) j = Some e2 /\ ch sd' e2 = Some m2 /\
    m1 < m2 /\ t <= m1 /\ t' <= m2.
Proof.
  intros Hb H1 Hs H2.
  apply mark_changed_stamp in H1 as [_ [Ht1 [e1 [En1 Ec1]]]]; [|exact Hb].
  apply mark_changed_stamp in H2 as [Hlt [Ht2 [e2 [En2 Ec2]]]]; [|exact Hb].
  apply steps_last in Hs; [|exact Hb].
  exists e1, e2, (last s1), (last s3). repeat split; auto. lra.
Qed.

(* ------------------------------------------------------------------ punting: bounded delay *)
Definition exact (c : cfg) : Prop := forall x, c_rnd c x = x.
(* every changed side has an oid and a positive stamp (the state the engine keeps entries in) *)
Definition healthy (e : ent) : Prop :=
  forall s, truthy (ch s e) = true -> oid s e = true /\ 0 < orz (ch s e).

Fixpoint punts (c : cfg) (k : nat) (e : ent) : res ent :=
  match k with O => Ok e | S k' => bind (punt c e) (punts c k') end.

Lemma truthy_pos q : 0 < q -> truthy (Some q) = true.
Proof. intros H. simpl. apply negb_true_iff. apply qeqb_false. lra. Qed.

Lemma shift_healthy c s e : exact c -> 0 <= c_punt c s -> healthy e ->
  exists e', shift c s e = Ok e' /\ pri e' = pri e /\ (forall s', oid s' e' = oid s' e) /\
    ch (other s) e' = ch (other s) e /\
    (truthy (ch s e) = true -> ch s e' = Some (orz (ch s e) + c_punt c s)) /\
    (truthy (ch s e) = false -> ch s e' = ch s e).
Proof.
  intros Hx Hp Hh. unfold shift. destruct (truthy (ch s e)) eqn:Tr.
  - destruct (Hh s Tr) as [Ho Hpos]. unfold fadd. rewrite Hx.
    rewrite set_changed_simple; [|apply truthy_pos; lra|exact Ho].
    eexists. split; [reflexivity|]. destruct s; simpl; repeat split; auto; try (intros []; reflexivity); discriminate.
  - exists e. repeat split; auto. discriminate.
Qed.

Lemma with_pri_ch p s e : ch s (with_pri p e) = ch s e.
Proof. destruct s; reflexivity. Qed.
Lemma with_pri_oid p s e : oid s (with_pri p e) = oid s e.
Proof. destruct s; reflexivity. Qed.

Lemma shift_both c e : exact c -> 0 <= c_pL c -> 0 <= c_pR c -> healthy e ->
  exists e2, bind (shift c SL e) (fun e1 => bind (shift c SR e1) (fun e2 => Ok e2)) = Ok e2 /\
    (forall s, oid s e2 = oid s e) /\
    (forall s, truthy (ch s e) = true -> ch s e2 = Some (orz (ch s e) + c_punt c s)) /\
    (forall s, truthy (ch s e) = false -> ch s e2 = ch s e).
Proof.
  intros Hx HpL HpR Hh.
  destruct (shift_healthy c SL e Hx HpL Hh) as [e1 [S1 [_ [O1 [X1 [T1 F1]]]]]].
  assert (X1' : ch SR e1 = ch SR e) by exact X1. clear X1.
  assert (Hh1 : healthy e1).
  { intros s Hs. rewrite O1. destruct s.
    - destruct (truthy (ch SL e)) eqn:Tr.
      + destruct (Hh SL Tr) as [Ho Hq]. split; [exact Ho|]. rewrite (T1 eq_refl). simpl in Hq, HpL |- *. lra.
      + rewrite (F1 eq_refl) in Hs. congruence.
    - rewrite X1' in *. apply (Hh SR Hs). }
  destruct (shift_healthy c SR e1 Hx HpR Hh1) as [e2 [S2 [_ [O2 [X2 [T2 F2]]]]]].
  assert (X2' : ch SL e2 = ch SL e1) by exact X2. clear X2.
  exists e2. rewrite S1. simpl. rewrite S2. simpl. split; [reflexivity|].
  split; [intros s; rewrite O2, O1; reflexivity|].
  split; intros [] Hs.
  - rewrite X2'. apply T1. exact Hs.
  - rewrite <- X1' in Hs. rewrite (T2 Hs). rewrite X1'. reflexivity.
  - rewrite X2'. apply F1. exact Hs.
  - rewrite <- X1' in Hs. rewrite (F2 Hs). exact X1'.
Qed.

Lemma punt_once c e : exact c -> 0 <= c_pL c -> 0 <= c_pR c -> healthy e -> 0 <= pri e ->
  exists e', punt c e = Ok e' /\ pri e' == pri e + 1 /\ healthy e' /\
    (forall s, truthy (ch s e') = truthy (ch s e)) /\
    (forall s, truthy (ch s e) = true -> orz (ch s e') == orz (ch s e) + c_punt c s) /\
    (forall s, truthy (ch s e) = false -> ch s e' = ch s e).
Proof.
  intros Hx HpL HpR Hh Hp. unfold punt, set_priority, fadd. rewrite Hx.
  assert (E1 : Qeq_bool (pri e) (pri e + 1) = false) by (apply qeqb_false; lra).
  assert (E2 : qltb (pri e) (pri e + 1) = true) by (apply qltb_true; lra).
  assert (E3 : qltb 0 (pri e + 1) = true) by (apply qltb_true; lra).
  rewrite E1, E2, E3. simpl andb. cbv iota.
  destruct (shift_both c e Hx HpL HpR Hh) as [e2 [B [O [T Fs]]]].
  assert (Hpp : forall s, 0 <= c_punt c s) by (intros []; assumption).
  assert (Htr : forall s, truthy (ch s e2) = truthy (ch s e)).
  { intros s. destruct (truthy (ch s e)) eqn:Tr.
    - rewrite (T s Tr). destruct (Hh s Tr) as [_ Hq]. apply truthy_pos. specialize (Hpp s). lra.
    - rewrite (Fs s Tr). exact Tr. }
  exists (with_pri (pri e + 1) e2). split.
  { destruct (shift c SL e) as [e1|]; simpl in B |- *; try discriminate.
    destruct (shift c SR e1) as [e2'|]; simpl in B |- *; try discriminate.
    inversion B; subst. reflexivity. }
  split; [simpl; lra|].
  split.
  { intros s Hs. rewrite with_pri_ch in *. rewrite with_pri_oid, O. rewrite Htr in Hs.
    destruct (Hh s Hs) as [Ho Hq]. split; [exact Ho|]. rewrite (T s Hs). simpl. specialize (Hpp s). lra. }
  split; [intros s; rewrite with_pri_ch; apply Htr|].
  split.
  - intros s Hs. rewrite with_pri_ch, (T s Hs). simpl. lra.
  - intros s Hs. rewrite with_pri_ch. apply Fs. exact Hs.
Qed.

Lemma punts_spec c k : exact c -> 0 <= c_pL c -> 0 <= c_pR c -> forall e, healthy e -> 0 <= pri e ->
  exists e', punts c k e = Ok e' /\ pri e' == pri e + inject_Z (Z.of_nat k) /\ healthy e' /\
    (forall s, truthy (ch s e') = truthy (ch s e)) /\
    (forall s, truthy (ch s e) = true -> orz (ch s e') == orz (ch s e) + inject_Z (Z.of_nat k) * c_punt c s).
Proof.
  intros Hx HpL HpR. induction k as [|k IH]; intros e Hh Hp.
  - exists e. simpl. split; [reflexivity|]. split; [change (inject_Z 0) with (0 # 1); lra|].
    split; [exact Hh|]. split; [reflexivity|]. intros s _. change (inject_Z 0) with (0 # 1). lra.
  - destruct (punt_once c e Hx HpL HpR Hh Hp) as [e1 [P1 [Q1 [H1 [T1 [S1 _]]]]]].
    assert (Hp1 : 0 <= pri e1) by lra.
    destruct (IH e1 H1 Hp1) as [e2 [P2 [Q2 [H2 [T2 S2]]]]].
    exists e2. simpl punts. rewrite P1. change (bind (Ok e1) (punts c k)) with (punts c k e1). split; [exact P2|].
    rewrite Nat2Z.inj_succ, <- Z.add_1_r, inject_Z_plus. change (inject_Z 1) with (1 # 1).
    split; [rewrite Q2, Q1; lra|]. split; [exact H2|].
    split; [intros s; rewrite T2; apply T1|].
    intros s Hs. rewrite S2 by (rewrite T1; exact Hs). rewrite (S1 s Hs). lra.
Qed.

(* after k punts the entry is eligible again as soon as  stamp0 + k * punt_secs + age <= now *)
Theorem punt_bounded_delay c k e s now age : exact c -> 0 <= c_pL c -> 0 <= c_pR c ->
  healthy e -> 0 <= pri e -> truthy (ch s e) = true ->
  orz (ch s e) + inject_Z (Z.of_nat k) * c_punt c s + age <= now ->
  exists e', punts c k e = Ok e' /\ pri e' == pri e + inject_Z (Z.of_nat k) /\
    orz (ch s e') == orz (ch s e) + inject_Z (Z.of_nat k) * c_punt c s /\
    eligible (earlier_than c now age) e' = true.
Proof.
  intros Hx HpL HpR Hh Hp Tr Hnow.
  destruct (punts_spec c k Hx HpL HpR e Hh Hp) as [e' [P [Q [H' [T S]]]]].
  exists e'. split; [exact P|]. split; [exact Q|]. split; [apply S; exact Tr|].
  apply eligible_iff.
  assert (Ha : aged (earlier_than c now age) (ch s e')).
  { pose proof (T s) as Tt. rewrite Tr in Tt. apply truthy_some in Tt as [q [Eq Hq]].
    exists q. split; [exact Eq|]. split; [exact Hq|].
    unfold earlier_than, fsub. rewrite Hx. pose proof (S s Tr) as Ss. rewrite Eq in Ss. simpl in Ss. lra. }
  destruct s; simpl in Ha; auto.
Qed.

(* ... and while it waits it does not block anything with a smaller priority value *)
Theorem no_starvation c k e e' et l i y : exact c -> 0 <= c_pL c -> 0 <= c_pR c ->
  healthy e -> 0 <= pri e -> punts c k e = Ok e' ->
  In (i, e') l -> In y l -> eligible et (snd y) = true ->
  pri (snd y) < pri e + inject_Z (Z.of_nat k) ->
  pick_sorted et l <> Some (i, e').
Proof.
  intros Hx HpL HpR Hh Hp P Hin Hy Py Hlt Hpick.
  destruct (punts_spec c k Hx HpL HpR e Hh Hp) as [e2 [P2 [Q _]]]. rewrite P in P2. inversion P2; subst e2.
  eapply smaller_priority_first; [exact Hpick|exact Hy|exact Py|]. simpl. lra.
Qed.

(* ------------------------------------------------------------------ change() on the table *)
Lemma existsb_eqb_in j l : existsb (Nat.eqb j) l = true <-> In j l.
Proof.
  rewrite existsb_exists. split.
  - intros [x [Hx E]]. apply Nat.eqb_eq in E. subst. exact Hx.
  - intros H. exists j. split; [exact H|apply Nat.eqb_refl].
Qed.

Lemma member_nth s i : member s i = true ->
  exists e, nth_error (ents s) i = Some e /\ inset e = true /\ nth i (ents s) new_ent = e.
Proof.
  unfold member. destruct (nth_error (ents s) i) as [e|] eqn:E; [|discriminate].
  intros H. exists e. split; [reflexivity|]. split; [exact H|]. apply nth_error_nth. exact E.
Qed.

Theorem change_spec c now age order s i : change c now age order s = Ok (Some i) ->
  exists e, nth_error (ents s) i = Some e /\ inset e = true /\ In i order /\
    pick_sorted (threshold c now age (last s)) (tagged order s) = Some (i, e) /\
    (forall j e', nth_error (ents s) j = Some e' -> inset e' = true -> In (j, e') (tagged order s)).
Proof.
  unfold change. destruct (order_ok order s) eqn:Ok1; [|discriminate].
  unfold order_ok in Ok1. apply andb_true_iff in Ok1 as [Ok1 Ok3]. apply andb_true_iff in Ok1 as [_ Ok2].
  rewrite forallb_forall in Ok2, Ok3.
  destruct (pick_sorted (threshold c now age (last s)) (tagged order s)) as [[i' e]|] eqn:P; simpl; [|discriminate].
  intros H. inversion H; subst i'. clear H.
  pose proof (picked_is_eligible _ _ _ P) as [Hin _].
  unfold tagged in Hin. apply in_map_iff in Hin as [j [Ej Hj]]. inversion Ej; subst j.
  destruct (member_nth s i (Ok2 i Hj)) as [e0 [En [Hi Hn]]].
  exists e. rewrite Hn in H1. subst e0. split; [exact En|]. split; [exact Hi|]. split; [exact Hj|].
  split; [congruence|].
  intros j e' En' Hi'.
  assert (Hm : member s j = true) by (unfold member; rewrite En'; exact Hi').
  assert (Hlt : (j < length (ents s))%nat) by (apply nth_error_Some; congruence).
  assert (Hseq : In j (seq 0 (length (ents s)))) by (apply in_seq; lia).
  specialize (Ok3 j Hseq). rewrite Hm in Ok3. simpl in Ok3. apply existsb_eqb_in in Ok3.
  unfold tagged. apply in_map_iff. exists j. split; [|exact Ok3].
  f_equal. apply nth_error_nth. exact En'.
Qed.

(* the pick of change() is a member, eligible, and minimal among ALL eligible members *)
Theorem change_min c now age order s i : change c now age order s = Ok (Some i) ->
  exists e, nth_error (ents s) i = Some e /\ inset e = true /\
    eligible (threshold c now age (last s)) e = true /\
    forall j e', nth_error (ents s) j = Some e' -> inset e' = true ->
      eligible (threshold c now age (last s)) e' = true -> key_le e e'.
Proof.
  intros H. destruct (change_spec _ _ _ _ _ _ H) as [e [En [Hi [_ [P Hall]]]]].
  exists e. split; [exact En|]. split; [exact Hi|].
  pose proof (picked_is_eligible _ _ _ P) as [_ Pe]. split; [exact Pe|].
  intros j e' En' Hi' Pe'. apply (picked_is_min _ _ _ P (j, e') (Hall j e' En' Hi') Pe').
Qed.

Theorem change_none c now age order s : change c now age order s = Ok None ->
  forall j e', nth_error (ents s) j = Some e' -> inset e' = true ->
    eligible (threshold c now age (last s)) e' = false.
Proof.
  unfold change. destruct (order_ok order s) eqn:Ok1; [|discriminate].
  unfold order_ok in Ok1. apply andb_true_iff in Ok1 as [_ Ok3]. rewrite forallb_forall in Ok3.
  destruct (pick_sorted (threshold c now age (last s)) (tagged order s)) as [[i' e]|] eqn:P; simpl; [discriminate|].
  intros _ j e' En' Hi'.
  assert (Hm : member s j = true) by (unfold member; rewrite En'; exact Hi').
  assert (Hlt : (j < length (ents s))%nat) by (apply nth_error_Some; congruence).
  assert (Hseq : In j (seq 0 (length (ents s)))) by (apply in_seq; lia).
  specialize (Ok3 j Hseq). rewrite Hm in Ok3. simpl in Ok3. apply existsb_eqb_in in Ok3.
  apply (proj1 (pick_none _ _) P (j, e')). unfold tagged. apply in_map_iff. exists j. split; [|exact Ok3].
  f_equal. apply nth_error_nth. exact En'.
Qed.

(* ------------------------------------------------------------------ histories: stamps never precede notifications *)
(* a side is consistent when its truthy stamp is not earlier than the notification it derives from *)
Definition side_ok (s : side) (e : ent) : Prop :=
  truthy (ch s e) = true -> forall t, nt s e = Some t -> t <= orz (ch s e).
Definition ent_ok (e : ent) : Prop := side_ok SL e /\ side_ok SR e.
Definition all_ok (s : st) : Prop := Forall ent_ok (ents s).

Definition cfg_ok (c : cfg) : Prop :=
  bump_ok c /\ (forall x p, 0 <= p -> x <= c_rnd c (x + p)) /\ 0 <= c_pL c /\ 0 <= c_pR c.

Lemma ent_ok_sides e : (forall s, side_ok s e) <-> ent_ok e.
Proof. split; [intros H; split; apply H|intros [H1 H2] []; assumption]. Qed.

Lemma set_changed_keeps s v e e' : set_changed s v e = Ok e' ->
  side_ok (other s) e ->
  (truthy v = true -> forall t, nt s e = Some t -> t <= orz v) ->
  ent_ok e'.
Proof.
  intros H Ho Hs. apply set_changed_ok in H as [Hc [Hoth [_ [Hnt _]]]].
  apply ent_ok_sides. intros s'.
  assert (Hcase : s' = s \/ s' = other s) by (destruct s, s'; auto).
  destruct Hcase as [->| ->]; unfold side_ok.
  - rewrite Hc, Hnt. exact Hs.
  - rewrite Hnt. destruct Hoth as [E|E]; rewrite E; [exact Ho|]. simpl. discriminate.
Qed.

Lemma with_nt_other s v e : side_ok (other s) e -> side_ok (other s) (with_nt s v e).
Proof. destruct s; unfold side_ok; simpl; auto. Qed.
Lemma with_nt_ch s s' v e : ch s' (with_nt s v e) = ch s' e.
Proof. destruct s, s'; reflexivity. Qed.
Lemma with_nt_same s v e : nt s (with_nt s v e) = v.
Proof. destruct s; reflexivity. Qed.

Lemma shift_keeps c s e e' : cfg_ok c -> shift c s e = Ok e' -> ent_ok e -> ent_ok e'.
Proof.
  intros [_ [Hinf [HpL HpR]]] H Hok. unfold shift in H. destruct (truthy (ch s e)) eqn:Tr.
  - apply (set_changed_keeps _ _ _ _ H); [apply ent_ok_sides; exact Hok|].
    intros _ t Ht. simpl. unfold fadd.
    assert (Hs : side_ok s e) by (apply ent_ok_sides; exact Hok).
    specialize (Hs Tr t Ht).
    assert (Hp : 0 <= c_punt c s) by (destruct s; assumption).
    pose proof (Hinf (orz (ch s e)) (c_punt c s) Hp). lra.
  - inversion H; subst. exact Hok.
Qed.

Lemma with_pri_ok p e : ent_ok e -> ent_ok (with_pri p e).
Proof. intros [H1 H2]. split; unfold side_ok in *; simpl; assumption. Qed.
Lemma with_in_ok b e : ent_ok e -> ent_ok (with_in b e).
Proof. intros [H1 H2]. split; unfold side_ok in *; simpl; assumption. Qed.

Lemma set_priority_keeps c v e e' : cfg_ok c -> set_priority c v e = Ok e' -> ent_ok e -> ent_ok e'.
Proof.
  intros Hc H Hok. unfold set_priority in H.
  destruct (Qeq_bool (pri e) v); [inversion H; subst; exact Hok|].
  destruct (qltb (pri e) v && qltb 0 v).
  - destruct (shift c SL e) as [e1|] eqn:S1; simpl in H; try discriminate.
    destruct (shift c SR e1) as [e2|] eqn:S2; simpl in H; try discriminate.
    inversion H; subst. apply with_pri_ok.
    eapply shift_keeps; [exact Hc|exact S2|]. eapply shift_keeps; [exact Hc|exact S1|exact Hok].
  - inversion H; subst. apply with_pri_ok. exact Hok.
Qed.

Lemma hatch_keeps s v e e' : set_changed s v (with_nt s None e) = Ok e' -> ent_ok e -> ent_ok e'.
Proof.
  intros H Hok. apply (set_changed_keeps _ _ _ _ H).
  - apply with_nt_other. apply ent_ok_sides. exact Hok.
  - intros _ t Ht. rewrite with_nt_same in Ht. discriminate.
Qed.

Lemma force_keeps s clock e e' : set_force_sync s clock e = Ok e' -> ent_ok e -> ent_ok e'.
Proof.
  unfold set_force_sync. intros H Hok. apply (set_changed_keeps _ _ _ _ H).
  - apply with_nt_other. apply ent_ok_sides. exact Hok.
  - intros _ t Ht. rewrite with_nt_same in Ht. inversion Ht; subst. simpl. lra.
Qed.

Lemma set_oid_ok s e : ent_ok e -> ent_ok (set_oid s e).
Proof.
  intros [H1 H2]. unfold set_oid. destruct (truthy (chL e) || truthy (chR e)); destruct s; split; unfold side_ok in *; simpl; assumption.
Qed.
Lemma clear_oid_ok s e : ent_ok e -> ent_ok (clear_oid s e).
Proof.
  intros [H1 H2]. unfold clear_oid. destruct (truthy (ch s e) && negb (truthy (ch (other s) e))); destruct s; split; unfold side_ok in *; simpl; assumption.
Qed.

Lemma discard_ok e : ent_ok e -> ent_ok (discard_ent e).
Proof. intros _. split; unfold side_ok; simpl; discriminate. Qed.

Lemma upd_forall {T} (P : T -> Prop) i x l : Forall P l -> P x -> Forall P (upd i x l).
Proof.
  intros Hl Hx. revert i. induction Hl as [|y r Hy Hr IH]; intros [|i]; simpl; constructor; auto.
Qed.
Lemma nth_error_forall {T} (P : T -> Prop) i x l : Forall P l -> nth_error l i = Some x -> P x.
Proof. intros Hl H. rewrite Forall_forall in Hl. apply Hl. eapply nth_error_In. exact H. Qed.

Lemma on_ent_keeps i f s s' : (forall e e', f e = Ok e' -> ent_ok e -> ent_ok e') ->
  on_ent i f s = Ok s' -> all_ok s -> all_ok s'.
Proof.
  intros Hf. unfold on_ent, all_ok. destruct (nth_error (ents s) i) as [e|] eqn:En; [|discriminate].
  destruct (f e) as [e'|] eqn:Fe; simpl; try discriminate. intros H Hok. inversion H; subst. simpl.
  apply upd_forall; [exact Hok|]. eapply Hf; [exact Fe|]. eapply nth_error_forall; eassumption.
Qed.

Lemma mark_changed_keeps c sd clock i s s' : cfg_ok c -> mark_changed c sd clock i s = Ok s' -> all_ok s -> all_ok s'.
Proof.
  intros Hc. unfold mark_changed, all_ok. destruct (nth_error (ents s) i) as [e|] eqn:En; [|discriminate].
  destruct (set_changed sd (Some clock) (with_nt sd (Some clock) e)) as [e1|] eqn:E1; simpl; try discriminate.
  intros H Hok. pose proof (nth_error_forall _ _ _ _ Hok En) as He.
  assert (H1 : ent_ok e1).
  { apply (set_changed_keeps _ _ _ _ E1).
    - apply with_nt_other. apply ent_ok_sides. exact He.
    - intros _ t Ht. rewrite with_nt_same in Ht. inversion Ht; subst. simpl. lra. }
  destruct (Qle_bool clock (last s)) eqn:Ec.
  - destruct (set_changed sd (Some (fadd c (last s) (c_eps c))) e1) as [e2|] eqn:E2; simpl in H; try discriminate.
    inversion H; subst. simpl. apply upd_forall; [exact Hok|].
    apply (set_changed_keeps _ _ _ _ E2); [apply ent_ok_sides; exact H1|].
    intros _ t Ht. apply set_changed_ok in E1 as [_ [_ [_ [Hnt _]]]]. rewrite Hnt, with_nt_same in Ht.
    inversion Ht; subst. simpl. apply qleb_true in Ec. destruct Hc as [Hb _]. pose proof (Hb (last s)). unfold fadd. lra.
  - inversion H; subst. simpl. apply upd_forall; assumption.
Qed.

Lemma reset_related_keeps c rel l l' : cfg_ok c -> reset_related c rel l = Ok l' -> Forall ent_ok l -> Forall ent_ok l'.
Proof.
  intros Hc. revert rel l'. induction l as [|e r IH]; intros rel l' H Hok; simpl in H.
  - inversion H. constructor.
  - inversion Hok as [|? ? He Hr]; subst.
    destruct (if inset e && qltb 0 (pri e) && match rel with x :: _ => x | [] => false end then set_priority c 0 e else Ok e)
      as [e'|] eqn:E1; simpl in H; try discriminate.
    destruct (reset_related c (tl rel) r) as [r'|] eqn:E2; simpl in H; try discriminate.
    inversion H; subst. constructor.
    + destruct (inset e && qltb 0 (pri e) && match rel with x :: _ => x | [] => false end).
      * eapply set_priority_keeps; eassumption.
      * inversion E1; subst. exact He.
    + eapply IH; eassumption.
Qed.

Lemma finished_keeps c sd rel i s s' : cfg_ok c -> finished c sd rel i s = Ok s' -> all_ok s -> all_ok s'.
Proof.
  intros Hc. unfold finished, all_ok. destruct (nth_error (ents s) i) as [e|] eqn:En; [|discriminate].
  destruct (set_changed sd (Some 0) e) as [e1|] eqn:E1; simpl; try discriminate.
  intros H Hok. pose proof (nth_error_forall _ _ _ _ Hok En) as He.
  assert (H1 : ent_ok e1).
  { apply (set_changed_keeps _ _ _ _ E1); [apply ent_ok_sides; exact He|]. simpl. discriminate. }
  destruct (truthy (chR e1) || truthy (chL e1)).
  - inversion H; subst. simpl. apply upd_forall; assumption.
  - destruct (reset_related c rel (upd i (with_in false e1) (ents s))) as [l2|] eqn:E2; simpl in H; try discriminate.
    inversion H; subst. simpl. eapply reset_related_keeps; [exact Hc|exact E2|].
    apply upd_forall; [exact Hok|]. apply with_in_ok. exact H1.
Qed.

Lemma new_ent_ok : ent_ok new_ent.
Proof. split; unfold side_ok; simpl; discriminate. Qed.

Lemma step_keeps c o s s' p : cfg_ok c -> step c o s = Ok (s', p) -> all_ok s -> all_ok s'.
Proof.
  intros Hc. destruct o; simpl.
  - intros H Hok. inversion H; subst. unfold all_ok. simpl. apply Forall_app. split; [exact Hok|]. constructor; [apply new_ent_ok|constructor].
  - destruct (mark_changed c s0 clock i s) eqn:E; simpl; try discriminate. intros H. inversion H; subst.
    eapply mark_changed_keeps; eassumption.
  - destruct (on_ent i (punt c) s) eqn:E; simpl; try discriminate. intros H. inversion H; subst.
    eapply on_ent_keeps; [|exact E]. intros e e'. apply set_priority_keeps. exact Hc.
  - destruct (on_ent i (set_priority c v) s) eqn:E; simpl; try discriminate. intros H. inversion H; subst.
    eapply on_ent_keeps; [|exact E]. intros e e'. apply set_priority_keeps. exact Hc.
  - destruct (finished c s0 rel i s) eqn:E; simpl; try discriminate. intros H. inversion H; subst.
    eapply finished_keeps; eassumption.
  - destruct (on_ent i (set_aged s0) s) eqn:E; simpl; try discriminate. intros H. inversion H; subst.
    eapply on_ent_keeps; [|exact E]. intros e e'. apply hatch_keeps.
  - destruct (on_ent i (set_force_sync s0 clock) s) eqn:E; simpl; try discriminate. intros H. inversion H; subst.
    eapply on_ent_keeps; [|exact E]. intros e e'. apply force_keeps.
  - destruct (on_ent i (raw_changed s0 v) s) eqn:E; simpl; try discriminate. intros H. inversion H; subst.
    eapply on_ent_keeps; [|exact E]. intros e e'. apply hatch_keeps.
  - destruct (on_ent i _ s) eqn:E; simpl; try discriminate. intros H. inversion H; subst.
    eapply on_ent_keeps; [|exact E]. intros e e' He. inversion He; subst. apply set_oid_ok.
  - destruct (on_ent i _ s) eqn:E; simpl; try discriminate. intros H. inversion H; subst.
    eapply on_ent_keeps; [|exact E]. intros e e' He. inversion He; subst. apply clear_oid_ok.
  - destruct (change c now age order s); simpl; try discriminate. intros H. inversion H; subst. auto.
  - destruct (on_ent i _ s) eqn:E; simpl; try discriminate. intros H. inversion H; subst.
    eapply on_ent_keeps; [|exact E]. intros e e' He. inversion He; subst. apply discard_ok.
Qed.

Lemma steps_keeps c ops s s' : cfg_ok c -> steps c ops s = Ok s' -> all_ok s -> all_ok s'.
Proof.
  intros Hc. revert s. induction ops as [|o r IH]; simpl; intros s H Hok.
  - inversion H; subst. exact Hok.
  - destruct (step c o s) as [[s1 p]|] eqn:E; simpl in H; try discriminate.
    apply (IH s1 H). eapply step_keeps; eassumption.
Qed.

(* After ANY history, an entry picked with a non-negative priority has a side whose stamp has aged AND whose
   originating notification (ghost [nt]) is at least the ageing interval old; the only sides without such a
   notification ([nt] = None) are those last written by set_aged or by a raw assignment. *)
Theorem history_not_before_aged c l0 ops s now age order i : cfg_ok c ->
  steps c ops {| ents := []; last := l0 |} = Ok s ->
  change c now age order s = Ok (Some i) ->
  exists e, nth_error (ents s) i = Some e /\ inset e = true /\
    (pri e < 0 \/
     exists sd, aged (threshold c now age (last s)) (ch sd e) /\
                forall t, nt sd e = Some t -> t <= threshold c now age (last s)).
Proof.
  intros Hc Hs Hch.
  assert (Hok : all_ok s) by (eapply steps_keeps; [exact Hc|exact Hs|constructor]).
  destruct (change_min _ _ _ _ _ _ Hch) as [e [En [Hi [Pe _]]]].
  exists e. split; [exact En|]. split; [exact Hi|].
  pose proof (nth_error_forall _ _ _ _ Hok En) as He0. pose proof (proj2 (ent_ok_sides e) He0) as He.
  apply eligible_iff in Pe.
  assert (Hside : forall sd, aged (threshold c now age (last s)) (ch sd e) ->
            forall t, nt sd e = Some t -> t <= threshold c now age (last s)).
  { intros sd [q [Eq [Hq Hle]]] t Ht. specialize (He sd). unfold side_ok in He.
    assert (Tr : truthy (ch sd e) = true) by (apply truthy_some; exists q; auto).
    specialize (He Tr t Ht). rewrite Eq in He. simpl in He. lra. }
  destruct Pe as [Ha|[Ha|Hn]].
  - right. exists SL. split; [exact Ha|]. apply (Hside SL). exact Ha.
  - right. exists SR. split; [exact Ha|]. apply (Hside SR). exact Ha.
  - left. exact Hn.
Qed.

(* ------------------------------------------------------------------ further facts and refutations *)
(* a punt that leaves the priority <= 0 delays nothing: the stamps are untouched *)
Lemma punt_nonpositive c e : exact c -> pri e + 1 <= 0 -> punt c e = Ok (with_pri (pri e + 1) e).
Proof.
  intros Hx Hle. unfold punt, set_priority, fadd. rewrite Hx.
  assert (E1 : Qeq_bool (pri e) (pri e + 1) = false) by (apply qeqb_false; lra).
  assert (E3 : qltb 0 (pri e + 1) = false) by (apply qltb_false; lra).
  rewrite E1, E3, andb_false_r. reflexivity.
Qed.

Lemma exact_cfg_exact pL pR : exact (cfg_exact pL pR).
Proof. intros x. reflexivity. Qed.
Lemma bump_ok_exact pL pR : bump_ok (cfg_exact pL pR).
Proof. intros x. simpl. lra. Qed.
Lemma cfg_ok_exact pL pR : 0 <= pL -> 0 <= pR -> cfg_ok (cfg_exact pL pR).
Proof.
  intros HL HR. split; [apply bump_ok_exact|]. split; [intros x p Hp; simpl; lra|]. split; assumption.
Qed.

Definition mk (p : Q) (a b : stamp) : ent :=
  {| pri := p; chL := a; chR := b; oidL := true; oidR := true; inset := true; ntL := None; ntR := None |}.

(* "not before the LAST notification of the object has aged" (every changed side aged) is false:
   one aged side is enough.  LOCAL changed at 1, REMOTE at 10, now - age = 5. *)
Lemma every_side_aged_false :
  ~ (forall et l x, pick_sorted et l = Some x -> 0 <= pri (snd x) ->
       forall s, truthy (ch s (snd x)) = true -> orz (ch s (snd x)) <= et).
Proof.
  intros H.
  pose proof (H 5 [(0%nat, mk 0 (Some 1) (Some 10))] (0%nat, mk 0 (Some 1) (Some 10)) eq_refl) as H1.
  assert (Hp : 0 <= pri (snd (0%nat, mk 0 (Some 1) (Some 10)))) by (simpl; lra).
  specialize (H1 Hp SR eq_refl). simpl in H1. lra.
Qed.

(* "within a priority the entry holding the OLDEST change goes first" is false: the key is the NEWEST stamp.
   A = (10, -), B = (5, 20), both eligible at 30: A is picked although B carries the older change. *)
Definition oldest (e : ent) : Q :=
  if truthy (chL e) then (if truthy (chR e) then (if qltb (orz (chR e)) (orz (chL e)) then orz (chR e) else orz (chL e)) else orz (chL e))
  else orz (chR e).
Lemma oldest_first_false :
  ~ (forall et l x y, pick_sorted et l = Some x -> In y l -> eligible et (snd y) = true ->
       pri (snd y) == pri (snd x) -> oldest (snd x) <= oldest (snd y)).
Proof.
  intros H.
  pose proof (H 30 [(0%nat, mk 0 (Some 10) None); (1%nat, mk 0 (Some 5) (Some 20))]
                (0%nat, mk 0 (Some 10) None) (1%nat, mk 0 (Some 5) (Some 20)) eq_refl) as H1.
  assert (Hin : In (1%nat, mk 0 (Some 5) (Some 20)) [(0%nat, mk 0 (Some 10) None); (1%nat, mk 0 (Some 5) (Some 20))])
    by (right; left; reflexivity).
  specialize (H1 Hin eq_refl). simpl in H1. assert (Hq : 0 == 0) by lra. specialize (H1 Hq).
  vm_compute in H1. apply H1. reflexivity.
Qed.

(* ------------------------------------------------------------------ the threshold (/repo 5c0d808 + ed9e461) *)
(* a positive ageing interval is measured on the clock itself *)
Lemma threshold_pos c now age lst : 0 < age -> threshold c now age lst = earlier_than c now age.
Proof.
  intros H. unfold threshold, threshold_adj. destruct (Qle_bool age 0) eqn:E; [|reflexivity].
  apply qleb_true in E. lra.
Qed.
(* ageing <= 0: never below the last change stamp *)
Lemma threshold_nonpos c now age lst : age <= 0 ->
  lst <= threshold c now age lst /\ earlier_than c now age <= threshold c now age lst.
Proof.
  intros H. unfold threshold, threshold_adj. apply qleb_true in H. rewrite H.
  split; [apply qmax_ge_r|apply qmax_ge_l].
Qed.

Theorem history_not_before_aged_clock c l0 ops s now age order i : cfg_ok c -> 0 < age ->
  steps c ops {| ents := []; last := l0 |} = Ok s ->
  change c now age order s = Ok (Some i) ->
  exists e, nth_error (ents s) i = Some e /\ inset e = true /\
    (pri e < 0 \/
     exists sd, aged (earlier_than c now age) (ch sd e) /\
                forall t, nt sd e = Some t -> t <= earlier_than c now age).
Proof.
  intros Hc Ha Hs Hch. pose proof (history_not_before_aged c l0 ops s now age order i Hc Hs Hch) as H.
  rewrite (threshold_pos c now age (last s) Ha) in H. exact H.
Qed.

(* ------------------------------------------------------------------ ageing zero *)
(* with ageing <= 0 an entry is eligible as soon as one truthy stamp is <= the last change stamp (or <= now - age) *)
Theorem age_zero_eligible c now age s e : age <= 0 ->
  (exists sd q, ch sd e = Some q /\ ~ q == 0 /\ (q <= last s \/ q <= earlier_than c now age)) ->
  eligible (threshold c now age (last s)) e = true.
Proof.
  intros Hage [sd [q [Eq [Hq Hle]]]]. apply eligible_iff.
  destruct (threshold_nonpos c now age (last s) Hage) as [T1 T2].
  assert (Ha : aged (threshold c now age (last s)) (ch sd e)).
  { exists q. split; [exact Eq|]. split; [exact Hq|]. destruct Hle; lra. }
  destruct sd; simpl in Ha; auto.
Qed.

(* ... so change(age <= 0) returns something whenever such an entry is pending *)
Theorem age_zero_change_some c now age order s j e : age <= 0 ->
  order_ok order s = true -> nth_error (ents s) j = Some e -> inset e = true ->
  (exists sd q, ch sd e = Some q /\ ~ q == 0 /\ (q <= last s \/ q <= earlier_than c now age)) ->
  exists i, change c now age order s = Ok (Some i).
Proof.
  intros Hage Hok En Hi Hst.
  destruct (change c now age order s) as [[i|]|] eqn:C.
  - exists i. reflexivity.
  - exfalso. pose proof (change_none _ _ _ _ _ C j e En Hi) as Hn.
    rewrite (age_zero_eligible c now age s e Hage Hst) in Hn. discriminate.
  - unfold change in C. rewrite Hok in C. discriminate.
Qed.

(* a stamp written by mark_changed never exceeds _last_changed_time afterwards: as long as it has not been
   punted or overwritten, the entry is eligible at ageing <= 0 whatever the clock reads (same tick, clock
   gone backwards) *)
Theorem age_zero_marked_eligible c sd t i s0 s1 ops s2 now age e2 : bump_ok c -> age <= 0 ->
  mark_changed c sd t i s0 = Ok s1 -> steps c ops s1 = Ok s2 ->
  nth_error (ents s2) i = Some e2 -> ch sd e2 = Some (last s1) -> ~ last s1 == 0 ->
  eligible (threshold c now age (last s2)) e2 = true.
Proof.
  intros Hb Hage Hm Hs En Ec Hnz. apply age_zero_eligible; [exact Hage|].
  exists sd, (last s1). split; [exact Ec|]. split; [exact Hnz|].
  apply steps_last in Hs; [|exact Hb]. left. exact Hs.
Qed.

(* the same-tick history: refuted for the pre-5c0d808 variant (threshold = now - age), positive for the code now *)
Definition change_v0 (c : cfg) (now age : Q) (order : list nat) (s : st) : res (option nat) :=
  if order_ok order s then Ok (option_map fst (pick_sorted (earlier_than c now age) (tagged order s))) else Bad.
Definition same_tick_history : list op :=
  [ONew; OSetOid 0 SL; OMark 0 SL 5; ONew; OSetOid 1 SL; OMark 1 SL 5; OFinished 0 SL [false; false]].
Lemma same_tick_v0_and_now :
  exists s, steps (cfg_exact (1 # 4) (1 # 4)) same_tick_history {| ents := []; last := 1 |} = Ok s /\
    member s 1 = true /\
    change_v0 (cfg_exact (1 # 4) (1 # 4)) 5 0 [1%nat] s = Ok None /\
    change (cfg_exact (1 # 4) (1 # 4)) 5 0 [1%nat] s = Ok (Some 1%nat).
Proof. eexists. split; [vm_compute; reflexivity|]. split; [|split]; vm_compute; reflexivity. Qed.

(* what remains false, by design: a punted entry's stamps are shifted ahead of clock and last change stamp *)
Definition punted_history : list op := [ONew; OSetOid 0 SL; OMark 0 SL 5; OPunt 0].
Lemma age_zero_every_pending_false :
  ~ (forall c l0 ops s now order, cfg_ok c -> exact c ->
       steps c ops {| ents := []; last := l0 |} = Ok s -> order_ok order s = true ->
       forall j e, nth_error (ents s) j = Some e -> inset e = true ->
         (exists sd, truthy (ch sd e) = true) ->
         eligible (threshold c now 0 (last s)) e = true).
Proof.
  intros H.
  assert (Hc : cfg_ok (cfg_exact (1 # 4) (1 # 4))) by (apply cfg_ok_exact; discriminate).
  remember (steps (cfg_exact (1 # 4) (1 # 4)) punted_history {| ents := []; last := 1 |}) as r eqn:Hr.
  vm_compute in Hr.
  match type of Hr with r = Ok ?s =>
    pose proof (H (cfg_exact (1 # 4) (1 # 4)) 1 punted_history s 5 [0%nat] Hc (exact_cfg_exact _ _)) as H1
  end.
  assert (Hs : steps (cfg_exact (1 # 4) (1 # 4)) punted_history {| ents := []; last := 1 |} = r) by (subst r; reflexivity).
  rewrite Hr in Hs. specialize (H1 Hs eq_refl 0%nat _ eq_refl eq_refl (ex_intro _ SL eq_refl)).
  vm_compute in H1. discriminate.
Qed.

(* two notifications in one tick push the last change stamp to 5.001; entry 0 (notified at clock 5) is NOT picked at
   clock 5 with ageing 1/1000 (the interval is measured on the clock), and IS picked with ageing 0 *)
Definition ahead_history : list op := [ONew; OSetOid 0 SL; OMark 0 SL 5; ONew; OSetOid 1 SL; OMark 1 SL 5].
Lemma ahead_of_clock_example :
  exists s, steps (cfg_exact (1 # 4) (1 # 4)) ahead_history {| ents := []; last := 1 |} = Ok s /\
    last s = 5 + (1 # 1000) /\
    change (cfg_exact (1 # 4) (1 # 4)) 5 (1 # 1000) [0%nat; 1%nat] s = Ok None /\
    change (cfg_exact (1 # 4) (1 # 4)) 5 0 [0%nat; 1%nat] s = Ok (Some 0%nat).
Proof.
  eexists. split; [vm_compute; reflexivity|]. split; [vm_compute; reflexivity|].
  split; vm_compute; reflexivity.
Qed.

(* IEEE doubles: last + 0.001 == last once last >= 2^44, so "whatever the clock returns" fails for the float
   instance of the rounding (clock reading 2^53 s) *)
Lemma bump_float_false : ~ bump_ok (cfg_float 0 0).
Proof.
  intros H. specialize (H (inject_Z 9007199254740992)). vm_compute in H. discriminate.
Qed.
Lemma bump_float_small : forallb (fun x => qltb x (fl53 (x + eps_float)))
    [0; 1; 1 # 1024; 1000; 1700000000; 1700000000 + eps_float; inject_Z (2 ^ 43)] = true.
Proof. vm_compute. reflexivity. Qed.

(* non-vacuity witnesses used by PropC17 *)
Definition demo_history : list op :=
  [ONew; OSetOid 0 SL; OMark 0 SL 10; ONew; OSetOid 1 SR; OMark 1 SR 11; OPunt 0; OAged 1 SL].
Lemma demo_history_runs :
  exists s, steps (cfg_exact (1 # 4) (1 # 2)) demo_history {| ents := []; last := 1 |} = Ok s /\
    change (cfg_exact (1 # 4) (1 # 2)) 13 2 [0%nat; 1%nat] s = Ok (Some 1%nat) /\
    (* set_aged: entry 1 was notified at 11 > 13 - 3 and is picked all the same *)
    change (cfg_exact (1 # 4) (1 # 2)) 13 3 [1%nat; 0%nat] s = Ok (Some 1%nat).
Proof. eexists. split; [vm_compute; reflexivity|]. split; vm_compute; reflexivity. Qed.
