(* SchedProofs.v — lemmas about SchedModel (C17). *)
From Coq Require Import QArith Qround ZArith NArith List Bool Lia Lqa Sorting.Sorted.
From CS Require Import Sx SchedModel.
Import ListNotations.
Open Scope Q_scope.

(* ------------------------------------------------------------------ booleans over Q *)
Lemma qltb_true a b : qltb a b = true <-> a < b.
Proof.
  unfold qltb. rewrite negb_true_iff. split; intros H.
  - apply Qnot_le_lt. intros Hle. apply Qle_bool_iff in Hle. congruence.
  - destruct (Qle_bool b a) eqn:E; [|reflexivity]. apply Qle_bool_iff in E. lra.
Qed.
Lemma qltb_false a b : qltb a b = false <-> b <= a.
Proof.
  unfold qltb. rewrite negb_false_iff. apply Qle_bool_iff.
Qed.
Lemma qeqb_true a b : Qeq_bool a b = true <-> a == b.
Proof. apply Qeq_bool_iff. Qed.
Lemma qeqb_false a b : Qeq_bool a b = false <-> ~ a == b.
Proof.
  split; intros H.
  - intros E. apply Qeq_bool_iff in E. congruence.
  - destruct (Qeq_bool a b) eqn:E; [|reflexivity]. apply Qeq_bool_iff in E. contradiction.
Qed.
Lemma qleb_true a b : Qle_bool a b = true <-> a <= b.
Proof. apply Qle_bool_iff. Qed.

Lemma truthy_some c : truthy c = true <-> exists q, c = Some q /\ ~ q == 0.
Proof.
  destruct c as [q|]; simpl; split.
  - intros H. exists q. split; [reflexivity|]. apply negb_true_iff in H. apply qeqb_false. exact H.
  - intros [q' [E H]]. inversion E; subst. apply negb_true_iff. apply qeqb_false. exact H.
  - discriminate.
  - intros [q [E _]]. discriminate.
Qed.

Lemma qmax_ge_l a b : a <= qmax a b.
Proof. unfold qmax. destruct (qltb a b) eqn:E; [apply qltb_true in E; lra|lra]. Qed.
Lemma qmax_ge_r a b : b <= qmax a b.
Proof. unfold qmax. destruct (qltb a b) eqn:E; [lra|apply qltb_false in E; lra]. Qed.
Lemma qmax_cases a b : qmax a b = a \/ qmax a b = b.
Proof. unfold qmax. destruct (qltb a b); auto. Qed.

(* ------------------------------------------------------------------ the key order *)
(* key a < key b,  key a <= key b  for the tuples (priority, max stamp) *)
Definition key_lt (a b : ent) : Prop := pri a < pri b \/ (pri a == pri b /\ tkey a < tkey b).
Definition key_le (a b : ent) : Prop := pri a < pri b \/ (pri a == pri b /\ tkey a <= tkey b).

Lemma key_ltb_true a b : key_ltb a b = true <-> key_lt a b.
Proof.
  unfold key_ltb, key_lt. destruct (Qeq_bool (pri a) (pri b)) eqn:E.
  - apply qeqb_true in E. rewrite qltb_true. split; [intros H; right; split; assumption|].
    intros [H|[_ H]]; [lra|exact H].
  - apply qeqb_false in E. rewrite qltb_true. split; [intros H; left; exact H|].
    intros [H|[H _]]; [exact H|contradiction].
Qed.
Lemma key_ltb_false a b : key_ltb a b = false <-> key_le b a.
Proof.
  unfold key_ltb, key_le. destruct (Qeq_bool (pri a) (pri b)) eqn:E.
  - apply qeqb_true in E. rewrite qltb_false. split.
    + intros H. right. split; [lra|exact H].
    + intros [H|[_ H]]; [lra|exact H].
  - apply qeqb_false in E. rewrite qltb_false. split.
    + intros H. left. destruct (Qlt_le_dec (pri b) (pri a)) as [H1|H1]; [exact H1|]. exfalso. apply E. lra.
    + intros [H|[H _]]; [lra|]. exfalso. apply E. lra.
Qed.

Lemma key_ltb_irrefl a : key_ltb a a = false.
Proof. apply key_ltb_false. right. split; lra. Qed.
Lemma key_ltb_trans a b c : key_ltb a b = true -> key_ltb b c = true -> key_ltb a c = true.
Proof. rewrite !key_ltb_true. unfold key_lt. intros [H1|[H1 H1']] [H2|[H2 H2']]; [left; lra|left; lra|left; lra|right; split; lra]. Qed.
Lemma key_geb_trans a b c : key_ltb b a = false -> key_ltb c b = false -> key_ltb c a = false.
Proof. rewrite !key_ltb_false. unfold key_le. intros [H1|[H1 H1']] [H2|[H2 H2']]; [left; lra|left; lra|left; lra|right; split; lra]. Qed.

(* ------------------------------------------------------------------ stable sort + find = first minimum *)
Section SortLaws.
  Context {T : Type}.
  Variable ltb : T -> T -> bool.
  Hypothesis ltb_irrefl : forall x, ltb x x = false.
  Hypothesis ltb_trans : forall x y z, ltb x y = true -> ltb y z = true -> ltb x z = true.
  Hypothesis geb_trans : forall x y z, ltb y x = false -> ltb z y = false -> ltb z x = false.

  Lemma ltb_asym x y : ltb x y = true -> ltb y x = false.
  Proof.
    intros H. destruct (ltb y x) eqn:E; [|reflexivity].
    pose proof (ltb_trans _ _ _ H E) as Hxx. rewrite ltb_irrefl in Hxx. discriminate.
  Qed.

  Definition nlt (a b : T) : Prop := ltb b a = false.      (* a may stand before b *)

  Lemma insert_forall (P : T -> Prop) x l : P x -> Forall P l -> Forall P (insert ltb x l).
  Proof.
    intros Hx Hl. induction Hl as [|y r Hy Hr IH]; simpl; [constructor; auto|].
    destruct (ltb y x); constructor; auto.
  Qed.

  Lemma insert_sorted x l : StronglySorted nlt l -> StronglySorted nlt (insert ltb x l).
  Proof.
    intros Hs. induction Hs as [|y r Hr IH Hy]; simpl; [constructor; [constructor|constructor]|].
    destruct (ltb y x) eqn:E.
    - constructor; [exact IH|]. apply insert_forall; [|exact Hy]. unfold nlt. apply ltb_asym. exact E.
    - constructor; [constructor; assumption|]. constructor; [exact E|].
      eapply Forall_impl; [|exact Hy]. intros z Hz. unfold nlt in *. eapply geb_trans; eassumption.
  Qed.

  Lemma isort_sorted l : StronglySorted nlt (isort ltb l).
  Proof. induction l as [|x r IH]; simpl; [constructor|apply insert_sorted; exact IH]. Qed.

  Lemma insert_in x l z : In z (insert ltb x l) <-> z = x \/ In z l.
  Proof.
    induction l as [|y r IH]; simpl; [intuition|].
    destruct (ltb y x); simpl; rewrite ?IH; intuition.
  Qed.
  Lemma isort_in l z : In z (isort ltb l) <-> In z l.
  Proof. induction l as [|x r IH]; simpl; [reflexivity|]. rewrite insert_in, IH. intuition. Qed.

  Lemma find_insert p x s : StronglySorted nlt s ->
    find p (insert ltb x s) =
    if p x then match find p s with
                | Some y => if ltb y x then Some y else Some x
                | None => Some x
                end
    else find p s.
  Proof.
    intros Hs. induction Hs as [|y r Hr IH Hy]; simpl; [destruct (p x); reflexivity|].
    destruct (ltb y x) eqn:E; simpl.
    - destruct (p y) eqn:Py.
      + rewrite E. destruct (p x); reflexivity.
      + exact IH.
    - destruct (p x) eqn:Px; [|reflexivity].
      destruct (p y) eqn:Py; [rewrite E; reflexivity|].
      destruct (find p r) as [z|] eqn:F; [|reflexivity].
      apply find_some in F as [Hin _].
      rewrite Forall_forall in Hy. specialize (Hy z Hin). unfold nlt in Hy.
      rewrite (geb_trans _ _ _ E Hy). reflexivity.
  Qed.

  (* sorted(l) scanned for the first element satisfying p  =  first-occurring minimum among those *)
  Theorem find_isort p l : find p (isort ltb l) = first_min ltb p l.
  Proof.
    induction l as [|x r IH]; simpl; [reflexivity|].
    rewrite find_insert by apply isort_sorted. rewrite IH. reflexivity.
  Qed.

  (* x is THE pick of l: it satisfies p, is strictly smaller than every p-element listed before it and
     not larger than every p-element listed after it *)
  Definition is_pick (p : T -> bool) (l : list T) (x : T) : Prop :=
    exists l1 l2, l = l1 ++ x :: l2 /\ p x = true /\
      (forall y, In y l1 -> p y = true -> ltb x y = true) /\
      (forall y, In y l2 -> p y = true -> ltb y x = false).

  Lemma is_pick_min p l x : is_pick p l x -> forall y, In y l -> p y = true -> ltb y x = false.
  Proof.
    intros [l1 [l2 [E [Px [H1 H2]]]]] y Hy Py. subst l. apply in_app_or in Hy as [Hy|[Hy|Hy]].
    - apply ltb_asym. apply H1; assumption.
    - subst. apply ltb_irrefl.
    - apply H2; assumption.
  Qed.

  Lemma first_min_none p l : first_min ltb p l = None <-> forall y, In y l -> p y = false.
  Proof.
    induction l as [|x r IH]; simpl; [split; [intros _ y []|reflexivity]|].
    destruct (p x) eqn:Px.
    - split.
      + destruct (first_min ltb p r) as [y|]; [destruct (ltb y x)|]; discriminate.
      + intros H. rewrite (H x) in Px by auto. discriminate.
    - rewrite IH. split; [intros H y [<-|Hy]; auto|intros H y Hy; apply H; auto].
  Qed.

  Lemma first_min_pick p l x : first_min ltb p l = Some x -> is_pick p l x.
  Proof.
    revert x. induction l as [|x0 r IH]; simpl; intros x H; [discriminate|].
    destruct (p x0) eqn:Px0.
    - destruct (first_min ltb p r) as [y|] eqn:F.
      + specialize (IH y eq_refl).
        destruct (ltb y x0) eqn:E; inversion H; subst; clear H.
        * destruct IH as [l1 [l2 [Er [Px [H1 H2]]]]]. exists (x0 :: l1), l2. subst r.
          split; [reflexivity|]. split; [exact Px|]. split; [|exact H2].
          intros z [<-|Hz] Pz; auto.
        * exists [], r. split; [reflexivity|]. split; [exact Px0|]. split; [intros z []|].
          intros z Hz Pz. pose proof (is_pick_min _ _ _ IH z Hz Pz) as Hm.
          eapply geb_trans; eassumption.
      + inversion H; subst; clear H. exists [], r.
        split; [reflexivity|]. split; [exact Px0|]. split; [intros z []|].
        intros z Hz Pz. rewrite (proj1 (first_min_none p r) F z Hz) in Pz. discriminate.
    - destruct (IH x H) as [l1 [l2 [Er [Px [H1 H2]]]]]. exists (x0 :: l1), l2. subst r.
      split; [reflexivity|]. split; [exact Px|]. split; [|exact H2].
      intros z [<-|Hz] Pz; [congruence|auto].
  Qed.

  Lemma pick_first_min p l x : is_pick p l x -> first_min ltb p l = Some x.
  Proof.
    intros [l1 [l2 [E [Px [H1 H2]]]]]. subst l. induction l1 as [|z l1 IH]; simpl.
    - rewrite Px. destruct (first_min ltb p l2) as [y|] eqn:F; [|reflexivity].
      apply first_min_pick in F. destruct F as [a [b [Eb [Py _]]]].
      rewrite (H2 y); [reflexivity| |exact Py]. subst l2. apply in_or_app. right. left. reflexivity.
    - rewrite IH by (intros y Hy; apply H1; right; exact Hy).
      destruct (p z) eqn:Pz; [|reflexivity]. rewrite (H1 z) by (auto; left; reflexivity). reflexivity.
  Qed.

  Theorem first_min_spec p l x : first_min ltb p l = Some x <-> is_pick p l x.
  Proof. split; [apply first_min_pick|apply pick_first_min]. Qed.
End SortLaws.

(* ------------------------------------------------------------------ change(): the pick *)
Definition elig (et : Q) (x : nat * ent) : bool := eligible et (snd x).

Lemma ikey_irrefl x : ikey_ltb x x = false.
Proof. apply key_ltb_irrefl. Qed.
Lemma ikey_trans x y z : ikey_ltb x y = true -> ikey_ltb y z = true -> ikey_ltb x z = true.
Proof. apply key_ltb_trans. Qed.
Lemma ikey_geb_trans x y z : ikey_ltb y x = false -> ikey_ltb z y = false -> ikey_ltb z x = false.
Proof. apply key_geb_trans. Qed.

(* the code's sort-then-scan equals the direct first-minimum *)
Theorem pick_sorted_min et l : pick_sorted et l = pick_min et l.
Proof. unfold pick_sorted, pick_min. apply find_isort; [apply ikey_irrefl|apply ikey_trans|apply ikey_geb_trans]. Qed.

Definition picked (et : Q) (l : list (nat * ent)) (x : nat * ent) : Prop :=
  exists l1 l2, l = l1 ++ x :: l2 /\ eligible et (snd x) = true /\
    (forall y, In y l1 -> eligible et (snd y) = true -> key_lt (snd x) (snd y)) /\
    (forall y, In y l2 -> eligible et (snd y) = true -> key_le (snd x) (snd y)).

Theorem pick_spec et l x : pick_sorted et l = Some x <-> picked et l x.
Proof.
  rewrite pick_sorted_min. unfold pick_min.
  rewrite (first_min_spec ikey_ltb ikey_irrefl ikey_trans ikey_geb_trans).
  unfold is_pick, picked. split; intros [l1 [l2 [E [Px [H1 H2]]]]]; exists l1, l2; repeat split; auto.
  - intros y Hy Py. apply key_ltb_true. apply (H1 y Hy Py).
  - intros y Hy Py. apply key_ltb_false. apply (H2 y Hy Py).
  - intros y Hy Py. apply key_ltb_true. apply (H1 y Hy Py).
  - intros y Hy Py. apply key_ltb_false. apply (H2 y Hy Py).
Qed.

Theorem pick_none et l : pick_sorted et l = None <-> forall y, In y l -> eligible et (snd y) = false.
Proof. rewrite pick_sorted_min. unfold pick_min. apply first_min_none. Qed.

Lemma key_lt_le a b : key_lt a b -> key_le a b.
Proof. unfold key_lt, key_le. intros [H|[H H']]; [left; exact H|right; split; lra]. Qed.
Lemma key_le_refl a : key_le a a.
Proof. right. split; lra. Qed.

Theorem picked_is_eligible et l x : pick_sorted et l = Some x -> In x l /\ eligible et (snd x) = true.
Proof.
  intros H. apply pick_spec in H as [l1 [l2 [E [Px _]]]]. split; [|exact Px].
  subst l. apply in_or_app. right. left. reflexivity.
Qed.

Theorem picked_is_min et l x : pick_sorted et l = Some x ->
  forall y, In y l -> eligible et (snd y) = true -> key_le (snd x) (snd y).
Proof.
  intros H y Hy Py. apply pick_spec in H as [l1 [l2 [E [Px [H1 H2]]]]]. subst l.
  apply in_app_or in Hy as [Hy|[Hy|Hy]].
  - apply key_lt_le. apply H1; assumption.
  - subst. apply key_le_refl.
  - apply H2; assumption.
Qed.

(* eligibility, spelled out *)
Definition aged (et : Q) (c : stamp) : Prop := exists q, c = Some q /\ ~ q == 0 /\ q <= et.

Lemma side_aged_true et c : side_aged et c = true <-> aged et c.
Proof.
  unfold side_aged, aged. rewrite andb_true_iff, truthy_some, qleb_true. split.
  - intros [[q [E H]] Hle]. subst. exists q. auto.
  - intros [q [E [H Hle]]]. subst. split; [exists q; auto|exact Hle].
Qed.

Theorem eligible_iff et e :
  eligible et e = true <-> aged et (chL e) \/ aged et (chR e) \/ pri e < 0.
Proof.
  unfold eligible. rewrite !orb_true_iff, !side_aged_true, qltb_true. tauto.
Qed.

Theorem negative_priority_immediate et e : pri e < 0 -> eligible et e = true.
Proof. intros H. apply eligible_iff. auto. Qed.

Theorem not_before_aged et l x : pick_sorted et l = Some x -> 0 <= pri (snd x) ->
  exists s, aged et (ch s (snd x)).
Proof.
  intros H Hp. apply picked_is_eligible in H as [_ H]. apply eligible_iff in H as [H|[H|H]].
  - exists SL. exact H.
  - exists SR. exact H.
  - lra.
Qed.

(* age = 0 *)
Theorem age_zero_all_eligible c now l :
  c_rnd c (now - 0) == now ->
  (forall x, In x l -> exists s q, ch s (snd x) = Some q /\ ~ q == 0 /\ q <= now) ->
  (forall x, In x l -> eligible (earlier_than c now 0) (snd x) = true) /\
  (l <> [] -> exists x, pick_sorted (earlier_than c now 0) l = Some x).
Proof.
  intros Hr Hl.
  assert (Hall : forall x, In x l -> eligible (earlier_than c now 0) (snd x) = true).
  { intros x Hx. destruct (Hl x Hx) as [s [q [E [Hq Hle]]]]. apply eligible_iff.
    assert (Ha : aged (earlier_than c now 0) (ch s (snd x))).
    { exists q. repeat split; auto. unfold earlier_than, fsub. rewrite Hr. exact Hle. }
    destruct s; simpl in Ha; auto. }
  split; [exact Hall|]. intros Hne.
  destruct (pick_sorted (earlier_than c now 0) l) as [x|] eqn:P; [exists x; reflexivity|].
  exfalso. destruct l as [|x r]; [congruence|].
  pose proof (proj1 (pick_none _ _) P x (or_introl eq_refl)) as Hn.
  rewrite (Hall x (or_introl eq_refl)) in Hn. discriminate.
Qed.
