(* CodecModel.v — C08: the msgpack codec of SyncEntry/SideState (cloudsync/sync/state.py) and the
   dirty-set / storage_commit mechanism of SyncState over a row store (SqliteStorage / MockStorage).
   Executable definitions only; proofs are in CodecProofs.v.

   Faithfulness notes (each one is compared with the real code by harness/checks/c08.py):
   * Python values are [mp]; [MList] is a Python list, [MTup] a tuple.  msgpack.dumps(use_bin_type=True)
     writes both as an array, msgpack.loads(use_list=False, raw=False) reads arrays as tuples:
     [pack] = [tuplify] guarded by the 64-bit integer range (OverflowError otherwise).
   * loads() has strict_map_key=True (msgpack >= 1.0): a map key that is neither str nor bytes raises,
     [unpack] = identity guarded by [keys_ok].
   * deserialize assigns through SideState.__setattr__ while SyncState._loading is set, so updated()
     returns at once; on a fresh SideState the corrupt logic is never triggered by the assignments of
     deserialize (a str never equals the enum member), so existence is just _translate_exists of the
     stored value and _saved_exists is parsed separately.
   * SyncEntry.deserialize computes ser['priority'] but never assigns it: priority is 0 after a load.
   * _storage_update keeps the storage_id of a trash entry whose row it deletes ([clr] = false);
     [clr] = true is the variant that clears it. *)
From Coq Require Import String Ascii NArith ZArith List Bool.
From CS Require Import Sx Str.
Import ListNotations.
Local Open Scope N_scope.

(* ---------------------------------------------------------------- strings / keys *)
Fixpoint s2l (s : string) : str :=
  match s with EmptyString => [] | String c r => N_of_ascii c :: s2l r end.

Definition k_otype : str := Eval vm_compute in s2l "otype".
Definition k_side : str := Eval vm_compute in s2l "side".
Definition k_hash : str := Eval vm_compute in s2l "hash".
Definition k_changed : str := Eval vm_compute in s2l "changed".
Definition k_sync_hash : str := Eval vm_compute in s2l "sync_hash".
Definition k_path : str := Eval vm_compute in s2l "path".
Definition k_sync_path : str := Eval vm_compute in s2l "sync_path".
Definition k_oid : str := Eval vm_compute in s2l "oid".
Definition k_exists : str := Eval vm_compute in s2l "exists".
Definition k_temp_file : str := Eval vm_compute in s2l "temp_file".
Definition k_size : str := Eval vm_compute in s2l "size".
Definition k_mtime : str := Eval vm_compute in s2l "mtime".
Definition k_saved : str := Eval vm_compute in s2l "_saved_exists".
Definition k_side0 : str := Eval vm_compute in s2l "side0".
Definition k_side1 : str := Eval vm_compute in s2l "side1".
Definition k_ignored : str := Eval vm_compute in s2l "ignored".
Definition k_priority : str := Eval vm_compute in s2l "priority".
Definition k_discarded : str := Eval vm_compute in s2l "discarded".
Definition k_conflicted : str := Eval vm_compute in s2l "conflicted".

Definition v_dir : str := Eval vm_compute in s2l "dir".
Definition v_file : str := Eval vm_compute in s2l "file".
Definition v_trashed : str := Eval vm_compute in s2l "trashed".
Definition v_unknown : str := Eval vm_compute in s2l "unknown".
Definition v_exists : str := Eval vm_compute in s2l "exists".
Definition v_missing : str := Eval vm_compute in s2l "missing".
Definition v_likely : str := Eval vm_compute in s2l "likely-trashed".
Definition v_corrupt : str := Eval vm_compute in s2l "corrupt".
Definition v_none : str := Eval vm_compute in s2l "none".
Definition v_discarded : str := Eval vm_compute in s2l "discarded".
Definition v_conflict : str := Eval vm_compute in s2l "conflict".
Definition v_temp : str := Eval vm_compute in s2l "temp rename".
Definition v_irrelevant : str := Eval vm_compute in s2l "irrelevant".

(* ---------------------------------------------------------------- values *)
Inductive mp : Type :=
| MNil
| MBool (b : bool)
| MInt (z : Z)
| MFloat (t : N)          (* opaque token; token 0 is 0.0 (the only falsy float; NaN is not generated) *)
| MStr (s : str)
| MBin (s : str)
| MTup (l : list mp)      (* Python tuple; the msgpack array *)
| MList (l : list mp)     (* Python list (does not exist on the wire) *)
| MMap (l : list (mp * mp)).

Definition int_ok (z : Z) : bool := (Z.leb (- 9223372036854775808)%Z z) && (Z.ltb z 18446744073709551616%Z).

Fixpoint ints_ok (v : mp) : bool :=
  match v with
  | MInt z => int_ok z
  | MTup l => forallb ints_ok l
  | MList l => forallb ints_ok l
  | MMap kvs => forallb (fun kv => match kv with (k, x) => ints_ok k && ints_ok x end) kvs
  | _ => true
  end.

Fixpoint tuplify (v : mp) : mp :=
  match v with
  | MTup l => MTup (map tuplify l)
  | MList l => MTup (map tuplify l)
  | MMap kvs => MMap (map (fun kv => match kv with (k, x) => (tuplify k, tuplify x) end) kvs)
  | _ => v
  end.

Definition key_ok (k : mp) : bool := match k with MStr _ | MBin _ => true | _ => false end.

Fixpoint keys_ok (v : mp) : bool :=
  match v with
  | MTup l => forallb keys_ok l
  | MList l => forallb keys_ok l
  | MMap kvs => forallb (fun kv => match kv with (k, x) => key_ok k && keys_ok x end) kvs
  | _ => true
  end.

Fixpoint listfree (v : mp) : bool :=
  match v with
  | MTup l => forallb listfree l
  | MList _ => false
  | MMap kvs => forallb (fun kv => match kv with (k, x) => listfree k && listfree x end) kvs
  | _ => true
  end.

(* msgpack.dumps(v, use_bin_type=True): None = OverflowError *)
Definition pack (v : mp) : option mp := if ints_ok v then Some (tuplify v) else None.
(* msgpack.loads(b, use_list=False, raw=False): None = ValueError (strict_map_key) *)
Definition unpack (w : mp) : option mp := if keys_ok w then Some w else None.

(* Python truthiness *)
Definition truthy (v : mp) : bool :=
  match v with
  | MNil => false
  | MBool b => b
  | MInt z => negb (Z.eqb z 0%Z)
  | MFloat t => negb (N.eqb t 0)
  | MStr s => nonempty s
  | MBin s => nonempty s
  | MTup l => match l with [] => false | _ => true end
  | MList l => match l with [] => false | _ => true end
  | MMap l => match l with [] => false | _ => true end
  end.

Definition is_nil (v : mp) : bool := match v with MNil => true | _ => false end.

(* d[k] for a str key k; a later duplicate wins, as in the dict built by the unpacker *)
Fixpoint lookup (k : str) (l : list (mp * mp)) : option mp :=
  match l with
  | [] => None
  | (MStr s, v) :: r =>
    match lookup k r with
    | Some w => Some w
    | None => if str_eqb s k then Some v else None
    end
  | _ :: r => lookup k r
  end.

Definition get_default (k : str) (d : mp) (l : list (mp * mp)) : mp :=
  match lookup k l with Some v => v | None => d end.

(* ---------------------------------------------------------------- enums *)
Inductive otype := ODir | OFile | OTrashed.
Inductive exi := XUnknown | XExists | XTrashed | XMissing | XLikely | XCorrupt.
Inductive ign := INone | IDiscarded | IConflict | ITemp | IIrrelevant.

Definition otype_val (o : otype) : str :=
  match o with ODir => v_dir | OFile => v_file | OTrashed => v_trashed end.
Definition exi_val (x : exi) : str :=
  match x with
  | XUnknown => v_unknown | XExists => v_exists | XTrashed => v_trashed
  | XMissing => v_missing | XLikely => v_likely | XCorrupt => v_corrupt
  end.
Definition ign_val (i : ign) : str :=
  match i with
  | INone => v_none | IDiscarded => v_discarded | IConflict => v_conflict
  | ITemp => v_temp | IIrrelevant => v_irrelevant
  end.

Definition otype_of_str (s : str) : option otype :=
  if str_eqb s v_dir then Some ODir else if str_eqb s v_file then Some OFile
  else if str_eqb s v_trashed then Some OTrashed else None.
Definition exi_of_str (s : str) : option exi :=
  if str_eqb s v_unknown then Some XUnknown else if str_eqb s v_exists then Some XExists
  else if str_eqb s v_trashed then Some XTrashed else if str_eqb s v_missing then Some XMissing
  else if str_eqb s v_likely then Some XLikely else if str_eqb s v_corrupt then Some XCorrupt else None.
Definition ign_of_str (s : str) : option ign :=
  if str_eqb s v_none then Some INone else if str_eqb s v_discarded then Some IDiscarded
  else if str_eqb s v_conflict then Some IConflict else if str_eqb s v_temp then Some ITemp
  else if str_eqb s v_irrelevant then Some IIrrelevant else None.

(* ---------------------------------------------------------------- entries *)
Record side := mkSide {
  s_otype : otype;
  s_side : mp;
  s_hash : mp;
  s_changed : mp;
  s_sync_hash : mp;
  s_sync_path : mp;
  s_path : mp;
  s_oid : mp;
  s_exists : exi;
  s_temp_file : mp;
  s_size : mp;
  s_mtime : mp;
  s_saved : option exi;
  s_force_sync : bool;      (* not serialised *)
  s_last_gotten : mp        (* not serialised *)
}.

Record entry := mkEntry {
  e_s0 : side;
  e_s1 : side;
  e_ignored : ign;
  e_priority : mp;
  e_sid : option N          (* storage_id; never serialised *)
}.

Definition KV (k : str) (v : mp) : mp * mp := (MStr k, v).

(* SideState.serialize *)
Definition side_kvs (s : side) : list (mp * mp) :=
  [ KV k_otype (MStr (otype_val (s_otype s)));
    KV k_side (s_side s);
    KV k_hash (s_hash s);
    KV k_changed (s_changed s);
    KV k_sync_hash (s_sync_hash s);
    KV k_path (s_path s);
    KV k_sync_path (s_sync_path s);
    KV k_oid (s_oid s);
    KV k_exists (MStr (exi_val (s_exists s)));
    KV k_temp_file (s_temp_file s);
    KV k_size (s_size s);
    KV k_mtime (s_mtime s);
    KV k_saved (match s_saved s with None => MNil | Some x => MStr (exi_val x) end) ].
Definition ser_side (s : side) : mp := MMap (side_kvs s).

(* SyncEntry.serialize, before msgpack.dumps *)
Definition entry_kvs (e : entry) : list (mp * mp) :=
  [ KV k_side0 (ser_side (e_s0 e));
    KV k_side1 (ser_side (e_s1 e));
    KV k_ignored (MStr (ign_val (e_ignored e)));
    KV k_priority (e_priority e) ].
Definition ser_entry (e : entry) : mp := MMap (entry_kvs e).

(* OType(v) *)
Definition parse_otype (v : mp) : option otype :=
  match v with MStr s => otype_of_str s | _ => None end.

(* SideState._translate_exists(v), reached through  self.exists = serialization['exists'] *)
Definition parse_exists (v : mp) : option exi :=
  match v with
  | MNil => Some XUnknown
  | MBool true => Some XExists
  | MBool false => Some XTrashed
  | MStr s => exi_of_str s
  | _ => None
  end.

(* Exists(saved) if saved else None, ValueError -> UNKNOWN *)
Definition parse_saved (v : mp) : option exi :=
  if truthy v then
    match v with
    | MStr s => match exi_of_str s with Some x => Some x | None => Some XUnknown end
    | _ => Some XUnknown
    end
  else None.

(* _set_mtime: assert value is None or isinstance(value, (int, float)) *)
Definition mtime_ok (v : mp) : bool :=
  match v with MNil | MInt _ | MFloat _ | MBool _ => true | _ => false end.

Definition bind {A B} (o : option A) (f : A -> option B) : option B :=
  match o with Some a => f a | None => None end.
Notation "x <- e ;; k" := (bind e (fun x => k)) (at level 61, e at next level, right associativity).

(* SideState.deserialize on a fresh SideState; None = an exception (KeyError, ValueError, TypeError,
   AssertionError), which makes SyncState.__init__ delete the row *)
Definition deser_side (m : mp) : option side :=
  match m with
  | MMap kvs =>
    ot <- bind (lookup k_otype kvs) parse_otype ;;
    sd <- lookup k_side kvs ;;
    h <- lookup k_hash kvs ;;
    ch <- lookup k_changed kvs ;;
    sh <- lookup k_sync_hash kvs ;;
    sp <- lookup k_sync_path kvs ;;
    oid <- lookup k_oid kvs ;;
    p <- lookup k_path kvs ;;
    ex <- bind (lookup k_exists kvs) parse_exists ;;
    tf <- lookup k_temp_file kvs ;;
    let size := get_default k_size MNil kvs in
    let mtime := get_default k_mtime MNil kvs in
    if mtime_ok mtime then
      Some (mkSide ot sd h ch sh sp p oid ex tf size mtime
                   (parse_saved (get_default k_saved MNil kvs)) false (MFloat 0))
    else None
  | _ => None
  end.

(* the ignore reason after SyncEntry.deserialize (constructor default NONE) *)
Definition parse_ignored (kvs : list (mp * mp)) : ign :=
  let r := get_default k_ignored (MStr []) kvs in
  if truthy r then
    match r with
    | MStr s =>
      if str_eqb s v_trashed then IDiscarded
      else match ign_of_str s with Some i => i | None => INone end
    | _ => INone
    end
  else if truthy (get_default k_discarded (MStr []) kvs) then IDiscarded
  else if truthy (get_default k_conflicted (MStr []) kvs) then IConflict
  else INone.

(* SyncEntry(parent, None, (sid, bytes)) after msgpack.loads gave the dict m *)
Definition deser_entry (sid : N) (m : mp) : option entry :=
  match m with
  | MMap kvs =>
    s0 <- bind (lookup k_side0 kvs) deser_side ;;
    s1 <- bind (lookup k_side1 kvs) deser_side ;;
    Some (mkEntry s0 s1 (parse_ignored kvs) (MInt 0%Z) (Some sid))
  | _ => None
  end.

(* a stored row (the packed value) loaded back *)
Definition load_row (sid : N) (w : mp) : option entry := bind (unpack w) (deser_entry sid).

(* serialize, store, load *)
Definition roundtrip (sid : N) (e : entry) : option entry := bind (pack (ser_entry e)) (load_row sid).

(* what a round trip does to an entry that survives it *)
Definition norm_side (s : side) : side :=
  mkSide (s_otype s) (tuplify (s_side s)) (tuplify (s_hash s)) (tuplify (s_changed s))
         (tuplify (s_sync_hash s)) (tuplify (s_sync_path s)) (tuplify (s_path s)) (tuplify (s_oid s))
         (s_exists s) (tuplify (s_temp_file s)) (tuplify (s_size s)) (tuplify (s_mtime s))
         (s_saved s) false (MFloat 0).
Definition norm_entry (sid : N) (e : entry) : entry :=
  mkEntry (norm_side (e_s0 e)) (norm_side (e_s1 e)) (e_ignored e) (MInt 0%Z) (Some sid).

(* SyncEntry.is_trash *)
Definition is_trash (e : entry) : bool := is_nil (s_oid (e_s0 e)) && is_nil (s_oid (e_s1 e)).
(* the entry belongs to the change set after a load: a side that HAS an oid carries a truthy change stamp
   (SyncState.__init__ since fix 40cad60 skips sides without an oid, as the live index does) *)
Definition pending_side (s : side) : bool := negb (is_nil (s_oid s)) && truthy (s_changed s).
Definition pending (e : entry) : bool := pending_side (e_s0 e) || pending_side (e_s1 e).

(* ---------------------------------------------------------------- the row store *)
Inductive policy := PSqlite | PMock.

Record store := mkStore {
  rows : list (N * mp);     (* rows of the sync tag, in insertion order *)
  ctr : N;                  (* MockStorage.cursor *)
  fmax : N;                 (* largest rowid used by rows of other tags (SQLite shares one table) *)
  pol : policy
}.

Definition ids (r : list (N * mp)) : list N := map fst r.
Definition maxid (r : list (N * mp)) : N := fold_right N.max 0 (ids r).

(* INTEGER PRIMARY KEY without AUTOINCREMENT: 1 + the largest rowid in the table;
   MockStorage: the instance's cursor *)
Definition next_id (st : store) : N :=
  match pol st with
  | PSqlite => N.succ (N.max (maxid (rows st)) (fmax st))
  | PMock => ctr st
  end.

Definition remove_id (i : N) (r : list (N * mp)) : list (N * mp) :=
  filter (fun row => negb (N.eqb (fst row) i)) r.

Definition has_id (i : N) (r : list (N * mp)) : bool := existsb (fun row => N.eqb (fst row) i) r.

Definition st_create (p : mp) (st : store) : store * N :=
  let i := next_id st in
  (mkStore (remove_id i (rows st) ++ [(i, p)])
           (match pol st with PMock => N.succ (ctr st) | PSqlite => ctr st end)
           (fmax st) (pol st), i).

Definition st_update (i : N) (p : mp) (st : store) : option store :=
  if has_id i (rows st) then
    Some (mkStore (map (fun row => if N.eqb (fst row) i then (i, p) else row) (rows st))
                  (ctr st) (fmax st) (pol st))
  else None.       (* ValueError("id %s doesn't exist") in both back ends *)

Definition st_delete (i : N) (st : store) : store :=
  mkStore (remove_id i (rows st)) (ctr st) (fmax st) (pol st).

Fixpoint insert_row (x : N * mp) (l : list (N * mp)) : list (N * mp) :=
  match l with
  | [] => [x]
  | y :: r => if N.leb (fst x) (fst y) then x :: l else y :: insert_row x r
  end.
Definition sort_rows (l : list (N * mp)) : list (N * mp) := fold_right insert_row [] l.

(* Storage.read_all(tag): SQLite answers in rowid order, the mock in dict order *)
Definition read_all (st : store) : list (N * mp) :=
  match pol st with PSqlite => sort_rows (rows st) | PMock => rows st end.

(* ---------------------------------------------------------------- dirty set and commit *)
Record pstate := mkP {
  ents : list entry;        (* every SyncEntry object created so far, by creation serial *)
  dirty : list nat;         (* SyncState._dirtyset *)
  sto : store
}.

Inductive cerr := ENone | ESer | EMissing.

Definition set_sid (e : entry) (s : option N) : entry :=
  mkEntry (e_s0 e) (e_s1 e) (e_ignored e) (e_priority e) s.
Definition set_fields (old new : entry) : entry := set_sid new (e_sid old).

Fixpoint set_nth {T} (n : nat) (x : T) (l : list T) : list T :=
  match l, n with
  | [], _ => []
  | _ :: r, O => x :: r
  | y :: r, S k => y :: set_nth k x r
  end.

(* SyncState._storage_update(ent); [clr]: clear storage_id when the row of a trash entry is deleted *)
Definition upd_one (clr : bool) (e : entry) (st : store) : entry * store * cerr :=
  match e_sid e with
  | Some i =>
    if is_trash e then (set_sid e (if clr then None else Some i), st_delete i st, ENone)
    else match pack (ser_entry e) with
         | None => (e, st, ESer)
         | Some p => match st_update i p st with
                     | None => (e, st, EMissing)
                     | Some st' => (e, st', ENone)
                     end
         end
  | None =>
    if is_trash e then (e, st, ENone)
    else match pack (ser_entry e) with
         | None => (e, st, ESer)
         | Some p => let '(st', i) := st_create p st in (set_sid e (Some i), st', ENone)
         end
  end.

(* for ent in self._dirtyset: self._storage_update(ent)   — in the iteration order [ord];
   an exception leaves the loop (the dirty set is then not cleared) *)
Fixpoint commit_loop (clr : bool) (ord : list nat) (es : list entry) (st : store)
  : list entry * store * cerr :=
  match ord with
  | [] => (es, st, ENone)
  | n :: r =>
    match nth_error es n with
    | None => commit_loop clr r es st
    | Some e =>
      match upd_one clr e st with
      | (e', st', ENone) => commit_loop clr r (set_nth n e' es) st'
      | (_, _, err) => (es, st, err)
      end
    end
  end.

Definition commit (clr : bool) (ord : list nat) (ps : pstate) : pstate * cerr :=
  match commit_loop clr ord (ents ps) (sto ps) with
  | (es, st, ENone) => (mkP es [] st, ENone)
  | (es, st, err) => (mkP es (dirty ps) st, err)
  end.

Fixpoint mem_nat (n : nat) (l : list nat) : bool :=
  match l with [] => false | x :: r => Nat.eqb x n || mem_nat n r end.
Definition add_dirty (n : nat) (d : list nat) : list nat := if mem_nat n d then d else d ++ [n].

(* SyncState.__init__ over a storage: rows that fail to load are deleted *)
Fixpoint load_rows (rs : list (N * mp)) : list entry * list N :=
  match rs with
  | [] => ([], [])
  | (i, w) :: r =>
    let '(es, bad) := load_rows r in
    match load_row i w with
    | Some e => (e :: es, bad)
    | None => (es, i :: bad)
    end
  end.

Definition load (st : store) : list entry * store :=
  let '(es, bad) := load_rows (read_all st) in
  (es, fold_left (fun s i => st_delete i s) bad st).

(* histories at the SyncState level *)
Inductive hop :=
| HNew (e : entry)                 (* SyncEntry(state, otype) followed by assignments: a dirty entry without id *)
| HSet (n : nat) (e : entry)       (* assignments to entry n through __setattr__: fields replaced, marked dirty *)
| HSilent (n : nat) (e : entry)    (* a write that bypasses updated(): fields replaced, NOT marked dirty *)
| HCommit (ord : list nat)         (* storage_commit(), iterating the dirty set in order ord *)
| HFmax (n : N)                    (* rows of other tags appear/disappear in the shared table *)
| HLoad.                           (* restart: a new SyncState over the same storage *)

Definition step (clr : bool) (h : hop) (ps : pstate) : pstate * cerr :=
  match h with
  | HNew e => (mkP (ents ps ++ [set_sid e None]) (add_dirty (length (ents ps)) (dirty ps)) (sto ps), ENone)
  | HSet n e =>
    match nth_error (ents ps) n with
    | Some old => (mkP (set_nth n (set_fields old e) (ents ps)) (add_dirty n (dirty ps)) (sto ps), ENone)
    | None => (ps, ENone)
    end
  | HSilent n e =>
    match nth_error (ents ps) n with
    | Some old => (mkP (set_nth n (set_fields old e) (ents ps)) (dirty ps) (sto ps), ENone)
    | None => (ps, ENone)
    end
  | HCommit ord => commit clr ord ps
  | HFmax n => (mkP (ents ps) (dirty ps) (mkStore (rows (sto ps)) (ctr (sto ps)) n (pol (sto ps))), ENone)
  | HLoad => let '(es, st) := load (sto ps) in (mkP es [] st, ENone)
  end.

(* run a history; the error of every step is recorded (an exception in storage_commit is caught by
   the caller's loop in the real code, the state stays as it was left) *)
Fixpoint exec (clr : bool) (hs : list hop) (ps : pstate) : pstate * list cerr :=
  match hs with
  | [] => (ps, [])
  | h :: r =>
    let '(ps1, e) := step clr h ps in
    let '(ps2, errs) := exec clr r ps1 in
    (ps2, e :: errs)
  end.

Definition empty_store (p : policy) : store := mkStore [] 0 0 p.
Definition init (p : policy) : pstate := mkP [] [] (empty_store p).

(* the storage as the live entries see it: for each non-trash entry the payload stored under its
   storage_id; what it should be: the serialisation of every live entry *)
Fixpoint row_of (i : N) (r : list (N * mp)) : option mp :=
  match r with
  | [] => None
  | (j, p) :: t => if N.eqb j i then Some p else row_of i t
  end.
Definition live_view (ps : pstate) : list (option mp) :=
  map (fun e => if is_trash e then None
                else match e_sid e with Some i => row_of i (rows (sto ps)) | None => None end) (ents ps).
Definition want (ps : pstate) : list (option mp) :=
  map (fun e => if is_trash e then None else pack (ser_entry e)) (ents ps).
(* rows that no live entry owns *)
Definition owned_live (i : N) (es : list entry) : bool :=
  existsb (fun e => negb (is_trash e) && match e_sid e with Some j => N.eqb i j | None => false end) es.
Definition stale (ps : pstate) : list N :=
  filter (fun i => negb (owned_live i (ents ps))) (ids (rows (sto ps))).
Fixpoint nodupb (l : list N) : bool :=
  match l with [] => true | x :: r => negb (existsb (N.eqb x) r) && nodupb r end.
Definition live_sids (es : list entry) : list N :=
  flat_map (fun e => if is_trash e then [] else match e_sid e with Some i => [i] | None => [] end) es.

(* decidable form of "storage = memory" used by vm_compute witnesses and by the harness *)
Fixpoint mp_eqb (a b : mp) {struct a} : bool :=
  match a, b with
  | MNil, MNil => true
  | MBool x, MBool y => Bool.eqb x y
  | MInt x, MInt y => Z.eqb x y
  | MFloat x, MFloat y => N.eqb x y
  | MStr x, MStr y => str_eqb x y
  | MBin x, MBin y => str_eqb x y
  | MTup x, MTup y =>
    (fix go (x y : list mp) : bool :=
       match x, y with
       | [], [] => true
       | u :: x', v :: y' => mp_eqb u v && go x' y'
       | _, _ => false
       end) x y
  | MList x, MList y =>
    (fix go (x y : list mp) : bool :=
       match x, y with
       | [], [] => true
       | u :: x', v :: y' => mp_eqb u v && go x' y'
       | _, _ => false
       end) x y
  | MMap x, MMap y =>
    (fix go (x y : list (mp * mp)) : bool :=
       match x, y with
       | [], [] => true
       | (k, u) :: x', (k', v) :: y' => mp_eqb k k' && mp_eqb u v && go x' y'
       | _, _ => false
       end) x y
  | _, _ => false
  end.
Definition omp_eqb (a b : option mp) : bool :=
  match a, b with
  | None, None => true
  | Some x, Some y => mp_eqb x y
  | _, _ => false
  end.
Fixpoint all2 {T} (f : T -> T -> bool) (a b : list T) : bool :=
  match a, b with
  | [], [] => true
  | x :: a', y :: b' => f x y && all2 f a' b'
  | _, _ => false
  end.
Definition exactb (ps : pstate) : bool :=
  all2 omp_eqb (live_view ps) (want ps) && match stale ps with [] => true | _ => false end
  && nodupb (ids (rows (sto ps))) && nodupb (live_sids (ents ps)).

(* ---------------------------------------------------------------- wire format of run *)
(* integers travel as sign + little-endian limbs of 32 bits (the OCaml driver reads native ints) *)
Definition limb : N := 4294967296.
Fixpoint limbs (fuel : nat) (n : N) : option (list sx) :=
  match n with
  | 0 => Some []
  | _ => match fuel with
         | O => None
         | S f => match limbs f (N.div n limb) with
                  | Some r => Some (A (N.modulo n limb) :: r)
                  | None => None
                  end
         end
  end.
Definition sx_n (sign : N) (n : N) : sx :=
  match limbs 16 n with Some l => L [A sign; L l] | None => sx_malformed end.
Definition sx_z (z : Z) : sx :=
  match z with
  | Z0 => sx_n 0 0
  | Zpos p => sx_n 0 (Npos p)
  | Zneg p => sx_n 1 (Npos p)
  end.
Definition unlimbs (l : list N) : N := fold_right (fun d acc => d + limb * acc) 0 l.
Definition un_z (x : sx) : option Z :=
  match x with
  | L [A 0; l] => option_map (fun d => Z.of_N (unlimbs d)) (un_list un_atom l)
  | L [A 1; l] => option_map (fun d => Z.opp (Z.of_N (unlimbs d))) (un_list un_atom l)
  | _ => None
  end.

Fixpoint sx_mp (v : mp) : sx :=
  match v with
  | MNil => L [A 0]
  | MBool b => L [A 1; sx_bool b]
  | MInt z => L [A 2; sx_z z]
  | MFloat t => L [A 3; A t]
  | MStr s => L [A 4; sx_str s]
  | MBin s => L [A 5; sx_str s]
  | MTup l => L [A 6; L (map sx_mp l)]
  | MList l => L [A 7; L (map sx_mp l)]
  | MMap kvs => L [A 8; L (map (fun kv => match kv with (k, x) => L [sx_mp k; sx_mp x] end) kvs)]
  end.

Fixpoint un_mp (x : sx) : option mp :=
  match x with
  | L [A 0] => Some MNil
  | L [A 1; b] => option_map MBool (un_bool b)
  | L [A 2; z] => option_map MInt (un_z z)
  | L [A 3; A t] => Some (MFloat t)
  | L [A 4; s] => option_map MStr (un_str s)
  | L [A 5; s] => option_map MBin (un_str s)
  | L [A 6; L l] =>
    option_map MTup
      ((fix go (l : list sx) : option (list mp) :=
          match l with
          | [] => Some []
          | y :: r => match un_mp y, go r with Some a, Some b => Some (a :: b) | _, _ => None end
          end) l)
  | L [A 7; L l] =>
    option_map MList
      ((fix go (l : list sx) : option (list mp) :=
          match l with
          | [] => Some []
          | y :: r => match un_mp y, go r with Some a, Some b => Some (a :: b) | _, _ => None end
          end) l)
  | L [A 8; L l] =>
    option_map MMap
      ((fix go (l : list sx) : option (list (mp * mp)) :=
          match l with
          | [] => Some []
          | L [k; v] :: r =>
            match un_mp k, un_mp v, go r with
            | Some a, Some b, Some c => Some ((a, b) :: c)
            | _, _, _ => None
            end
          | _ => None
          end) l)
  | _ => None
  end.

Definition otype_code (o : otype) : N := match o with ODir => 0 | OFile => 1 | OTrashed => 2 end.
Definition un_otype (x : sx) : option otype :=
  match x with A 0 => Some ODir | A 1 => Some OFile | A 2 => Some OTrashed | _ => None end.
Definition exi_code (e : exi) : N :=
  match e with XUnknown => 0 | XExists => 1 | XTrashed => 2 | XMissing => 3 | XLikely => 4 | XCorrupt => 5 end.
Definition un_exi (x : sx) : option exi :=
  match x with
  | A 0 => Some XUnknown | A 1 => Some XExists | A 2 => Some XTrashed
  | A 3 => Some XMissing | A 4 => Some XLikely | A 5 => Some XCorrupt | _ => None
  end.
Definition ign_code (i : ign) : N :=
  match i with INone => 0 | IDiscarded => 1 | IConflict => 2 | ITemp => 3 | IIrrelevant => 4 end.
Definition un_ign (x : sx) : option ign :=
  match x with
  | A 0 => Some INone | A 1 => Some IDiscarded | A 2 => Some IConflict
  | A 3 => Some ITemp | A 4 => Some IIrrelevant | _ => None
  end.

Definition sx_side (s : side) : sx :=
  L [ A (otype_code (s_otype s)); sx_mp (s_side s); sx_mp (s_hash s); sx_mp (s_changed s);
      sx_mp (s_sync_hash s); sx_mp (s_sync_path s); sx_mp (s_path s); sx_mp (s_oid s);
      A (exi_code (s_exists s)); sx_mp (s_temp_file s); sx_mp (s_size s); sx_mp (s_mtime s);
      sx_opt (fun x => A (exi_code x)) (s_saved s); sx_bool (s_force_sync s); sx_mp (s_last_gotten s) ].

Definition un_side (x : sx) : option side :=
  match x with
  | L [ot; sd; h; ch; sh; sp; p; oid; ex; tf; sz; mt; sv; fs; lg] =>
    ot <- un_otype ot ;; sd <- un_mp sd ;; h <- un_mp h ;; ch <- un_mp ch ;; sh <- un_mp sh ;;
    sp <- un_mp sp ;; p <- un_mp p ;; oid <- un_mp oid ;; ex <- un_exi ex ;; tf <- un_mp tf ;;
    sz <- un_mp sz ;; mt <- un_mp mt ;; sv <- un_opt un_exi sv ;; fs <- un_bool fs ;; lg <- un_mp lg ;;
    Some (mkSide ot sd h ch sh sp p oid ex tf sz mt sv fs lg)
  | _ => None
  end.

Definition sx_entry (e : entry) : sx :=
  L [ sx_side (e_s0 e); sx_side (e_s1 e); A (ign_code (e_ignored e)); sx_mp (e_priority e);
      sx_opt A (e_sid e) ].

Definition un_entry (x : sx) : option entry :=
  match x with
  | L [s0; s1; ig; pr; sid] =>
    s0 <- un_side s0 ;; s1 <- un_side s1 ;; ig <- un_ign ig ;; pr <- un_mp pr ;;
    sid <- un_opt un_atom sid ;;
    Some (mkEntry s0 s1 ig pr sid)
  | _ => None
  end.

Definition un_natl (x : sx) : option (list nat) :=
  option_map (map N.to_nat) (un_list un_atom x).

Definition un_hop (x : sx) : option hop :=
  match x with
  | L [A 0; e] => option_map HNew (un_entry e)
  | L [A 1; A n; e] => option_map (HSet (N.to_nat n)) (un_entry e)
  | L [A 2; A n; e] => option_map (HSilent (N.to_nat n)) (un_entry e)
  | L [A 3; ord] => option_map HCommit (un_natl ord)
  | L [A 4; A n] => Some (HFmax n)
  | L [A 5] => Some HLoad
  | _ => None
  end.

Definition un_row (x : sx) : option (N * mp) :=
  match x with
  | L [A i; w] => option_map (fun v => (i, v)) (un_mp w)
  | _ => None
  end.

Definition un_policy (x : sx) : option policy :=
  match x with A 0 => Some PSqlite | A 1 => Some PMock | _ => None end.

Definition err_code (e : cerr) : N := match e with ENone => 0 | ESer => 1 | EMissing => 2 end.

Definition sx_rows (r : list (N * mp)) : sx :=
  L (map (fun row => L [A (fst row); sx_mp (snd row)]) r).

Definition sx_pstate (ps : pstate) : sx :=
  L [ sx_rows (read_all (sto ps));
      L (map (fun e => sx_opt A (e_sid e)) (ents ps));
      L (map (fun n => A (N.of_nat n)) (dirty ps));
      sx_bool (exactb ps);
      A (ctr (sto ps)) ].

(* history with a snapshot after every step *)
Fixpoint exec_trace (clr : bool) (hs : list hop) (ps : pstate) : list sx :=
  match hs with
  | [] => []
  | h :: r =>
    let '(ps1, e) := step clr h ps in
    match h with
    | HCommit _ => L [A 3; A (err_code e); sx_pstate ps1] :: exec_trace clr r ps1
    | HLoad => L [A 5; sx_pstate ps1; L (map sx_entry (ents ps1))] :: exec_trace clr r ps1
    | _ => exec_trace clr r ps1
    end
  end.

(* lookups of a list of entries (the index a SyncState builds when it loads them) *)
Definition side_of (sd : bool) (e : entry) : side := if sd then e_s1 e else e_s0 e.
Definition lookup_oid (sd : bool) (oid : mp) (es : list entry) : list (option N) :=
  map e_sid (filter (fun e => mp_eqb (s_oid (side_of sd e)) oid) es).
Definition lookup_path (sd : bool) (p : mp) (es : list entry) : list (option N) :=
  map e_sid (filter (fun e => mp_eqb (s_path (side_of sd e)) p) es).
Definition pending_set (es : list entry) : list (option N) := map e_sid (filter pending es).
Definition live (es : list entry) : list entry := filter (fun e => negb (is_trash e)) es.

Definition run (x : sx) : sx :=
  match x with
  | L [A 0; A sid; e] =>
    (* codec round trip: entry -> serialize -> dumps -> loads -> deserialize *)
    match un_entry e with
    | Some e =>
      match pack (ser_entry e) with
      | None => L [A 0; A 1]
      | Some w =>
        match load_row sid w with
        | None => L [A 0; A 2; sx_mp w]
        | Some e' => L [A 1; sx_entry e'; sx_mp w; sx_bool (is_trash e'); sx_bool (pending e')]
        end
      end
    | None => sx_malformed
    end
  | L [A 1; A sid; w] =>
    (* a literal stored row loaded *)
    match un_mp w with
    | Some w =>
      match load_row sid w with
      | None => L [A 0]
      | Some e' => L [A 1; sx_entry e'; sx_bool (is_trash e'); sx_bool (pending e')]
      end
    | None => sx_malformed
    end
  | L [A 2; clr; pl; A fm; A c0; rows0; hs] =>
    (* a history over a store that starts with rows0 *)
    match un_bool clr, un_policy pl, un_list un_row rows0, un_list un_hop hs with
    | Some clr, Some pl, Some rows0, Some hs =>
      L (exec_trace clr hs (mkP [] [] (mkStore rows0 c0 fm pl)))
    | _, _, _, _ => sx_malformed
    end
  | _ => sx_malformed
  end.
